package main

// Helpers of rule group C (LAYOUT, BITFIELDS): a small symbolic evaluator of bit-packing
// expressions over the typed AST. Nothing is matched by source text: shift amounts and masks are
// obtained by go/constant evaluation (types.Info) or, when they are not constant, as canonical
// symbols (struct field objects, "the field packed at shift k").

import (
	"fmt"
	"go/ast"
	"go/constant"
	"go/token"
	"go/types"
	"math/bits"
	"sort"
	"strings"

	"golang.org/x/tools/go/packages"
)

// ---------------------------------------------------------------------------------------------
// keys

// cKeys hands out obligation keys `func#ordinal` (ordinal per function, in emission order).
type cKeys struct{ n map[string]int }

func cNewKeys() *cKeys { return &cKeys{n: map[string]int{}} }

func (k *cKeys) next(fn string) string {
	k.n[fn]++
	return fmt.Sprintf("%s#%d", fn, k.n[fn])
}

// ---------------------------------------------------------------------------------------------
// constants and types

func cConstU64(info *types.Info, e ast.Expr) (uint64, bool) {
	tv, ok := info.Types[e]
	if !ok || tv.Value == nil {
		return 0, false
	}
	v := constant.ToInt(tv.Value)
	if v.Kind() != constant.Int {
		return 0, false
	}
	if u, ok := constant.Uint64Val(v); ok {
		return u, true
	}
	if i, ok := constant.Int64Val(v); ok {
		return uint64(i), true
	}
	return 0, false
}

func cConstI64(info *types.Info, e ast.Expr) (int64, bool) {
	tv, ok := info.Types[e]
	if !ok || tv.Value == nil {
		return 0, false
	}
	v := constant.ToInt(tv.Value)
	if v.Kind() != constant.Int {
		return 0, false
	}
	return constant.Int64Val(v)
}

// cIntType returns the bit width and signedness of an integer type (false if not an integer).
func cIntType(t types.Type) (bitsN int, signed bool, ok bool) {
	if t == nil {
		return 0, false, false
	}
	b, isB := t.Underlying().(*types.Basic)
	if !isB || b.Info()&types.IsInteger == 0 {
		return 0, false, false
	}
	signed = b.Info()&types.IsUnsigned == 0
	switch b.Kind() {
	case types.Int8, types.Uint8:
		return 8, signed, true
	case types.Int16, types.Uint16:
		return 16, signed, true
	case types.Int32, types.Uint32:
		return 32, signed, true
	case types.UntypedInt, types.UntypedRune:
		return 64, true, true
	}
	return 64, signed, true // int, uint, int64, uint64, uintptr on the 64-bit build analysed
}

// cStripConv removes parentheses and integer conversions.
func cStripConv(info *types.Info, e ast.Expr) ast.Expr {
	for {
		e = ast.Unparen(e)
		call, ok := e.(*ast.CallExpr)
		if !ok || len(call.Args) != 1 {
			return e
		}
		tv, ok := info.Types[call.Fun]
		if !ok || !tv.IsType() {
			return e
		}
		if _, _, isInt := cIntType(tv.Type); !isInt {
			return e
		}
		e = call.Args[0]
	}
}

// cKey is a stable key of an assignable expression (identifier, field selection), "" otherwise.
func cKey(info *types.Info, e ast.Expr) string {
	switch x := ast.Unparen(e).(type) {
	case *ast.Ident:
		if x.Name == "_" {
			return ""
		}
		if obj := info.ObjectOf(x); obj != nil {
			return fmt.Sprintf("%s@%d", x.Name, obj.Pos())
		}
	case *ast.SelectorExpr:
		if k := cKey(info, x.X); k != "" {
			return k + "." + x.Sel.Name
		}
	case *ast.StarExpr:
		if k := cKey(info, x.X); k != "" {
			return "*" + k
		}
	}
	return ""
}

// cFieldObj resolves a selector expression to the struct field it selects.
func cFieldObj(info *types.Info, e ast.Expr) *types.Var {
	sel, ok := ast.Unparen(e).(*ast.SelectorExpr)
	if !ok {
		return nil
	}
	if s := info.Selections[sel]; s != nil && s.Kind() == types.FieldVal {
		if v, ok := s.Obj().(*types.Var); ok {
			return v
		}
	}
	return nil
}

// ---------------------------------------------------------------------------------------------
// amounts, operations, chains

// cAmt is a shift amount or mask width: a constant, or a canonical symbol.
type cAmt struct {
	k   int64
	sym string       // "" for a constant
	obj types.Object // the variable behind sym when it is a plain variable
}

func cK(k int64) cAmt { return cAmt{k: k} }

func (a cAmt) isConst() bool { return a.sym == "" }
func (a cAmt) eq(b cAmt) bool {
	if a.isConst() != b.isConst() {
		return false
	}
	if a.isConst() {
		return a.k == b.k
	}
	return a.sym == b.sym
}
func (a cAmt) String() string {
	if a.isConst() {
		return fmt.Sprint(a.k)
	}
	return a.sym
}

type cOp struct {
	kind   string // "shl", "shr", "and", "conv"
	amt    cAmt   // shl/shr: amount; and: width w of a low mask (1<<w)-1
	mask   uint64 // and: the constant mask, when constant
	low    bool   // and: the mask is (1<<w)-1
	bitsN  int    // conv: target width
	signed bool   // conv: target signedness
}

func (o cOp) String() string {
	switch o.kind {
	case "and":
		if o.low {
			return "&mask(" + o.amt.String() + ")"
		}
		return fmt.Sprintf("&%#x", o.mask)
	case "conv":
		s := "u"
		if o.signed {
			s = "i"
		}
		return fmt.Sprintf("%s%d()", s, o.bitsN)
	}
	return o.kind + " " + o.amt.String()
}

// cChain is `ops(leaf)`: a leaf operand (or a constant) with shifts, masks and conversions applied
// innermost first.
type cChain struct {
	leaf    ast.Expr
	isConst bool
	cval    uint64
	ops     []cOp
	bad     string   // why the chain cannot be modelled
	loop    ast.Node // innermost loop in which the chain was OR-ed into an outer accumulator / read
	accKey  string   // encoder: key of that accumulator
	pos     token.Pos
	dest    ast.Expr // decoder: left-hand side receiving the extracted value, if any
	expr    ast.Expr // the expression the chain was evaluated from
}

func (ch cChain) clone() cChain {
	ch.ops = append([]cOp(nil), ch.ops...)
	return ch
}

// shape returns the non-conversion operations with adjacent equal-direction constant shifts merged.
func (ch cChain) shape() []cOp {
	var out []cOp
	for _, o := range ch.ops {
		if o.kind == "conv" {
			continue
		}
		if n := len(out); n > 0 && (o.kind == "shl" || o.kind == "shr") && out[n-1].kind == o.kind && out[n-1].amt.isConst() && o.amt.isConst() {
			out[n-1].amt.k += o.amt.k
			continue
		}
		out = append(out, o)
	}
	return out
}

func cShapeString(ops []cOp) string {
	var s []string
	for _, o := range ops {
		s = append(s, o.String())
	}
	return "[" + strings.Join(s, ", ") + "]"
}

// ---------------------------------------------------------------------------------------------
// evaluator

type cEval struct {
	c     *Ctx
	info  *types.Info
	env   map[string][]cChain
	multi map[string]bool // variables with several plain assignments: never substituted
}

func cNewEval(c *Ctx, info *types.Info) *cEval {
	return &cEval{c: c, info: info, env: map[string][]cChain{}, multi: map[string]bool{}}
}

func cCloneChains(in []cChain) []cChain {
	out := make([]cChain, len(in))
	for i := range in {
		out[i] = in[i].clone()
	}
	return out
}

func (ev *cEval) apply(chains []cChain, op cOp) []cChain {
	var out []cChain
	for _, ch := range chains {
		ch = ch.clone()
		if ch.isConst {
			switch {
			case op.kind == "conv":
				if op.bitsN < 64 {
					ch.cval &= (uint64(1) << uint(op.bitsN)) - 1
				}
			case op.kind == "shl" && op.amt.isConst():
				ch.cval <<= uint(op.amt.k)
			case op.kind == "shr" && op.amt.isConst():
				ch.cval >>= uint(op.amt.k)
			case op.kind == "and" && (op.low && op.amt.isConst() || !op.low):
				if op.low {
					ch.cval &= cLowMask(op.amt.k)
				} else {
					ch.cval &= op.mask
				}
			case ch.cval == 0:
				// 0 stays 0 under any shift or mask
			default:
				ch.bad = "constant under a symbolic " + op.kind
			}
			out = append(out, ch)
			continue
		}
		ch.ops = append(ch.ops, op)
		out = append(out, ch)
	}
	return out
}

func cLowMask(w int64) uint64 {
	if w >= 64 {
		return ^uint64(0)
	}
	if w <= 0 {
		return 0
	}
	return (uint64(1) << uint(w)) - 1
}

// amount canonicalises a shift amount / width expression.
func (ev *cEval) amount(e ast.Expr) (cAmt, bool) {
	if v, ok := cConstI64(ev.info, e); ok {
		return cK(v), true
	}
	e = cStripConv(ev.info, e)
	if f := cFieldObj(ev.info, e); f != nil {
		owner := "?"
		if sel, ok := e.(*ast.SelectorExpr); ok {
			if s := ev.info.Selections[sel]; s != nil {
				if n := namedOf(s.Recv()); n != nil {
					owner = n.Obj().Name()
					if n.Obj().Pkg() != nil {
						owner = n.Obj().Pkg().Path() + "." + owner
					}
				}
			}
		}
		return cAmt{sym: "field " + owner + "." + f.Name(), obj: f}, true
	}
	if id, ok := e.(*ast.Ident); ok {
		key := cKey(ev.info, id)
		if chains, ok := ev.env[key]; ok && !ev.multi[key] && len(chains) == 1 && chains[0].isConst && chains[0].bad == "" {
			return cK(int64(chains[0].cval)), true
		}
		if chains, ok := ev.env[key]; ok && !ev.multi[key] && len(chains) == 1 && !chains[0].isConst && chains[0].bad == "" {
			sh := chains[0].shape()
			switch {
			case len(sh) == 0:
				return ev.amount(chains[0].leaf)
			case len(sh) == 1 && sh[0].kind == "shr" && sh[0].amt.isConst():
				return cAmt{sym: fmt.Sprintf("value of the field at shift %d", sh[0].amt.k)}, true
			}
		}
		if obj := ev.info.ObjectOf(id); obj != nil {
			return cAmt{sym: "variable " + id.Name, obj: obj}, true
		}
	}
	return cAmt{}, false
}

// maskOf recognises a mask operand: a constant, or (1<<w)-1 with a symbolic w.
func (ev *cEval) maskOf(e ast.Expr) (cOp, bool) {
	if m, ok := cConstU64(ev.info, e); ok {
		op := cOp{kind: "and", mask: m}
		if m != 0 && m&(m+1) == 0 {
			op.low, op.amt = true, cK(int64(bits.Len64(m)))
		}
		return op, true
	}
	core := cStripConv(ev.info, e)
	if id, isID := core.(*ast.Ident); isID {
		// a local defined once as `(1<<w)-1`
		key := cKey(ev.info, id)
		if chains, ok := ev.env[key]; ok && !ev.multi[key] && len(chains) == 1 && !chains[0].isConst && len(chains[0].shape()) == 0 && chains[0].leaf != nil {
			if _, again := cStripConv(ev.info, chains[0].leaf).(*ast.Ident); !again {
				return ev.maskOf(chains[0].leaf)
			}
		}
		return cOp{}, false
	}
	sub, ok := core.(*ast.BinaryExpr)
	if !ok || sub.Op != token.SUB {
		return cOp{}, false
	}
	if one, ok := cConstU64(ev.info, sub.Y); !ok || one != 1 {
		return cOp{}, false
	}
	shl, ok := cStripConv(ev.info, sub.X).(*ast.BinaryExpr)
	if !ok || shl.Op != token.SHL {
		return cOp{}, false
	}
	if one, ok := cConstU64(ev.info, shl.X); !ok || one != 1 {
		return cOp{}, false
	}
	w, ok := ev.amount(shl.Y)
	if !ok {
		return cOp{}, false
	}
	return cOp{kind: "and", low: true, amt: w}, true
}

// eval turns an expression into the OR of chains.
func (ev *cEval) eval(e ast.Expr) []cChain {
	e = ast.Unparen(e)
	if v, ok := cConstU64(ev.info, e); ok {
		return []cChain{{isConst: true, cval: v, pos: e.Pos(), expr: e}}
	}
	switch x := e.(type) {
	case *ast.BinaryExpr:
		switch x.Op {
		case token.OR:
			return append(ev.eval(x.X), ev.eval(x.Y)...)
		case token.SHL, token.SHR:
			if amt, ok := ev.amount(x.Y); ok {
				kind := "shl"
				if x.Op == token.SHR {
					kind = "shr"
				}
				return ev.apply(ev.eval(x.X), cOp{kind: kind, amt: amt})
			}
		case token.AND:
			if m, ok := ev.maskOf(x.Y); ok {
				return ev.apply(ev.eval(x.X), m)
			}
			if m, ok := ev.maskOf(x.X); ok {
				return ev.apply(ev.eval(x.Y), m)
			}
			// `a & b` with a mask the rule cannot evaluate: if a is (derived from) a shifted
			// operand keep the chain, marked, so that the caller reports it instead of missing it
			if chains := ev.eval(x.X); len(chains) == 1 && !chains[0].isConst {
				ch := chains[0].clone()
				ch.ops = append(ch.ops, cOp{kind: "and"})
				ch.bad = "mask " + types.ExprString(x.Y) + " is neither a constant nor (1<<w)-1"
				return []cChain{ch}
			}
		}
	case *ast.CallExpr:
		if len(x.Args) == 1 {
			if tv, ok := ev.info.Types[x.Fun]; ok && tv.IsType() {
				if n, s, isInt := cIntType(tv.Type); isInt {
					if _, _, argInt := cIntType(ev.info.TypeOf(x.Args[0])); argInt {
						return ev.apply(ev.eval(x.Args[0]), cOp{kind: "conv", bitsN: n, signed: s})
					}
				}
			}
		}
	}
	if key := cKey(ev.info, e); key != "" && !ev.multi[key] {
		if chains, ok := ev.env[key]; ok {
			return cCloneChains(chains)
		}
	}
	return []cChain{{leaf: e, pos: e.Pos(), expr: e}}
}

// ---------------------------------------------------------------------------------------------
// sequential walk of a function body

type cSink struct {
	chains []cChain
	pos    token.Pos
	what   string
	typ    types.Type
}

type cWalker struct {
	ev       *cEval
	decoder  bool
	loops    []ast.Node
	strides  map[ast.Node]map[string]cAmt // loop -> accumulator/source key -> total shift inside the loop
	badLoop  map[ast.Node]string
	sinks    []cSink  // encoder: packed values leaving the function
	extracts []cChain // decoder: extraction expressions
	declPos  map[string]token.Pos
}

// cWalkFunc evaluates a function body in source order (branches one after the other; every
// variable that is plainly assigned at several places is opaque).
func cWalkFunc(c *Ctx, p *packages.Package, fd *ast.FuncDecl, decoder bool) *cWalker {
	ev := cNewEval(c, p.TypesInfo)
	w := &cWalker{ev: ev, decoder: decoder, strides: map[ast.Node]map[string]cAmt{}, badLoop: map[ast.Node]string{}}
	// pre-pass: count plain assignments per key
	count := map[string]int{}
	inspectShallow(fd.Body, func(n ast.Node) bool {
		switch s := n.(type) {
		case *ast.AssignStmt:
			if s.Tok == token.ASSIGN || s.Tok == token.DEFINE {
				for _, l := range s.Lhs {
					if k := cKey(ev.info, l); k != "" {
						count[k]++
					}
				}
			}
		case *ast.ValueSpec:
			for i, nm := range s.Names {
				if i < len(s.Values) {
					if k := cKey(ev.info, nm); k != "" {
						count[k]++
					}
				}
			}
		case *ast.IncDecStmt:
			if k := cKey(ev.info, s.X); k != "" {
				count[k] += 2
			}
		case *ast.UnaryExpr:
			if s.Op == token.AND {
				if k := cKey(ev.info, s.X); k != "" {
					count[k] += 2 // address taken: opaque
				}
			}
		}
		return true
	})
	for k, n := range count {
		if n > 1 {
			ev.multi[k] = true
		}
	}
	w.stmt(fd.Body)
	return w
}

func (w *cWalker) curLoop() ast.Node {
	if len(w.loops) == 0 {
		return nil
	}
	return w.loops[len(w.loops)-1]
}

// outerTo reports whether the variable behind e was declared before the current innermost loop.
func (w *cWalker) outerTo(e ast.Expr, loop ast.Node) bool {
	if loop == nil {
		return false
	}
	root := e
	for {
		switch x := ast.Unparen(root).(type) {
		case *ast.SelectorExpr:
			root = x.X
			continue
		case *ast.StarExpr:
			root = x.X
			continue
		}
		break
	}
	id, ok := ast.Unparen(root).(*ast.Ident)
	if !ok {
		return false
	}
	obj := w.ev.info.ObjectOf(id)
	return obj != nil && (obj.Pos() < loop.Pos() || obj.Pos() > loop.End())
}

func (w *cWalker) stmt(s ast.Stmt) {
	if s == nil {
		return
	}
	switch x := s.(type) {
	case *ast.BlockStmt:
		for _, t := range x.List {
			w.stmt(t)
		}
	case *ast.LabeledStmt:
		w.stmt(x.Stmt)
	case *ast.IfStmt:
		w.stmt(x.Init)
		w.exprs(nil, x.Cond)
		w.stmt(x.Body)
		w.stmt(x.Else)
	case *ast.ForStmt:
		w.stmt(x.Init)
		w.loops = append(w.loops, x)
		w.exprs(nil, x.Cond)
		w.stmt(x.Body)
		w.stmt(x.Post)
		w.loops = w.loops[:len(w.loops)-1]
	case *ast.RangeStmt:
		w.exprs(nil, x.X)
		w.loops = append(w.loops, x)
		w.stmt(x.Body)
		w.loops = w.loops[:len(w.loops)-1]
	case *ast.SwitchStmt:
		w.stmt(x.Init)
		w.exprs(nil, x.Tag)
		for _, cc := range x.Body.List {
			if cl, ok := cc.(*ast.CaseClause); ok {
				w.exprs(nil, cl.List...)
				for _, t := range cl.Body {
					w.stmt(t)
				}
			}
		}
	case *ast.TypeSwitchStmt:
		w.stmt(x.Init)
		for _, cc := range x.Body.List {
			if cl, ok := cc.(*ast.CaseClause); ok {
				for _, t := range cl.Body {
					w.stmt(t)
				}
			}
		}
	case *ast.DeclStmt:
		if gd, ok := x.Decl.(*ast.GenDecl); ok && gd.Tok == token.VAR {
			for _, sp := range gd.Specs {
				vs := sp.(*ast.ValueSpec)
				for i, nm := range vs.Names {
					if i < len(vs.Values) && len(vs.Values) == len(vs.Names) {
						w.exprs(nm, vs.Values[i])
						w.define(nm, vs.Values[i])
					}
				}
			}
		}
	case *ast.AssignStmt:
		w.assign(x)
	case *ast.ReturnStmt:
		w.exprs(nil, x.Results...)
		if !w.decoder {
			for _, r := range x.Results {
				w.sinkExpr(r, "returned value")
			}
		}
	case *ast.ExprStmt:
		w.exprs(nil, x.X)
	}
}

// sinkExpr records an integer value leaving an encoder (descending into composite literals).
func (w *cWalker) sinkExpr(e ast.Expr, what string) {
	e = ast.Unparen(e)
	switch x := e.(type) {
	case *ast.CompositeLit:
		for _, el := range x.Elts {
			if kv, ok := el.(*ast.KeyValueExpr); ok {
				w.sinkExpr(kv.Value, what)
			} else {
				w.sinkExpr(el, what)
			}
		}
		return
	case *ast.UnaryExpr:
		if x.Op == token.AND {
			w.sinkExpr(x.X, what)
			return
		}
	}
	t := w.ev.info.TypeOf(e)
	if _, _, ok := cIntType(t); !ok {
		return
	}
	w.sinks = append(w.sinks, cSink{chains: w.ev.eval(e), pos: e.Pos(), what: what, typ: t})
}

func (w *cWalker) define(lhs, rhs ast.Expr) {
	key := cKey(w.ev.info, lhs)
	if key == "" {
		return
	}
	if _, _, ok := cIntType(w.ev.info.TypeOf(rhs)); !ok {
		return
	}
	w.ev.env[key] = w.ev.eval(rhs)
}

func (w *cWalker) current(lhs ast.Expr, key string) []cChain {
	if ch, ok := w.ev.env[key]; ok && !w.ev.multi[key] {
		return cCloneChains(ch)
	}
	return []cChain{{leaf: lhs, pos: lhs.Pos(), expr: lhs}}
}

func (w *cWalker) assign(s *ast.AssignStmt) {
	if len(s.Lhs) == len(s.Rhs) {
		for i := range s.Rhs {
			w.exprs(s.Lhs[i], s.Rhs[i])
		}
	} else {
		w.exprs(nil, s.Rhs...)
	}
	switch s.Tok {
	case token.DEFINE, token.ASSIGN:
		if len(s.Lhs) == len(s.Rhs) {
			for i := range s.Rhs {
				w.define(s.Lhs[i], s.Rhs[i])
			}
		}
		return
	}
	if len(s.Lhs) != 1 || len(s.Rhs) != 1 {
		return
	}
	lhs, rhs := s.Lhs[0], s.Rhs[0]
	key := cKey(w.ev.info, lhs)
	if key == "" {
		return
	}
	if _, _, ok := cIntType(w.ev.info.TypeOf(lhs)); !ok {
		return
	}
	loop := w.curLoop()
	outer := w.outerTo(lhs, loop)
	switch s.Tok {
	case token.OR_ASSIGN:
		add := w.ev.eval(rhs)
		if outer {
			for i := range add {
				add[i].loop, add[i].accKey = loop, key
			}
		}
		w.ev.env[key] = append(w.current(lhs, key), add...)
	case token.SHL_ASSIGN, token.SHR_ASSIGN:
		kind := "shl"
		if s.Tok == token.SHR_ASSIGN {
			kind = "shr"
		}
		amt, ok := w.ev.amount(rhs)
		if !ok {
			w.ev.multi[key] = true
			return
		}
		w.ev.env[key] = w.ev.apply(w.current(lhs, key), cOp{kind: kind, amt: amt})
		if outer {
			m := w.strides[loop]
			if m == nil {
				m = map[string]cAmt{}
				w.strides[loop] = m
			}
			prev, seen := m[key]
			switch {
			case !amt.isConst() || (seen && !prev.isConst()):
				w.badLoop[loop] = "symbolic shift inside a loop"
			case seen:
				m[key] = cK(prev.k + amt.k)
			default:
				m[key] = amt
			}
		}
	case token.AND_ASSIGN:
		if m, ok := w.ev.maskOf(rhs); ok {
			w.ev.env[key] = w.ev.apply(w.current(lhs, key), m)
		} else {
			w.ev.multi[key] = true
		}
	default:
		w.ev.multi[key] = true // arithmetic update: opaque from here on
	}
}

// exprs visits the expressions of one statement: PutUvarint arguments are encoder sinks, maximal
// shift/mask expressions are decoder extractions.
func (w *cWalker) exprs(dest ast.Expr, es ...ast.Expr) {
	for _, e := range es {
		if e == nil {
			continue
		}
		if !w.decoder {
			inspectShallow(e, func(n ast.Node) bool {
				if call, ok := n.(*ast.CallExpr); ok {
					if f := calleeFunc(w.ev.info, call); f != nil && f.Pkg() != nil && f.Pkg().Path() == "encoding/binary" && f.Name() == "PutUvarint" && len(call.Args) == 2 {
						a := call.Args[1]
						w.sinks = append(w.sinks, cSink{chains: w.ev.eval(a), pos: a.Pos(), what: "argument of binary.PutUvarint", typ: w.ev.info.TypeOf(a)})
					}
				}
				return true
			})
			continue
		}
		inspectShallow(e, func(n ast.Node) bool {
			x, ok := n.(ast.Expr)
			if !ok {
				return true
			}
			core := cStripConv(w.ev.info, x)
			be, ok := core.(*ast.BinaryExpr)
			if !ok || (be.Op != token.AND && be.Op != token.SHR && be.Op != token.SHL) {
				return true
			}
			if _, isConst := cConstU64(w.ev.info, x); isConst {
				return false
			}
			chains := w.ev.eval(x)
			if len(chains) != 1 || chains[0].isConst {
				return true
			}
			ch := chains[0]
			has := false
			for _, o := range ch.shape() {
				if o.kind == "shr" || o.kind == "and" {
					has = true
				}
			}
			if !has {
				return true
			}
			ch.pos, ch.expr, ch.loop = x.Pos(), x, w.curLoop()
			ch.dest = dest // left-hand side of the statement the extraction occurs in
			w.extracts = append(w.extracts, ch)
			return false
		})
	}
}

// ---------------------------------------------------------------------------------------------
// fields (encoder side) and extracts (decoder side)

type cField struct {
	leaf     ast.Expr
	text     string
	obj      types.Object // the variable, when the leaf is a plain identifier
	fieldVar *types.Var   // the struct field, when the leaf is a field selection
	leafType types.Type
	shift    cAmt
	eff      int  // low bits that can be non-zero by the types alone (64: unbounded)
	claimed  bool // eff comes from a narrowing conversion or mask written in the encoder (not just the operand's type)
	smear    bool // a sized signed integer is sign-extended into the packed word
	postW    int  // narrowest conversion applied after the shift (container), 64 if none
	repeated bool
	stride   cAmt
	pos      token.Pos
	bad      string
	slot     int // bits available before the next field (-1: not computable)
	top      bool
}

func (w *cWalker) strideOf(loop ast.Node, key string) (cAmt, bool) {
	if loop == nil {
		return cAmt{}, false
	}
	a, ok := w.strides[loop][key]
	return a, ok
}

// cFieldOf interprets an encoder chain as `leaf << shift`.
func cFieldOf(w *cWalker, ch cChain) cField {
	info := w.ev.info
	f := cField{leaf: ch.leaf, pos: ch.pos, postW: 64, eff: 64, slot: -1, bad: ch.bad}
	if ch.leaf == nil {
		f.bad = "constant"
		return f
	}
	f.text = types.ExprString(ch.leaf)
	f.leafType = info.TypeOf(ch.leaf)
	if id, ok := ast.Unparen(ch.leaf).(*ast.Ident); ok {
		f.obj = info.ObjectOf(id)
	}
	f.fieldVar = cFieldObj(info, ch.leaf)
	width, signed, ok := cIntType(f.leafType)
	if !ok {
		f.bad = "operand is not an integer"
		return f
	}
	eff := width
	shifted := false
	for _, o := range ch.ops {
		switch o.kind {
		case "conv":
			if shifted {
				if o.bitsN < f.postW {
					f.postW = o.bitsN
				}
				continue
			}
			switch {
			case o.bitsN < width:
				if eff > o.bitsN {
					eff = o.bitsN
					f.claimed = true
				}
			case o.bitsN > width && signed:
				eff = o.bitsN
				f.smear = true
			}
			width, signed = o.bitsN, o.signed
		case "shl":
			shifted = true
			switch {
			case f.shift.isConst() && f.shift.k == 0:
				f.shift = o.amt
			case f.shift.isConst() && o.amt.isConst():
				f.shift.k += o.amt.k
			default:
				f.bad = "several symbolic shifts"
			}
		case "and":
			if !shifted && o.low && o.amt.isConst() && int(o.amt.k) < eff {
				eff = int(o.amt.k)
				f.claimed = true
			} else if shifted {
				f.bad = "mask applied after the shift"
			}
		default:
			f.bad = "operand is shifted right inside the packed word"
		}
	}
	f.eff = eff
	if ch.loop != nil {
		if why := w.badLoop[ch.loop]; why != "" {
			f.bad = why
		}
		if st, ok := w.strideOf(ch.loop, ch.accKey); ok {
			f.repeated, f.stride = true, st
		}
	}
	return f
}

// cPack is the model of one encoder: its fields, highest first.
type cPack struct {
	fields []cField
	W      int
	pos    token.Pos
	what   string
	consts []cChain // non-zero constant bits OR-ed in
}

// cPackOf builds the pack of a sink, computing slot widths.
func cPackOf(w *cWalker, s cSink) cPack {
	pk := cPack{W: 64, pos: s.pos, what: s.what}
	if n, _, ok := cIntType(s.typ); ok {
		pk.W = n
	}
	for _, ch := range s.chains {
		if ch.isConst {
			if ch.cval != 0 || ch.bad != "" {
				pk.consts = append(pk.consts, ch)
			}
			continue
		}
		f := cFieldOf(w, ch)
		if f.postW < pk.W {
			pk.W = f.postW
		}
		pk.fields = append(pk.fields, f)
	}
	// a symbolic amount that is the value of a packed field is named after that field's shift
	for i := range pk.fields {
		a := &pk.fields[i].shift
		if a.isConst() || a.obj == nil {
			continue
		}
		for _, g := range pk.fields {
			if g.obj != nil && g.obj == a.obj && g.shift.isConst() {
				a.sym = fmt.Sprintf("value of the field at shift %d", g.shift.k)
			}
		}
	}
	// order: constant shifts descending, symbolic shifts between 0 and the positive constants
	rank := func(f cField) int64 {
		if f.shift.isConst() {
			if f.shift.k == 0 {
				return 0
			}
			return f.shift.k + 1
		}
		return 1
	}
	sort.SliceStable(pk.fields, func(i, j int) bool { return rank(pk.fields[i]) > rank(pk.fields[j]) })
	for i := range pk.fields {
		f := &pk.fields[i]
		switch {
		case f.repeated:
			f.top = i == 0
			if f.stride.isConst() {
				f.slot = int(f.stride.k)
			}
		case i == 0:
			f.top = true
			if f.shift.isConst() {
				f.slot = pk.W - int(f.shift.k)
			}
		default:
			up := pk.fields[i-1]
			if f.shift.isConst() && up.shift.isConst() {
				f.slot = int(up.shift.k - f.shift.k)
			}
		}
	}
	return pk
}

// slotAmt is the slot width as an amount (symbolic when the next field sits at a symbolic shift).
func (pk cPack) slotAmt(i int) (cAmt, bool) {
	f := pk.fields[i]
	if f.slot >= 0 {
		return cK(int64(f.slot)), true
	}
	if i > 0 && f.shift.isConst() && f.shift.k == 0 && !pk.fields[i-1].shift.isConst() {
		return pk.fields[i-1].shift, true
	}
	return cAmt{}, false
}

func (pk cPack) describe() string {
	var s []string
	for _, f := range pk.fields {
		d := fmt.Sprintf("%s@%s", f.text, f.shift)
		if f.repeated {
			d += fmt.Sprintf(" (repeated every %s bits)", f.stride)
		}
		s = append(s, d)
	}
	return strings.Join(s, ", ")
}

type cExtract struct {
	leaf     ast.Expr
	leafKey  string
	shift    cAmt
	width    cAmt // bits read (constant or symbolic)
	hasMask  bool
	shlAfter *cAmt // a left shift applied after the extraction (LAYOUT only)
	repeated bool
	stride   cAmt
	pos      token.Pos
	dest     ast.Expr
	expr     ast.Expr
	text     string
	bad      string
}

// cExtractOf interprets a decoder chain as `(leaf >> shift) & mask`.
func cExtractOf(w *cWalker, ch cChain) cExtract {
	info := w.ev.info
	x := cExtract{leaf: ch.leaf, pos: ch.pos, dest: ch.dest, expr: ch.expr, bad: ch.bad}
	if ch.expr != nil {
		x.text = types.ExprString(ch.expr)
	}
	x.leafKey = cKey(info, ch.leaf)
	if x.leafKey == "" {
		x.leafKey = types.ExprString(ch.leaf)
	}
	width, signed, ok := cIntType(info.TypeOf(ch.leaf))
	if !ok {
		x.bad = "source is not an integer"
		return x
	}
	stage := 0 // 0 before shr, 1 after shr, 2 after mask, 3 after trailing shl
	cur := cK(int64(width))
	trunc := 64
	for _, o := range ch.ops {
		switch o.kind {
		case "conv":
			if stage == 0 {
				if o.bitsN < width {
					width = o.bitsN
				} else if o.bitsN > width && signed {
					x.bad = "signed source is sign-extended before extraction"
				}
				signed = o.signed
				cur = cK(int64(width))
			} else if o.bitsN < trunc {
				trunc = o.bitsN
			}
		case "shr":
			if stage > 1 {
				x.bad = "shift after mask"
				break
			}
			if signed {
				x.bad = "arithmetic shift of a signed source"
			}
			stage = 1
			switch {
			case x.shift.isConst() && x.shift.k == 0:
				x.shift = o.amt
			case x.shift.isConst() && o.amt.isConst():
				x.shift.k += o.amt.k
			default:
				x.bad = "several symbolic shifts"
			}
		case "and":
			if stage >= 2 {
				x.bad = "several masks"
				break
			}
			stage = 2
			if !o.low {
				if x.bad == "" {
					x.bad = fmt.Sprintf("mask %#x is not of the form (1<<w)-1", o.mask)
				}
				break
			}
			x.hasMask, x.width = true, o.amt
		case "shl":
			if stage == 0 || stage == 3 {
				x.bad = "left shift inside an extraction"
				break
			}
			stage = 3
			a := o.amt
			x.shlAfter = &a
		}
	}
	if !x.hasMask {
		if x.shift.isConst() {
			x.width = cK(cur.k - x.shift.k)
		} else {
			x.width = cAmt{sym: "all bits above " + x.shift.sym}
		}
	}
	if x.width.isConst() && int64(trunc) < x.width.k {
		x.width = cK(int64(trunc))
	}
	if ch.loop != nil {
		if why := w.badLoop[ch.loop]; why != "" {
			x.bad = why
		}
		if st, ok := w.strideOf(ch.loop, x.leafKey); ok {
			x.repeated, x.stride = true, st
		}
	}
	return x
}

// ---------------------------------------------------------------------------------------------
// decision trees (`if v&m == k { return … } else if …`)

type cTest struct {
	mask, val uint64
	eq        bool
}

type cDecision struct {
	tests []cTest
	ret   ast.Expr
	pos   token.Pos
}

// cDecisions enumerates the root-to-return paths of a body made only of if/else chains on masks of
// the parameter `param` and return statements.
func cDecisions(info *types.Info, body *ast.BlockStmt, param types.Object) ([]cDecision, error) {
	var out []cDecision
	var walk func(list []ast.Stmt, pre []cTest) (bool, error)
	parse := func(cond ast.Expr) (cTest, error) {
		be, ok := ast.Unparen(cond).(*ast.BinaryExpr)
		if !ok || (be.Op != token.EQL && be.Op != token.NEQ) {
			return cTest{}, fmt.Errorf("condition %s is not a ==/!= test", types.ExprString(cond))
		}
		side := func(a, b ast.Expr) (cTest, bool) {
			v, ok := cConstU64(info, b)
			if !ok {
				return cTest{}, false
			}
			and, ok := cStripConv(info, a).(*ast.BinaryExpr)
			if !ok || and.Op != token.AND {
				return cTest{}, false
			}
			for _, pr := range [][2]ast.Expr{{and.X, and.Y}, {and.Y, and.X}} {
				id, isID := cStripConv(info, pr[0]).(*ast.Ident)
				m, isC := cConstU64(info, pr[1])
				if isID && isC && info.ObjectOf(id) == param {
					return cTest{mask: m, val: v, eq: be.Op == token.EQL}, true
				}
			}
			return cTest{}, false
		}
		if t, ok := side(be.X, be.Y); ok {
			return t, nil
		}
		if t, ok := side(be.Y, be.X); ok {
			return t, nil
		}
		return cTest{}, fmt.Errorf("condition %s does not test a constant mask of the argument", types.ExprString(cond))
	}
	var ifs func(s *ast.IfStmt, pre []cTest) ([]cTest, bool, error)
	// ifs returns the tests that hold after the statement when it can fall through.
	ifs = func(s *ast.IfStmt, pre []cTest) ([]cTest, bool, error) {
		if s.Init != nil {
			return nil, false, fmt.Errorf("if with an init statement")
		}
		t, err := parse(s.Cond)
		if err != nil {
			return nil, false, err
		}
		yes := append(append([]cTest(nil), pre...), t)
		no := append(append([]cTest(nil), pre...), cTest{t.mask, t.val, !t.eq})
		thenFalls, err := walk(s.Body.List, yes)
		if err != nil {
			return nil, false, err
		}
		if thenFalls {
			return nil, false, fmt.Errorf("a branch falls through without returning")
		}
		switch e := s.Else.(type) {
		case nil:
			return no, true, nil
		case *ast.BlockStmt:
			falls, err := walk(e.List, no)
			if err != nil {
				return nil, false, err
			}
			if falls {
				return nil, false, fmt.Errorf("a branch falls through without returning")
			}
			return nil, false, nil
		case *ast.IfStmt:
			return ifs(e, no)
		}
		return nil, false, fmt.Errorf("unexpected else")
	}
	walk = func(list []ast.Stmt, pre []cTest) (bool, error) {
		for _, s := range list {
			switch x := s.(type) {
			case *ast.ReturnStmt:
				if len(x.Results) != 1 {
					return false, fmt.Errorf("return with %d results", len(x.Results))
				}
				out = append(out, cDecision{tests: pre, ret: x.Results[0], pos: x.Pos()})
				return false, nil
			case *ast.IfStmt:
				after, falls, err := ifs(x, pre)
				if err != nil {
					return false, err
				}
				if !falls {
					return false, nil
				}
				pre = after
			default:
				return false, fmt.Errorf("unexpected statement %T", s)
			}
		}
		return true, nil
	}
	falls, err := walk(body.List, nil)
	if err != nil {
		return nil, err
	}
	if falls {
		return nil, fmt.Errorf("the function can fall off its end")
	}
	return out, nil
}

// cDecide follows the tree for the low bits `code` of width `width`: it returns the unique path
// whose tests hold, and fails if a test on that path looks at bits outside the code.
func cDecide(ds []cDecision, code uint64, width int) (*cDecision, error) {
	var hit *cDecision
	for i := range ds {
		ok := true
		for _, t := range ds[i].tests {
			if (code&t.mask == t.val) != t.eq {
				ok = false
				break
			}
		}
		if !ok {
			continue
		}
		if hit != nil {
			return nil, fmt.Errorf("two paths accept code %#b", code)
		}
		hit = &ds[i]
	}
	if hit == nil {
		return nil, fmt.Errorf("no path accepts code %#b", code)
	}
	for _, t := range hit.tests {
		if t.mask&^cLowMask(int64(width)) != 0 {
			return nil, fmt.Errorf("the path for code %#b tests mask %#x, which reaches into the length bits above bit %d", code, t.mask, width)
		}
	}
	return hit, nil
}

// ---------------------------------------------------------------------------------------------
// call sites

type cCallSite struct {
	pkg  *packages.Package
	decl *ast.FuncDecl
	call *ast.CallExpr
	fn   string
}

// cCallSites finds every static call of f in the module (non-generated code), in a stable order.
func cCallSites(c *Ctx, f *types.Func) []cCallSite {
	var out []cCallSite
	for _, p := range c.SortedPkgs() {
		for _, fd := range c.FuncDecls(p) {
			name := c.FuncName(p, fd)
			ast.Inspect(fd.Body, func(n ast.Node) bool {
				if call, ok := n.(*ast.CallExpr); ok {
					if g := calleeFunc(p.TypesInfo, call); g != nil && g.Origin() == f {
						out = append(out, cCallSite{p, fd, call, name})
					}
				}
				return true
			})
		}
	}
	return out
}

// cParamIndex returns the index of the parameter object in the function's signature, or -1.
func cParamIndex(f *types.Func, obj types.Object) int {
	sig, ok := f.Type().(*types.Signature)
	if !ok || obj == nil {
		return -1
	}
	for i := 0; i < sig.Params().Len(); i++ {
		if sig.Params().At(i) == obj {
			return i
		}
	}
	return -1
}

// cFuncObj returns the types.Func of a declaration.
func cFuncObj(p *packages.Package, fd *ast.FuncDecl) *types.Func {
	f, _ := p.TypesInfo.Defs[fd.Name].(*types.Func)
	return f
}
