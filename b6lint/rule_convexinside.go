package main

import (
	"fmt"
	"go/ast"
	"go/token"
	"go/types"
	"strings"
)

// CONVEX-INSIDE (C05): "the point is on the left of every edge of the loop" decides containment for
// convex loops only. A predicate that decides whether a query region's centre lies inside a
// feature's polygon that way (`inside = inside && s2.Sign(p, e.V0, e.V1)` over the edges) says no for
// a point in one arm of an L-shaped polygon, and a cap lying entirely within it is reported as not
// intersecting. The library's own tests (Polygon.ContainsPoint, Loop.ContainsPoint) are exact and
// account for holes and nested shells.
//
// Subjects, by type (root package): every function or method with a bool result and an operand of
// type *s2.Polygon or *s2.Loop (the predicates between a region and an area). Obligation: the body
// (function literals included) has no orientation test of one point against the edges of a loop
// (s2.Sign, s2.RobustSign, s2.OrderedCCW with an operand taken from Loop.Edge/Loop.Vertex) whose
// result is folded over the edges with && or &=, or answered by an early `return false`.
func init() {
	register(&Rule{
		Name:  "CONVEX-INSIDE",
		IR:    "ast",
		Props: []string{"C05"},
		Floor: 2,
		Doc:   "a predicate between a region and a polygon does not decide 'the point is inside the loop' by requiring the point to be on the left of every edge (true for convex loops only); containment is asked of the s2 polygon or loop",
		Run:   runConvexInside,
	})
}

func runConvexInside(c *Ctx) []Obligation {
	var out []Obligation
	p := c.Pkg("")
	if p == nil {
		return out
	}
	info := p.TypesInfo
	isS2 := func(t types.Type, names ...string) bool {
		if pt, ok := t.(*types.Pointer); ok {
			t = pt.Elem()
		}
		n, ok := t.(*types.Named)
		if !ok || n.Obj().Pkg() == nil || !strings.HasSuffix(n.Obj().Pkg().Path(), "github.com/golang/geo/s2") {
			return false
		}
		for _, name := range names {
			if n.Obj().Name() == name {
				return true
			}
		}
		return false
	}
	for _, fd := range c.FuncDecls(p) {
		obj, _ := info.Defs[fd.Name].(*types.Func)
		if obj == nil || fd.Body == nil {
			continue
		}
		sig := obj.Type().(*types.Signature)
		if sig.Results().Len() != 1 {
			continue
		}
		if b, ok := sig.Results().At(0).Type().Underlying().(*types.Basic); !ok || b.Kind() != types.Bool {
			continue
		}
		has := false
		for i := 0; i < sig.Params().Len(); i++ {
			if isS2(sig.Params().At(i).Type(), "Polygon", "Loop") {
				has = true
			}
		}
		if sig.Recv() != nil && isS2(sig.Recv().Type(), "Polygon", "Loop") {
			has = true
		}
		if !has {
			continue
		}
		ob := Obligation{Key: c.FuncName(p, fd), Pos: c.Position(fd.Pos()), Status: OK, Detail: "no containment decision is folded over a loop's edges with an orientation test"}
		isOrient := func(e ast.Expr) *ast.CallExpr {
			var found *ast.CallExpr
			ast.Inspect(e, func(n ast.Node) bool {
				if call, ok := n.(*ast.CallExpr); ok {
					if f := calleeFunc(info, call); f != nil && f.Pkg() != nil && strings.HasSuffix(f.Pkg().Path(), "github.com/golang/geo/s2") {
						switch f.Name() {
						case "Sign", "RobustSign", "OrderedCCW":
							found = call
						}
					}
				}
				return true
			})
			return found
		}
		ast.Inspect(fd.Body, func(n ast.Node) bool {
			if ob.Status != OK {
				return false
			}
			switch x := n.(type) {
			case *ast.AssignStmt:
				for i, r := range x.Rhs {
					call := isOrient(r)
					if call == nil {
						continue
					}
					folded := x.Tok == token.AND_ASSIGN
					if be, ok := ast.Unparen(r).(*ast.BinaryExpr); ok && be.Op == token.LAND && i < len(x.Lhs) {
						if sameExpr(info, ast.Unparen(be.X), ast.Unparen(x.Lhs[i])) || sameExpr(info, ast.Unparen(be.Y), ast.Unparen(x.Lhs[i])) {
							folded = true
						}
					}
					if folded && len(enclosingLoops(fd.Body, x)) > 0 {
						ob.Status = Violation
						ob.Pos = c.Position(x.Pos())
						ob.Detail = fmt.Sprintf("%s folds %s over the edges of a loop with &&: 'on the left of every edge' means 'inside' for convex loops only, so a point inside a concave polygon is taken to be outside", srcText(c.Fset, x), srcText(c.Fset, call))
					}
				}
			case *ast.IfStmt:
				if call := isOrient(x.Cond); call != nil && len(x.Body.List) == 1 && len(enclosingLoops(fd.Body, x)) > 0 {
					if ret, ok := x.Body.List[0].(*ast.ReturnStmt); ok && len(ret.Results) == 1 {
						if tv := info.Types[ret.Results[0]]; tv.Value != nil && tv.Value.ExactString() == "false" {
							ob.Status = Violation
							ob.Pos = c.Position(x.Pos())
							ob.Detail = fmt.Sprintf("the function answers false as soon as %s fails for one edge: 'on the left of every edge' means 'inside' for convex loops only", srcText(c.Fset, call))
						}
					}
				}
			}
			return true
		})
		out = append(out, ob)
	}
	return out
}

func enclosingLoops(root ast.Node, target ast.Node) []ast.Node {
	var loops []ast.Node
	for _, a := range enclosing(root, target) {
		switch a.(type) {
		case *ast.ForStmt, *ast.RangeStmt:
			loops = append(loops, a)
		}
	}
	return loops
}
