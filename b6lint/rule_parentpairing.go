package main

import (
	"fmt"
	"go/ast"
	"go/token"
	"go/types"
	"sort"

	"golang.org/x/tools/go/cfg"
)

// PARENT-PAIRING (C07): the AVL tree of package search keeps a parent pointer in every node
// and the iterator's ascent relies on `child.parent == holder` for every child link and on
// `root.parent == nil`. Every store that links a node below another one (or installs a root)
// must therefore be paired, in the same function, with the store of the matching parent.
//
// Discovery (by shape and type, package search): the node type N is a struct with fields
// parent, left, right of type *N; a tree type is a struct with a field root of type *N. An
// instance is every assignment `G.left = X` / `G.right = X` (child store, holder G) and every
// assignment `T.root = X` (root store) whose value is not the nil literal; instances are
// numbered per function in source order. Child or root values given inside composite literals
// of N / of the tree type are instances too (only nil is accepted there).
//
// A matching parent store for a child store is an assignment `Y.parent = Z` with Z
// structurally equal to G and Y structurally equal to X or to G.left / G.right itself.
// Accepted idioms (all of today's tree):
//
//	A  G.left = &N{parent: G, ...}                           (literal names its holder)
//	B  G.right = X ; if G.right != nil { G.right.parent = G }  (following store, nil test of the child)
//	C  X.parent = G ; ... G.left = X                          (preceding store; may itself sit under `if X != nil`)
//	D  G.left = X ; G.left.parent = G                         (following store through the link)
//
// decided on go/cfg: either every path backwards from the child store to the function entry
// meets a matching parent store, or every path forwards from it to a function exit does;
// the edge of a `child != nil` / `child == nil` test on which the child is nil discharges a
// path (nothing to pair); a re-assignment of a variable named in X or G, or of the X / G.f
// path itself, before the pair is complete makes the path a witness.
//
// Root stores `T.root = X`:
//
//	R0 T.root = &N{parent: nil ...} or without parent
//	R1 T.root = X ; if X != nil { X.parent = nil }            (paired as above with Z = nil)
//	R2 X.parent = V ... T.root = X  where the root store is only reached over the nil edge
//	   of a test `V != nil` / `V == nil` (so the stored parent is nil there)
//
// Not covered: aliasing between field paths (a store through another name of the same
// node), effects of calls between the two stores, stores made through helper functions
// outside the function of the child store.
func init() {
	register(&Rule{
		Name:  "PARENT-PAIRING",
		IR:    "cfg",
		Props: []string{"C07"},
		Floor: 29, // 24 child stores + 5 root stores in search/tree.go
		Doc: "in the AVL tree of package search every store of a node into a left/right field is paired in the same function with the " +
			"store of that child's parent (literal with parent set, nil-guarded or direct parent store before or after), and every store " +
			"of a root is paired with the root's parent being nil (literal, nil store, or a stored value tested nil on that branch)",
		Run: runParentPairing,
	})
}

type gTreeShape struct {
	node                *types.Named
	parent, left, right *types.Var
	roots               map[*types.Var]bool // fields `root *N` of tree types
}

func gFindTreeShape(pkg *types.Package) *gTreeShape {
	scope := pkg.Scope()
	for _, name := range scope.Names() {
		tn, ok := scope.Lookup(name).(*types.TypeName)
		if !ok {
			continue
		}
		named, ok := tn.Type().(*types.Named)
		if !ok {
			continue
		}
		st, ok := named.Underlying().(*types.Struct)
		if !ok {
			continue
		}
		sh := &gTreeShape{node: named, roots: map[*types.Var]bool{}}
		for i := 0; i < st.NumFields(); i++ {
			f := st.Field(i)
			ptr, ok := f.Type().(*types.Pointer)
			if !ok || !types.Identical(ptr.Elem(), named) {
				continue
			}
			switch f.Name() {
			case "parent":
				sh.parent = f
			case "left":
				sh.left = f
			case "right":
				sh.right = f
			}
		}
		if sh.parent == nil || sh.left == nil || sh.right == nil {
			continue
		}
		for _, n2 := range scope.Names() {
			tn2, ok := scope.Lookup(n2).(*types.TypeName)
			if !ok {
				continue
			}
			st2, ok := tn2.Type().Underlying().(*types.Struct)
			if !ok {
				continue
			}
			for i := 0; i < st2.NumFields(); i++ {
				f := st2.Field(i)
				if ptr, ok := f.Type().(*types.Pointer); ok && types.Identical(ptr.Elem(), named) && f.Name() == "root" {
					sh.roots[f] = true
				}
			}
		}
		return sh
	}
	return nil
}

func runParentPairing(c *Ctx) []Obligation {
	p := c.Pkg("search")
	if p == nil {
		return nil
	}
	info := p.TypesInfo
	sh := gFindTreeShape(p.Types)
	if sh == nil {
		return nil
	}
	fieldOf := func(e ast.Expr) (*types.Var, ast.Expr) {
		se, ok := ast.Unparen(e).(*ast.SelectorExpr)
		if !ok {
			return nil, nil
		}
		sel := info.Selections[se]
		if sel == nil || sel.Kind() != types.FieldVal {
			return nil, nil
		}
		v, _ := sel.Obj().(*types.Var)
		return v, se.X
	}
	isNil := func(e ast.Expr) bool {
		tv, ok := info.Types[ast.Unparen(e)]
		return ok && tv.IsNil()
	}
	// value of a field in a composite literal of struct st (keyed or positional); nil if absent
	litField := func(cl *ast.CompositeLit, st *types.Struct, f *types.Var) ast.Expr {
		for i, el := range cl.Elts {
			if kv, ok := el.(*ast.KeyValueExpr); ok {
				if id, ok := kv.Key.(*ast.Ident); ok && info.Uses[id] == f {
					return kv.Value
				}
				continue
			}
			if i < st.NumFields() && st.Field(i) == f {
				return el
			}
		}
		return nil
	}
	nodeLit := func(e ast.Expr) *ast.CompositeLit {
		e = ast.Unparen(e)
		if ue, ok := e.(*ast.UnaryExpr); ok && ue.Op == token.AND {
			e = ast.Unparen(ue.X)
		}
		cl, ok := e.(*ast.CompositeLit)
		if !ok {
			return nil
		}
		if n := namedOf(info.TypeOf(cl)); n == nil || n != sh.node {
			return nil
		}
		return cl
	}
	nodeStruct := sh.node.Underlying().(*types.Struct)

	var out []Obligation
	for _, fd := range c.FuncDecls(p) {
		name := c.FuncName(p, fd)
		type store struct {
			pos    token.Pos
			stmt   *ast.AssignStmt // nil for a value inside a literal
			root   bool
			field  *types.Var
			holder ast.Expr // G (child store) or T (root store)
			lhs    ast.Expr // G.f / T.root
			value  ast.Expr
			inLit  bool
		}
		type pstore struct {
			stmt *ast.AssignStmt
			y, z ast.Expr
		}
		var stores []store
		var parents []pstore
		inspectShallow(fd.Body, func(n ast.Node) bool {
			switch s := n.(type) {
			case *ast.AssignStmt:
				if len(s.Lhs) != len(s.Rhs) {
					return true
				}
				for i, l := range s.Lhs {
					f, x := fieldOf(l)
					if f == nil {
						continue
					}
					switch {
					case f == sh.left || f == sh.right:
						if !isNil(s.Rhs[i]) {
							stores = append(stores, store{pos: l.Pos(), stmt: s, field: f, holder: x, lhs: l, value: s.Rhs[i]})
						}
					case sh.roots[f]:
						if !isNil(s.Rhs[i]) {
							stores = append(stores, store{pos: l.Pos(), stmt: s, root: true, field: f, holder: x, lhs: l, value: s.Rhs[i]})
						}
					case f == sh.parent:
						parents = append(parents, pstore{s, x, s.Rhs[i]})
					}
				}
			case *ast.CompositeLit:
				st, ok := info.TypeOf(s).Underlying().(*types.Struct)
				if !ok {
					return true
				}
				for i := 0; i < st.NumFields(); i++ {
					f := st.Field(i)
					if f == sh.left || f == sh.right || sh.roots[f] {
						if v := litField(s, st, f); v != nil && !isNil(v) {
							stores = append(stores, store{pos: v.Pos(), root: sh.roots[f], field: f, value: v, inLit: true})
						}
					}
				}
			}
			return true
		})
		if len(stores) == 0 {
			continue
		}
		sort.SliceStable(stores, func(i, j int) bool { return stores[i].pos < stores[j].pos })
		g := newCFG(info, fd.Body)

		for i, s := range stores {
			ob := Obligation{Key: gNthKey(name, i+1), Pos: c.Position(s.pos)}
			what := "child store"
			if s.root {
				what = "root store"
			}
			if s.inLit {
				ob.Status = Undecided
				ob.Detail = fmt.Sprintf("%s: a non-nil %s is given inside a composite literal (%s); no pairing idiom is known for that", name, s.field.Name(), types.ExprString(s.value))
				out = append(out, ob)
				continue
			}
			text := nodeText(c.Fset, s.stmt)
			// Idioms A / R0: the value is a literal of the node type.
			if cl := nodeLit(s.value); cl != nil {
				pv := litField(cl, nodeStruct, sh.parent)
				switch {
				case s.root && (pv == nil || isNil(pv)):
					ob.Status, ob.Detail = OK, "root literal has a nil parent"
				case s.root:
					ob.Status = Violation
					ob.Detail = fmt.Sprintf("%s: root store %s at %s gives the new root the parent %s, not nil", name, text, c.Position(s.pos), types.ExprString(pv))
				case pv != nil && sameExpr(info, pv, s.holder):
					ob.Status, ob.Detail = OK, fmt.Sprintf("literal names its holder %s as parent", types.ExprString(s.holder))
				default:
					got := "no parent"
					if pv != nil {
						got = "parent " + types.ExprString(pv)
					}
					ob.Status = Violation
					ob.Detail = fmt.Sprintf("%s: child store %s at %s links a new node under %s but the literal sets %s", name, text, c.Position(s.pos), types.ExprString(s.holder), got)
				}
				out = append(out, ob)
				continue
			}
			loc, found := findNode(g, s.stmt)
			if !found {
				ob.Status, ob.Detail = Undecided, what+" not found in the control-flow graph"
				out = append(out, ob)
				continue
			}
			isChildExpr := func(e ast.Expr) bool {
				return sameExpr(info, e, s.value) || sameExpr(info, e, s.lhs)
			}
			var roots []types.Object
			for _, e := range []ast.Expr{s.value, s.holder} {
				if o := gRootIdent(info, e); o != nil {
					if _, isVar := o.(*types.Var); isVar {
						roots = append(roots, o)
					}
				}
			}
			_, valueIsIdent := ast.Unparen(s.value).(*ast.Ident)
			kill := func(n ast.Node) string {
				if n == ast.Node(s.stmt) {
					return ""
				}
				for _, o := range roots {
					if gAssigns(info, n, o) {
						return "variable " + o.Name() + " is re-assigned before the pair is complete"
					}
				}
				if as, ok := n.(*ast.AssignStmt); ok {
					for _, l := range as.Lhs {
						if sameExpr(info, l, s.lhs) || (!valueIsIdent && sameExpr(info, l, s.value)) {
							return types.ExprString(l) + " is overwritten before the pair is complete"
						}
					}
				}
				return ""
			}
			nilEdge := func(from *cfg.Block, k int, match func(ast.Expr) bool) bool {
				cond := gCondOf(from)
				if cond == nil {
					return false
				}
				x, nilSucc, ok := gNilTest(info, cond)
				return ok && k == nilSucc && match(x)
			}
			// For a root store the wanted parent is nil: either stored as nil, or stored as V where
			// the root store is only reached on the nil edge of a test of V.
			wantOK := func(z ast.Expr) (bool, string) {
				if !s.root {
					return sameExpr(info, z, s.holder), ""
				}
				if isNil(z) {
					return true, ""
				}
				dom := &gSearch{c: c, info: info,
					stopEdge: func(from *cfg.Block, k int) bool {
						return nilEdge(from, k, func(e ast.Expr) bool { return sameExpr(info, e, z) })
					},
					killNode: func(n ast.Node) string {
						if o := gRootIdent(info, z); o != nil && gAssigns(info, n, o) {
							return "variable " + o.Name() + " is assigned after it was tested"
						}
						return ""
					},
				}
				if w := dom.backward(g, loc.b, loc.i); w != nil {
					return false, fmt.Sprintf("parent %s is not tested nil on every path to the root store", types.ExprString(z))
				}
				return true, ""
			}
			var cands []*ast.AssignStmt
			var notes []string
			for _, ps := range parents {
				if !isChildExpr(ps.y) {
					continue
				}
				ok, note := wantOK(ps.z)
				if ok {
					cands = append(cands, ps.stmt)
				} else if note != "" {
					notes = append(notes, note)
				}
			}
			want := types.ExprString(s.holder)
			if s.root {
				want = "nil"
			}
			if len(cands) == 0 {
				ob.Status = Violation
				ob.Detail = fmt.Sprintf("%s: %s %s at %s has no store of %s.parent = %s in this function", name, what, text, c.Position(s.pos), types.ExprString(s.value), want)
				ob.Path = notes
				out = append(out, ob)
				continue
			}
			isCand := func(n ast.Node) bool {
				for _, cs := range cands {
					if n == ast.Node(cs) {
						return true
					}
				}
				return false
			}
			mk := func() *gSearch {
				return &gSearch{c: c, info: info, stopNode: isCand, killNode: kill, exitBad: true,
					stopEdge: func(from *cfg.Block, k int) bool { return nilEdge(from, k, isChildExpr) }}
			}
			wb := mk().backward(g, loc.b, loc.i)
			var wf []string
			if wb != nil {
				wf = mk().forward(loc.b, loc.i+1)
			}
			if wb == nil || wf == nil {
				ob.Status = OK
				dir := "before"
				if wb != nil {
					dir = "after"
				}
				ob.Detail = fmt.Sprintf("%s %s: paired with %s on every path %s it", what, text, nodeText(c.Fset, cands[0]), dir)
			} else {
				ob.Status = Violation
				ob.Detail = fmt.Sprintf("%s: %s %s at %s is not paired with %s.parent = %s on every path (candidate %s at %s)", name, what, text,
					c.Position(s.pos), types.ExprString(s.value), want, nodeText(c.Fset, cands[0]), c.Position(cands[0].Pos()))
				ob.Path = append(ob.Path, "backwards from the store:")
				ob.Path = append(ob.Path, wb...)
				ob.Path = append(ob.Path, "forwards from the store:")
				ob.Path = append(ob.Path, wf...)
			}
			out = append(out, ob)
		}
	}
	return out
}
