package main

import (
	"fmt"
	"go/ast"
	"go/token"
	"go/types"
	"sort"
	"strings"

	"golang.org/x/tools/go/packages"
)

// INDEX-DELTA (C03, C12): the mutable worlds keep their search index in step with tag edits by
// removing the token of the replaced tag and adding the token of the new one, each under its own
// guard. The two guards have to agree: whatever the old and the new tag are, after the edit the
// index holds the new token iff the new tag is searchable, and no longer holds the old token if
// it differs.
//
// Instances: for every type that implements ingest.MutableWorld, its AddTag and RemoveTag methods
// (the interface anchors the names) that contain single-token index operations
// `recv.<index field>.Remove(f, []string{tok})` / `.Add(f, []string{tok})`. One obligation per
// method; the region examined is the innermost block that contains all those operations together
// with the statements that read the replaced tag and compute its token (for the overlay world:
// the branch for a feature already held in the overlay). Conditions outside the region (which
// branch of the world applies) are context, conditions inside it are guards.
//
// Extraction (typed AST, nothing is executed): tok is classified by the call that defines it,
// `tokX, idxX = b6.TokenForTag(t)`: t the method's tag parameter -> AFTER; t a local bound by
// `f.Get(<tag>.Key)` / `f.Get(<key parameter>)` on the very feature passed to the index -> BEFORE.
// The guard of an operation is the conjunction of the conditions of the enclosing if statements
// inside the region (negated for else branches), written over the atoms
//
//	V  = the before tag exists         (`before.IsValid()`)
//	IB = the before tag is searchable  (second result of TokenForTag(before))
//	IA = the new tag is searchable     (second result of TokenForTag(tag))
//	NE = tokenBefore != tokenAfter     (either operand order; == is its negation)
//
// with &&, ||, ! and parentheses. A boolean local that is declared with its zero value and
// assigned in an if-init or under a guard (`var indexedBefore bool; if ...{ if tokenBefore,
// indexedBefore = TokenForTag(before); ...`) stands, where it is read later, for (guard of the
// assignment && atom); one bound by := stands for the atom. RemoveTag has no new tag: IA = false,
// NE = true.
//
// Decision: exhaustive truth table over the atoms (16 rows for AddTag, 4 for RemoveTag). Model:
// the index is a set over the two tokens (one token when !NE). Initially it holds tokenBefore iff
// V && IB (the feature was indexed with the tokens of its tags, one tag per key, and tokens embed
// the key, so tokenAfter is not there unless it equals tokenBefore). The operations run in source
// order, each iff its guard is true. Required at the end: holds(tokenAfter) == IA, and
// !holds(tokenBefore) when NE. Rows with IB && !V are excluded: without a before tag nothing of
// it can be searchable (in the code the variable is then still false). No other row is excluded,
// although V && IB != IA cannot happen either (same key), so the guards are checked slightly
// beyond what can occur.
//
// Undecided: a condition that is not a formula over the atoms, an operation inside a loop, switch
// or function literal, a token or flag variable assigned more than once, a before tag read from
// another feature or key.
//
// Outside the slot (reported as info): branches that copy a base feature into the overlay and index
// it with the full token set `index.Add(f, TokensForFeature(...))`: not a pair of guards. That the
// copy is registered completely (feature map, references, full token set) is decided by
// INSERT-TRIPLE.
func init() {
	register(&Rule{
		Name:  "INDEX-DELTA",
		IR:    "ast",
		Props: []string{"C03", "C12"},
		Floor: 4, // BasicMutableWorld.AddTag/RemoveTag, MutableOverlayWorld.AddTag/RemoveTag
		Doc: "in AddTag/RemoveTag of every ingest.MutableWorld implementation, the guards of index.Remove(tokenBefore) and index.Add(tokenAfter), read as boolean formulas over " +
			"{before valid, indexedBefore, indexedAfter, tokenBefore != tokenAfter}, leave the index holding tokenAfter iff indexedAfter and not holding a different tokenBefore, in every feasible row of the truth table",
		Run: runIndexDelta,
	})
}

// hBool is a boolean formula over atoms.
type hBool struct {
	op   string // "atom", "const", "not", "and", "or"
	atom string
	val  bool
	a, b *hBool
}

func hAtom(n string) *hBool   { return &hBool{op: "atom", atom: n} }
func hConst(v bool) *hBool    { return &hBool{op: "const", val: v} }
func hNot(a *hBool) *hBool    { return &hBool{op: "not", a: a} }
func hAnd(a, b *hBool) *hBool { return &hBool{op: "and", a: a, b: b} }
func hOr(a, b *hBool) *hBool  { return &hBool{op: "or", a: a, b: b} }

func (f *hBool) eval(env map[string]bool) bool {
	switch f.op {
	case "atom":
		return env[f.atom]
	case "const":
		return f.val
	case "not":
		return !f.a.eval(env)
	case "and":
		return f.a.eval(env) && f.b.eval(env)
	default:
		return f.a.eval(env) || f.b.eval(env)
	}
}

func (f *hBool) String() string {
	switch f.op {
	case "atom":
		return f.atom
	case "const":
		if f.val {
			return "true"
		}
		return "false"
	case "not":
		return "!" + f.a.String()
	case "and":
		if f.a.op == "const" && f.a.val {
			return f.b.String()
		}
		return "(" + f.a.String() + " && " + f.b.String() + ")"
	default:
		return "(" + f.a.String() + " || " + f.b.String() + ")"
	}
}

type hIdxOp struct {
	call   *ast.CallExpr
	remove bool
	token  string // "before" or "after"
	guard  *hBool
}

type hIdxMethod struct {
	c      *Ctx
	p      *packages.Package
	info   *types.Info
	fd     *ast.FuncDecl
	isAdd  bool
	tagPar types.Object // AddTag: the b6.Tag parameter
	keyPar types.Object // RemoveTag: the key parameter
	// classification of locals
	tokenVar map[types.Object]string   // token variable -> before/after
	flagVar  map[types.Object]string   // indexed flag variable -> IB/IA
	tagVar   map[types.Object]ast.Expr // before-tag variable -> feature expression it was read from
	defStmt  map[types.Object]ast.Node // the single assignment of a token/flag variable
	declared map[types.Object]bool     // flag declared by := in that assignment (scope = guarded region)
	multi    map[types.Object]bool
	region   ast.Node
}

func (m *hIdxMethod) isTokenForTag(call *ast.CallExpr) bool {
	f := calleeFunc(m.info, call)
	if f == nil || f.Pkg() == nil || f.Pkg().Path() != ModulePath || f.Type().(*types.Signature).Recv() != nil {
		return false
	}
	sig := f.Type().(*types.Signature)
	if sig.Params().Len() != 1 || sig.Results().Len() != 2 || !isNamed(sig.Params().At(0).Type(), ModulePath, "Tag") {
		return false
	}
	r0, ok0 := sig.Results().At(0).Type().Underlying().(*types.Basic)
	r1, ok1 := sig.Results().At(1).Type().Underlying().(*types.Basic)
	return ok0 && ok1 && r0.Kind() == types.String && r1.Kind() == types.Bool
}

// classify walks the body once and records the token / flag / before-tag variables.
func (m *hIdxMethod) classify() {
	m.tokenVar, m.flagVar, m.tagVar = map[types.Object]string{}, map[types.Object]string{}, map[types.Object]ast.Expr{}
	m.defStmt, m.declared, m.multi = map[types.Object]ast.Node{}, map[types.Object]bool{}, map[types.Object]bool{}
	// pass 1: before-tag variables  v := <feature>.Get(<tag>.Key | key)
	ast.Inspect(m.fd.Body, func(n ast.Node) bool {
		as, ok := n.(*ast.AssignStmt)
		if !ok || len(as.Lhs) != 1 || len(as.Rhs) != 1 {
			return true
		}
		id, ok := as.Lhs[0].(*ast.Ident)
		if !ok {
			return true
		}
		call, ok := ast.Unparen(as.Rhs[0]).(*ast.CallExpr)
		if !ok || len(call.Args) != 1 || !isNamed(m.info.TypeOf(call), ModulePath, "Tag") {
			return true
		}
		sel, ok := ast.Unparen(call.Fun).(*ast.SelectorExpr)
		if !ok || sel.Sel.Name != "Get" {
			return true
		}
		keyOK := false
		switch a := ast.Unparen(call.Args[0]).(type) {
		case *ast.Ident:
			keyOK = m.keyPar != nil && m.info.ObjectOf(a) == m.keyPar
		case *ast.SelectorExpr:
			if x, ok := ast.Unparen(a.X).(*ast.Ident); ok && m.tagPar != nil && m.info.ObjectOf(x) == m.tagPar && a.Sel.Name == "Key" {
				keyOK = true
			}
		}
		if !keyOK {
			return true
		}
		if obj := m.info.ObjectOf(id); obj != nil {
			if _, dup := m.tagVar[obj]; dup {
				m.multi[obj] = true
			}
			m.tagVar[obj] = sel.X
		}
		return true
	})
	// pass 2: tok, idx = TokenForTag(t)
	ast.Inspect(m.fd.Body, func(n ast.Node) bool {
		as, ok := n.(*ast.AssignStmt)
		if !ok || len(as.Lhs) != 2 || len(as.Rhs) != 1 {
			return true
		}
		call, ok := ast.Unparen(as.Rhs[0]).(*ast.CallExpr)
		if !ok || !m.isTokenForTag(call) {
			return true
		}
		arg, ok := ast.Unparen(call.Args[0]).(*ast.Ident)
		if !ok {
			return true
		}
		argObj := m.info.ObjectOf(arg)
		class := ""
		if m.tagPar != nil && argObj == m.tagPar {
			class = "after"
		} else if _, isBefore := m.tagVar[argObj]; isBefore {
			class = "before"
		}
		if class == "" {
			return true
		}
		for i, l := range as.Lhs {
			id, ok := l.(*ast.Ident)
			if !ok || id.Name == "_" {
				continue
			}
			obj := m.info.ObjectOf(id)
			if obj == nil {
				continue
			}
			if _, dup := m.defStmt[obj]; dup {
				m.multi[obj] = true
			}
			m.defStmt[obj] = as
			if as.Tok == token.DEFINE && m.info.Defs[id] != nil {
				m.declared[obj] = true
			}
			if i == 0 {
				m.tokenVar[obj] = class
			} else if class == "before" {
				m.flagVar[obj] = "IB"
			} else {
				m.flagVar[obj] = "IA"
			}
		}
		return true
	})
	// any other assignment to a classified variable makes it unusable
	ast.Inspect(m.fd.Body, func(n ast.Node) bool {
		as, ok := n.(*ast.AssignStmt)
		if !ok {
			return true
		}
		for _, l := range as.Lhs {
			if id, ok := l.(*ast.Ident); ok {
				obj := m.info.ObjectOf(id)
				if def, tracked := m.defStmt[obj]; tracked && def != ast.Node(as) {
					m.multi[obj] = true
				}
			}
		}
		return true
	})
}

// pathGuard: conjunction of the if conditions between the region and the node n. When n is the
// init statement (or lies in the condition) of an if, that if contributes nothing.
func (m *hIdxMethod) pathGuard(n ast.Node) (*hBool, string) {
	chain := enclosing(m.region, n)
	if chain == nil {
		return nil, "node outside the region"
	}
	g := hConst(true)
	for i := 0; i+1 < len(chain); i++ {
		switch st := chain[i].(type) {
		case *ast.IfStmt:
			child := chain[i+1]
			switch {
			case child == ast.Node(st.Body):
				f, err := m.formula(st.Cond)
				if err != "" {
					return nil, err
				}
				g = hAnd(g, f)
			case st.Else != nil && child == ast.Node(st.Else):
				f, err := m.formula(st.Cond)
				if err != "" {
					return nil, err
				}
				g = hAnd(g, hNot(f))
			}
		case *ast.BlockStmt, *ast.ExprStmt, *ast.AssignStmt, *ast.CallExpr:
		default:
			if i > 0 || chain[0] != m.region {
				return nil, fmt.Sprintf("operation nested in a %T at %s", st, m.c.Position(st.Pos()))
			}
		}
	}
	return g, ""
}

// formula turns a condition into a formula over the atoms.
func (m *hIdxMethod) formula(e ast.Expr) (*hBool, string) {
	e = ast.Unparen(e)
	switch v := e.(type) {
	case *ast.UnaryExpr:
		if v.Op == token.NOT {
			f, err := m.formula(v.X)
			if err != "" {
				return nil, err
			}
			return hNot(f), ""
		}
	case *ast.BinaryExpr:
		switch v.Op {
		case token.LAND, token.LOR:
			a, err := m.formula(v.X)
			if err != "" {
				return nil, err
			}
			b, err := m.formula(v.Y)
			if err != "" {
				return nil, err
			}
			if v.Op == token.LAND {
				return hAnd(a, b), ""
			}
			return hOr(a, b), ""
		case token.NEQ, token.EQL:
			x, okx := ast.Unparen(v.X).(*ast.Ident)
			y, oky := ast.Unparen(v.Y).(*ast.Ident)
			if okx && oky {
				cx, cy := m.tokenVar[m.info.ObjectOf(x)], m.tokenVar[m.info.ObjectOf(y)]
				if cx != "" && cy != "" && cx != cy && !m.multi[m.info.ObjectOf(x)] && !m.multi[m.info.ObjectOf(y)] {
					if v.Op == token.NEQ {
						return hAtom("NE"), ""
					}
					return hNot(hAtom("NE")), ""
				}
			}
		}
	case *ast.Ident:
		obj := m.info.ObjectOf(v)
		if atom, ok := m.flagVar[obj]; ok {
			if m.multi[obj] {
				return nil, fmt.Sprintf("flag %s is assigned more than once", v.Name)
			}
			if m.declared[obj] {
				return hAtom(atom), "" // bound by := : visible only where the assignment has run
			}
			// zero-initialised, assigned once: true only if the assignment ran
			def := m.defStmt[obj]
			if v.Pos() < def.Pos() {
				return hConst(false), ""
			}
			if enclosing(m.region, def) == nil {
				return hAtom(atom), "" // assigned before the region: has run
			}
			g, err := m.pathGuard(def)
			if err != "" {
				return nil, err
			}
			return hAnd(g, hAtom(atom)), ""
		}
		if tv, ok := m.info.Types[v]; ok && tv.Value != nil && tv.Value.String() == "true" {
			return hConst(true), ""
		}
		if tv, ok := m.info.Types[v]; ok && tv.Value != nil && tv.Value.String() == "false" {
			return hConst(false), ""
		}
	case *ast.CallExpr:
		// before.IsValid()
		if sel, ok := ast.Unparen(v.Fun).(*ast.SelectorExpr); ok && len(v.Args) == 0 && sel.Sel.Name == "IsValid" {
			if id, ok := ast.Unparen(sel.X).(*ast.Ident); ok {
				obj := m.info.ObjectOf(id)
				if _, isBefore := m.tagVar[obj]; isBefore && !m.multi[obj] {
					if f := calleeFunc(m.info, v); f != nil && f.Pkg() != nil && f.Pkg().Path() == ModulePath {
						return hAtom("V"), ""
					}
				}
			}
		}
	}
	return nil, fmt.Sprintf("condition `%s` at %s is not a formula over {before valid, indexedBefore, indexedAfter, tokenBefore != tokenAfter}", types.ExprString(e), m.c.Position(e.Pos()))
}

// hIndexOps finds recv.<field>.Add/Remove(f, tokens) calls; single reports the []string{tok} form.
func (m *hIdxMethod) indexOps() (single []*ast.CallExpr, full []*ast.CallExpr) {
	var recv types.Object
	if m.fd.Recv != nil && len(m.fd.Recv.List) == 1 && len(m.fd.Recv.List[0].Names) == 1 {
		recv = m.info.ObjectOf(m.fd.Recv.List[0].Names[0])
	}
	ast.Inspect(m.fd.Body, func(n ast.Node) bool {
		call, ok := n.(*ast.CallExpr)
		if !ok || len(call.Args) != 2 {
			return true
		}
		sel, ok := ast.Unparen(call.Fun).(*ast.SelectorExpr)
		if !ok || (sel.Sel.Name != "Add" && sel.Sel.Name != "Remove") {
			return true
		}
		fld, ok := ast.Unparen(sel.X).(*ast.SelectorExpr)
		if !ok {
			return true
		}
		r, ok := ast.Unparen(fld.X).(*ast.Ident)
		if !ok || recv == nil || m.info.ObjectOf(r) != recv {
			return true
		}
		if s := m.info.Selections[fld]; s == nil || s.Kind() != types.FieldVal {
			return true
		}
		// second parameter []string: a token list
		sl, ok := m.info.TypeOf(call.Args[1]).Underlying().(*types.Slice)
		if !ok {
			return true
		}
		if b, ok := sl.Elem().Underlying().(*types.Basic); !ok || b.Kind() != types.String {
			return true
		}
		if lit, ok := ast.Unparen(call.Args[1]).(*ast.CompositeLit); ok && len(lit.Elts) == 1 {
			if _, isID := lit.Elts[0].(*ast.Ident); isID {
				single = append(single, call)
				return true
			}
		}
		full = append(full, call)
		return true
	})
	return
}

func runIndexDelta(c *Ctx) []Obligation {
	in := c.Pkg("ingest")
	if in == nil {
		return []Obligation{{Key: "ingest#anchor", Status: Undecided, Detail: "package ingest not loaded"}}
	}
	tn, _ := in.Types.Scope().Lookup("MutableWorld").(*types.TypeName)
	if tn == nil {
		return []Obligation{{Key: "ingest#anchor", Status: Undecided, Detail: "interface ingest.MutableWorld not found"}}
	}
	iface, _ := tn.Type().Underlying().(*types.Interface)
	if iface == nil {
		return []Obligation{{Key: "ingest#anchor", Status: Undecided, Detail: "ingest.MutableWorld is not an interface"}}
	}
	var out []Obligation
	for _, p := range c.SortedPkgs() {
		sc := p.Types.Scope()
		names := sc.Names()
		sort.Strings(names)
		for _, n := range names {
			t, ok := sc.Lookup(n).(*types.TypeName)
			if !ok {
				continue
			}
			if _, isIface := t.Type().Underlying().(*types.Interface); isIface {
				continue
			}
			if !types.Implements(t.Type(), iface) && !types.Implements(types.NewPointer(t.Type()), iface) {
				continue
			}
			for _, mname := range []string{"AddTag", "RemoveTag"} {
				obj, _, _ := types.LookupFieldOrMethod(types.NewPointer(t.Type()), true, p.Types, mname)
				fn, _ := obj.(*types.Func)
				if fn == nil {
					continue
				}
				fd, fp := c.Decl(fn)
				if fd == nil || fd.Body == nil || fp == nil {
					continue
				}
				// only methods declared on this very type (not promoted from an embedded world)
				if rn := namedOf(fn.Type().(*types.Signature).Recv().Type()); rn == nil || rn.Obj() != t {
					continue
				}
				out = append(out, hIndexDeltaMethod(c, fp, fd, mname == "AddTag")...)
			}
		}
	}
	return out
}

func hIndexDeltaMethod(c *Ctx, p *packages.Package, fd *ast.FuncDecl, isAdd bool) []Obligation {
	m := &hIdxMethod{c: c, p: p, info: p.TypesInfo, fd: fd, isAdd: isAdd}
	name := c.FuncName(p, fd)
	// parameters
	for _, fl := range fd.Type.Params.List {
		for _, id := range fl.Names {
			t := m.info.TypeOf(fl.Type)
			if isAdd && isNamed(t, ModulePath, "Tag") {
				m.tagPar = m.info.ObjectOf(id)
			}
			if b, ok := t.Underlying().(*types.Basic); !isAdd && ok && b.Kind() == types.String {
				m.keyPar = m.info.ObjectOf(id)
			}
		}
	}
	single, full := m.indexOps()
	var out []Obligation
	for i, call := range full {
		out = append(out, Obligation{Key: fmt.Sprintf("%s#full%d", name, i+1), Pos: c.Position(call.Pos()), Status: Info,
			Detail: "index operation with a computed token list (" + types.ExprString(call.Args[1]) + "): a feature copied from the base is indexed with its full token set; not a pair of guards, decided by INSERT-TRIPLE"})
	}
	if len(single) == 0 {
		return out
	}
	ob := Obligation{Key: name + "#1", Pos: c.Position(single[0].Pos())}
	fail := func(s string) []Obligation {
		ob.Status, ob.Detail = Undecided, s
		return append(out, ob)
	}
	if (isAdd && m.tagPar == nil) || (!isAdd && m.keyPar == nil) {
		return fail("the tag / key parameter of the method was not found")
	}
	m.classify()
	// region: innermost block statement containing every single-token operation and the
	// statements that read the replaced tag and compute its token (so that their guards count)
	var anchors []ast.Node
	for _, call := range single {
		anchors = append(anchors, call)
		if tokID, ok := ast.Unparen(call.Args[1]).(*ast.CompositeLit).Elts[0].(*ast.Ident); ok {
			obj := m.info.ObjectOf(tokID)
			if m.tokenVar[obj] == "before" && !m.multi[obj] {
				def := m.defStmt[obj].(*ast.AssignStmt)
				anchors = append(anchors, def)
				if arg, ok := ast.Unparen(ast.Unparen(def.Rhs[0]).(*ast.CallExpr).Args[0]).(*ast.Ident); ok {
					argObj := m.info.ObjectOf(arg)
					ast.Inspect(fd.Body, func(n ast.Node) bool {
						if as, ok := n.(*ast.AssignStmt); ok && len(as.Lhs) == 1 {
							if id, ok := as.Lhs[0].(*ast.Ident); ok && m.info.ObjectOf(id) == argObj {
								anchors = append(anchors, as)
							}
						}
						return true
					})
				}
			}
		}
	}
	var region ast.Node = fd.Body
	for {
		var next ast.Node
		ast.Inspect(region, func(n ast.Node) bool {
			if next != nil || n == nil || n == region {
				return next == nil
			}
			if bs, ok := n.(*ast.BlockStmt); ok {
				all := true
				for _, a := range anchors {
					if a.Pos() < bs.Pos() || a.End() > bs.End() {
						all = false
					}
				}
				if all {
					next = bs
				}
				return false
			}
			return true
		})
		if next == nil {
			break
		}
		region = next
	}
	m.region = region
	var ops []hIdxOp
	for _, call := range single {
		tokID := ast.Unparen(call.Args[1]).(*ast.CompositeLit).Elts[0].(*ast.Ident)
		obj := m.info.ObjectOf(tokID)
		class := m.tokenVar[obj]
		if class == "" || m.multi[obj] {
			return fail(fmt.Sprintf("token %s of %s at %s is not the single result of TokenForTag on the new tag or on the replaced tag", tokID.Name, types.ExprString(call.Fun), c.Position(call.Pos())))
		}
		if class == "before" {
			// the before tag must have been read from the feature handed to the index
			def := m.defStmt[obj].(*ast.AssignStmt)
			arg := ast.Unparen(def.Rhs[0]).(*ast.CallExpr).Args[0].(*ast.Ident)
			from := m.tagVar[m.info.ObjectOf(arg)]
			if from == nil || !sameExpr(m.info, from, call.Args[0]) {
				return fail(fmt.Sprintf("the replaced tag of %s at %s is not read from the feature passed to the index", types.ExprString(call.Fun), c.Position(call.Pos())))
			}
		}
		g, err := m.pathGuard(call)
		if err != "" {
			return fail(err)
		}
		ops = append(ops, hIdxOp{call: call, remove: ast.Unparen(call.Fun).(*ast.SelectorExpr).Sel.Name == "Remove", token: class, guard: g})
	}
	sort.SliceStable(ops, func(i, j int) bool { return ops[i].call.Pos() < ops[j].call.Pos() })

	// truth table
	atoms := []string{"V", "IB", "IA", "NE"}
	if !isAdd {
		atoms = []string{"V", "IB"}
	}
	var bad []string
	rows, excluded := 0, 0
	for mask := 0; mask < 1<<len(atoms); mask++ {
		env := map[string]bool{}
		for i, a := range atoms {
			env[a] = mask&(1<<i) != 0
		}
		if !isAdd {
			env["IA"], env["NE"] = false, true
		}
		if env["IB"] && !env["V"] {
			excluded++
			continue // no before tag: nothing of it can be searchable
		}
		rows++
		holds := map[string]bool{"before": env["V"] && env["IB"]}
		holds["after"] = !env["NE"] && holds["before"]
		var trace []string
		for _, op := range ops {
			if !op.guard.eval(env) {
				continue
			}
			holds[op.token] = !op.remove
			if !env["NE"] {
				holds["before"], holds["after"] = !op.remove, !op.remove
			}
			if op.remove {
				trace = append(trace, "Remove(token "+op.token+")")
			} else {
				trace = append(trace, "Add(token "+op.token+")")
			}
		}
		if len(trace) == 0 {
			trace = []string{"no index operation"}
		}
		var wrong string
		switch {
		case holds["after"] != env["IA"] && env["IA"]:
			wrong = "the new token is searchable but is not in the index afterwards"
		case holds["after"] != env["IA"]:
			wrong = "the index still holds a token although the tag is not searchable afterwards"
		case env["NE"] && holds["before"]:
			wrong = "the replaced tag's token stays in the index"
		}
		if wrong != "" {
			var row []string
			for _, a := range atoms {
				row = append(row, fmt.Sprintf("%s=%v", a, env[a]))
			}
			bad = append(bad, fmt.Sprintf("row %s: starts with the old token %s; runs %s; %s", strings.Join(row, " "), map[bool]string{true: "indexed", false: "not indexed"}[env["V"] && env["IB"]], strings.Join(trace, ", "), wrong))
		}
	}
	var gs []string
	for _, op := range ops {
		k := "Add"
		if op.remove {
			k = "Remove"
		}
		gs = append(gs, fmt.Sprintf("%s(%s) at %s iff %s", k, op.token, c.Position(op.call.Pos()), op.guard))
	}
	legend := "V=before tag valid, IB=indexedBefore, IA=indexedAfter, NE=tokenBefore!=tokenAfter"
	if len(bad) > 0 {
		ob.Status = Violation
		ob.Detail = fmt.Sprintf("%s: index guards disagree in %d of %d rows (%s): %s", name, len(bad), rows, legend, bad[0])
		ob.Path = append(append([]string{}, gs...), bad...)
	} else {
		ob.Status = OK
		ob.Detail = fmt.Sprintf("%s: %s; right in all %d rows (%d rows with IB && !V excluded: no before tag, nothing of it is searchable); %s", name, strings.Join(gs, "; "), rows, excluded, legend)
	}
	return append(out, ob)
}
