package main

import (
	"fmt"
	"go/ast"
	"go/constant"
	"go/token"
	"go/types"
	"sort"
	"strings"

	"golang.org/x/tools/go/packages"
)

// BITFIELDS (C10): the bit-packing pairs that C10 names are mirror images of each other.
//
// For every pair the encoder is evaluated symbolically (typed AST, go/constant) into a list of
// fields `operand << shift` (the value that is returned, possibly inside a composite literal, or
// handed to binary.PutUvarint), and every decoder into a list of extractions
// `(source >> shift) & mask`. Accepted idioms, enumerated from the repository:
//   - encoder: `a<<k | b`, accumulators (`e := v<<k; e |= t`, `id <<= k; id |= v` also inside a
//     loop, which gives a repeated field), integer conversions (a conversion to a narrower
//     unsigned type bounds the field's width), locals defined once;
//   - decoder: `(x>>k)&m`, `x&m`, `x>>k`, `x >>= k` between extractions (also inside a loop),
//     masks written as constants or as `(1<<w)-1` with a constant or symbolic w;
//   - a symbolic shift amount is accepted when both sides derive it from the same packed field
//     (tile IDs: the y shift is the decoded zoom);
//   - prefix codes (EncodeGeometry): a switch over the kind on the encoder side, if/else chains
//     over `v&m ==/!= k` on the decoder side.
//
// Obligations: (encoder field) some decoder reads the field at the same shift, and the field cannot
// spill into its neighbour: by its conversion width, by its enumerated domain (`<Type>End`
// constant), by the constant arguments at all call sites, or — recorded as an `info` assumption —
// by a value-range fact the code does not establish with a mask; (decoder extraction) it reads at
// a shift where a field is packed, with a width that neither drops bits of the field nor reaches
// into the next field. Anything of another shape inside an anchored function is `undecided`.
//
// Value maps (GB postcodes). Both sides are also read as piecewise linear maps: the encoder's
// guarded assignments `if r >= lo && r <= hi { v = T(r - lo) + base }` give pieces r in [lo,hi] ->
// v = r + k; the decoder's if/else-if chain over the extracted element
// `if v >= a && v < b { … c + rune(v - a') … } else if … else { return "", false }` gives pieces
// v in [a,b) -> r = v + k' (bounds and offsets are constant expressions evaluated by go/types, so
// `10+('Z'-'A')` is 35). For every encoder piece: each value it produces lies in an accepting
// decoder interval (the violation names the first value that is produced but rejected), and the
// decoder piece is its inverse there (k' = -k). Decoder values that the encoder never produces
// are recorded as `info`.
//
// Zoom guard (tile IDs). When the encoder rejects zooms with a top-level
// `if z >= K { return … }` / `z > K` (the comparison may be an operand of ||, z may be converted),
// the accepted zooms must be exactly the zooms whose layout fits the word: zBits + 2z <= 64 and
// z < 1<<zBits, both computed from the extracted shifts. Rejecting a zoom that fits, or accepting
// one that does not, is a violation. Without a guard the range of z stays C10's stated domain.
func init() {
	register(&Rule{
		Name:  "BITFIELDS",
		IR:    "ast",
		Props: []string{"C10", "C31"}, // C31: the GB postcode pair only (each obligation carries its own Props)
		// postcode pair: 5 encoder-side + 3 decoder-side obligations + 2 alphabet pieces
		FloorBy: map[string]int{"C31": 10},
		Floor:   51, // + 2 postcode alphabet pieces; 7 generic pairs: 16 encoder fields + 18 decoder extractions + 4 postcode range/bias obligations; 9 prefix-code; 2 map-tag functions
		Doc: "for each pack/unpack pair named by C10 (type+namespace, value type, geometry prefix code, member role/type, tile IDs, lat/lng IDs, GB postcode IDs, UK ONS IDs, point tags) " +
			"the (shift, width) lists extracted from encoder and decoder by constant evaluation agree: equal shifts, decoder mask = (1<<width)-1 of the encoder's field, fields disjoint, every enumerated domain fits its field",
		Run: runBitfields,
	})
}

type cRef struct{ rel, recv, name string }

func (r cRef) String() string {
	rel := r.rel
	if rel == "" {
		rel = "b6"
	}
	if r.recv != "" {
		return fmt.Sprintf("%s.(%s).%s", rel, r.recv, r.name)
	}
	return rel + "." + r.name
}

func (r cRef) lookup(c *Ctx) (*ast.FuncDecl, *packages.Package) {
	if r.recv != "" {
		return c.LookupMethod(r.rel, r.recv, r.name)
	}
	return c.LookupFunc(r.rel, r.name)
}

type cPairSpec struct {
	label    string
	enc      cRef
	decs     []cRef
	symBound int64  // C10's bound on the value used as a symbolic shift (tile zoom <= 29); 0: none
	symWhat  string // what the bound is
	domain   func(b *cBit, sp *cPairSpec, enc *cSide, decs []*cSide, handled map[int]bool)
	// after runs when the generic field/extraction obligations are out (its keys come last, so
	// that the ordinals of the generic obligations do not move)
	after func(b *cBit, sp *cPairSpec, enc *cSide, decs []*cSide)
	props []string // nil: C10 only
}

type cSide struct {
	ref  cRef
	fd   *ast.FuncDecl
	pkg  *packages.Package
	name string
	w    *cWalker
	pack cPack      // encoder
	xs   []cExtract // decoder
}

type cBit struct {
	c     *Ctx
	keys  *cKeys
	props []string // properties of the pair being checked (nil: the rule's C10)
	out   []Obligation
	infos []Obligation // assumptions: keyed after all deciding obligations so that their ordinals stay put
}

func (b *cBit) add(fn string, pos token.Pos, status, detail string, path ...string) {
	props := b.props
	if props == nil {
		props = []string{"C10"}
	}
	if status == Info {
		b.infos = append(b.infos, Obligation{Key: fn, Pos: b.c.Position(pos), Status: status, Detail: detail, Path: path, Props: props})
		return
	}
	b.out = append(b.out, Obligation{Key: b.keys.next(fn), Pos: b.c.Position(pos), Status: status, Detail: detail, Path: path, Props: props})
}

// C10 states the tile domain ("tile IDs up to zoom 29").
const cTileMaxZoom = 29

func runBitfields(c *Ctx) []Obligation {
	b := &cBit{c: c, keys: cNewKeys()}
	pairs := []cPairSpec{
		{label: "type and namespace", enc: cRef{"ingest/compact", "", "CombineTypeAndNamespace"}, decs: []cRef{{"ingest/compact", "TypeAndNamespace", "Split"}}},
		{label: "value type", enc: cRef{"ingest/compact", "", "EncodeValueType"}, decs: []cRef{{"ingest/compact", "", "DecodeValue"}, {"ingest/compact", "", "inferValueType"}, {"ingest/compact", "MarshalledReferences", "Len"}}},
		{label: "member role and type", enc: cRef{"ingest/compact", "Members", "Marshal"}, decs: []cRef{{"ingest/compact", "Members", "Unmarshal"}}},
		{label: "tile ID", enc: cRef{"", "", "TileIDFromXYZ"}, decs: []cRef{{"", "TileID", "ToXYZ"}}, symBound: cTileMaxZoom, symWhat: "zoom", after: cTileGuard},
		{label: "lat/lng ID", enc: cRef{"ingest", "", "NewLatLngID"}, decs: []cRef{{"ingest", "", "LatLngFromID"}}},
		{label: "GB postcode ID", enc: cRef{"", "", "PointIDFromGBPostcode"}, decs: []cRef{{"", "", "PostcodeFromPointID"}}, domain: cPostcodeDomain, after: cPostcodeAlphabet,
			// C31 (feature IDs survive every encoding) names the postcode IDs' textual form
			props: []string{"C10", "C31"}},
		{label: "UK ONS code ID", enc: cRef{"", "", "FeatureIDFromUKONSCode"}, decs: []cRef{{"", "", "UKONSCodeFromFeatureID"}}},
	}
	for i := range pairs {
		b.props = pairs[i].props
		b.pair(&pairs[i])
		b.props = nil
	}
	b.geometry()
	b.tags()
	for _, o := range b.infos {
		o.Key = b.keys.next(o.Key)
		b.out = append(b.out, o)
	}
	return b.out
}

// ---------------------------------------------------------------------------------------------
// generic pairs

func (b *cBit) side(ref cRef, decoder bool) (*cSide, string) {
	fd, p := ref.lookup(b.c)
	if fd == nil || p == nil || fd.Body == nil {
		return nil, "anchor " + ref.String() + " not found"
	}
	s := &cSide{ref: ref, fd: fd, pkg: p, name: b.c.FuncName(p, fd)}
	s.w = cWalkFunc(b.c, p, fd, decoder)
	return s, ""
}

func (b *cBit) pair(sp *cPairSpec) {
	enc, why := b.side(sp.enc, false)
	if enc == nil {
		b.add(sp.enc.String(), token.NoPos, Undecided, why)
		return
	}
	// the pack: the sinks with at least two fields; all such sinks must agree
	var packs []cPack
	seen := map[string]bool{}
	for _, s := range enc.w.sinks {
		pk := cPackOf(enc.w, s)
		if len(pk.fields) < 2 {
			continue
		}
		if d := pk.describe(); !seen[d] {
			seen[d] = true
			packs = append(packs, pk)
		}
	}
	if len(packs) != 1 {
		b.add(enc.name, enc.fd.Pos(), Undecided, fmt.Sprintf("%s: expected exactly one packed value (returned or written with PutUvarint) with two or more fields, found %d", sp.label, len(packs)))
		return
	}
	enc.pack = packs[0]
	pk := enc.pack
	for _, k := range pk.consts {
		b.add(enc.name, k.pos, Undecided, fmt.Sprintf("%s: constant bits %#x are OR-ed into the packed value; the rule does not model constants in this pair", sp.label, k.cval))
	}
	var decs []*cSide
	for _, r := range sp.decs {
		d, why := b.side(r, true)
		if d == nil {
			b.add(r.String(), token.NoPos, Undecided, why)
			continue
		}
		for _, ch := range d.w.extracts {
			d.xs = append(d.xs, cExtractOf(d.w, ch))
		}
		if len(d.xs) == 0 {
			b.add(d.name, d.fd.Pos(), Undecided, fmt.Sprintf("%s: no shift/mask extraction found in the decoder", sp.label))
		}
		decs = append(decs, d)
	}

	matchField := func(x cExtract) int {
		for i, f := range pk.fields {
			if f.bad == "" && f.shift.eq(x.shift) && f.repeated == x.repeated && (!f.repeated || f.stride.eq(x.stride)) {
				return i
			}
		}
		return -1
	}
	handled := map[int]bool{}
	if sp.domain != nil {
		sp.domain(b, sp, enc, decs, handled)
	}

	// encoder fields
	encFn := cFuncObj(enc.pkg, enc.fd)
	for i, f := range pk.fields {
		head := fmt.Sprintf("%s: field %s packed at shift %s", sp.label, f.text, f.shift)
		if f.repeated {
			head += fmt.Sprintf(", repeated every %s bits", f.stride)
		}
		if f.bad != "" {
			b.add(enc.name, f.pos, Undecided, head+": "+f.bad)
			continue
		}
		var readers []string
		for _, d := range decs {
			for _, x := range d.xs {
				if x.bad == "" && matchField(x) == i {
					readers = append(readers, fmt.Sprintf("%s (%s)", x.text, b.c.Position(x.pos)))
				}
			}
		}
		if len(readers) == 0 {
			b.add(enc.name, f.pos, Violation, head+": no decoder extraction reads at this shift (encoder packs "+pk.describe()+")")
			continue
		}
		if f.smear {
			b.add(enc.name, f.pos, Violation, head+": the operand has a sized signed type and is sign-extended into the packed word, so a negative value sets every bit above the field")
			continue
		}
		slot, slotOK := pk.slotAmt(i)
		status, note := OK, ""
		var assume string
		isSymSource := false
		if f.shift.isConst() {
			name := fmt.Sprintf("value of the field at shift %d", f.shift.k)
			for _, g := range pk.fields {
				if g.shift.sym == name {
					isSymSource = true
				}
			}
		}
		switch {
		case slotOK && slot.isConst():
			w := int(slot.k)
			switch {
			case w <= 0:
				status, note = Violation, fmt.Sprintf("no room: slot of %d bits", w)
			case f.eff <= w:
				note = fmt.Sprintf("at most %d bits wide by its conversions, slot %d bits", f.eff, w)
			case f.claimed && !f.top:
				status, note = Violation, fmt.Sprintf("the encoder narrows the operand to %d bits but only %d bits separate it from the next field: the fields overlap", f.eff, w)
			default:
				var proofs []string
				if isSymSource && sp.symBound > 0 {
					if w < 63 && sp.symBound >= int64(1)<<uint(w) {
						status = Violation
						proofs = append(proofs, fmt.Sprintf("C10's largest %s %d does not fit %d bits", sp.symWhat, sp.symBound, w))
					} else {
						proofs = append(proofs, fmt.Sprintf("C10's largest %s %d < 1<<%d", sp.symWhat, sp.symBound, w))
					}
				}
				if name, end, ok := cEnumEnd(f.leafType); ok {
					if w < 63 && end > int64(1)<<uint(w) {
						status = Violation
						proofs = append(proofs, fmt.Sprintf("%s = %d exceeds 1<<%d", name, end, w))
					} else {
						proofs = append(proofs, fmt.Sprintf("%s = %d <= 1<<%d", name, end, w))
					}
				}
				if idx := cParamIndex(encFn, f.obj); idx >= 0 {
					n, worst, worstPos, nonConst := 0, int64(-1), token.NoPos, 0
					for _, cs := range cCallSites(b.c, encFn) {
						if idx >= len(cs.call.Args) {
							continue
						}
						if v, ok := cConstI64(cs.pkg.TypesInfo, cs.call.Args[idx]); ok {
							n++
							if v > worst || v < 0 {
								worst, worstPos = v, cs.call.Args[idx].Pos()
							}
							if v < 0 {
								break
							}
						} else {
							nonConst++
						}
					}
					if n > 0 {
						if worst < 0 || (w < 63 && worst >= int64(1)<<uint(w)) {
							status = Violation
							proofs = append(proofs, fmt.Sprintf("constant argument %d at %s does not fit %d bits", worst, b.c.Position(worstPos), w))
						} else {
							proofs = append(proofs, fmt.Sprintf("all %d constant arguments at call sites fit (largest %d)", n, worst))
						}
					}
					if nonConst > 0 && len(proofs) == 0 {
						assume = fmt.Sprintf("%d call sites pass a non-constant %s", nonConst, f.text)
					}
				}
				if handled[i] {
					proofs = append(proofs, "range checked by the pair's own domain obligations")
				}
				if len(proofs) == 0 {
					if f.top {
						assume = "top field: bits shifted out of the word would be lost"
					} else if assume == "" {
						assume = "no mask or narrowing conversion bounds it"
					}
				}
				note = fmt.Sprintf("slot %d bits", w)
				if len(proofs) > 0 {
					note += "; " + strings.Join(proofs, "; ")
				} else {
					note += "; its range is assumed (see the info obligation)"
				}
			}
		case slotOK: // symbolic slot: the field below a field at a symbolic shift
			note = fmt.Sprintf("slot is %s bits", slot)
			assume = fmt.Sprintf("needs %s < 1<<(%s)", f.text, slot)
		case !f.shift.isConst() && sp.symBound > 0 && i > 0 && pk.fields[i-1].shift.isConst():
			// field at symbolic shift s, read back with width s: at the bound B it occupies [B, 2B)
			next := pk.fields[i-1].shift.k
			if 2*sp.symBound > next {
				status, note = Violation, fmt.Sprintf("at %s %d the field occupies bits [%d,%d) and overlaps the field at shift %d", sp.symWhat, sp.symBound, sp.symBound, 2*sp.symBound, next)
			} else {
				note = fmt.Sprintf("up to C10's largest %s %d the field occupies at most bits [%d,%d), below the next field at %d", sp.symWhat, sp.symBound, sp.symBound, 2*sp.symBound, next)
			}
			assume = fmt.Sprintf("needs %s < 1<<(%s)", f.text, f.shift)
		default:
			status, note = Undecided, "cannot compute the room above this field"
		}
		b.add(enc.name, f.pos, status, head+": read by "+strings.Join(readers, ", ")+"; "+note)
		if assume != "" && status == OK {
			b.add(enc.name, f.pos, Info, head+": assumption not established by a mask: "+assume)
		}
	}

	// decoder extractions
	for _, d := range decs {
		for _, x := range d.xs {
			head := fmt.Sprintf("%s: %s", sp.label, x.text)
			if x.bad != "" {
				b.add(d.name, x.pos, Undecided, head+": "+x.bad)
				continue
			}
			i := matchField(x)
			if i < 0 {
				rep := ""
				if x.repeated {
					rep = fmt.Sprintf(" (repeated every %s bits)", x.stride)
				}
				b.add(d.name, x.pos, Violation, fmt.Sprintf("%s reads at shift %s%s but %s packs %s", head, x.shift, rep, enc.name, pk.describe()))
				continue
			}
			f := pk.fields[i]
			slot, slotOK := pk.slotAmt(i)
			switch {
			case x.width.isConst() && slotOK && slot.isConst():
				lo := int64(f.eff)
				if slot.k < lo {
					lo = slot.k
				}
				switch {
				case x.width.k < lo:
					b.add(d.name, x.pos, Violation, fmt.Sprintf("%s reads %d bits at shift %s but the encoder's field %s is %d bits wide: bits are dropped", head, x.width.k, x.shift, f.text, lo))
				case x.width.k > slot.k:
					b.add(d.name, x.pos, Violation, fmt.Sprintf("%s reads %d bits at shift %s but only %d bits separate field %s from the next field: it reads into its neighbour", head, x.width.k, x.shift, slot.k, f.text))
				default:
					b.add(d.name, x.pos, OK, fmt.Sprintf("%s reads %d bits at shift %s = field %s (slot %d bits)", head, x.width.k, x.shift, f.text, slot.k))
				}
			case !x.width.isConst() && slotOK && slot.eq(x.width):
				b.add(d.name, x.pos, OK, fmt.Sprintf("%s reads (%s) bits at shift %s = field %s, whose slot is the same amount", head, x.width, x.shift, f.text))
			case !x.width.isConst() && !f.shift.isConst() && f.shift.eq(x.width) && sp.symBound > 0:
				b.add(d.name, x.pos, OK, fmt.Sprintf("%s reads (%s) bits at shift (%s) = field %s", head, x.width, x.shift, f.text))
			default:
				b.add(d.name, x.pos, Undecided, fmt.Sprintf("%s: cannot compare the width read (%s) with the room of field %s", head, x.width, f.text))
			}
		}
	}
	if sp.after != nil {
		sp.after(b, sp, enc, decs)
	}
}

// cEnumEnd finds the constant `<Type>End` of a named integer type: its enumerated domain is [0, End).
func cEnumEnd(t types.Type) (string, int64, bool) {
	n := namedOf(t)
	if n == nil || n.Obj().Pkg() == nil {
		return "", 0, false
	}
	k, ok := n.Obj().Pkg().Scope().Lookup(n.Obj().Name() + "End").(*types.Const)
	if !ok || !types.Identical(k.Type(), n) {
		return "", 0, false
	}
	v, ok := constantInt64(k)
	if !ok {
		return "", 0, false
	}
	return k.Name(), v, true
}

func constantInt64(k *types.Const) (int64, bool) {
	v := constant.ToInt(k.Val())
	if v.Kind() != constant.Int {
		return 0, false
	}
	return constant.Int64Val(v)
}

// ---------------------------------------------------------------------------------------------
// GB postcodes: alphabet and length ranges, total width, length bias

// cPostcodeDomain checks the value ranges of the two postcode fields by a small interval
// evaluation of the encoder (no masks establish them): the repeated element field holds
// max(assignments to the element variable) under the guards that enclose them, the length field
// holds len(s)-K under the rejecting length guard; all elements plus the length fit 64 bits; the
// decoder adds the same K back.
func cPostcodeDomain(b *cBit, sp *cPairSpec, enc *cSide, decs []*cSide, handled map[int]bool) {
	info := enc.pkg.TypesInfo
	pk := enc.pack
	var maxLen int64 = -1
	var lenArg ast.Expr
	var bias int64
	for i, f := range pk.fields {
		if f.bad != "" {
			continue
		}
		head := fmt.Sprintf("%s: field %s", sp.label, f.text)
		switch {
		case f.repeated && f.obj != nil && f.slot > 0:
			// element field: bound every plain assignment to the variable
			handled[i] = true
			hi, n, why := cMaxAssigned(info, enc.fd, f.obj)
			switch {
			case why != "":
				b.add(enc.name, f.pos, Undecided, head+": cannot bound the element value: "+why)
			case hi >= int64(1)<<uint(f.slot):
				b.add(enc.name, f.pos, Violation, fmt.Sprintf("%s: the alphabet has %d values but an element has only %d bits", head, hi+1, f.slot))
			default:
				b.add(enc.name, f.pos, OK, fmt.Sprintf("%s: %d guarded assignments give values 0..%d, alphabet of %d <= 1<<%d", head, n, hi, hi+1, f.slot))
			}
		case !f.repeated && f.slot > 0:
			sub, ok := cStripConv(info, f.leaf).(*ast.BinaryExpr)
			if !ok || sub.Op != token.SUB {
				continue
			}
			call, ok := ast.Unparen(sub.X).(*ast.CallExpr)
			k, kOK := cConstI64(info, sub.Y)
			if !ok || !kOK || !isBuiltin(info, call, "len") || len(call.Args) != 1 {
				continue
			}
			handled[i] = true
			lo, hi, why := cLenGuard(info, enc.fd, call.Args[0], f.pos)
			switch {
			case why != "":
				b.add(enc.name, f.pos, Undecided, head+": "+why)
			case lo-k < 0:
				b.add(enc.name, f.pos, Violation, fmt.Sprintf("%s: accepted lengths start at %d, below the bias %d", head, lo, k))
			case hi-k >= int64(1)<<uint(f.slot):
				b.add(enc.name, f.pos, Violation, fmt.Sprintf("%s: accepted lengths %d..%d give values up to %d, which need more than %d bits", head, lo, hi, hi-k, f.slot))
			default:
				b.add(enc.name, f.pos, OK, fmt.Sprintf("%s: accepted lengths %d..%d give values %d..%d < 1<<%d", head, lo, hi, lo-k, hi-k, f.slot))
				maxLen, lenArg, bias = hi, call.Args[0], k
			}
		}
	}
	// total width
	for _, f := range pk.fields {
		if !f.repeated || f.bad != "" || !f.shift.isConst() || !f.stride.isConst() {
			continue
		}
		head := fmt.Sprintf("%s: repeated field %s", sp.label, f.text)
		rs, ok := cEnclosingRange(enc.fd, f.pos)
		if maxLen < 0 || !ok || !sameExpr(info, rs.X, lenArg) {
			b.add(enc.name, f.pos, Undecided, head+": cannot bound the number of repetitions (expected a range over the string whose length is guarded)")
			continue
		}
		total := f.shift.k + f.stride.k*maxLen
		if total > int64(pk.W) {
			b.add(enc.name, f.pos, Violation, fmt.Sprintf("%s: %d elements of %d bits above shift %d need %d bits, more than %d", head, maxLen, f.stride.k, f.shift.k, total, pk.W))
		} else {
			b.add(enc.name, f.pos, OK, fmt.Sprintf("%s: at most %d elements of %d bits above shift %d = %d bits <= %d", head, maxLen, f.stride.k, f.shift.k, total, pk.W))
		}
	}
	// the decoder adds the same bias to the length field
	if maxLen >= 0 {
		for _, d := range decs {
			for _, x := range d.xs {
				if x.bad != "" || x.repeated || !x.shift.isConst() || x.shift.k != 0 {
					continue
				}
				var got *int64
				ast.Inspect(d.fd.Body, func(n ast.Node) bool {
					be, ok := n.(*ast.BinaryExpr)
					if !ok || be.Op != token.ADD {
						return true
					}
					for _, pr := range [][2]ast.Expr{{be.X, be.Y}, {be.Y, be.X}} {
						if x.expr != nil && cStripConv(d.pkg.TypesInfo, pr[0]) == cStripConv(d.pkg.TypesInfo, x.expr) {
							if v, ok := cConstI64(d.pkg.TypesInfo, pr[1]); ok {
								got = &v
							}
						}
					}
					return true
				})
				head := fmt.Sprintf("%s: %s", sp.label, x.text)
				switch {
				case got == nil:
					b.add(d.name, x.pos, Undecided, head+": expected the length field to be added to a constant bias")
				case *got != bias:
					b.add(d.name, x.pos, Violation, fmt.Sprintf("%s: the decoder adds %d to the length field but the encoder subtracted %d", head, *got, bias))
				default:
					b.add(d.name, x.pos, OK, fmt.Sprintf("%s: decoder adds the bias %d the encoder subtracted", head, bias))
				}
			}
		}
	}
}

func cEnclosingRange(fd *ast.FuncDecl, pos token.Pos) (*ast.RangeStmt, bool) {
	var hit *ast.RangeStmt
	ast.Inspect(fd.Body, func(n ast.Node) bool {
		if rs, ok := n.(*ast.RangeStmt); ok && rs.Body.Pos() <= pos && pos < rs.Body.End() {
			hit = rs
		}
		return true
	})
	return hit, hit != nil
}

// cBounds collects `v >= lo`, `v <= hi` style conjuncts of a condition.
func cBounds(info *types.Info, cond ast.Expr, into map[types.Object]*[2]*int64) {
	be, ok := ast.Unparen(cond).(*ast.BinaryExpr)
	if !ok {
		return
	}
	if be.Op == token.LAND {
		cBounds(info, be.X, into)
		cBounds(info, be.Y, into)
		return
	}
	set := func(id *ast.Ident, op token.Token, k int64) {
		obj := info.ObjectOf(id)
		if obj == nil {
			return
		}
		e := into[obj]
		if e == nil {
			e = &[2]*int64{}
			into[obj] = e
		}
		switch op {
		case token.GEQ:
			e[0] = &k
		case token.GTR:
			k++
			e[0] = &k
		case token.LEQ:
			e[1] = &k
		case token.LSS:
			k--
			e[1] = &k
		case token.EQL:
			k2 := k
			e[0], e[1] = &k, &k2
		}
	}
	flip := map[token.Token]token.Token{token.GEQ: token.LEQ, token.GTR: token.LSS, token.LEQ: token.GEQ, token.LSS: token.GTR, token.EQL: token.EQL}
	if id, ok := ast.Unparen(be.X).(*ast.Ident); ok {
		if k, ok := cConstI64(info, be.Y); ok {
			set(id, be.Op, k)
		}
	} else if id, ok := ast.Unparen(be.Y).(*ast.Ident); ok {
		if k, ok := cConstI64(info, be.X); ok {
			if op, ok := flip[be.Op]; ok {
				set(id, op, k)
			}
		}
	}
}

// cInterval evaluates lo..hi of an integer expression built from bounded identifiers, constants,
// +, - and conversions.
func cInterval(info *types.Info, e ast.Expr, bounds map[types.Object]*[2]*int64) (int64, int64, bool) {
	e = cStripConv(info, e)
	if k, ok := cConstI64(info, e); ok {
		return k, k, true
	}
	switch x := e.(type) {
	case *ast.Ident:
		if bnd := bounds[info.ObjectOf(x)]; bnd != nil && bnd[0] != nil && bnd[1] != nil {
			return *bnd[0], *bnd[1], true
		}
	case *ast.BinaryExpr:
		alo, ahi, ok1 := cInterval(info, x.X, bounds)
		blo, bhi, ok2 := cInterval(info, x.Y, bounds)
		if ok1 && ok2 {
			switch x.Op {
			case token.ADD:
				return alo + blo, ahi + bhi, true
			case token.SUB:
				return alo - bhi, ahi - blo, true
			}
		}
	}
	return 0, 0, false
}

// cMaxAssigned bounds a variable by all its plain assignments, each under the conditions of the
// if statements whose then-branch encloses it.
func cMaxAssigned(info *types.Info, fd *ast.FuncDecl, obj types.Object) (hi int64, n int, why string) {
	hi = 0 // the zero value
	ast.Inspect(fd.Body, func(nd ast.Node) bool {
		as, ok := nd.(*ast.AssignStmt)
		if !ok || why != "" {
			return true
		}
		for i, l := range as.Lhs {
			id, ok := ast.Unparen(l).(*ast.Ident)
			if !ok || info.ObjectOf(id) != obj {
				continue
			}
			if as.Tok != token.ASSIGN && as.Tok != token.DEFINE || len(as.Lhs) != len(as.Rhs) {
				why = "the variable is updated by " + as.Tok.String()
				return false
			}
			bounds := map[types.Object]*[2]*int64{}
			chain := enclosing(fd.Body, as)
			for j, anc := range chain {
				if is, ok := anc.(*ast.IfStmt); ok && j+1 < len(chain) && chain[j+1] == ast.Node(is.Body) {
					cBounds(info, is.Cond, bounds)
				}
			}
			lo, h, ok := cInterval(info, as.Rhs[i], bounds)
			if !ok {
				why = "cannot bound " + types.ExprString(as.Rhs[i])
				return false
			}
			if lo < 0 {
				why = fmt.Sprintf("%s may be negative", types.ExprString(as.Rhs[i]))
				return false
			}
			if h > hi {
				hi = h
			}
			n++
		}
		return true
	})
	if why == "" && n == 0 {
		why = "no assignment to the element variable found"
	}
	return hi, n, why
}

// cLenGuard finds the rejecting guard `if len(s) < lo || len(s) > hi { return … }` before pos.
func cLenGuard(info *types.Info, fd *ast.FuncDecl, arg ast.Expr, pos token.Pos) (lo, hi int64, why string) {
	var loP, hiP *int64
	var guardEnd token.Pos
	var disj func(e ast.Expr)
	disj = func(e ast.Expr) {
		be, ok := ast.Unparen(e).(*ast.BinaryExpr)
		if !ok {
			return
		}
		if be.Op == token.LOR {
			disj(be.X)
			disj(be.Y)
			return
		}
		call, ok := ast.Unparen(be.X).(*ast.CallExpr)
		if !ok || !isBuiltin(info, call, "len") || len(call.Args) != 1 || !sameExpr(info, call.Args[0], arg) {
			return
		}
		k, ok := cConstI64(info, be.Y)
		if !ok {
			return
		}
		switch be.Op { // the guard rejects, so the accepted range is the complement
		case token.LSS:
			loP = &k
		case token.LEQ:
			k++
			loP = &k
		case token.GTR:
			hiP = &k
		case token.GEQ:
			k--
			hiP = &k
		case token.NEQ:
			k2 := k
			loP, hiP = &k, &k2
		}
	}
	for _, s := range fd.Body.List {
		is, ok := s.(*ast.IfStmt)
		if !ok || is.Pos() > pos || is.Else != nil || len(is.Body.List) == 0 {
			continue
		}
		if _, isRet := is.Body.List[len(is.Body.List)-1].(*ast.ReturnStmt); !isRet {
			continue
		}
		disj(is.Cond)
		if is.End() > guardEnd {
			guardEnd = is.End()
		}
	}
	if loP == nil || hiP == nil {
		return 0, 0, "no rejecting guard bounds len(" + types.ExprString(arg) + ") on both sides"
	}
	// the guarded string must not change between the guard and the use
	changed := false
	ast.Inspect(fd.Body, func(n ast.Node) bool {
		if as, ok := n.(*ast.AssignStmt); ok && as.Pos() > guardEnd {
			for _, l := range as.Lhs {
				if sameExpr(info, l, arg) {
					changed = true
				}
			}
		}
		return true
	})
	if changed {
		return 0, 0, types.ExprString(arg) + " is reassigned after its length guard"
	}
	return *loP, *hiP, ""
}

// ---------------------------------------------------------------------------------------------
// geometry prefix code

type cGeoCase struct {
	kind     int64
	kindText string
	shift    int64
	code     uint64
	pos      token.Pos
	bad      string
}

// geometry checks EncodeGeometry against DecodeGeometryEncoding / DecodeGeometryLen: for every
// kind the encoder writes `len<<s | code`; the code must fit below s, and both decoders, followed
// on the code bits alone, must return that kind and shift by that s.
func (b *cBit) geometry() {
	rel := "ingest/compact"
	encRef, kindRef, lenRef := cRef{rel, "", "EncodeGeometry"}, cRef{rel, "", "DecodeGeometryEncoding"}, cRef{rel, "", "DecodeGeometryLen"}
	efd, p := encRef.lookup(b.c)
	if efd == nil {
		b.add(encRef.String(), token.NoPos, Undecided, "anchor "+encRef.String()+" not found")
		return
	}
	info := p.TypesInfo
	ename := b.c.FuncName(p, efd)
	cases, why := cGeoCases(b.c, p, efd)
	if why != "" {
		b.add(ename, efd.Pos(), Undecided, "geometry prefix code: "+why)
		return
	}
	type dec struct {
		name string
		fd   *ast.FuncDecl
		ds   []cDecision
		prm  types.Object
	}
	load := func(r cRef) *dec {
		fd, _ := r.lookup(b.c)
		if fd == nil {
			b.add(r.String(), token.NoPos, Undecided, "anchor "+r.String()+" not found")
			return nil
		}
		d := &dec{name: b.c.FuncName(p, fd), fd: fd}
		if fd.Type.Params == nil || len(fd.Type.Params.List) != 1 || len(fd.Type.Params.List[0].Names) != 1 {
			b.add(d.name, fd.Pos(), Undecided, "geometry prefix code: expected one parameter")
			return nil
		}
		d.prm = info.ObjectOf(fd.Type.Params.List[0].Names[0])
		ds, err := cDecisions(info, fd.Body, d.prm)
		if err != nil {
			b.add(d.name, fd.Pos(), Undecided, "geometry prefix code: "+err.Error())
			return nil
		}
		d.ds = ds
		return d
	}
	kd, ld := load(kindRef), load(lenRef)
	for _, gc := range cases {
		head := fmt.Sprintf("geometry prefix code: kind %s", gc.kindText)
		if gc.bad != "" {
			b.add(ename, gc.pos, Undecided, head+": "+gc.bad)
			continue
		}
		if gc.code >= uint64(1)<<uint(gc.shift) {
			b.add(ename, gc.pos, Violation, fmt.Sprintf("%s: code %#b does not fit below the length shifted by %d", head, gc.code, gc.shift))
		} else {
			b.add(ename, gc.pos, OK, fmt.Sprintf("%s: written as len<<%d | %#b", head, gc.shift, gc.code))
		}
		if kd != nil {
			path, err := cDecide(kd.ds, gc.code, int(gc.shift))
			switch {
			case err != nil:
				b.add(kd.name, kd.fd.Pos(), Violation, head+": "+err.Error())
			default:
				got, ok := cConstI64(info, path.ret)
				switch {
				case !ok:
					b.add(kd.name, path.pos, Undecided, head+": the decoder returns a non-constant")
				case got != gc.kind:
					b.add(kd.name, path.pos, Violation, fmt.Sprintf("%s: code %#b (width %d) decodes to %s", head, gc.code, gc.shift, types.ExprString(path.ret)))
				default:
					b.add(kd.name, path.pos, OK, fmt.Sprintf("%s: code %#b (width %d) decodes to %s, looking at code bits only", head, gc.code, gc.shift, types.ExprString(path.ret)))
				}
			}
		}
		if ld != nil {
			path, err := cDecide(ld.ds, gc.code, int(gc.shift))
			switch {
			case err != nil:
				b.add(ld.name, ld.fd.Pos(), Violation, head+": "+err.Error())
			default:
				ev := cNewEval(b.c, info)
				chains := ev.eval(path.ret)
				okShape := false
				var got cAmt
				if len(chains) == 1 && !chains[0].isConst {
					if id, isID := cStripConv(info, chains[0].leaf).(*ast.Ident); isID && info.ObjectOf(id) == ld.prm {
						sh := chains[0].shape()
						if len(sh) == 1 && sh[0].kind == "shr" && sh[0].amt.isConst() {
							okShape, got = true, sh[0].amt
						} else if len(sh) == 0 {
							okShape, got = true, cK(0)
						}
					}
				}
				switch {
				case !okShape:
					b.add(ld.name, path.pos, Undecided, fmt.Sprintf("%s: expected `argument >> k`, found %s", head, types.ExprString(path.ret)))
				case got.k != gc.shift:
					b.add(ld.name, path.pos, Violation, fmt.Sprintf("%s: the length is written at shift %d but code %#b is decoded with a shift of %d", head, gc.shift, gc.code, got.k))
				default:
					b.add(ld.name, path.pos, OK, fmt.Sprintf("%s: code %#b selects a shift of %d, as written", head, gc.code, got.k))
				}
			}
		}
	}
}

// cGeoCases reads the cases of the encoder's switch over its kind parameter.
func cGeoCases(c *Ctx, p *packages.Package, fd *ast.FuncDecl) ([]cGeoCase, string) {
	info := p.TypesInfo
	var sw *ast.SwitchStmt
	for _, s := range fd.Body.List {
		if x, ok := s.(*ast.SwitchStmt); ok {
			if sw != nil {
				return nil, "several switch statements in the encoder"
			}
			sw = x
		}
	}
	if sw == nil || sw.Tag == nil {
		return nil, "expected a switch over the kind parameter in the encoder"
	}
	tag, ok := ast.Unparen(sw.Tag).(*ast.Ident)
	if !ok {
		return nil, "the switch tag is not a parameter"
	}
	if _, isParam := info.ObjectOf(tag).(*types.Var); !isParam || cParamIndex(cFuncObj(p, fd), info.ObjectOf(tag)) < 0 {
		return nil, "the switch tag is not a parameter"
	}
	var out []cGeoCase
	for _, cc := range sw.Body.List {
		cl := cc.(*ast.CaseClause)
		if cl.List == nil {
			continue // default
		}
		// the packed value: the single assignment or return of an integer expression in the clause
		var packed ast.Expr
		n := 0
		for _, s := range cl.Body {
			switch x := s.(type) {
			case *ast.AssignStmt:
				if len(x.Rhs) == 1 && (x.Tok == token.ASSIGN || x.Tok == token.DEFINE) {
					packed = x.Rhs[0]
					n++
				}
			case *ast.ReturnStmt:
				if len(x.Results) == 1 {
					packed = x.Results[0]
					n++
				}
			}
		}
		for _, k := range cl.List {
			gc := cGeoCase{kindText: types.ExprString(k), pos: cl.Pos()}
			kv, ok := cConstI64(info, k)
			if !ok {
				gc.bad = "non-constant case"
				out = append(out, gc)
				continue
			}
			gc.kind = kv
			if n != 1 {
				gc.bad = "expected exactly one assignment or return of the packed value in the case"
				out = append(out, gc)
				continue
			}
			ev := cNewEval(c, info)
			var field *cChain
			for _, ch := range ev.eval(packed) {
				ch := ch
				switch {
				case ch.bad != "":
					gc.bad = ch.bad
				case ch.isConst:
					gc.code |= ch.cval
				case field != nil:
					gc.bad = "more than one non-constant operand"
				default:
					field = &ch
				}
			}
			if gc.bad == "" {
				if field == nil {
					gc.bad = "no length operand"
				} else {
					sh := field.shape()
					switch {
					case len(sh) == 0:
						gc.shift = 0
					case len(sh) == 1 && sh[0].kind == "shl" && sh[0].amt.isConst():
						gc.shift = sh[0].amt.k
					default:
						gc.bad = "length operand is not `len << k`: " + cShapeString(sh)
					}
				}
			}
			out = append(out, gc)
		}
	}
	if len(out) == 0 {
		return nil, "no cases in the encoder's switch"
	}
	return out, ""
}

// ---------------------------------------------------------------------------------------------
// map tags: every constant passed as an encoding.Tag in ingest/compact fits the tag bits that the
// index builder gives to NewUint64MapBuilder.

func (b *cBit) tags() {
	const encPath = ModulePath + "/encoding"
	p := b.c.Pkg("ingest/compact")
	if p == nil {
		b.add("ingest/compact", token.NoPos, Undecided, "package ingest/compact not loaded")
		return
	}
	info := p.TypesInfo
	// the tag-bits table: second argument of encoding.NewUint64MapBuilder, an index into a package
	// variable initialised with a map literal of constants
	maxBits, found := int64(-1), false
	var tablePos token.Pos
	tableName := ""
	for _, fd := range b.c.FuncDecls(p) {
		ast.Inspect(fd.Body, func(n ast.Node) bool {
			call, ok := n.(*ast.CallExpr)
			if !ok {
				return true
			}
			f := calleeFunc(info, call)
			if f == nil || f.Pkg() == nil || f.Pkg().Path() != encPath || f.Name() != "NewUint64MapBuilder" || len(call.Args) != 2 {
				return true
			}
			found = true
			if v, ok := cConstI64(info, call.Args[1]); ok {
				if v > maxBits {
					maxBits, tablePos, tableName = v, call.Args[1].Pos(), "constant tag bits"
				}
				return true
			}
			ix, ok := cStripConv(info, call.Args[1]).(*ast.IndexExpr)
			if !ok {
				return true
			}
			id, ok := ast.Unparen(ix.X).(*ast.Ident)
			if !ok {
				return true
			}
			v, ok := info.ObjectOf(id).(*types.Var)
			if !ok || v.Parent() != p.Types.Scope() {
				return true
			}
			for _, file := range p.Syntax {
				for _, d := range file.Decls {
					gd, ok := d.(*ast.GenDecl)
					if !ok || gd.Tok != token.VAR {
						continue
					}
					for _, sp := range gd.Specs {
						vs := sp.(*ast.ValueSpec)
						for i, nm := range vs.Names {
							if info.Defs[nm] != types.Object(v) || i >= len(vs.Values) {
								continue
							}
							lit, ok := ast.Unparen(vs.Values[i]).(*ast.CompositeLit)
							if !ok {
								continue
							}
							all := true
							m := int64(-1)
							for _, el := range lit.Elts {
								kv, ok := el.(*ast.KeyValueExpr)
								if !ok {
									all = false
									continue
								}
								val, ok := cConstI64(info, kv.Value)
								if !ok {
									all = false
									continue
								}
								if val > m {
									m = val
								}
							}
							if all && m > maxBits {
								maxBits, tablePos, tableName = m, lit.Pos(), v.Name()
							}
						}
					}
				}
			}
			return true
		})
	}
	if !found || maxBits < 0 {
		b.add("ingest/compact", token.NoPos, Undecided, "map tags: cannot find the tag bits handed to encoding.NewUint64MapBuilder (expected a constant or an index into a package-level map literal of constants)")
		return
	}
	for _, fd := range b.c.FuncDecls(p) {
		name := b.c.FuncName(p, fd)
		vals := map[int64]bool{}
		var first token.Pos
		var worst int64 = -1
		var worstPos token.Pos
		ast.Inspect(fd.Body, func(n ast.Node) bool {
			call, ok := n.(*ast.CallExpr)
			if !ok {
				return true
			}
			ft := info.TypeOf(call.Fun)
			if ft == nil {
				return true
			}
			sig, ok := ft.Underlying().(*types.Signature)
			if !ok || sig.Variadic() {
				return true
			}
			for i := 0; i < sig.Params().Len() && i < len(call.Args); i++ {
				if !isNamed(sig.Params().At(i).Type(), encPath, "Tag") {
					continue
				}
				if _, isPtr := sig.Params().At(i).Type().(*types.Pointer); isPtr {
					continue
				}
				v, ok := cConstI64(info, call.Args[i])
				if !ok {
					continue
				}
				if first == token.NoPos {
					first = call.Args[i].Pos()
				}
				vals[v] = true
				if v > worst || v < 0 {
					worst, worstPos = v, call.Args[i].Pos()
				}
			}
			return true
		})
		if len(vals) == 0 || (len(vals) == 1 && vals[0]) {
			continue // tag 0 fits any width
		}
		var list []string
		var ks []int64
		for v := range vals {
			ks = append(ks, v)
		}
		sort.Slice(ks, func(i, j int) bool { return ks[i] < ks[j] })
		for _, v := range ks {
			list = append(list, fmt.Sprint(v))
		}
		if worst < 0 || worst >= int64(1)<<uint(maxBits) {
			b.add(name, worstPos, Violation, fmt.Sprintf("map tags: constant tag %d does not fit the %d tag bits of %s (%s)", worst, maxBits, tableName, b.c.Position(tablePos)))
		} else {
			b.add(name, first, OK, fmt.Sprintf("map tags: constant tags {%s} < 1<<%d, the largest tag width in %s (%s)", strings.Join(list, ","), maxBits, tableName, b.c.Position(tablePos)))
		}
	}
}

// ---------------------------------------------------------------------------------------------
// GB postcodes: the decoder accepts and inverts every element value the encoder produces

type cPiece struct {
	lo, hi int64 // inclusive interval of the input
	k      int64 // output = input + k
	pos    token.Pos
	text   string
}

// cLinear reads e as `x + k` for the object x (conversions are transparent).
func cLinear(info *types.Info, e ast.Expr, x types.Object) (int64, bool) {
	e = cStripConv(info, e)
	switch y := e.(type) {
	case *ast.Ident:
		if info.ObjectOf(y) == x {
			return 0, true
		}
	case *ast.BinaryExpr:
		if y.Op != token.ADD && y.Op != token.SUB {
			return 0, false
		}
		if k, ok := cConstI64(info, y.Y); ok {
			if a, ok := cLinear(info, y.X, x); ok {
				if y.Op == token.SUB {
					return a - k, true
				}
				return a + k, true
			}
		}
		if k, ok := cConstI64(info, y.X); ok && y.Op == token.ADD {
			if a, ok := cLinear(info, y.Y, x); ok {
				return a + k, true
			}
		}
	}
	return 0, false
}

// cEncoderPieces: the guarded plain assignments to the element variable, each linear in one
// bounded variable (the character).
func cEncoderPieces(c *Ctx, info *types.Info, fd *ast.FuncDecl, elem types.Object) ([]cPiece, string) {
	var out []cPiece
	why := ""
	ast.Inspect(fd.Body, func(nd ast.Node) bool {
		as, ok := nd.(*ast.AssignStmt)
		if !ok || why != "" {
			return true
		}
		for i, l := range as.Lhs {
			id, ok := ast.Unparen(l).(*ast.Ident)
			if !ok || info.ObjectOf(id) != elem {
				continue
			}
			if as.Tok != token.ASSIGN && as.Tok != token.DEFINE || len(as.Lhs) != len(as.Rhs) {
				why = "the element variable is updated by " + as.Tok.String()
				return false
			}
			bounds := map[types.Object]*[2]*int64{}
			chain := enclosing(fd.Body, as)
			for j, anc := range chain {
				if is, ok := anc.(*ast.IfStmt); ok && j+1 < len(chain) && chain[j+1] == ast.Node(is.Body) {
					cBounds(info, is.Cond, bounds)
				}
			}
			found := false
			for obj, bnd := range bounds {
				if bnd[0] == nil || bnd[1] == nil {
					continue
				}
				if k, ok := cLinear(info, as.Rhs[i], obj); ok {
					out = append(out, cPiece{lo: *bnd[0], hi: *bnd[1], k: k, pos: as.Pos(), text: nodeText(c.Fset, as)})
					found = true
				}
			}
			if !found {
				why = "assignment " + nodeText(c.Fset, as) + " is not `character + constant` under a guard bounding the character on both sides"
				return false
			}
		}
		return true
	})
	if why == "" && len(out) == 0 {
		why = "no assignment to the element variable"
	}
	sort.SliceStable(out, func(i, j int) bool { return out[i].lo+out[i].k < out[j].lo+out[j].k })
	return out, why
}

// cDecoderPieces: the if/else-if chain over the extracted element v; rejecting reports whether
// values outside every piece are rejected by a final returning else.
func cDecoderPieces(c *Ctx, info *types.Info, fd *ast.FuncDecl, v types.Object, unsigned bool) (pieces []cPiece, rejecting bool, why string) {
	var head *ast.IfStmt
	ast.Inspect(fd.Body, func(nd ast.Node) bool {
		if is, ok := nd.(*ast.IfStmt); ok && head == nil && cMentionsObj(info, is.Cond, v) {
			head = is
			return false
		}
		return head == nil
	})
	if head == nil {
		return nil, false, "no if statement tests the extracted element"
	}
	for is := head; is != nil; {
		bounds := map[types.Object]*[2]*int64{}
		cBounds(info, is.Cond, bounds)
		bnd := bounds[v]
		if bnd == nil || bnd[1] == nil {
			return nil, false, "condition " + types.ExprString(is.Cond) + " does not bound the element from above with a constant"
		}
		lo := int64(0)
		switch {
		case bnd[0] != nil:
			lo = *bnd[0]
		case !unsigned:
			return nil, false, "condition " + types.ExprString(is.Cond) + " does not bound the signed element from below"
		}
		// the character: the outermost integer expression of the branch that is linear in v
		var ks []int64
		var text string
		ast.Inspect(is.Body, func(nd ast.Node) bool {
			e, ok := nd.(ast.Expr)
			if !ok {
				return true
			}
			t := info.TypeOf(e)
			if t == nil || !cMentionsObj(info, e, v) {
				return true
			}
			if _, _, isInt := cIntType(t); !isInt {
				return true
			}
			if k, ok := cLinear(info, e, v); ok {
				ks = append(ks, k)
				text = types.ExprString(e)
				return false
			}
			return true
		})
		if len(ks) != 1 {
			return nil, false, fmt.Sprintf("expected exactly one `constant + element` expression in the branch of %s, found %d", types.ExprString(is.Cond), len(ks))
		}
		pieces = append(pieces, cPiece{lo: lo, hi: *bnd[1], k: ks[0], pos: is.Cond.Pos(), text: types.ExprString(is.Cond) + " -> " + text})
		switch e := is.Else.(type) {
		case *ast.IfStmt:
			is = e
		case *ast.BlockStmt:
			if n := len(e.List); n > 0 {
				if _, ok := e.List[n-1].(*ast.ReturnStmt); ok {
					rejecting = true
				}
			}
			if !rejecting {
				return nil, false, "the final else neither decodes nor rejects"
			}
			is = nil
		default:
			is = nil
		}
	}
	for i := range pieces {
		for j := i + 1; j < len(pieces); j++ {
			if pieces[i].lo <= pieces[j].hi && pieces[j].lo <= pieces[i].hi {
				return nil, false, "the decoder's intervals overlap"
			}
		}
	}
	sort.SliceStable(pieces, func(i, j int) bool { return pieces[i].lo < pieces[j].lo })
	return pieces, rejecting, ""
}

func cMentionsObj(info *types.Info, n ast.Node, obj types.Object) bool {
	found := false
	ast.Inspect(n, func(m ast.Node) bool {
		if id, ok := m.(*ast.Ident); ok && info.ObjectOf(id) == obj {
			found = true
		}
		return !found
	})
	return found
}

func cCharText(r int64) string {
	if r >= 0x20 && r < 0x7f {
		return fmt.Sprintf("%q", rune(r))
	}
	return fmt.Sprintf("character %d", r)
}

// cPostcodeAlphabet compares the encoder's and the decoder's element maps.
func cPostcodeAlphabet(b *cBit, sp *cPairSpec, enc *cSide, decs []*cSide) {
	info := enc.pkg.TypesInfo
	var elem types.Object
	var elemPos token.Pos
	for _, f := range enc.pack.fields {
		if f.repeated && f.obj != nil && f.bad == "" {
			elem, elemPos = f.obj, f.pos
		}
	}
	if elem == nil {
		b.add(enc.name, enc.fd.Pos(), Undecided, sp.label+": alphabet: no repeated element field held in a variable")
		return
	}
	eps, why := cEncoderPieces(b.c, info, enc.fd, elem)
	if why != "" {
		b.add(enc.name, elemPos, Undecided, sp.label+": alphabet: "+why)
		return
	}
	for _, d := range decs {
		dinfo := d.pkg.TypesInfo
		var v types.Object
		unsigned := false
		for _, x := range d.xs {
			if x.repeated && x.bad == "" && x.dest != nil {
				if id, ok := ast.Unparen(x.dest).(*ast.Ident); ok {
					v = dinfo.ObjectOf(id)
					_, signed, _ := cIntType(dinfo.TypeOf(id))
					unsigned = !signed
				}
			}
		}
		if v == nil {
			b.add(d.name, d.fd.Pos(), Undecided, sp.label+": alphabet: the repeated element is not extracted into a variable")
			continue
		}
		dps, rejecting, why := cDecoderPieces(b.c, dinfo, d.fd, v, unsigned)
		if why != "" {
			b.add(d.name, d.fd.Pos(), Undecided, sp.label+": alphabet: "+why)
			continue
		}
		accepts := func(val int64) *cPiece {
			for i := range dps {
				if dps[i].lo <= val && val <= dps[i].hi {
					return &dps[i]
				}
			}
			return nil
		}
		for _, e := range eps {
			head := fmt.Sprintf("%s: alphabet: encoder piece %s..%s -> %d..%d (%s)", sp.label, cCharText(e.lo), cCharText(e.hi), e.lo+e.k, e.hi+e.k, e.text)
			status, detail := OK, ""
			at := e.pos
			for r := e.lo; r <= e.hi && status == OK; r++ {
				val := r + e.k
				dp := accepts(val)
				switch {
				case dp == nil:
					how := "falls outside every branch of the decoder"
					if rejecting {
						how = "is rejected by the decoder"
					}
					var iv []string
					for _, p := range dps {
						iv = append(iv, fmt.Sprintf("%d..%d", p.lo, p.hi))
					}
					status, at = Violation, dps[len(dps)-1].pos
					detail = fmt.Sprintf("value %d (%s) is produced by the encoder but %s, which accepts %s", val, cCharText(r), how, strings.Join(iv, ", "))
				case val+dp.k != r:
					status, at = Violation, dp.pos
					detail = fmt.Sprintf("value %d encodes %s but the decoder's branch `%s` turns it into %s: not the inverse", val, cCharText(r), dp.text, cCharText(val+dp.k))
				}
			}
			if status == OK {
				detail = fmt.Sprintf("every value is accepted by %s and decoded back to the same character", d.name)
			}
			b.add(d.name, at, status, head+": "+detail)
		}
		// what the decoder accepts but the encoder never produces
		produced := func(val int64) bool {
			for _, e := range eps {
				if e.lo+e.k <= val && val <= e.hi+e.k {
					return true
				}
			}
			return false
		}
		for _, p := range dps {
			var extra []string
			for val := p.lo; val <= p.hi && len(extra) < 4; val++ {
				if !produced(val) {
					extra = append(extra, fmt.Sprint(val))
				}
			}
			if len(extra) > 0 {
				b.add(d.name, p.pos, Info, fmt.Sprintf("%s: alphabet: the decoder's branch `%s` also accepts values the encoder never produces (%s…)", sp.label, p.text, strings.Join(extra, ", ")))
			}
		}
	}
}

// ---------------------------------------------------------------------------------------------
// tile IDs: a rejecting guard on the zoom accepts exactly the zooms whose layout fits

func cTileGuard(b *cBit, sp *cPairSpec, enc *cSide, decs []*cSide) {
	info := enc.pkg.TypesInfo
	pk := enc.pack
	// the zoom field: the constant-shift field whose value is used as a symbolic shift
	zi := -1
	for i, f := range pk.fields {
		if f.bad != "" || !f.shift.isConst() || f.obj == nil {
			continue
		}
		name := fmt.Sprintf("value of the field at shift %d", f.shift.k)
		for _, g := range pk.fields {
			if g.shift.sym == name {
				zi = i
			}
		}
	}
	if zi < 0 {
		return
	}
	z := pk.fields[zi]
	// resolve an operand to the zoom variable (through conversions and once-defined locals)
	var isZ func(e ast.Expr, depth int) bool
	isZ = func(e ast.Expr, depth int) bool {
		id, ok := cStripConv(info, e).(*ast.Ident)
		if !ok || depth > 3 {
			return false
		}
		if info.ObjectOf(id) == z.obj {
			return true
		}
		key := cKey(info, id)
		if chains, ok := enc.w.ev.env[key]; ok && !enc.w.ev.multi[key] && len(chains) == 1 && !chains[0].isConst && len(chains[0].shape()) == 0 && chains[0].leaf != nil {
			return isZ(chains[0].leaf, depth+1)
		}
		return false
	}
	// fit: z + z <= shift of the zoom field (x and y need z bits each below it), z < 1<<zBits
	zBits := int64(pk.W) - z.shift.k
	fitMax := z.shift.k / 2
	if zBits < 62 && fitMax > int64(1)<<uint(zBits)-1 {
		fitMax = int64(1)<<uint(zBits) - 1
	}
	bitsAt := func(zoom int64) int64 { return zBits + 2*zoom }
	for _, st := range enc.fd.Body.List {
		is, ok := st.(*ast.IfStmt)
		if !ok || is.Pos() > pk.pos || is.Else != nil || len(is.Body.List) == 0 || !cMentionsObj(info, is.Cond, z.obj) && !cCondMentions(info, is.Cond, isZ) {
			continue
		}
		if _, isRet := is.Body.List[len(is.Body.List)-1].(*ast.ReturnStmt); !isRet {
			continue
		}
		head := fmt.Sprintf("%s: zoom guard `if %s`", sp.label, types.ExprString(is.Cond))
		// accepted zooms: the complement of the disjuncts on z
		accMax, why := int64(1)<<62, ""
		var disj func(e ast.Expr)
		disj = func(e ast.Expr) {
			be, ok := ast.Unparen(e).(*ast.BinaryExpr)
			if !ok {
				if cCondMentions(info, e, isZ) {
					why = "condition " + types.ExprString(e) + " is not a comparison"
				}
				return
			}
			if be.Op == token.LOR {
				disj(be.X)
				disj(be.Y)
				return
			}
			var k int64
			op := be.Op
			switch {
			case isZ(be.X, 0):
				v, ok := cConstI64(info, be.Y)
				if !ok {
					why = "the zoom is compared with the non-constant " + types.ExprString(be.Y)
					return
				}
				k = v
			case isZ(be.Y, 0):
				v, ok := cConstI64(info, be.X)
				if !ok {
					why = "the zoom is compared with the non-constant " + types.ExprString(be.X)
					return
				}
				k = v
				op = map[token.Token]token.Token{token.GTR: token.LSS, token.GEQ: token.LEQ, token.LSS: token.GTR, token.LEQ: token.GEQ}[be.Op]
			default:
				if cCondMentions(info, e, isZ) {
					why = "condition " + types.ExprString(e) + " is not a comparison of the zoom with a constant"
				}
				return
			}
			switch op { // rejected when true: accepted zooms end below
			case token.GTR:
				if k < accMax {
					accMax = k
				}
			case token.GEQ:
				if k-1 < accMax {
					accMax = k - 1
				}
			default:
				why = "comparison " + types.ExprString(e) + " does not bound the zoom from above"
			}
		}
		disj(is.Cond)
		switch {
		case why != "":
			b.add(enc.name, is.Pos(), Undecided, head+": "+why)
		case accMax == int64(1)<<62:
			continue
		case accMax < fitMax:
			b.add(enc.name, is.Pos(), Violation, fmt.Sprintf("%s accepts zooms up to %d, but zoom %d fits the word (%d + 2*%d = %d bits of %d) and is rejected", head, accMax, accMax+1, zBits, accMax+1, bitsAt(accMax+1), pk.W))
		case accMax > fitMax:
			b.add(enc.name, is.Pos(), Violation, fmt.Sprintf("%s accepts zooms up to %d, but zoom %d does not fit: it needs %d + 2*%d = %d bits of %d (or more than %d zoom bits)", head, accMax, fitMax+1, zBits, fitMax+1, bitsAt(fitMax+1), pk.W, zBits))
		default:
			b.add(enc.name, is.Pos(), OK, fmt.Sprintf("%s accepts exactly the zooms 0..%d whose layout fits (%d + 2*%d = %d bits of %d)", head, accMax, zBits, accMax, bitsAt(accMax), pk.W))
		}
	}
}

// cCondMentions reports whether some operand of the condition resolves to the zoom.
func cCondMentions(info *types.Info, e ast.Expr, isZ func(ast.Expr, int) bool) bool {
	found := false
	ast.Inspect(e, func(n ast.Node) bool {
		if x, ok := n.(ast.Expr); ok && !found {
			if _, isID := cStripConv(info, x).(*ast.Ident); isID && isZ(x, 0) {
				found = true
			}
		}
		return !found
	})
	return found
}
