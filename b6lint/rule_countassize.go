package main

import (
	"fmt"
	"go/ast"
	"go/token"
	"go/types"
)

// COUNT-AS-SIZE (C23): the number of entries a collection reports (`Count() (int, bool)`) is
// client data: `take c n` reports min(count, n) for whatever n the request carries, negative
// numbers included, and adaptors pass the figure through. Used as an allocation size or a slice
// bound without a lower bound it panics in the request handler (`makeslice: cap out of range`).
//
// Subjects, by type (whole module): calls of the Count method of b6.UntypedCollection — on the
// interface or on any type that implements it — whose int result is bound to a variable.
// Obligation per call site: in the function, every `make` length or capacity, slice bound or index
// that mentions the variable lies under a test that excludes negative values (`n >= 0`, `n > 0`,
// `0 <= n`, `0 < n` as a conjunct of an enclosing if, or an earlier `if n < 0 { return … }` /
// `if n <= 0`) or takes the variable through max(n, 0).
func init() {
	register(&Rule{
		Name:  "COUNT-AS-SIZE",
		IR:    "ast",
		Props: []string{"C23"},
		Floor: 2,
		Doc:   "a collection's reported count (client data: `take c n` reports min(count, n) for any n, negative included) is not used as an allocation size, slice bound or index without a test that excludes negative values",
		Run:   runCountAsSize,
	})
}

func runCountAsSize(c *Ctx) []Obligation {
	var out []Obligation
	root := c.Pkg("")
	if root == nil {
		return out
	}
	tn, _ := root.Types.Scope().Lookup("UntypedCollection").(*types.TypeName)
	if tn == nil {
		return out
	}
	iface, _ := tn.Type().Underlying().(*types.Interface)
	if iface == nil {
		return out
	}
	var countM *types.Func
	for i := 0; i < iface.NumMethods(); i++ {
		m := iface.Method(i)
		sig := m.Type().(*types.Signature)
		if sig.Params().Len() == 0 && sig.Results().Len() == 2 {
			if b, ok := sig.Results().At(0).Type().Underlying().(*types.Basic); ok && b.Kind() == types.Int {
				if b2, ok := sig.Results().At(1).Type().Underlying().(*types.Basic); ok && b2.Kind() == types.Bool {
					countM = m
				}
			}
		}
	}
	if countM == nil {
		return out
	}
	for _, p := range c.SortedPkgs() {
		info := p.TypesInfo
		for _, fd := range c.FuncDecls(p) {
			if fd.Body == nil {
				continue
			}
			name := c.FuncName(p, fd)
			ord := 0
			ast.Inspect(fd.Body, func(n ast.Node) bool {
				as, ok := n.(*ast.AssignStmt)
				if !ok || len(as.Lhs) != 2 || len(as.Rhs) != 1 {
					return true
				}
				call, ok := ast.Unparen(as.Rhs[0]).(*ast.CallExpr)
				if !ok {
					return true
				}
				sel, ok := ast.Unparen(call.Fun).(*ast.SelectorExpr)
				if !ok || sel.Sel.Name != countM.Name() {
					return true
				}
				f, _ := info.Uses[sel.Sel].(*types.Func)
				if f == nil || !types.Identical(f.Type().(*types.Signature).Results(), countM.Type().(*types.Signature).Results()) || len(call.Args) != 0 {
					return true
				}
				rt := info.TypeOf(sel.X)
				if f != countM && !(types.Implements(rt, iface) || types.Implements(types.NewPointer(rt), iface)) {
					return true
				}
				id, ok := as.Lhs[0].(*ast.Ident)
				if !ok || id.Name == "_" {
					return true
				}
				v := info.Defs[id]
				if v == nil {
					v = info.Uses[id]
				}
				if v == nil {
					return true
				}
				ord++
				ob := Obligation{Key: fmt.Sprintf("%s#%d", name, ord), Pos: c.Position(as.Pos()), Status: OK,
					Detail: fmt.Sprintf("%s (from %s) is not used as an allocation size, slice bound or index", id.Name, srcText(c.Fset, call))}
				mentions := func(e ast.Node) bool {
					found := false
					ast.Inspect(e, func(k ast.Node) bool {
						if x, ok := k.(*ast.Ident); ok && info.Uses[x] == v {
							found = true
						}
						return true
					})
					return found
				}
				nonNegTest := func(cond ast.Expr) bool {
					for _, cj := range conjuncts(cond) {
						be, ok := ast.Unparen(cj).(*ast.BinaryExpr)
						if !ok {
							continue
						}
						zero := func(e ast.Expr) bool {
							tv := info.Types[e]
							return tv.Value != nil && (tv.Value.ExactString() == "0" || tv.Value.ExactString() == "1")
						}
						isV := func(e ast.Expr) bool {
							x, ok := ast.Unparen(e).(*ast.Ident)
							return ok && info.Uses[x] == v
						}
						if isV(be.X) && zero(be.Y) && (be.Op == token.GEQ || be.Op == token.GTR) {
							return true
						}
						if isV(be.Y) && zero(be.X) && (be.Op == token.LEQ || be.Op == token.LSS) {
							return true
						}
					}
					return false
				}
				negReturn := func(ifs *ast.IfStmt) bool { // if n < 0 { return }
					be, ok := ast.Unparen(ifs.Cond).(*ast.BinaryExpr)
					if !ok {
						return false
					}
					x, ok := ast.Unparen(be.X).(*ast.Ident)
					if !ok || info.Uses[x] != v || (be.Op != token.LSS && be.Op != token.LEQ) {
						return false
					}
					if tv := info.Types[be.Y]; tv.Value == nil || tv.Value.ExactString() != "0" {
						return false
					}
					for _, st := range ifs.Body.List {
						switch st.(type) {
						case *ast.ReturnStmt, *ast.BranchStmt:
							return true
						}
					}
					return false
				}
				guarded := func(at ast.Node) bool {
					for _, anc := range enclosing(fd.Body, at) {
						if ifs, ok := anc.(*ast.IfStmt); ok && nonNegTest(ifs.Cond) && ifs.Body.Pos() <= at.Pos() && at.End() <= ifs.Body.End() {
							return true
						}
					}
					ok := false
					ast.Inspect(fd.Body, func(k ast.Node) bool {
						if ifs, isIf := k.(*ast.IfStmt); isIf && ifs.End() <= at.Pos() && ifs.Pos() > as.Pos() && negReturn(ifs) {
							ok = true
						}
						return true
					})
					return ok
				}
				ast.Inspect(fd.Body, func(k ast.Node) bool {
					if ob.Status != OK || k == nil || k.Pos() < as.Pos() {
						return true
					}
					var operand ast.Expr
					what := ""
					switch x := k.(type) {
					case *ast.CallExpr:
						if isBuiltin(info, x, "make") {
							for _, a := range x.Args[1:] {
								if mentions(a) {
									operand, what = a, "the size of "+srcText(c.Fset, x)
								}
							}
						}
					case *ast.SliceExpr:
						for _, b := range []ast.Expr{x.Low, x.High, x.Max} {
							if b != nil && mentions(b) {
								operand, what = b, "a bound of "+srcText(c.Fset, x)
							}
						}
					case *ast.IndexExpr:
						if _, isMap := info.TypeOf(x.X).Underlying().(*types.Map); !isMap && mentions(x.Index) {
							operand, what = x.Index, "the index of "+srcText(c.Fset, x)
						}
					}
					if operand == nil {
						return true
					}
					if call, ok := ast.Unparen(operand).(*ast.CallExpr); ok && isBuiltin(info, call, "max") {
						return true
					}
					if !guarded(k) {
						ob.Status = Violation
						ob.Pos = c.Position(k.Pos())
						ob.Detail = fmt.Sprintf("%s, the count reported by %s, is %s with no test that excludes negative values: a collection reports min(count, n) for `take c n` with any n the client sends, so a negative n panics here", id.Name, srcText(c.Fset, call), what)
					}
					return true
				})
				out = append(out, ob)
				return true
			})
		}
	}
	return out
}
