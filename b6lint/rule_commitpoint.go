package main

import (
	"fmt"
	"go/ast"
	"go/token"
	"go/types"
	"sort"
	"strings"

	"golang.org/x/tools/go/cfg"
	"golang.org/x/tools/go/packages"
	"golang.org/x/tools/go/ssa"
)

// COMMIT-POINT (C13): in a mutator of a world, all rejections precede all mutations.
//
// Instances (by type): every implementation of the mutating methods of ingest.MutableWorld
// (AddFeature, AddTag, RemoveTag — the methods the interface declares itself that return only an
// error) on a type that implements the interface; key pkg.(Recv).Method#commit.
//
// Write effects on the world's own state are found on SSA, starting from the receiver: a value
// is "own state" when it is the receiver, the address of one of its fields or elements, or a
// pointer/map/slice loaded from own state (m.features, *m.features, m.index.byToken, …). A value
// loaded from an interface-typed field (m.base, another world) has no known concrete type; calls
// through it are not followed, so foreign worlds are not own state. A write is
//   - a store through own state (field assignment, m.epoch++, element store), a map update or
//     delete/clear/copy on own state;
//   - a call that hands own state to a static callee whose summary writes through that
//     parameter — computed by the same shapes over the callee's body, through further static
//     callees, function literals that capture it, and interface parameters whose concrete type
//     is known from the conversion at the call site (ValidateFeature(f, o, m) receives m as a
//     b6.World: its calls of m's query methods are resolved to *MutableOverlayWorld's methods),
//     to depth 6 (FeaturesByID.AddFeature, FeatureReferencesByID.AddFeature, mutableFeatureIndex
//     Add/Remove → search tree Insert/Delete, ModifiedTags.ModifyOrAddTag,
//     NewModifiedFeaturesWithCopies(…, m.features, m), ModifiedFeatures.Update(…)).
//
// Obligation: on go/cfg, no path leads from the statement of a write to a `return` whose error
// operand is not the literal nil (return err, return fmt.Errorf(…), return f(…)). A return of
// the literal nil is not a rejection.
//
// Accepted exception: the save/replace/restore idiom that rule RESTORE pairs — after
// `old := M[k]` (or `old, ok := M[k]`), the temporary store `M[k] = x` and the statements that
// put the entry back (`M[k] = old`, or `delete(M, k)` when the entry was absent) are not counted,
// provided a restoring store/delete exists; that every path restores is RESTORE's obligation.
//
// The result of a method called on own state is own state as well (t.lists.Lookup(token) returns
// a reference into the tree); results of plain functions are not (allReferences(f, m) and
// NewFeatureFromWorld(x) build new values).
//
// Limits: effects through interface values of unknown concrete type (f :=
// m.features.FindMutableFeatureByID(id); f.ModifyOrAddTag(tag)), through functions without
// source (standard library) and beyond depth 6 are not seen; an error operand that is a
// variable known to be nil on that path is still counted as a rejection.
func init() {
	register(&Rule{
		Name:    "COMMIT-POINT",
		IR:      "ssa",
		Props:   []string{"C13", "C12", "C15"}, // a rejected edit that has already changed the world also breaks the per-feature map semantics of C12
		FloorBy: map[string]int{"C12": 6, "C15": 2},
		// A rejected AddFeature that has already written (copies of referrers put into the overlay before the
		// validation that rejects the edit) leaves features the reference index does not know: the
		// AddFeature obligations also serve C15 (AddFeature is the ingest.MutableWorld interface method).
		Narrow: func(o *Obligation) {
			if strings.Contains(o.Key, ".AddFeature#") {
				o.Props = []string{"C13", "C12", "C15"}
			} else {
				o.Props = []string{"C13", "C12"}
			}
		},
		// AddFeature, AddTag, RemoveTag of ingest.BasicMutableWorld and ingest.MutableOverlayWorld
		Floor: 6,
		Doc: "in every AddFeature/AddTag/RemoveTag implementation of an ingest.MutableWorld, no statement with a write effect on the receiver's own state (store, map update/delete, or a call whose " +
			"summary writes through the own state it is handed; summaries by shape over static callees to depth 6) is followed on some path by a return of a possibly non-nil error; " +
			"the temporary store and the restores of the save/replace/restore idiom (rule RESTORE) are exempt",
		Run: runCommitPoint,
	})
}

const iCommitDepth = 6

type iWrite struct {
	pos token.Pos
	why string
}

type iWriteAnalysis struct {
	c    *Ctx
	memo map[string][]iWrite
	busy map[string]bool
}

func iRefLike(t types.Type) bool {
	switch t.Underlying().(type) {
	case *types.Pointer, *types.Map, *types.Slice, *types.Interface, *types.Chan, *types.Signature, *types.Struct, *types.Array:
		return true
	}
	return false
}

// writes returns the writes fn performs through root (a parameter or free variable of fn).
// ctype is the concrete type of root when root is an interface value and the caller knows it.
func (wa *iWriteAnalysis) writes(fn *ssa.Function, root ssa.Value, ctype types.Type, depth int) []iWrite {
	if fn == nil || len(fn.Blocks) == 0 || depth < 0 || !iRefLike(root.Type()) {
		return nil
	}
	key := fmt.Sprintf("%s|%s|%v", fn.String(), root.Name(), ctype)
	if w, ok := wa.memo[key]; ok {
		return w
	}
	if wa.busy[key] {
		return nil
	}
	wa.busy[key] = true
	defer delete(wa.busy, key)

	c := wa.c
	var out []iWrite
	add := func(pos token.Pos, instr ssa.Instruction, why string) {
		if !pos.IsValid() && instr != nil {
			// synthesized instruction: use the nearest positioned instruction before it
			instrs := instr.Block().Instrs
			for i := len(instrs) - 1; i >= 0; i-- {
				if instrs[i] == instr {
					for j := i; j >= 0; j-- {
						if instrs[j].Pos().IsValid() {
							pos = instrs[j].Pos()
							break
						}
					}
					break
				}
			}
		}
		out = append(out, iWrite{pos, why})
	}
	derived := map[ssa.Value]types.Type{root: ctype}
	work := []ssa.Value{root}
	push := func(v ssa.Value, ct types.Type) {
		if _, ok := derived[v]; !ok {
			derived[v] = ct
			work = append(work, v)
		}
	}
	for len(work) > 0 {
		v := work[0]
		work = work[1:]
		refs := v.Referrers()
		if refs == nil {
			continue
		}
		for _, ref := range *refs {
			switch in := ref.(type) {
			case *ssa.Store:
				if in.Addr == v {
					add(in.Pos(), in, "store through "+v.Name()+" at "+c.Position(in.Pos()))
				}
			case *ssa.MapUpdate:
				if in.Map == v {
					add(in.Pos(), in, "map update at "+c.Position(in.Pos()))
				}
			case *ssa.FieldAddr:
				if in.X == v {
					push(in, nil)
				}
			case *ssa.IndexAddr:
				if in.X == v {
					push(in, nil)
				}
			case *ssa.Field:
				if in.X == v && iRefLike(in.Type()) {
					push(in, nil)
				}
			case *ssa.Index:
				if in.X == v && iRefLike(in.Type()) {
					push(in, nil)
				}
			case *ssa.UnOp:
				if in.Op == token.MUL && in.X == v && iRefLike(in.Type()) {
					push(in, nil)
				}
			case *ssa.Lookup:
				if in.X == v {
					push(in, nil)
				}
			case *ssa.Extract:
				if iRefLike(in.Type()) {
					push(in, derived[v])
				}
			case *ssa.Phi:
				push(in, nil)
			case *ssa.MakeInterface:
				push(in, in.X.Type())
			case *ssa.ChangeInterface:
				push(in, derived[v])
			case *ssa.ChangeType:
				push(in, derived[v])
			case *ssa.Convert:
				if iRefLike(in.Type()) {
					push(in, derived[v])
				}
			case *ssa.TypeAssert:
				if in.X == v {
					ct := derived[v]
					if _, isIface := in.AssertedType.Underlying().(*types.Interface); !isIface {
						ct = nil // the value itself is concrete now
					}
					push(in, ct)
				}
			case *ssa.Slice:
				if in.X == v {
					push(in, nil)
				}
			case *ssa.Range:
				push(in, nil)
			case *ssa.Next:
				push(in, nil)
			case *ssa.MakeClosure:
				lit, _ := in.Fn.(*ssa.Function)
				for i, b := range in.Bindings {
					if b == v && lit != nil && i < len(lit.FreeVars) {
						for _, w := range wa.writes(lit, lit.FreeVars[i], derived[v], depth) {
							add(in.Pos(), in, "function literal "+lit.Name()+" captures it: "+w.why)
							break
						}
					}
				}
			default:
				ci, ok := ref.(ssa.CallInstruction)
				if !ok {
					continue
				}
				cc := ci.Common()
				if b, isBuiltin := cc.Value.(*ssa.Builtin); isBuiltin {
					switch b.Name() {
					case "delete", "clear", "copy":
						if len(cc.Args) > 0 && cc.Args[0] == v {
							add(ci.Pos(), ci, b.Name()+" at "+c.Position(ci.Pos()))
						}
					case "append":
						if val, isVal := ci.(ssa.Value); isVal && len(cc.Args) > 0 && cc.Args[0] == v {
							push(val, nil)
						}
					}
					continue
				}
				if cc.IsInvoke() {
					if cc.Value != v || derived[v] == nil {
						continue // concrete type unknown: not followed
					}
					m := c.Prog.LookupMethod(derived[v], cc.Method.Pkg(), cc.Method.Name())
					if m != nil && len(m.Params) > 0 {
						for _, w := range wa.writes(m, m.Params[0], nil, depth-1) {
							add(ci.Pos(), ci, "call of "+m.String()+" at "+c.Position(ci.Pos())+": "+w.why)
							break
						}
					}
					continue
				}
				callee := cc.StaticCallee()
				if callee == nil {
					continue
				}
				// a method called on own state may return a reference into it (t.lists.Lookup(token),
				// m.features.FindMutableFeatureByID(id)): its result is own state too
				if val, isVal := ci.(ssa.Value); isVal && callee.Signature.Recv() != nil && len(cc.Args) > 0 && cc.Args[0] == v {
					if _, isTuple := val.Type().(*types.Tuple); isTuple || iRefLike(val.Type()) {
						push(val, nil)
					}
				}
				for j, a := range cc.Args {
					if a != v {
						continue
					}
					var root2 ssa.Value
					if j < len(callee.Params) {
						root2 = callee.Params[j]
					}
					if root2 == nil {
						continue
					}
					for _, w := range wa.writes(callee, root2, derived[v], depth-1) {
						add(ci.Pos(), ci, "call of "+callee.String()+" at "+c.Position(ci.Pos())+" (parameter "+root2.Name()+"): "+w.why)
						break
					}
				}
			}
		}
	}
	sort.SliceStable(out, func(i, j int) bool { return out[i].pos < out[j].pos })
	wa.memo[key] = out
	return out
}

func runCommitPoint(c *Ctx) []Obligation {
	t, err := iLoadTypes(c)
	if err != nil {
		return iAnchorFailure(err)
	}
	c.BuildSSA()
	wa := &iWriteAnalysis{c: c, memo: map[string][]iWrite{}, busy: map[string]bool{}}
	var out []Obligation
	for _, p := range c.SortedPkgs() {
		for _, fd := range c.FuncDecls(p) {
			obj, _ := p.TypesInfo.Defs[fd.Name].(*types.Func)
			if obj == nil || !t.iIsMutator(obj) {
				continue
			}
			if _, isIface := iRecvType(obj).Underlying().(*types.Interface); isIface {
				continue
			}
			out = append(out, iCommitPointFunc(c, wa, p, fd, obj))
		}
	}
	return out
}

func iFindNodeAt(g *cfg.CFG, pos token.Pos) (nodeLoc, bool) {
	for _, b := range g.Blocks {
		if !b.Live {
			continue
		}
		for i, n := range b.Nodes {
			if n.Pos() <= pos && pos < n.End() {
				return nodeLoc{b, i}, true
			}
		}
	}
	return nodeLoc{}, false
}

func iCommitPointFunc(c *Ctx, wa *iWriteAnalysis, p *packages.Package, fd *ast.FuncDecl, obj *types.Func) Obligation {
	info := p.TypesInfo
	ob := Obligation{Key: c.FuncName(p, fd) + "#commit", Pos: c.Position(fd.Pos())}
	fn := c.SSAFunc(obj)
	if fn == nil || len(fn.Params) == 0 {
		ob.Status, ob.Detail = Undecided, "no SSA for the method"
		return ob
	}
	// the index of the error result
	errT := types.Universe.Lookup("error").Type()
	sig := obj.Type().(*types.Signature)
	errIdx := -1
	for i := 0; i < sig.Results().Len(); i++ {
		if types.Identical(sig.Results().At(i).Type(), errT) {
			errIdx = i
		}
	}
	isRejection := func(n ast.Node) bool {
		rs, ok := n.(*ast.ReturnStmt)
		if !ok || errIdx < 0 {
			return false
		}
		if len(rs.Results) == 0 {
			return true // bare return of a named error result
		}
		if len(rs.Results) != sig.Results().Len() {
			return true // return f()
		}
		id, isIdent := ast.Unparen(rs.Results[errIdx]).(*ast.Ident)
		return !(isIdent && info.ObjectOf(id) == types.Universe.Lookup("nil"))
	}
	hasRejection := false
	inspectShallow(fd.Body, func(n ast.Node) bool {
		if isRejection(n) {
			hasRejection = true
		}
		return true
	})

	// the save/replace/restore idiom: statements exempted
	exempt := map[ast.Node]string{}
	type saved struct {
		obj  types.Object
		m, k ast.Expr
		pos  token.Pos
	}
	var saves []saved
	inspectShallow(fd.Body, func(n ast.Node) bool {
		as, ok := n.(*ast.AssignStmt)
		if !ok || len(as.Rhs) != 1 || len(as.Lhs) < 1 || len(as.Lhs) > 2 {
			return true
		}
		ix, ok := ast.Unparen(as.Rhs[0]).(*ast.IndexExpr)
		if !ok {
			return true
		}
		if _, isMap := info.TypeOf(ix.X).Underlying().(*types.Map); !isMap {
			return true
		}
		if id, ok := as.Lhs[0].(*ast.Ident); ok && id.Name != "_" {
			if o := info.ObjectOf(id); o != nil {
				saves = append(saves, saved{o, ix.X, ix.Index, as.Pos()})
			}
		}
		return true
	})
	for _, s := range saves {
		var group []ast.Node
		restores := 0
		inspectShallow(fd.Body, func(n ast.Node) bool {
			switch x := n.(type) {
			case *ast.AssignStmt:
				if x.Tok != token.ASSIGN || len(x.Lhs) != 1 || len(x.Rhs) != 1 || x.Pos() <= s.pos {
					return true
				}
				ix, ok := ast.Unparen(x.Lhs[0]).(*ast.IndexExpr)
				if !ok || !sameExpr(info, ix.X, s.m) || !sameExpr(info, ix.Index, s.k) {
					return true
				}
				group = append(group, x)
				if id, ok := ast.Unparen(x.Rhs[0]).(*ast.Ident); ok && info.ObjectOf(id) == s.obj {
					restores++
				}
			case *ast.CallExpr:
				if isBuiltin(info, x, "delete") && len(x.Args) == 2 && x.Pos() > s.pos && sameExpr(info, x.Args[0], s.m) && sameExpr(info, x.Args[1], s.k) {
					group = append(group, x)
				}
			}
			return true
		})
		if restores > 0 && len(group) > restores {
			for _, n := range group {
				exempt[n] = "part of the save/replace/restore of " + types.ExprString(s.m) + "[" + types.ExprString(s.k) + "] (rule RESTORE)"
			}
		}
	}
	isExempt := func(pos token.Pos) bool {
		for n := range exempt {
			if n.Pos() <= pos && pos < n.End() {
				return true
			}
		}
		return false
	}

	writes := wa.writes(fn, fn.Params[0], nil, iCommitDepth)
	g := newCFG(info, fd.Body)
	var considered, skipped []string
	nWrites := 0
	for _, w := range writes {
		if isExempt(w.pos) {
			skipped = append(skipped, c.Position(w.pos))
			continue
		}
		loc, ok := iFindNodeAt(g, w.pos)
		if !ok {
			// a write inside a function literal of the body, or in dead code
			lit := false
			ast.Inspect(fd.Body, func(n ast.Node) bool {
				if fl, isLit := n.(*ast.FuncLit); isLit && fl.Pos() <= w.pos && w.pos < fl.End() {
					lit = true
				}
				return true
			})
			if lit && hasRejection {
				ob.Status = Undecided
				ob.Detail = "a write effect at " + c.Position(w.pos) + " is inside a function literal (" + w.why + "): its place in the control flow is not known"
				return ob
			}
			continue
		}
		nWrites++
		node := loc.b.Nodes[loc.i]
		considered = append(considered, fmt.Sprintf("%s %s", c.Position(node.Pos()), nodeText(c.Fset, node)))
		ps := &pathSearch{c: c, info: info, bad: isRejection}
		if path := ps.run(loc); path != nil {
			ob.Status = Violation
			ob.Pos = c.Position(w.pos)
			ob.Detail = fmt.Sprintf("%s at %s changes the world's own state (%s) and can be followed by a rejection: %s — the world is left changed by a mutation it reports as failed",
				nodeText(c.Fset, node), c.Position(node.Pos()), w.why, path[len(path)-1])
			ob.Path = append([]string{"write: " + c.Position(node.Pos()) + " " + nodeText(c.Fset, node) + " (" + w.why + ")"}, path...)
			return ob
		}
	}
	ob.Status = OK
	considered = iUniqueStrings(considered)
	switch {
	case !hasRejection:
		ob.Detail = fmt.Sprintf("the method never returns a possibly non-nil error (%d write effects)", nWrites)
	case nWrites == 0:
		ob.Detail = "no write effect on the receiver's own state was found"
	default:
		ob.Detail = fmt.Sprintf("no rejection is reachable from any of the %d statements that change the receiver's own state: %s", len(considered), strings.Join(considered, "; "))
	}
	if len(skipped) > 0 {
		ob.Detail += fmt.Sprintf(" (exempt as save/replace/restore: %s)", strings.Join(iUniqueStrings(skipped), ", "))
	}
	return ob
}
