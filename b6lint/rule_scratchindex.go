package main

import (
	"fmt"
	"go/ast"
	"go/token"
	"go/types"
	"sort"
	"strings"
)

// SCRATCH-INDEX (C36, C35): the parallel build stages hand every callback the index g of the
// goroutine that runs it, and keep their scratch state (marshalling buffers, reusable feature
// values, reference lists) in slices with one element per goroutine. The output is the same for
// every degree of parallelism only if a callback touches nothing but its own element: an index
// other than g (a constant, another variable) makes two goroutines marshal into one buffer, and
// what is written depends on the schedule. The arrays must also have one element per goroutine
// the reader was asked to use.
//
// Slots (by shape, whole module): a *worker callback* is a function literal whose last parameter
// is an int and whose result is error (the Emit shapes of ingest and osm); a *per-goroutine array*
// of that callback is a slice variable declared outside the literal that the literal indexes with
// that parameter at least once, or that the enclosing function made with one element per requested
// goroutine (make([]T, N) with N the Goroutines/Cores value of its ReadOptions literal). Obligations:
//
//	#<array>       every index expression on the array inside the callback uses the goroutine
//	               parameter itself;
//	#<array>.len   when the enclosing function creates the array with make([]T, N) and passes a
//	               ReadOptions literal with a Goroutines/Cores field to the reader, N is the same
//	               expression as that field (informational when either is not found).
func init() {
	register(&Rule{
		Name:  "SCRATCH-INDEX",
		IR:    "ast",
		Props: []string{"C36", "C35"},
		Floor: 25,
		Doc:   "in every worker callback (func(…, g int) error) each per-goroutine scratch array is indexed with the goroutine parameter only, and is created with as many elements as goroutines are requested from the reader",
		Run:   runScratchIndex,
	})
}

func runScratchIndex(c *Ctx) []Obligation {
	var out []Obligation
	for _, p := range c.SortedPkgs() {
		info := p.TypesInfo
		for _, fd := range c.FuncDecls(p) {
			name := c.FuncName(p, fd)
			litOrd := 0
			ast.Inspect(fd.Body, func(n ast.Node) bool {
				lit, ok := n.(*ast.FuncLit)
				if !ok {
					return true
				}
				sig, _ := info.TypeOf(lit).(*types.Signature)
				if sig == nil || sig.Params().Len() < 2 || sig.Results().Len() != 1 {
					return true
				}
				gp := sig.Params().At(sig.Params().Len() - 1)
				if b, ok := gp.Type().Underlying().(*types.Basic); !ok || b.Kind() != types.Int {
					return true
				}
				if !isNamed(sig.Results().At(0).Type(), "", "error") && sig.Results().At(0).Type().String() != "error" {
					return true
				}
				litOrd++
				// arrays indexed by g
				type use struct {
					idx ast.Expr
					pos token.Pos
				}
				uses := map[*types.Var][]use{}
				ast.Inspect(lit.Body, func(m ast.Node) bool {
					ix, ok := m.(*ast.IndexExpr)
					if !ok {
						return true
					}
					id, ok := ast.Unparen(ix.X).(*ast.Ident)
					if !ok {
						return true
					}
					v, _ := info.Uses[id].(*types.Var)
					if v == nil || v.IsField() {
						return true
					}
					if _, ok := v.Type().Underlying().(*types.Slice); !ok {
						return true
					}
					if v.Pos() >= lit.Pos() && v.Pos() < lit.End() {
						return true // declared inside the callback
					}
					uses[v] = append(uses[v], use{ix.Index, ix.Pos()})
					return true
				})
				// the goroutine count requested from the reader in this function, and what each slice was made with
				var wantN ast.Expr
				madeWith := map[types.Object]ast.Expr{}
				ast.Inspect(fd.Body, func(m ast.Node) bool {
					switch x := m.(type) {
					case *ast.CompositeLit:
						if nt := namedOf(info.TypeOf(x)); nt != nil && nt.Obj().Name() == "ReadOptions" {
							for _, el := range x.Elts {
								if kv, ok := el.(*ast.KeyValueExpr); ok {
									if k, ok := kv.Key.(*ast.Ident); ok && (k.Name == "Goroutines" || k.Name == "Cores") {
										wantN = kv.Value
									}
								}
							}
						}
					case *ast.AssignStmt:
						if len(x.Lhs) == len(x.Rhs) {
							for i, l := range x.Lhs {
								if id, ok := l.(*ast.Ident); ok {
									if call, ok := ast.Unparen(x.Rhs[i]).(*ast.CallExpr); ok && isBuiltin(info, call, "make") && len(call.Args) >= 2 {
										o := info.Defs[id]
										if o == nil {
											o = info.Uses[id]
										}
										if o != nil {
											madeWith[o] = call.Args[1]
										}
									}
								}
							}
						}
					}
					return true
				})
				// re-based goroutine index: a wrapper that forwards to another callback with an index computed
				// from g (emit(f, g + i*N)) must give every (i, g) pair its own index: N is the goroutine count of
				// the options the wrapper is read with
				ast.Inspect(lit.Body, func(m ast.Node) bool {
					call, ok := m.(*ast.CallExpr)
					if !ok || len(call.Args) < 2 {
						return true
					}
					if ft, ok := info.TypeOf(call.Fun).Underlying().(*types.Signature); !ok || ft.Params().Len() != len(call.Args) {
						return true
					} else if b, ok := ft.Params().At(ft.Params().Len() - 1).Type().Underlying().(*types.Basic); !ok || b.Kind() != types.Int {
						return true
					}
					if _, isIdent := ast.Unparen(call.Fun).(*ast.Ident); !isIdent {
						return true
					}
					last := ast.Unparen(call.Args[len(call.Args)-1])
					usesG := false
					ast.Inspect(last, func(k ast.Node) bool {
						if id, ok := k.(*ast.Ident); ok && info.Uses[id] == gp {
							usesG = true
						}
						return true
					})
					if _, plain := last.(*ast.Ident); plain || !usesG {
						return true
					}
					ob := Obligation{Key: fmt.Sprintf("%s$%d#rebase", name, litOrd), Pos: c.Position(call.Pos())}
					// which options is this wrapper read with?  X.Read(opts, <wrapper var or literal>, …)
					var optsText string
					var wrapperVar types.Object
					ast.Inspect(fd.Body, func(k ast.Node) bool {
						if as, ok := k.(*ast.AssignStmt); ok && len(as.Lhs) == 1 && len(as.Rhs) == 1 && ast.Unparen(as.Rhs[0]) == ast.Expr(lit) {
							if id, ok := as.Lhs[0].(*ast.Ident); ok {
								wrapperVar = info.Defs[id]
								if wrapperVar == nil {
									wrapperVar = info.Uses[id]
								}
							}
						}
						return true
					})
					ast.Inspect(fd.Body, func(k ast.Node) bool {
						rc, ok := k.(*ast.CallExpr)
						if !ok || len(rc.Args) < 2 {
							return true
						}
						if sel, ok := ast.Unparen(rc.Fun).(*ast.SelectorExpr); !ok || sel.Sel.Name != "Read" {
							return true
						}
						cb := ast.Unparen(rc.Args[1])
						if cb == ast.Expr(lit) {
							optsText = nodeText(c.Fset, rc.Args[0])
						} else if id, ok := cb.(*ast.Ident); ok && wrapperVar != nil && info.Uses[id] == wrapperVar {
							optsText = nodeText(c.Fset, rc.Args[0])
						}
						return true
					})
					// accepted shape: g + I*N or I*N + g, N == <opts>.Goroutines / .Cores
					shape := false
					stride := ""
					if be, ok := last.(*ast.BinaryExpr); ok && be.Op == token.ADD {
						for _, pr := range [][2]ast.Expr{{be.X, be.Y}, {be.Y, be.X}} {
							gid, ok := ast.Unparen(pr[0]).(*ast.Ident)
							mul, ok2 := ast.Unparen(pr[1]).(*ast.BinaryExpr)
							if !ok || !ok2 || info.Uses[gid] != gp || mul.Op != token.MUL {
								continue
							}
							shape = true
							for _, f := range []ast.Expr{mul.X, mul.Y} {
								t := nodeText(c.Fset, f)
								if strings.HasSuffix(t, ".Goroutines") || strings.HasSuffix(t, ".Cores") {
									stride = t
								}
							}
						}
					}
					switch {
					case optsText == "":
						ob.Status, ob.Detail = Info, fmt.Sprintf("goroutine index re-based as %s; the Read this wrapper is handed to was not found", nodeText(c.Fset, last))
					case !shape || stride == "":
						ob.Status = Violation
						ob.Detail = fmt.Sprintf("the wrapper forwards the goroutine index as %s: the inner reader uses indices 0..%s.Goroutines-1 for each worker, so the outer index must be %s + worker*%s.Goroutines — with any other stride two workers' ranges overlap and share per-goroutine scratch",
							nodeText(c.Fset, last), optsText, gp.Name(), optsText)
					case stride != optsText+".Goroutines" && stride != optsText+".Cores":
						ob.Status = Violation
						ob.Detail = fmt.Sprintf("the wrapper re-bases the goroutine index with stride %s but is read with %s: the stride must be the goroutine count of those options", stride, optsText)
					default:
						ob.Status, ob.Detail = OK, fmt.Sprintf("goroutine index re-based as %s, stride %s = the goroutine count the wrapper is read with", nodeText(c.Fset, last), stride)
					}
					out = append(out, ob)
					return true
				})
				var arrays []*types.Var
				for v, us := range uses {
					isArray := false
					for _, u := range us {
						if id, ok := ast.Unparen(u.idx).(*ast.Ident); ok && info.Uses[id] == gp {
							isArray = true
							break
						}
					}
					// also: a slice made with one element per requested goroutine, whatever it is indexed with
					if n, ok := madeWith[v]; ok && wantN != nil && sameExpr(info, n, wantN) {
						isArray = true
					}
					if isArray {
						arrays = append(arrays, v)
					}
				}
				sort.Slice(arrays, func(i, j int) bool { return arrays[i].Name() < arrays[j].Name() })
				for _, v := range arrays {
					ob := Obligation{Key: fmt.Sprintf("%s$%d#%s", name, litOrd, v.Name()), Pos: c.Position(lit.Pos()), Status: OK}
					var bad []string
					for _, u := range uses[v] {
						if id, ok := ast.Unparen(u.idx).(*ast.Ident); ok && info.Uses[id] == gp {
							continue
						}
						bad = append(bad, fmt.Sprintf("%s[%s] at %s", v.Name(), nodeText(c.Fset, u.idx), c.Position(u.pos)))
					}
					if len(bad) > 0 {
						ob.Status = Violation
						ob.Detail = fmt.Sprintf("per-goroutine array %s is indexed with something other than the goroutine parameter %s: %s — two goroutines share that element, and what is written depends on the schedule",
							v.Name(), gp.Name(), strings.Join(bad, ", "))
					} else {
						ob.Detail = fmt.Sprintf("per-goroutine array %s is indexed %d time(s), always with %s", v.Name(), len(uses[v]), gp.Name())
					}
					out = append(out, ob)
					// length
					var n ast.Expr
					ast.Inspect(fd.Body, func(m ast.Node) bool {
						as, ok := m.(*ast.AssignStmt)
						if !ok || len(as.Lhs) != len(as.Rhs) {
							return true
						}
						for i, l := range as.Lhs {
							id, ok := l.(*ast.Ident)
							if !ok || (info.Defs[id] != types.Object(v) && info.Uses[id] != types.Object(v)) {
								continue
							}
							if call, ok := ast.Unparen(as.Rhs[i]).(*ast.CallExpr); ok && isBuiltin(info, call, "make") && len(call.Args) >= 2 {
								n = call.Args[1]
							}
						}
						return true
					})
					var want ast.Expr
					ast.Inspect(fd.Body, func(m ast.Node) bool {
						cl, ok := m.(*ast.CompositeLit)
						if !ok {
							return true
						}
						if nt := namedOf(info.TypeOf(cl)); nt == nil || nt.Obj().Name() != "ReadOptions" {
							return true
						}
						for _, el := range cl.Elts {
							if kv, ok := el.(*ast.KeyValueExpr); ok {
								if k, ok := kv.Key.(*ast.Ident); ok && (k.Name == "Goroutines" || k.Name == "Cores") {
									want = kv.Value
								}
							}
						}
						return true
					})
					lob := Obligation{Key: fmt.Sprintf("%s$%d#%s.len", name, litOrd, v.Name()), Pos: c.Position(lit.Pos())}
					switch {
					case n == nil || want == nil:
						lob.Status, lob.Detail = Info, fmt.Sprintf("creation of %s or the requested goroutine count not found in %s: length not compared", v.Name(), name)
					case sameExpr(info, n, want):
						lob.Status, lob.Detail = OK, fmt.Sprintf("%s has %s elements, the goroutine count requested from the reader", v.Name(), nodeText(c.Fset, n))
					default:
						lob.Status = Violation
						lob.Detail = fmt.Sprintf("%s is created with %s elements but the reader is asked for %s goroutines: a goroutine index beyond the array panics, or goroutines share elements", v.Name(), nodeText(c.Fset, n), nodeText(c.Fset, want))
					}
					out = append(out, lob)
				}
				return true
			})
		}
	}
	return out
}
