package main

import (
	"fmt"
	"go/ast"
	"go/constant"
	"go/token"
	"go/types"
	"sort"
	"strings"
)

// GEOJSON-TYPES (C32): the geojson package names each geometry kind three times — where a
// Geometry is built (a Geometry{Type: "X", Coordinates: …} literal), where a geometry object is
// decoded ((*Geometry).UnmarshalJSON switches on the type string and decodes the coordinates
// into a Go type), and where the package's top-level Unmarshal decides whether a document is a
// geometry at all. A kind that one table has and another lacks cannot round-trip: it is written
// and then rejected, or decoded into a different coordinates type than it was built from.
//
// Slots (by shape, package geojson):
//
//	E  emit table   — every composite literal of the struct type that has a string field Type and
//	                  an interface field Coordinates, with a constant Type: the Go type of the
//	                  Coordinates value (its static type, or the single type of the enclosing
//	                  type-switch clause when the value is the switched interface variable).
//	D  decode table — the method UnmarshalJSON of that struct type: for each `case "X":` of its
//	                  switch over the type string, the Go type of the value stored into
//	                  Coordinates.
//	U  dispatch     — the package function Unmarshal: the case strings of its switch whose body
//	                  decodes into a variable of that struct type.
//
// One obligation per kind name in E (every kind the package writes): present in D and U too, with
// the same Go type in E and D. Kinds that are only read are informational. Informational: the coordinate types the importer's type switch
// (ingest.(*AddFeatures).fillFromFeature) does not handle (those features are dropped).
func init() {
	register(&Rule{
		Name:  "GEOJSON-TYPES",
		IR:    "ast",
		Props: []string{"C32"},
		Floor: 7, // Point MultiPoint LineString MultiLineString Polygon MultiPolygon + the importer's coverage
		Doc: "every GeoJSON geometry kind is named by the emit table (Geometry{Type: \"X\"} literals), the decode table ((*Geometry).UnmarshalJSON) and the top-level dispatch (geojson.Unmarshal), " +
			"with the same coordinates type where it is built and where it is decoded",
		Run: runGeoJSONTypes,
	})
}

func runGeoJSONTypes(c *Ctx) []Obligation {
	var out []Obligation
	p := c.Pkg("geojson")
	if p == nil {
		return out
	}
	info := p.TypesInfo
	// the geometry struct: string field Type + interface field Coordinates
	var geom *types.Named
	for _, name := range p.Types.Scope().Names() {
		tn, ok := p.Types.Scope().Lookup(name).(*types.TypeName)
		if !ok {
			continue
		}
		st, ok := tn.Type().Underlying().(*types.Struct)
		if !ok {
			continue
		}
		hasT, hasC := false, false
		for i := 0; i < st.NumFields(); i++ {
			f := st.Field(i)
			if b, ok := f.Type().Underlying().(*types.Basic); ok && f.Name() == "Type" && b.Kind() == types.String {
				hasT = true
			}
			if _, ok := f.Type().Underlying().(*types.Interface); ok && f.Name() == "Coordinates" {
				hasC = true
			}
		}
		if hasT && hasC {
			geom, _ = tn.Type().(*types.Named)
		}
	}
	if geom == nil {
		return out
	}
	strConst := func(e ast.Expr) (string, bool) {
		tv := info.Types[e]
		if tv.Value == nil || tv.Value.Kind() != constant.String {
			return "", false
		}
		return constant.StringVal(tv.Value), true
	}
	typeName := func(t types.Type) string {
		if n := namedOf(t); n != nil {
			return n.Obj().Name()
		}
		return t.String()
	}
	type entry struct {
		typ string
		pos token.Pos
	}
	E, D, U := map[string][]entry{}, map[string][]entry{}, map[string][]entry{}

	for _, fd := range c.FuncDecls(p) {
		// E: literals
		ast.Inspect(fd.Body, func(n ast.Node) bool {
			cl, ok := n.(*ast.CompositeLit)
			if !ok || namedOf(info.TypeOf(cl)) != geom {
				return true
			}
			var kind string
			var coords ast.Expr
			for _, el := range cl.Elts {
				kv, ok := el.(*ast.KeyValueExpr)
				if !ok {
					continue
				}
				k, _ := kv.Key.(*ast.Ident)
				if k == nil {
					continue
				}
				if k.Name == "Type" {
					kind, _ = strConst(kv.Value)
				}
				if k.Name == "Coordinates" {
					coords = kv.Value
				}
			}
			if kind == "" || coords == nil {
				return true
			}
			t := info.TypeOf(coords)
			if _, isIface := t.Underlying().(*types.Interface); isIface {
				// the switched variable inside a type-switch clause
				t = nil
				path := enclosing(fd.Body, cl)
				for i := len(path) - 1; i >= 0; i-- {
					if cc, ok := path[i].(*ast.CaseClause); ok && len(cc.List) == 1 {
						if tv, ok := info.Types[cc.List[0]]; ok && tv.IsType() {
							t = tv.Type
							break
						}
					}
				}
			}
			tn := "?"
			if t != nil {
				tn = typeName(t)
			}
			E[kind] = append(E[kind], entry{tn, cl.Pos()})
			return true
		})
		obj, _ := info.Defs[fd.Name].(*types.Func)
		if obj == nil {
			continue
		}
		sig := obj.Type().(*types.Signature)
		// D: (*Geometry).UnmarshalJSON
		if fd.Name.Name == "UnmarshalJSON" && sig.Recv() != nil && namedOf(sig.Recv().Type()) == geom {
			ast.Inspect(fd.Body, func(n ast.Node) bool {
				cc, ok := n.(*ast.CaseClause)
				if !ok {
					return true
				}
				var kinds []string
				for _, e := range cc.List {
					if s, ok := strConst(e); ok {
						kinds = append(kinds, s)
					}
				}
				if len(kinds) == 0 {
					return true
				}
				tn := "?"
				for _, st := range cc.Body {
					ast.Inspect(st, func(m ast.Node) bool {
						as, ok := m.(*ast.AssignStmt)
						if !ok || len(as.Lhs) != len(as.Rhs) {
							return true
						}
						for i, l := range as.Lhs {
							if sel, ok := l.(*ast.SelectorExpr); ok && sel.Sel.Name == "Coordinates" {
								if s := info.Selections[sel]; s != nil && namedOf(s.Recv()) == geom {
									tn = typeName(info.TypeOf(as.Rhs[i]))
								}
							}
						}
						return true
					})
				}
				for _, k := range kinds {
					D[k] = append(D[k], entry{tn, cc.Pos()})
				}
				return true
			})
		}
		// U: package function Unmarshal
		if fd.Name.Name == "Unmarshal" && sig.Recv() == nil {
			ast.Inspect(fd.Body, func(n ast.Node) bool {
				cc, ok := n.(*ast.CaseClause)
				if !ok {
					return true
				}
				decodesGeom := false
				for _, st := range cc.Body {
					ast.Inspect(st, func(m ast.Node) bool {
						switch x := m.(type) {
						case *ast.ValueSpec:
							if x.Type != nil && namedOf(info.TypeOf(x.Type)) == geom {
								decodesGeom = true
							}
						case *ast.CompositeLit:
							if namedOf(info.TypeOf(x)) == geom {
								decodesGeom = true
							}
						}
						return true
					})
				}
				if !decodesGeom {
					return true
				}
				for _, e := range cc.List {
					if s, ok := strConst(e); ok {
						U[s] = append(U[s], entry{"", cc.Pos()})
					}
				}
				return true
			})
		}
	}
	kinds := map[string]bool{}
	for k := range E {
		kinds[k] = true
	}
	for k := range D {
		kinds[k] = true
	}
	for k := range U {
		kinds[k] = true
	}
	var names []string
	for k := range kinds {
		names = append(names, k)
	}
	sort.Strings(names)
	for _, k := range names {
		ob := Obligation{Key: "geojson#" + k, Status: OK}
		var problems []string
		switch {
		case len(D[k]) > 0:
			ob.Pos = c.Position(D[k][0].pos)
		case len(E[k]) > 0:
			ob.Pos = c.Position(E[k][0].pos)
		default:
			ob.Pos = c.Position(U[k][0].pos)
		}
		if len(E[k]) == 0 {
			// decoded but never written by the package: reading more than is written is harmless for the round trip
			out = append(out, Obligation{Key: "geojson#" + k, Pos: ob.Pos, Status: Info,
				Detail: fmt.Sprintf("geometry type %q is decoded or dispatched but no Geometry literal of the package builds it", k)})
			continue
		}
		if len(D[k]) == 0 {
			problems = append(problems, "Geometry.UnmarshalJSON has no case for it: a geometry written with this type cannot be read back")
		}
		if len(U[k]) == 0 {
			problems = append(problems, "the top-level Unmarshal does not list it among the geometry types: a bare geometry of this type is rejected")
		}
		et := map[string]bool{}
		for _, e := range E[k] {
			et[e.typ] = true
		}
		for _, d := range D[k] {
			for t := range et {
				if t != d.typ {
					problems = append(problems, fmt.Sprintf("built from %s (e.g. at %s) but decoded into %s at %s", t, c.Position(E[k][0].pos), d.typ, c.Position(d.pos)))
				}
			}
		}
		if len(problems) > 0 {
			ob.Status = Violation
			ob.Detail = fmt.Sprintf("geometry type %q: %s", k, strings.Join(problems, "; "))
		} else {
			ob.Detail = fmt.Sprintf("geometry type %q: built from %s at %d site(s), decoded into %s, accepted by the top-level Unmarshal", k, E[k][0].typ, len(E[k]), D[k][0].typ)
		}
		out = append(out, ob)
	}
	// informational: what the importer drops
	if ip := c.Pkg("ingest"); ip != nil {
		if fd, _ := c.LookupMethod("ingest", "AddFeatures", "fillFromFeature"); fd != nil {
			handled := map[string]bool{}
			ast.Inspect(fd.Body, func(n ast.Node) bool {
				cc, ok := n.(*ast.CaseClause)
				if !ok {
					return true
				}
				for _, e := range cc.List {
					if tv, ok := ip.TypesInfo.Types[e]; ok && tv.IsType() {
						handled[typeName(tv.Type)] = true
					}
				}
				return true
			})
			var dropped []string
			for _, k := range names {
				if len(D[k]) > 0 && !handled[D[k][0].typ] {
					dropped = append(dropped, D[k][0].typ)
				}
			}
			imp := Obligation{Key: "ingest.(*AddFeatures).fillFromFeature#imports", Pos: c.Position(fd.Pos()), Status: OK,
				Detail: "the importer's type switch has an arm for every geometry kind the decoder produces: one feature is added per GeoJSON feature"}
			if len(dropped) > 0 {
				imp.Status = Violation
				imp.Detail = fmt.Sprintf("the importer's type switch has no arm for %s: a GeoJSON feature with such a geometry is skipped without an error, so the import does not add one feature per GeoJSON feature", strings.Join(dropped, ", "))
			}
			out = append(out, imp)
		}
	}
	return out
}

// LATLNG-ORDER (C32): GeoJSON positions are [longitude, latitude] while every s2/b6 constructor
// takes (latitude, longitude). Two shape checks keep the two orders apart:
//
//	#codec  — for each type whose MarshalJSON marshals a []float64{x.A, x.B} literal and whose
//	          UnmarshalJSON stores x.F = s[i]: the field stored from index i is the field written
//	          at index i, and the length test of the decoder equals the literal's length.
//	#accepts — the same decoder returns an error only for the shape of its input: no branch that
//	          returns an error is conditioned on an ordered comparison of a decoded (non-constant)
//	          floating point number, because the encoder writes any finite number (the property's
//	          domain) and has no such test.
//	#call   — at every call (packages geojson and ingest carry C32, other packages are
//	          informational) of a function with consecutive float64 parameters named lat… and
//	          lng…/lon…, an argument whose own name (last identifier or field) says "lat" is not
//	          passed for the longitude and vice versa. Arguments with neutral names are not judged.
func init() {
	register(&Rule{
		Name:  "LATLNG-ORDER",
		IR:    "ast",
		Props: []string{"C32"},
		Floor: 5,
		Doc: "the position codec writes and reads its two fields at the same indices, and no call passes a value named for the latitude as a longitude parameter or vice versa " +
			"(instances: the codec pair of geojson.Coordinate and every call in geojson/ingest whose arguments are named lat…/lng…)",
		Run: runLatLngOrder,
	})
}

func latLngKind(name string) string {
	n := strings.ToLower(name)
	switch {
	case strings.HasPrefix(n, "lat"):
		return "lat"
	case strings.HasPrefix(n, "lng"), strings.HasPrefix(n, "lon"):
		return "lng"
	}
	return ""
}

func lastName(e ast.Expr) string {
	switch x := ast.Unparen(e).(type) {
	case *ast.Ident:
		return x.Name
	case *ast.SelectorExpr:
		return x.Sel.Name
	case *ast.CallExpr:
		// conversions and accessor calls: float64(x.Lat), ll.Lat.Degrees()
		if len(x.Args) == 1 {
			if _, ok := x.Fun.(*ast.Ident); ok {
				return lastName(x.Args[0])
			}
		}
		if sel, ok := x.Fun.(*ast.SelectorExpr); ok && len(x.Args) == 0 {
			return lastName(sel.X)
		}
	}
	return ""
}

func runLatLngOrder(c *Ctx) []Obligation {
	var out []Obligation
	// #codec
	if p := c.Pkg("geojson"); p != nil {
		info := p.TypesInfo
		type codec struct {
			written map[int]string
			read    map[int]string
			lenTest int64
			pos     token.Pos
			rejects []string // value-dependent rejections in the decoder
			decPos  token.Pos
		}
		codecs := map[string]*codec{}
		get := func(t types.Type) *codec {
			n := namedOf(t)
			if n == nil {
				return nil
			}
			if codecs[n.Obj().Name()] == nil {
				codecs[n.Obj().Name()] = &codec{written: map[int]string{}, read: map[int]string{}, lenTest: -1}
			}
			return codecs[n.Obj().Name()]
		}
		for _, fd := range c.FuncDecls(p) {
			if fd.Recv == nil {
				continue
			}
			obj, _ := info.Defs[fd.Name].(*types.Func)
			if obj == nil {
				continue
			}
			recv := obj.Type().(*types.Signature).Recv()
			recvObj := types.Object(nil)
			if len(fd.Recv.List) == 1 && len(fd.Recv.List[0].Names) == 1 {
				recvObj = info.Defs[fd.Recv.List[0].Names[0]]
			}
			isRecvField := func(e ast.Expr) string {
				sel, ok := ast.Unparen(e).(*ast.SelectorExpr)
				if !ok {
					return ""
				}
				if id, ok := ast.Unparen(sel.X).(*ast.Ident); ok && recvObj != nil && info.Uses[id] == recvObj {
					return sel.Sel.Name
				}
				return ""
			}
			switch fd.Name.Name {
			case "MarshalJSON":
				ast.Inspect(fd.Body, func(n ast.Node) bool {
					cl, ok := n.(*ast.CompositeLit)
					if !ok {
						return true
					}
					if sl, ok := info.TypeOf(cl).Underlying().(*types.Slice); !ok || !types.Identical(sl.Elem(), types.Typ[types.Float64]) {
						return true
					}
					cd := get(recv.Type())
					for i, el := range cl.Elts {
						if f := isRecvField(el); f != "" && cd != nil {
							cd.written[i] = f
							cd.pos = fd.Pos()
						}
					}
					return true
				})
			case "UnmarshalJSON":
				if cd := get(recv.Type()); cd != nil {
					cd.decPos = fd.Pos()
				}
				ast.Inspect(fd.Body, func(n ast.Node) bool {
					switch x := n.(type) {
					case *ast.IfStmt:
						// a branch that returns an error under a comparison of a decoded number
						returnsErr := false
						for _, st := range x.Body.List {
							if r, ok := st.(*ast.ReturnStmt); ok && len(r.Results) > 0 {
								if id, ok := ast.Unparen(r.Results[len(r.Results)-1]).(*ast.Ident); !ok || id.Name != "nil" {
									returnsErr = true
								}
							}
						}
						if returnsErr {
							ast.Inspect(x.Cond, func(m ast.Node) bool {
								be, ok := m.(*ast.BinaryExpr)
								if !ok {
									return true
								}
								switch be.Op {
								case token.LSS, token.LEQ, token.GTR, token.GEQ:
									for _, side := range []ast.Expr{be.X, be.Y} {
										if b, ok := info.TypeOf(side).Underlying().(*types.Basic); ok && b.Info()&types.IsFloat != 0 && info.Types[side].Value == nil {
											if cd := get(recv.Type()); cd != nil {
												cd.rejects = append(cd.rejects, fmt.Sprintf("%s at %s", nodeText(c.Fset, be), c.Position(be.Pos())))
											}
											return true
										}
									}
								}
								return true
							})
						}
					case *ast.AssignStmt:
						if len(x.Lhs) != len(x.Rhs) {
							return true
						}
						for i, l := range x.Lhs {
							f := isRecvField(l)
							ix, ok := ast.Unparen(x.Rhs[i]).(*ast.IndexExpr)
							if f == "" || !ok {
								continue
							}
							if tv := info.Types[ix.Index]; tv.Value != nil {
								if k, ok := constant.Int64Val(tv.Value); ok {
									if cd := get(recv.Type()); cd != nil {
										cd.read[int(k)] = f
									}
								}
							}
						}
					case *ast.BinaryExpr:
						if call, ok := ast.Unparen(x.X).(*ast.CallExpr); ok && isBuiltin(info, call, "len") && (x.Op == token.NEQ || x.Op == token.EQL) {
							if tv := info.Types[x.Y]; tv.Value != nil {
								if k, ok := constant.Int64Val(tv.Value); ok {
									if cd := get(recv.Type()); cd != nil {
										cd.lenTest = k
									}
								}
							}
						}
					}
					return true
				})
			}
		}
		for _, name := range sortedKeys(codecs) {
			cd := codecs[name]
			if len(cd.written) == 0 || len(cd.read) == 0 {
				continue
			}
			ob := Obligation{Key: "geojson." + name + "#codec", Pos: c.Position(cd.pos), Status: OK}
			var bad []string
			for i := 0; i < len(cd.written) || i < len(cd.read); i++ {
				if cd.written[i] != cd.read[i] {
					bad = append(bad, fmt.Sprintf("index %d is written from %q and read into %q", i, cd.written[i], cd.read[i]))
				}
			}
			if cd.lenTest >= 0 && int(cd.lenTest) != len(cd.written) {
				bad = append(bad, fmt.Sprintf("the decoder demands %d numbers, the encoder writes %d", cd.lenTest, len(cd.written)))
			}
			if len(bad) > 0 {
				ob.Status, ob.Detail = Violation, name+": "+strings.Join(bad, "; ")
			} else {
				ob.Detail = fmt.Sprintf("%s: MarshalJSON writes %v and UnmarshalJSON reads the same fields from the same indices", name, cd.written)
			}
			out = append(out, ob)
			acc := Obligation{Key: "geojson." + name + "#accepts", Pos: c.Position(cd.decPos), Status: OK,
				Detail: name + ": UnmarshalJSON rejects input only for its shape (decode error, wrong number of elements), never for the value of a number, so it accepts everything MarshalJSON writes"}
			if len(cd.rejects) > 0 {
				acc.Status = Violation
				acc.Detail = fmt.Sprintf("%s: UnmarshalJSON rejects positions by value (%s) while MarshalJSON writes any finite number: a position this package writes is refused when it is read back", name, strings.Join(cd.rejects, "; "))
			}
			out = append(out, acc)
		}
	}
	// #call
	for _, p := range c.SortedPkgs() {
		info := p.TypesInfo
		rel := relPkg(p)
		anchored := rel == "geojson" || rel == "ingest"
		for _, fd := range c.FuncDecls(p) {
			name := c.FuncName(p, fd)
			ord := 0
			ast.Inspect(fd.Body, func(n ast.Node) bool {
				call, ok := n.(*ast.CallExpr)
				if !ok || call.Ellipsis.IsValid() {
					return true
				}
				fn := calleeFunc(info, call)
				if fn == nil {
					return true
				}
				sig := fn.Type().(*types.Signature)
				if sig.Params().Len() != len(call.Args) {
					return true
				}
				for i := 0; i+1 < sig.Params().Len(); i++ {
					a, b := sig.Params().At(i), sig.Params().At(i+1)
					ka, kb := latLngKind(a.Name()), latLngKind(b.Name())
					if ka == "" || kb == "" || ka == kb {
						continue
					}
					na, nb := latLngKind(lastName(call.Args[i])), latLngKind(lastName(call.Args[i+1]))
					if na == "" && nb == "" {
						continue
					}
					ord++
					ob := Obligation{Key: fmt.Sprintf("%s#call%d", name, ord), Pos: c.Position(call.Pos()), Status: OK,
						Detail: fmt.Sprintf("%s(%s %s, %s %s) called with %s, %s", fn.Name(), a.Name(), ka, b.Name(), kb, nodeText(c.Fset, call.Args[i]), nodeText(c.Fset, call.Args[i+1]))}
					if (na != "" && na != ka) || (nb != "" && nb != kb) {
						ob.Status = Violation
						ob.Detail = fmt.Sprintf("%s takes (%s, %s) but is called with (%s, %s): latitude and longitude are swapped", fn.Name(), a.Name(), b.Name(), nodeText(c.Fset, call.Args[i]), nodeText(c.Fset, call.Args[i+1]))
					}
					if !anchored {
						if ob.Status == Violation {
							ob.Detail = "verdict violation (outside the anchored packages): " + ob.Detail
						}
						ob.Status = Info
					}
					out = append(out, ob)
				}
				return true
			})
		}
	}
	return out
}
