package main

import (
	"fmt"
	"go/token"
	"go/types"
	"sort"
	"strings"

	"golang.org/x/tools/go/ssa"
)

// CLIENT-STEPPED-LOOP (C23, "never hangs"). Entry points, taint and call frames are those of
// CLIENT-SIZED-ALLOC: the functions registered in api.FunctionSymbols, their int/float
// parameters, and the module functions they call statically with a tainted value (depth 3).
//
// Instances: natural loops (SSA back edges) in those functions with a loop-carried numeric
// variable v (a phi in the loop header) such that
//   - every update of v inside the loop is `v += step`, `v -= step`, `v = v + step` with a
//     loop-invariant step, or an assignment of a loop-invariant value (the clamp `j = 1.0`),
//     possibly merged through if/else (phis); at least one step is tainted, and no update adds
//     a non-zero constant (such a loop makes progress by itself);
//   - at least one exit condition of the loop depends on v — directly (`v < limit`) or through a
//     flag that is set under a comparison of v (`if j >= 1.0 { done = true }` … `for !done`).
//
// Obligation: when additionally *every* exit of the loop is decided by a pure function of v,
// loop-invariant values and such flags (no exit depends on a call, a load, a map lookup or an
// iterator inside the loop, so v's progress is the loop's only way out), the sign of every
// tainted step must be established before the loop: on every entry edge of the loop a strict
// sign test dominates — the TRUE edge of `x > c` (c >= 0) / `c < x`, or of `x < c` (c <= 0) /
// `c > x`, where x is the step or a tainted value the step is derived from (conversion, unary
// minus, multiplication or division by anything untainted such as
// MetersToAngle(d)/polyline.Length(), a module function called with it; a caller's test counts
// for the callee's parameter). `if !(d > 0) { return err }` is that shape (the compiler branches
// on d > 0 and continues on its true edge), and it rejects NaN. For floats the false edge of
// `d <= 0` is not accepted (NaN passes it); `d >= 0` or `d != 0` alone are not enough, both
// together are. For integers the false edge of `n <= 0` is accepted. A step that merges with a
// constant (`if length > eps { step = d/length } else { step = 1.0 }`) needs the constant to be
// non-zero.
//
// Accepted idioms: a loop with another exit that does not depend on v (iterator exhausted,
// error return) is an instance but carries no obligation (status ok, "independent exit");
// loops stepped by constants are not instances.
//
// Info (never failing): counting loops `for i := c; i < n; i++` whose bound n is tainted, has no
// upper-bound check (CLIENT-SIZED-ALLOC's bound analysis) and whose body allocates (append,
// make, map insert) — work and memory proportional to a client number. Reported with the
// verdict "unbounded work" for triage; not a violation because whether the amount is harmful
// depends on the element size and on limits outside the function.
//
// Limits: values that travel through struct fields, interfaces or captured variables are not
// followed (tile-paths' zoom reaches its loops through TileMercatorProjection.extent and is not
// seen); the sign test must be a comparison with a constant; the step must be loop-invariant.
func init() {
	register(&Rule{
		Name:  "CLIENT-STEPPED-LOOP",
		IR:    "ssa",
		Props: []string{"C23"},
		Floor: 2, // the sampling loop of appendUnseenSampledPoints, reached from sample-points and sample-points-along-paths
		Doc: "a loop in a client-callable function (api.FunctionSymbols, helpers to depth 3) whose only progress towards its exit is v += step with a step that is data-dependent on a numeric " +
			"request parameter is dominated by a strict sign test of the step or of the parameter it is derived from (for floats the true edge of x > 0, which also rejects NaN)",
		Run: runClientSteppedLoop,
	})
}

type dLoop struct {
	header *ssa.BasicBlock
	body   map[*ssa.BasicBlock]bool
}

// dLoops: the natural loops of fn, one per header.
func dLoops(fn *ssa.Function) []*dLoop {
	byHeader := map[*ssa.BasicBlock]*dLoop{}
	var out []*dLoop
	for _, b := range fn.Blocks {
		for _, h := range b.Succs {
			if !h.Dominates(b) {
				continue
			}
			l := byHeader[h]
			if l == nil {
				l = &dLoop{header: h, body: map[*ssa.BasicBlock]bool{h: true}}
				byHeader[h] = l
				out = append(out, l)
			}
			stack := []*ssa.BasicBlock{b}
			for len(stack) > 0 {
				x := stack[len(stack)-1]
				stack = stack[:len(stack)-1]
				if l.body[x] {
					continue
				}
				l.body[x] = true
				stack = append(stack, x.Preds...)
			}
		}
	}
	sort.Slice(out, func(i, j int) bool { return out[i].header.Index < out[j].header.Index })
	return out
}

func (l *dLoop) invariant(v ssa.Value) bool {
	switch x := v.(type) {
	case *ssa.Const, *ssa.Parameter, *ssa.FreeVar, *ssa.Global, *ssa.Function, *ssa.Builtin:
		return true
	case ssa.Instruction:
		return !l.body[x.Block()]
	}
	return false
}

type dStep struct {
	val ssa.Value
	at  ssa.Instruction
}

// updates resolves the in-loop values of header phi v to their leaves. ok=false when some
// update is not of the accepted shapes.
func (l *dLoop) updates(v *ssa.Phi) (steps []dStep, ok bool) {
	seen := map[ssa.Value]bool{}
	var chain func(x ssa.Value) bool // x is v, possibly through merges and ±step
	chain = func(x ssa.Value) bool {
		if x == ssa.Value(v) || l.invariant(x) {
			return true
		}
		if seen[x] {
			return true
		}
		seen[x] = true
		switch y := x.(type) {
		case *ssa.Phi:
			if y.Block() == l.header {
				return false // another loop-carried variable
			}
			for _, e := range y.Edges {
				if !chain(e) {
					return false
				}
			}
			return true
		case *ssa.BinOp:
			if y.Op != token.ADD && y.Op != token.SUB {
				return false
			}
			switch {
			case l.invariant(y.Y) && chain(y.X):
				steps = append(steps, dStep{y.Y, y})
				return true
			case y.Op == token.ADD && l.invariant(y.X) && chain(y.Y):
				steps = append(steps, dStep{y.X, y})
				return true
			}
		}
		return false
	}
	for k, e := range v.Edges {
		if !l.body[v.Block().Preds[k]] {
			continue
		}
		if !chain(e) {
			return nil, false
		}
	}
	return steps, true
}

// dPurity decides whether a value inside the loop is a pure function of the loop variable,
// loop-invariant values and flags controlled by such values.
type dPurity struct {
	l    *dLoop
	v    *ssa.Phi
	memo map[ssa.Value]int // 1 pure, 2 pure and depends on v, -1 impure, 0 in progress
	ctrl map[*ssa.BasicBlock][]*ssa.If
}

func (p *dPurity) eval(x ssa.Value) (pure, dep bool) {
	if x == ssa.Value(p.v) {
		return true, true
	}
	if p.l.invariant(x) {
		return true, false
	}
	if r, ok := p.memo[x]; ok {
		return r >= 0, r == 2
	}
	p.memo[x] = 0
	pure, dep = p.compute(x)
	switch {
	case !pure:
		p.memo[x] = -1
	case dep:
		p.memo[x] = 2
	default:
		p.memo[x] = 1
	}
	return pure, dep
}

func (p *dPurity) all(vs []ssa.Value) (pure, dep bool) {
	pure = true
	for _, a := range vs {
		pa, da := p.eval(a)
		pure = pure && pa
		dep = dep || da
	}
	return pure, dep && pure
}

func (p *dPurity) compute(x ssa.Value) (bool, bool) {
	switch y := x.(type) {
	case *ssa.BinOp:
		return p.all([]ssa.Value{y.X, y.Y})
	case *ssa.UnOp:
		if y.Op == token.MUL || y.Op == token.ARROW {
			return false, false
		}
		return p.eval(y.X)
	case *ssa.Convert:
		return p.eval(y.X)
	case *ssa.ChangeType:
		return p.eval(y.X)
	case *ssa.Call:
		com := y.Common()
		if b, ok := com.Value.(*ssa.Builtin); ok {
			switch b.Name() {
			case "len", "cap", "min", "max":
				return p.all(com.Args)
			}
			return false, false
		}
		if f := com.StaticCallee(); f != nil && f.Pkg != nil && f.Pkg.Pkg.Path() == "math" && len(f.Blocks) == 0 {
			return p.all(com.Args)
		}
		return false, false
	case *ssa.Phi:
		var vals []ssa.Value
		for k, e := range y.Edges {
			if p.l.body[y.Block().Preds[k]] {
				vals = append(vals, e)
			}
		}
		for _, iff := range p.controllers(y.Block()) {
			vals = append(vals, iff.Cond)
		}
		return p.all(vals)
	}
	return false, false
}

// controllers: the branches inside the loop that decide over which in-loop edge block m is
// entered (m's phis are control dependent on them).
func (p *dPurity) controllers(m *ssa.BasicBlock) []*ssa.If {
	if c, ok := p.ctrl[m]; ok {
		return c
	}
	var out []*ssa.If
	// arrivals(from): the in-loop predecessors of m through which a walk from `from` first
	// reaches m, without passing the loop header (unless m is the header)
	arrivals := func(from *ssa.BasicBlock, via *ssa.BasicBlock) map[*ssa.BasicBlock]bool {
		res := map[*ssa.BasicBlock]bool{}
		seen := map[*ssa.BasicBlock]bool{}
		type st struct{ b, pred *ssa.BasicBlock }
		stack := []st{{from, via}}
		for len(stack) > 0 {
			s := stack[len(stack)-1]
			stack = stack[:len(stack)-1]
			if s.b == m {
				res[s.pred] = true
				continue
			}
			if !p.l.body[s.b] || s.b == p.l.header || seen[s.b] {
				continue
			}
			seen[s.b] = true
			for _, n := range s.b.Succs {
				stack = append(stack, st{n, s.b})
			}
		}
		return res
	}
	var blocks []*ssa.BasicBlock
	for b := range p.l.body {
		blocks = append(blocks, b)
	}
	sort.Slice(blocks, func(i, j int) bool { return blocks[i].Index < blocks[j].Index })
	for _, b := range blocks {
		iff, ok := b.Instrs[len(b.Instrs)-1].(*ssa.If)
		if !ok || b.Succs[0] == b.Succs[1] {
			continue
		}
		a0, a1 := arrivals(b.Succs[0], b), arrivals(b.Succs[1], b)
		same := len(a0) == len(a1)
		for k := range a0 {
			if !a1[k] {
				same = false
			}
		}
		// A branch one of whose sides cannot reach m in this iteration does not choose between
		// m's incoming edges: given that m is entered, that branch went the other way.
		if !same && len(a0) > 0 && len(a1) > 0 {
			out = append(out, iff)
		}
	}
	p.ctrl[m] = out
	return out
}

// dSign answers whether a strict sign (never zero, never NaN) is established for v at a point.
type dSign struct {
	unknown string
}

const (
	dFactStrict  = 1 // > 0 or < 0 on a true edge (int: also false edges)
	dFactOrdered = 2 // >= c / <= c on a true edge: not NaN, one-sided
	dFactNonZero = 4 // != 0
)

func (s *dSign) facts(fr *dFrame, v ssa.Value, at dPoint) int {
	res := 0
	isFloat := false
	if b, ok := v.Type().Underlying().(*types.Basic); ok && b.Info()&types.IsFloat != 0 {
		isFloat = true
	}
	for _, blk := range fr.fn.Blocks {
		iff, ok := blk.Instrs[len(blk.Instrs)-1].(*ssa.If)
		if !ok {
			continue
		}
		bo, ok := iff.Cond.(*ssa.BinOp)
		if !ok {
			continue
		}
		op := bo.Op
		var k *ssa.Const
		switch {
		case dSameValue(bo.X, v):
			k, _ = bo.Y.(*ssa.Const)
		case dSameValue(bo.Y, v):
			k, _ = bo.X.(*ssa.Const)
			switch op {
			case token.LSS:
				op = token.GTR
			case token.LEQ:
				op = token.GEQ
			case token.GTR:
				op = token.LSS
			case token.GEQ:
				op = token.LEQ
			}
		}
		if k == nil || k.Value == nil {
			continue
		}
		c, ok := dConstFloat(k)
		if !ok {
			continue
		}
		onTrue, onFalse := dEdgeHolds(blk, 0, at), dEdgeHolds(blk, 1, at)
		if !onTrue && !onFalse {
			continue
		}
		// now: v op c, holding (onTrue) or failing (onFalse)
		switch op {
		case token.GTR:
			if onTrue && c >= 0 {
				res |= dFactStrict
			}
			if onFalse && !isFloat && c <= 0 { // v <= c
				if c < 0 {
					res |= dFactStrict
				} else {
					res |= dFactOrdered
				}
			}
		case token.LSS:
			if onTrue && c <= 0 {
				res |= dFactStrict
			}
			if onFalse && !isFloat && c >= 0 { // v >= c
				if c > 0 {
					res |= dFactStrict
				} else {
					res |= dFactOrdered
				}
			}
		case token.GEQ:
			if onTrue && c > 0 {
				res |= dFactStrict
			} else if onTrue && c == 0 {
				res |= dFactOrdered
			}
			if onFalse && !isFloat && c <= 0 { // v < c
				res |= dFactStrict
			}
		case token.LEQ:
			if onTrue && c < 0 {
				res |= dFactStrict
			} else if onTrue && c == 0 {
				res |= dFactOrdered
			}
			if onFalse && !isFloat && c >= 0 { // v > c
				res |= dFactStrict
			}
		case token.NEQ:
			if onTrue && c == 0 {
				res |= dFactNonZero
			}
		case token.EQL:
			if onFalse && c == 0 {
				res |= dFactNonZero
			}
			if onTrue && c != 0 {
				res |= dFactStrict
			}
		}
	}
	return res
}

func (s *dSign) known(fr *dFrame, v ssa.Value, at dPoint, seen map[string]bool) bool {
	key := fmt.Sprintf("%p|%p|%p|%p", fr, v, at.b, at.to)
	if seen[key] {
		return true
	}
	seen[key] = true
	if f := s.facts(fr, v, at); f&dFactStrict != 0 || (f&dFactOrdered != 0 && f&dFactNonZero != 0) {
		return true
	}
	if !fr.tainted[v] {
		if k, ok := v.(*ssa.Const); ok && k.Value != nil {
			if c, ok := dConstFloat(k); ok && c != 0 {
				return true
			}
			return false
		}
		s.unknown = "the step merges with a server-side value whose sign the rule cannot see"
		return false
	}
	tainted := func(vs []ssa.Value) []ssa.Value {
		var out []ssa.Value
		for _, a := range vs {
			if fr.tainted[a] {
				out = append(out, a)
			}
		}
		return out
	}
	allKnown := func(vs []ssa.Value) bool {
		for _, a := range vs {
			if !s.known(fr, a, at, seen) {
				return false
			}
		}
		return len(vs) > 0
	}
	switch x := v.(type) {
	case *ssa.Parameter:
		if fr.parent != nil && fr.argOf[x] != nil {
			return s.known(fr.parent, fr.argOf[x], dPoint{b: fr.call.Block()}, seen)
		}
	case *ssa.Phi:
		for k, e := range x.Edges {
			if !s.known(fr, e, dPoint{x.Block().Preds[k], x.Block()}, seen) {
				return false
			}
		}
		return true
	case *ssa.Convert:
		return s.known(fr, x.X, at, seen)
	case *ssa.ChangeType:
		return s.known(fr, x.X, at, seen)
	case *ssa.UnOp:
		if x.Op == token.SUB {
			return s.known(fr, x.X, at, seen)
		}
		if x.Op == token.MUL {
			if c := dCanon(x); c != ssa.Value(x) {
				return s.known(fr, c, at, seen)
			}
		}
	case *ssa.BinOp:
		if x.Op == token.MUL || x.Op == token.QUO {
			// the untainted factor/divisor is server-side data (a length): its sign is not the
			// client's to choose
			for _, o := range []ssa.Value{x.X, x.Y} {
				if !fr.tainted[o] {
					if k, ok := o.(*ssa.Const); ok && k.Value != nil {
						if c, ok := dConstFloat(k); ok && c == 0 {
							return false
						}
					}
				}
			}
			return allKnown(tainted([]ssa.Value{x.X, x.Y}))
		}
	case *ssa.Call:
		com := x.Common()
		if f := com.StaticCallee(); f != nil && len(f.Blocks) > 0 {
			return allKnown(tainted(com.Args)) // a module helper applied to the value (MetersToAngle)
		}
	}
	return false
}

func runClientSteppedLoop(c *Ctx) []Obligation {
	c.BuildSSA()
	var out []Obligation
	for _, rf := range dRegisteredFunctions(c) {
		fn := c.SSAFunc(rf.fn)
		if fn == nil || len(fn.Blocks) == 0 {
			continue
		}
		var seeds []ssa.Value
		var names []string
		for _, p := range fn.Params {
			if dIsNumeric(p.Type()) {
				seeds = append(seeds, p)
				names = append(names, p.Name())
			}
		}
		if len(seeds) == 0 {
			continue
		}
		name := "api/functions." + fn.Name()
		if rf.decl != nil {
			if _, p := c.Decl(rf.fn); p != nil {
				name = c.FuncName(p, rf.decl)
			}
		}
		t := &dTaint{c: c, seen: map[string]*dFrame{}}
		root := &dFrame{fn: fn}
		t.run(root, seeds, nil, 3)
		frames := []*dFrame{root}
		for _, k := range sortedKeys(t.seen) {
			frames = append(frames, t.seen[k])
		}
		// deterministic order: by call chain, then position
		sort.SliceStable(frames, func(i, j int) bool { return frames[i].chain() < frames[j].chain() })
		type found struct {
			ob   Obligation
			file string
			off  int
			info bool
		}
		var fs []found
		doneLoop := map[string]bool{}
		for _, fr := range frames {
			for _, l := range dLoops(fr.fn) {
				pos := dLoopPos(l)
				p := c.Fset.Position(pos)
				key := fmt.Sprintf("%p|%s:%d", fr, p.Filename, p.Offset)
				if doneLoop[key] {
					continue
				}
				doneLoop[key] = true
				for _, in := range l.header.Instrs {
					v, ok := in.(*ssa.Phi)
					if !ok {
						break
					}
					if !dIsNumeric(v.Type()) {
						continue
					}
					if ob, ok := dSteppedLoop(c, rf, names, fr, l, v); ok {
						fs = append(fs, found{ob, p.Filename, p.Offset, false})
					} else if ob, ok := dCountedLoop(c, rf, names, fr, l, v); ok {
						fs = append(fs, found{ob, p.Filename, p.Offset, true})
					}
				}
			}
		}
		sort.SliceStable(fs, func(i, j int) bool {
			if fs[i].file != fs[j].file {
				return fs[i].file < fs[j].file
			}
			return fs[i].off < fs[j].off
		})
		n, ni := 0, 0
		for _, f := range fs {
			if f.info {
				ni++
				f.ob.Key = fmt.Sprintf("%s#bounded%d", name, ni)
			} else {
				n++
				f.ob.Key = fmt.Sprintf("%s#%d", name, n)
			}
			out = append(out, f.ob)
		}
	}
	return out
}

func dLoopPos(l *dLoop) token.Pos {
	for _, in := range l.header.Instrs {
		if in.Pos().IsValid() {
			return in.Pos()
		}
	}
	return dInstrPos(l.header.Instrs[len(l.header.Instrs)-1])
}

// exits: the conditional exits of the loop; ok=false when the loop can be left unconditionally.
func (l *dLoop) exits() (conds []*ssa.If, ok bool) {
	var blocks []*ssa.BasicBlock
	for b := range l.body {
		blocks = append(blocks, b)
	}
	sort.Slice(blocks, func(i, j int) bool { return blocks[i].Index < blocks[j].Index })
	for _, b := range blocks {
		leaves := false
		for _, s := range b.Succs {
			if !l.body[s] {
				leaves = true
			}
		}
		if !leaves {
			continue
		}
		iff, isIf := b.Instrs[len(b.Instrs)-1].(*ssa.If)
		if !isIf {
			return nil, false
		}
		conds = append(conds, iff)
	}
	return conds, true
}

func dSteppedLoop(c *Ctx, rf dRegisteredFunc, params []string, fr *dFrame, l *dLoop, v *ssa.Phi) (Obligation, bool) {
	steps, ok := l.updates(v)
	if !ok || len(steps) == 0 {
		return Obligation{}, false
	}
	var taintedSteps []dStep
	for _, s := range steps {
		if fr.tainted[s.val] {
			taintedSteps = append(taintedSteps, s)
			continue
		}
		if k, isConst := s.val.(*ssa.Const); isConst && k.Value != nil {
			if f, ok := dConstFloat(k); ok && f != 0 {
				return Obligation{}, false // the loop also advances by a constant
			}
		}
	}
	if len(taintedSteps) == 0 {
		return Obligation{}, false
	}
	conds, ok := l.exits()
	if !ok || len(conds) == 0 {
		return Obligation{}, false
	}
	pur := &dPurity{l: l, v: v, memo: map[ssa.Value]int{}, ctrl: map[*ssa.BasicBlock][]*ssa.If{}}
	allPure, anyDep := true, false
	impureAt := ""
	for _, iff := range conds {
		p, d := pur.eval(iff.Cond)
		if !p {
			allPure = false
			if impureAt == "" {
				impureAt = c.Position(dInstrPos(iff))
			}
		}
		anyDep = anyDep || d
	}
	if !anyDep {
		return Obligation{}, false // v is not what the loop waits for
	}
	st := taintedSteps[0]
	ob := Obligation{Pos: c.Position(dLoopPos(l)), Status: OK}
	what := fmt.Sprintf("loop at %s (%s) advances %s by a step (%s) that depends on parameter(s) %s of client-callable %q", c.Position(dLoopPos(l)), fr.chain(),
		dVarName(v), c.Position(dInstrPos(st.at)), strings.Join(params, ", "), rf.symbol)
	if !allPure {
		ob.Detail = what + "; the loop has an independent exit (condition at " + impureAt + " does not depend on it): no obligation"
		return ob, true
	}
	sg := &dSign{}
	var entries []dPoint
	for _, p := range l.header.Preds {
		if !l.body[p] {
			entries = append(entries, dPoint{p, l.header})
		}
	}
	okSign := len(entries) > 0
	for _, s := range taintedSteps {
		for _, e := range entries {
			if !sg.known(fr, s.val, e, map[string]bool{}) {
				okSign = false
				st = s
			}
		}
	}
	switch {
	case okSign:
		ob.Detail = what + " and is its only way out; a strict sign test of the step (or of the value it is derived from) dominates the loop"
	case sg.unknown != "":
		ob.Status = Undecided
		ob.Detail = what + " and is its only way out; no strict sign test found, and " + sg.unknown
	default:
		ob.Status = Violation
		ob.Detail = what + " and this is the loop's only way out, but nothing establishes the sign of the step before the loop: a zero, negative or NaN value never reaches the exit condition (the request never returns)"
		ob.Path = []string{"entry point " + rf.fn.Name() + " (symbol " + rf.symbol + ")", "call chain " + fr.chain(),
			"loop header at " + c.Position(dLoopPos(l)), "step applied at " + c.Position(dInstrPos(st.at)) + ": " + st.at.String()}
	}
	return ob, true
}

func dVarName(v *ssa.Phi) string {
	if v.Comment != "" {
		return v.Comment
	}
	return v.Name()
}

// dCountedLoop: `for i := c; i < n; i += k` with a tainted, unbounded n and an allocating body.
func dCountedLoop(c *Ctx, rf dRegisteredFunc, params []string, fr *dFrame, l *dLoop, v *ssa.Phi) (Obligation, bool) {
	steps, ok := l.updates(v)
	if !ok || len(steps) == 0 {
		return Obligation{}, false
	}
	for _, s := range steps {
		k, isConst := s.val.(*ssa.Const)
		if !isConst || k.Value == nil {
			return Obligation{}, false
		}
		if f, ok := dConstFloat(k); !ok || f == 0 {
			return Obligation{}, false
		}
	}
	conds, ok := l.exits()
	if !ok || len(conds) == 0 {
		return Obligation{}, false
	}
	pur := &dPurity{l: l, v: v, memo: map[ssa.Value]int{}, ctrl: map[*ssa.BasicBlock][]*ssa.If{}}
	var bound ssa.Value
	for _, iff := range conds {
		p, _ := pur.eval(iff.Cond)
		if !p {
			return Obligation{}, false
		}
		if bo, ok := iff.Cond.(*ssa.BinOp); ok {
			for _, o := range []ssa.Value{bo.X, bo.Y} {
				if l.invariant(o) && fr.tainted[o] {
					bound = o
				}
			}
		}
	}
	if bound == nil {
		return Obligation{}, false
	}
	alloc := ""
	for b := range l.body {
		for _, in := range b.Instrs {
			switch x := in.(type) {
			case *ssa.MakeSlice, *ssa.MakeMap, *ssa.MapUpdate:
				alloc = c.Position(dInstrPos(in))
			case *ssa.Call:
				if bi, ok := x.Call.Value.(*ssa.Builtin); ok && bi.Name() == "append" {
					alloc = c.Position(dInstrPos(in))
				}
			}
		}
	}
	if alloc == "" {
		return Obligation{}, false
	}
	for _, p := range l.header.Preds {
		if l.body[p] {
			continue
		}
		bd := &dBound{sinkVal: bound}
		if !bd.bounded(fr, bound, dUpper, dPoint{p, l.header}, map[string]bool{}) {
			return Obligation{Pos: c.Position(dLoopPos(l)), Status: Info,
				Detail: fmt.Sprintf("verdict: unbounded work — counting loop at %s (%s) runs up to a bound that depends on parameter(s) %s of client-callable %q with no upper-bound check, and allocates per iteration (%s)",
					c.Position(dLoopPos(l)), fr.chain(), strings.Join(params, ", "), rf.symbol, alloc)}, true
		}
	}
	return Obligation{}, false
}
