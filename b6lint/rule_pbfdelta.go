package main

import (
	"fmt"
	"go/ast"
	"go/token"
	"go/types"
	"sort"
	"strings"
)

// PBF-DELTA (C27): the PBF format stores node IDs, coordinates, way node references and relation
// member IDs as differences from the previous element. Both sides keep the previous *absolute*
// value in a variable (lastID, lastLat, …, a local or a field of the writer). The scheme reads
// back what was written only if, after every element, that variable holds the absolute value of
// the element just handled: a writer that stores the delta, or a reader that stores the raw
// (un-accumulated) input, decodes correctly for the first two elements and drifts afterwards.
//
// Slots (by shape, package osm): a *delta state* is a variable or field whose name starts with
// "last" and that occurs as the right operand of `E - L` (writer) or as an operand of `E + L`
// (reader), or is passed to a module function whose parameter is named "last". One obligation per
// state per function:
//
//	writer (E - L):    every assignment to L in the function, other than a reset to the constant 0,
//	                   is `L = E` with the same E (modulo conversions), or `L += D` where D holds
//	                   the difference just computed (D := E - L, or D := f(…, L, …));
//	reader (X = E + L, X := E + L or f(E, L, …)): L is assigned X — or, written out, the same sum —
//	                   later in the same block (tuple assignments are read position by position);
//	both:              L is assigned at all (a state that is never updated stays 0).
//
// Anything else assigned to L is a violation that names the statement.
//
//	restart (writer states that are fields, i.e. outlive one call): in every block of the package
//	                   that restarts the sequence the differences are appended to (S = S[0:0]), L is
//	                   reset to 0 as well — the reader starts every sequence from 0.
func init() {
	register(&Rule{
		Name:  "PBF-DELTA",
		IR:    "ast",
		Props: []string{"C27"},
		Floor: 11,
		Doc: "in package osm every delta-coding state (a variable or field named last…) is updated, after each element, with the element's absolute value — " +
			"the writer's minuend, the reader's accumulated sum — and with nothing else except a reset to 0",
		Run: runPBFDelta,
	})
}

func runPBFDelta(c *Ctx) []Obligation { return runDeltaStates(c, "osm", []string{"last"}) }

// runDeltaStates is the engine of PBF-DELTA, TILE-CURSOR and POSTING-DELTA: the delta states of one
// package are the variables and fields whose names start with one of the given prefixes.
func runDeltaStates(c *Ctx, rel string, prefixes []string) []Obligation {
	var out []Obligation
	p := c.Pkg(rel)
	if p == nil {
		return out
	}
	info := p.TypesInfo
	isStateName := func(n string) bool {
		for _, pre := range prefixes {
			if strings.HasPrefix(n, pre) {
				return true
			}
		}
		return false
	}
	stateObj := func(e ast.Expr) (types.Object, string) {
		switch x := ast.Unparen(e).(type) {
		case *ast.Ident:
			if isStateName(x.Name) {
				if o := info.Uses[x]; o != nil {
					return o, x.Name
				}
				if o := info.Defs[x]; o != nil {
					return o, x.Name
				}
			}
		case *ast.SelectorExpr:
			if isStateName(x.Sel.Name) {
				if s := info.Selections[x]; s != nil {
					return s.Obj(), nodeText(c.Fset, x)
				}
			}
		}
		return nil, ""
	}
	strip := func(e ast.Expr) ast.Expr {
		for {
			e = ast.Unparen(e)
			call, ok := e.(*ast.CallExpr)
			if !ok || len(call.Args) != 1 {
				return e
			}
			if tv, ok := info.Types[call.Fun]; !ok || !tv.IsType() {
				return e
			}
			e = call.Args[0]
		}
	}
	same := func(a, b ast.Expr) bool { return sameExpr(info, strip(a), strip(b)) }
	isZero := func(e ast.Expr) bool {
		tv := info.Types[e]
		return tv.Value != nil && tv.Value.ExactString() == "0"
	}
	for _, fd := range c.FuncDecls(p) {
		name := c.FuncName(p, fd)
		type st struct {
			text     string
			minuends []ast.Expr // writer: E of E - L
			sums     []ast.Expr // reader: the variable that receives E + L (or the sum itself)
			diffs    []types.Object
			viaCall  bool
			pos      token.Pos
		}
		states := map[types.Object]*st{}
		get := func(o types.Object, text string, pos token.Pos) *st {
			if states[o] == nil {
				states[o] = &st{text: text, pos: pos}
			}
			return states[o]
		}
		// assignments X = rhs (positionwise)
		type asg struct {
			lhs, rhs ast.Expr
			tok      token.Token
			stmt     *ast.AssignStmt
		}
		var asgs []asg
		ast.Inspect(fd.Body, func(n ast.Node) bool {
			if as, ok := n.(*ast.AssignStmt); ok && len(as.Lhs) == len(as.Rhs) {
				for i := range as.Lhs {
					asgs = append(asgs, asg{as.Lhs[i], as.Rhs[i], as.Tok, as})
				}
			}
			return true
		})
		lhsOf := func(e ast.Expr) ast.Expr {
			for _, a := range asgs {
				if a.rhs == e || strip(a.rhs) == e {
					return a.lhs
				}
			}
			return nil
		}
		ast.Inspect(fd.Body, func(n ast.Node) bool {
			switch x := n.(type) {
			case *ast.BinaryExpr:
				switch x.Op {
				case token.SUB:
					if o, text := stateObj(x.Y); o != nil {
						s := get(o, text, x.Pos())
						s.minuends = append(s.minuends, x.X)
						if l := lhsOf(x); l != nil {
							if id, ok := l.(*ast.Ident); ok {
								if d := info.Defs[id]; d != nil {
									s.diffs = append(s.diffs, d)
								} else if d := info.Uses[id]; d != nil {
									s.diffs = append(s.diffs, d)
								}
							}
						}
					}
				case token.ADD:
					for _, pr := range [][2]ast.Expr{{x.X, x.Y}, {x.Y, x.X}} {
						if o, text := stateObj(pr[1]); o != nil {
							s := get(o, text, x.Pos())
							if l := lhsOf(x); l != nil {
								s.sums = append(s.sums, l)
							}
							s.sums = append(s.sums, x)
						}
					}
				}
			case *ast.CallExpr:
				fn := calleeFunc(info, x)
				if fn == nil || fn.Pkg() == nil || !strings.HasPrefix(fn.Pkg().Path(), ModulePath) {
					return true
				}
				sig := fn.Type().(*types.Signature)
				for i, a := range x.Args {
					if i < sig.Params().Len() && isStateName(sig.Params().At(i).Name()) {
						if o, text := stateObj(a); o != nil {
							s := get(o, text, x.Pos())
							s.viaCall = true
							if l := lhsOf(x); l != nil {
								if id, ok := l.(*ast.Ident); ok {
									if d := info.Defs[id]; d != nil {
										s.diffs = append(s.diffs, d)
									}
								}
								s.sums = append(s.sums, l)
							}
						}
					}
				}
			}
			return true
		})
		var objs []types.Object
		for o := range states {
			objs = append(objs, o)
		}
		sort.Slice(objs, func(i, j int) bool { return states[objs[i]].text < states[objs[j]].text })
		params := map[types.Object]bool{}
		if fobj, _ := info.Defs[fd.Name].(*types.Func); fobj != nil {
			sig := fobj.Type().(*types.Signature)
			for i := 0; i < sig.Params().Len(); i++ {
				params[sig.Params().At(i)] = true
			}
		}
		for _, o := range objs {
			s := states[o]
			if params[o] {
				continue // a by-value parameter: the function is a helper, the caller owns the state
			}
			ob := Obligation{Key: fmt.Sprintf("%s#%s", name, s.text), Pos: c.Position(s.pos), Status: OK}
			writer := len(s.minuends) > 0
			var updates, bad []string
			for _, a := range asgs {
				lo, _ := stateObj(a.lhs)
				if lo != o {
					continue
				}
				txt := fmt.Sprintf("%s %s %s at %s", nodeText(c.Fset, a.lhs), a.tok, nodeText(c.Fset, a.rhs), c.Position(a.stmt.Pos()))
				switch {
				case a.tok == token.DEFINE || a.tok == token.ASSIGN:
					if isZero(a.rhs) {
						continue // reset / initialisation
					}
					ok := false
					if writer {
						for _, m := range s.minuends {
							if same(a.rhs, m) {
								ok = true
							}
						}
					}
					for _, sum := range s.sums {
						if same(a.rhs, sum) {
							ok = true
						}
					}
					if ok {
						updates = append(updates, txt)
					} else {
						bad = append(bad, txt+" is neither the absolute value the difference was taken from nor the accumulated sum")
					}
				case a.tok == token.ADD_ASSIGN:
					ok := false
					if id, isID := strip(a.rhs).(*ast.Ident); isID {
						for _, d := range s.diffs {
							if info.Uses[id] == d {
								ok = true
							}
						}
					}
					if ok {
						updates = append(updates, txt)
					} else {
						bad = append(bad, txt+" adds something other than the difference just computed")
					}
				default:
					bad = append(bad, txt+" is not an update the rule knows")
				}
			}
			kind := "reader"
			if writer {
				kind = "writer"
			} else if s.viaCall && len(s.diffs) > 0 && len(updates) > 0 && strings.Contains(updates[0], "+=") {
				kind = "writer, difference computed by a helper"
			}
			switch {
			case len(bad) > 0:
				ob.Status = Violation
				ob.Detail = fmt.Sprintf("delta state %s (%s side): %s", s.text, kind, strings.Join(bad, "; "))
			case len(updates) == 0:
				ob.Status = Violation
				ob.Detail = fmt.Sprintf("delta state %s (%s side) is used as the previous value but never updated in %s: every element after the second is decoded against a stale base", s.text, kind, name)
			default:
				ob.Detail = fmt.Sprintf("delta state %s (%s side) is updated with the element's absolute value: %s", s.text, kind, strings.Join(updates, "; "))
			}
			out = append(out, ob)
			// restart pairing (writer states that outlive the call, i.e. fields): wherever the sequence the
			// differences are appended to is restarted (S = S[0:0]), the base restarts with it (L = 0 in the same block)
			if _, isField := o.(*types.Var); isField && o.(*types.Var).IsField() {
				var seq ast.Expr
				ast.Inspect(fd.Body, func(n ast.Node) bool {
					as, ok := n.(*ast.AssignStmt)
					if !ok || len(as.Lhs) != 1 || len(as.Rhs) != 1 {
						return true
					}
					call, ok := ast.Unparen(as.Rhs[0]).(*ast.CallExpr)
					if !ok || !isBuiltin(info, call, "append") || len(call.Args) != 2 || !sameExpr(info, as.Lhs[0], call.Args[0]) {
						return true
					}
					uses := false
					ast.Inspect(call.Args[1], func(m ast.Node) bool {
						switch x := m.(type) {
						case *ast.BinaryExpr:
							if x.Op == token.SUB {
								if so, _ := stateObj(x.Y); so == o {
									uses = true
								}
							}
						case *ast.Ident:
							for _, d := range s.diffs {
								if info.Uses[x] == d {
									uses = true
								}
							}
						}
						return true
					})
					if uses {
						seq = as.Lhs[0]
					}
					return true
				})
				if seq != nil {
					seqText := nodeText(c.Fset, seq)
					rob := Obligation{Key: fmt.Sprintf("%s#%s.restart", name, s.text), Pos: c.Position(seq.Pos()), Status: OK}
					var restarts, bad []string
					for _, gd := range c.FuncDecls(p) {
						ast.Inspect(gd.Body, func(n ast.Node) bool {
							blk, ok := n.(*ast.BlockStmt)
							if !ok {
								return true
							}
							truncated, reset := "", false
							for _, st := range blk.List {
								as, ok := st.(*ast.AssignStmt)
								if !ok || len(as.Lhs) != len(as.Rhs) {
									continue
								}
								for i, l := range as.Lhs {
									if se, ok := ast.Unparen(as.Rhs[i]).(*ast.SliceExpr); ok && nodeText(c.Fset, l) == seqText && nodeText(c.Fset, se.X) == seqText && se.High != nil && isZero(se.High) {
										truncated = c.Position(as.Pos())
									}
									if lo, _ := stateObj(l); lo == o && isZero(as.Rhs[i]) {
										reset = true
									}
								}
							}
							if truncated != "" {
								if reset {
									restarts = append(restarts, truncated)
								} else {
									bad = append(bad, fmt.Sprintf("%s is restarted at %s but %s is not reset to 0 in that block: the first element of the new sequence is written as a difference from the last element of the previous one, while the reader starts every sequence from 0", seqText, truncated, s.text))
								}
							}
							return true
						})
					}
					switch {
					case len(bad) > 0:
						rob.Status, rob.Detail = Violation, strings.Join(bad, "; ")
					case len(restarts) == 0:
						rob.Status, rob.Detail = Info, fmt.Sprintf("no restart of %s found", seqText)
					default:
						rob.Detail = fmt.Sprintf("%s restarts together with its sequence %s (at %s)", s.text, seqText, strings.Join(restarts, ", "))
					}
					out = append(out, rob)
				}
			}
		}
	}
	return out
}

// PBF-SENTINEL (C27): the dense-node tag stream interleaves string-table indices with a constant
// terminator (`append(KeysVals, 0)` after each node's tags; the reader stops a node's tags at the
// first 0 in key position). The scheme works only if no string is ever given the terminator as its
// index: the table must keep a reserved entry and the string→index map must never hold that value.
//
// Slots (by shape, package osm): a *terminated stream* is a slice Q that one function appends both
// a constant K and the results of a module function F to. In F, the map M that is consulted and
// the table T whose length is handed out as the next index are read from the code
// (`if i, ok = M[s]; !ok { i = len(T); T = append(T, …); M[s] = i }`). Obligations:
//
//	#map     every store into M anywhere in the package stores the value taken from len(T) in F — a
//	         store of a constant (in particular K) is a violation;
//	#table   every re-slice of T keeps more than K entries (T = T[0:n] with constant n > K), and T is
//	         created with a length > K.
func init() {
	register(&Rule{
		Name:  "PBF-SENTINEL",
		IR:    "ast",
		Props: []string{"C27"},
		Floor: 2,
		Doc: "in package osm a stream that is terminated by a constant (the dense-node tag stream, terminated by 0) never receives that constant as a string index: " +
			"the string→index map is only ever filled with len(table), and the table never shrinks to the reserved entries or below",
		Run: runPBFSentinel,
	})
}

func runPBFSentinel(c *Ctx) []Obligation {
	var out []Obligation
	p := c.Pkg("osm")
	if p == nil {
		return out
	}
	info := p.TypesInfo
	constInt := func(e ast.Expr) (int64, bool) {
		tv := info.Types[e]
		if tv.Value == nil {
			return 0, false
		}
		s := tv.Value.ExactString()
		var k int64
		if _, err := fmt.Sscanf(s, "%d", &k); err != nil {
			return 0, false
		}
		return k, true
	}
	for _, fd := range c.FuncDecls(p) {
		name := c.FuncName(p, fd)
		// Q: appended both a constant and a module call
		type stream struct {
			k     int64
			kpos  token.Pos
			f     *types.Func
			qtext string
		}
		streams := map[string]*stream{}
		ast.Inspect(fd.Body, func(n ast.Node) bool {
			as, ok := n.(*ast.AssignStmt)
			if !ok || len(as.Lhs) != 1 || len(as.Rhs) != 1 {
				return true
			}
			call, ok := ast.Unparen(as.Rhs[0]).(*ast.CallExpr)
			if !ok || !isBuiltin(info, call, "append") || len(call.Args) != 2 || !sameExpr(info, as.Lhs[0], call.Args[0]) {
				return true
			}
			q := nodeText(c.Fset, as.Lhs[0])
			if streams[q] == nil {
				streams[q] = &stream{k: -1, qtext: q}
			}
			if k, ok := constInt(call.Args[1]); ok {
				streams[q].k, streams[q].kpos = k, call.Pos()
			} else if inner, ok := ast.Unparen(call.Args[1]).(*ast.CallExpr); ok {
				if g := calleeFunc(info, inner); g != nil && g.Pkg() != nil && g.Pkg().Path() == p.PkgPath {
					streams[q].f = g
				}
			}
			return true
		})
		for _, q := range sortedKeys(streams) {
			st := streams[q]
			if st.k < 0 || st.f == nil {
				continue
			}
			gd, _ := c.Decl(st.f)
			if gd == nil || gd.Body == nil {
				continue
			}
			// in F: M (map indexed) and T (len(T))
			var mExpr, tExpr ast.Expr
			var idxVar types.Object
			ast.Inspect(gd.Body, func(n ast.Node) bool {
				switch x := n.(type) {
				case *ast.IndexExpr:
					if _, ok := info.TypeOf(x.X).Underlying().(*types.Map); ok && mExpr == nil {
						mExpr = x.X
					}
				case *ast.AssignStmt:
					if len(x.Lhs) == 1 && len(x.Rhs) == 1 {
						rhs := ast.Unparen(x.Rhs[0])
						for {
							cv, ok := rhs.(*ast.CallExpr)
							if !ok || len(cv.Args) != 1 {
								break
							}
							if tv, ok := info.Types[cv.Fun]; ok && tv.IsType() {
								rhs = ast.Unparen(cv.Args[0])
								continue
							}
							if isBuiltin(info, cv, "len") {
								tExpr = cv.Args[0]
								if id, ok := x.Lhs[0].(*ast.Ident); ok {
									idxVar = info.Uses[id]
									if idxVar == nil {
										idxVar = info.Defs[id]
									}
								}
							}
							break
						}
					}
				}
				return true
			})
			if mExpr == nil || tExpr == nil {
				out = append(out, Obligation{Key: fmt.Sprintf("%s#%s.map", name, q), Pos: c.Position(st.kpos), Status: Undecided,
					Detail: fmt.Sprintf("%s is terminated by %d and filled from %s, but the map and table of %s were not recognised", q, st.k, st.f.Name(), st.f.Name())})
				continue
			}
			mText, tText := nodeText(c.Fset, mExpr), nodeText(c.Fset, tExpr)
			mob := Obligation{Key: fmt.Sprintf("%s#%s.map", name, q), Pos: c.Position(st.kpos), Status: OK}
			tob := Obligation{Key: fmt.Sprintf("%s#%s.table", name, q), Pos: c.Position(st.kpos), Status: OK}
			var mbad, tbad, mok, tok []string
			for _, hd := range c.FuncDecls(p) {
				ast.Inspect(hd.Body, func(n ast.Node) bool {
					as, ok := n.(*ast.AssignStmt)
					if !ok || len(as.Lhs) != len(as.Rhs) {
						return true
					}
					for i, l := range as.Lhs {
						if nodeText(c.Fset, l) == mText {
							// M = map[K]V{k: v, …}: every initial value is a stored index too
							if lit, ok := ast.Unparen(as.Rhs[i]).(*ast.CompositeLit); ok {
								for _, el := range lit.Elts {
									if kv, ok := el.(*ast.KeyValueExpr); ok {
										where := c.Position(kv.Pos())
										if k, isConst := constInt(kv.Value); isConst {
											msg := fmt.Sprintf("%s is created with the entry %s at %s, a constant index", mText, nodeText(c.Fset, kv), where)
											if k == st.k {
												msg += fmt.Sprintf(", and it is the terminator of %s: a string with this index ends the element's list early and shifts everything after it", q)
											}
											mbad = append(mbad, msg)
										} else {
											mbad = append(mbad, fmt.Sprintf("%s is created with the entry %s at %s, which is not an index taken from len(%s)", mText, nodeText(c.Fset, kv), where, tText))
										}
									}
								}
							}
						}
						if ix, ok := ast.Unparen(l).(*ast.IndexExpr); ok && nodeText(c.Fset, ix.X) == mText {
							where := c.Position(as.Pos())
							if k, isConst := constInt(as.Rhs[i]); isConst {
								msg := fmt.Sprintf("%s = %d at %s stores a constant index", nodeText(c.Fset, l), k, where)
								if k == st.k {
									msg += fmt.Sprintf(", and it is the terminator of %s: a string with this index ends the element's list early and shifts everything after it", q)
								}
								mbad = append(mbad, msg)
							} else if id, ok := ast.Unparen(as.Rhs[i]).(*ast.Ident); ok && hd == gd && info.Uses[id] == idxVar {
								mok = append(mok, where)
							} else {
								mbad = append(mbad, fmt.Sprintf("%s = %s at %s is not the index taken from len(%s)", nodeText(c.Fset, l), nodeText(c.Fset, as.Rhs[i]), where, tText))
							}
						}
						if nodeText(c.Fset, l) == tText {
							where := c.Position(as.Pos())
							switch r := ast.Unparen(as.Rhs[i]).(type) {
							case *ast.SliceExpr:
								if nodeText(c.Fset, r.X) == tText && r.High != nil {
									if k, ok := constInt(r.High); ok && k > st.k {
										tok = append(tok, where)
									} else {
										tbad = append(tbad, fmt.Sprintf("%s at %s does not keep the reserved entries (needs more than %d)", nodeText(c.Fset, as), where, st.k))
									}
								}
							case *ast.CallExpr:
								if isBuiltin(info, r, "make") && len(r.Args) >= 2 {
									if k, ok := constInt(r.Args[1]); ok && k > st.k {
										tok = append(tok, where)
									} else {
										tbad = append(tbad, fmt.Sprintf("%s at %s creates the table without the reserved entries", nodeText(c.Fset, as), where))
									}
								}
							}
						}
					}
					return true
				})
			}
			// composite literal initialisation of T: &pb.StringTable{S: make([][]byte, 1, …)}
			selName := tText[strings.LastIndex(tText, ".")+1:]
			for _, hd := range c.FuncDecls(p) {
				ast.Inspect(hd.Body, func(n ast.Node) bool {
					kv, ok := n.(*ast.KeyValueExpr)
					if !ok {
						return true
					}
					if k, ok := kv.Key.(*ast.Ident); ok && k.Name == selName {
						if r, ok := ast.Unparen(kv.Value).(*ast.CallExpr); ok && isBuiltin(info, r, "make") && len(r.Args) >= 2 {
							if k, ok := constInt(r.Args[1]); ok && k > st.k {
								tok = append(tok, c.Position(kv.Pos()))
							} else {
								tbad = append(tbad, fmt.Sprintf("%s at %s creates the table without the reserved entries", nodeText(c.Fset, kv), c.Position(kv.Pos())))
							}
						}
					}
					return true
				})
			}
			if len(mbad) > 0 {
				mob.Status, mob.Detail = Violation, strings.Join(mbad, "; ")
			} else {
				mob.Detail = fmt.Sprintf("%s is terminated by %d; its indices come from %s, whose map %s is filled only with len(%s) (at %s)", q, st.k, st.f.Name(), mText, tText, strings.Join(mok, ", "))
			}
			if len(tbad) > 0 {
				tob.Status, tob.Detail = Violation, strings.Join(tbad, "; ")
			} else if len(tok) == 0 {
				tob.Status, tob.Detail = Undecided, fmt.Sprintf("no creation or re-slice of %s found: cannot tell that index %d stays reserved", tText, st.k)
			} else {
				tob.Detail = fmt.Sprintf("%s always keeps more than %d entries (created/re-sliced at %s), so len(%s) never hands out the terminator", tText, st.k, strings.Join(tok, ", "), tText)
			}
			out = append(out, mob, tob)
		}
	}
	return out
}

// TILE-CURSOR (C33) and POSTING-DELTA (C08) apply PBF-DELTA's obligations to the two other places
// where b6 writes a sequence as differences from the previous element: the vector-tile geometry
// encoder (cursorX/cursorY: every coordinate pair is written relative to the cursor, which must
// then hold the absolute position just written) and the posting-list encoder (previous: every ID
// is written as the difference from the previous ID of the block).
func init() {
	register(&Rule{
		Name:  "TILE-CURSOR",
		IR:    "ast",
		Props: []string{"C33"},
		Floor: 2,
		Doc: "in package renderer the cursor the tile geometry encoder takes differences from (cursorX, cursorY) is updated, after every coordinate pair, with the absolute coordinate just written, " +
			"and with nothing else except a restart at the feature's origin",
		Run: func(c *Ctx) []Obligation {
			var out []Obligation
			for _, o := range runDeltaStates(c, "renderer", []string{"cursor"}) {
				if !strings.HasSuffix(o.Key, ".restart") {
					out = append(out, o)
				}
			}
			return out
		},
	})
	register(&Rule{
		Name:  "POSTING-DELTA",
		IR:    "ast",
		Props: []string{"C08"},
		Floor: 1,
		Doc: "in the posting-list encoder of ingest/compact the base the ID differences are taken from (previous) is updated, after every ID, with the ID's absolute value, " +
			"and with nothing else except a restart at 0",
		Run: func(c *Ctx) []Obligation {
			var out []Obligation
			for _, o := range runDeltaStates(c, "ingest/compact", []string{"previous"}) {
				if !strings.HasSuffix(o.Key, ".restart") {
					out = append(out, o)
				}
			}
			return out
		},
	})
}

// EMIT-ORDER (C27): "reading the file back yields the same elements in the same order … for any
// number of reader cores". A reader hands elements to the caller in file order only if the caller's
// callback is invoked from one goroutine at a time in the order the blocks were read. A reader that
// starts several worker goroutines, each of which decodes whole blocks and calls the callback
// itself, interleaves the elements of different blocks as the scheduler pleases.
//
// Slots (by shape, package osm): functions that take a callback parameter (a func-typed parameter
// returning error) and start goroutines inside a loop. Obligation per function: the callback is not
// invoked — directly, through a closure defined in the goroutine, or through a module function that
// the closure is handed to — from inside the goroutines started in the loop, unless the loop starts
// exactly one goroutine (a constant bound of 1).
func init() {
	register(&Rule{
		Name:  "EMIT-ORDER",
		IR:    "ast",
		Props: []string{"C27"},
		Floor: 1,
		Doc:   "a PBF reader that promises file order does not call the caller's callback from several worker goroutines: elements reach the callback from one goroutine at a time, in the order the blocks were read",
		Run:   runEmitOrder,
	})
}

func runEmitOrder(c *Ctx) []Obligation {
	var out []Obligation
	p := c.Pkg("osm")
	if p == nil {
		return out
	}
	info := p.TypesInfo
	for _, fd := range c.FuncDecls(p) {
		obj, _ := info.Defs[fd.Name].(*types.Func)
		if obj == nil {
			continue
		}
		sig := obj.Type().(*types.Signature)
		var cb *types.Var
		for i := 0; i < sig.Params().Len(); i++ {
			if fs, ok := sig.Params().At(i).Type().Underlying().(*types.Signature); ok && fs.Results().Len() == 1 && fs.Results().At(0).Type().String() == "error" {
				cb = sig.Params().At(i)
			}
		}
		if cb == nil {
			continue
		}
		// go statements inside loops
		var workers []*ast.FuncLit
		var loopText string
		ast.Inspect(fd.Body, func(n ast.Node) bool {
			fs, ok := n.(*ast.ForStmt)
			if !ok {
				return true
			}
			ast.Inspect(fs.Body, func(m ast.Node) bool {
				if g, ok := m.(*ast.GoStmt); ok {
					if fl, ok := ast.Unparen(g.Call.Fun).(*ast.FuncLit); ok {
						workers = append(workers, fl)
						if fs.Cond != nil {
							loopText = nodeText(c.Fset, fs.Cond)
						}
					}
				}
				return true
			})
			return true
		})
		if len(workers) == 0 {
			continue
		}
		ob := Obligation{Key: c.FuncName(p, fd), Pos: c.Position(fd.Pos()), Status: OK,
			Detail: fmt.Sprintf("%s starts worker goroutines (loop `%s`) but does not call its callback %s from them", obj.Name(), loopText, cb.Name())}
		for _, w := range workers {
			var at token.Pos
			ast.Inspect(w.Body, func(n ast.Node) bool {
				if call, ok := n.(*ast.CallExpr); ok {
					if id, ok := ast.Unparen(call.Fun).(*ast.Ident); ok && info.Uses[id] == types.Object(cb) && at == token.NoPos {
						at = call.Pos()
					}
				}
				return true
			})
			if at != token.NoPos {
				ob.Status = Violation
				ob.Pos = c.Position(at)
				ob.Detail = fmt.Sprintf("%s starts one worker goroutine per iteration of `%s`, and every worker calls the caller's callback %s itself (at %s) for the blocks it happens to receive: with more than one worker the elements of different blocks reach the callback interleaved, not in file order",
					obj.Name(), loopText, cb.Name(), c.Position(at))
			}
		}
		out = append(out, ob)
	}
	return out
}
