package main

import (
	"fmt"
	"go/ast"
	"go/token"
	"go/types"
	"sort"
	"strings"
)

// PBF-DELTA (C27): the PBF format stores node IDs, coordinates, way node references and relation
// member IDs as differences from the previous element. Both sides keep the previous *absolute*
// value in a variable (lastID, lastLat, …, a local or a field of the writer). The scheme reads
// back what was written only if, after every element, that variable holds the absolute value of
// the element just handled: a writer that stores the delta, or a reader that stores the raw
// (un-accumulated) input, decodes correctly for the first two elements and drifts afterwards.
//
// Slots (by shape, package osm): a *delta state* is a variable or field whose name starts with
// "last" and that occurs as the right operand of `E - L` (writer) or as an operand of `E + L`
// (reader), or is passed to a module function whose parameter is named "last". One obligation per
// state per function:
//   writer (E - L):    every assignment to L in the function, other than a reset to the constant 0,
//                      is `L = E` with the same E (modulo conversions), or `L += D` where D holds
//                      the difference just computed (D := E - L, or D := f(…, L, …));
//   reader (X = E + L, X := E + L or f(E, L, …)): L is assigned X — or, written out, the same sum —
//                      later in the same block (tuple assignments are read position by position);
//   both:              L is assigned at all (a state that is never updated stays 0).
// Anything else assigned to L is a violation that names the statement.
func init() {
	register(&Rule{
		Name:  "PBF-DELTA",
		IR:    "ast",
		Props: []string{"C27"},
		Floor: 8,
		Doc: "in package osm every delta-coding state (a variable or field named last…) is updated, after each element, with the element's absolute value — " +
			"the writer's minuend, the reader's accumulated sum — and with nothing else except a reset to 0",
		Run: runPBFDelta,
	})
}

func runPBFDelta(c *Ctx) []Obligation {
	var out []Obligation
	p := c.Pkg("osm")
	if p == nil {
		return out
	}
	info := p.TypesInfo
	stateObj := func(e ast.Expr) (types.Object, string) {
		switch x := ast.Unparen(e).(type) {
		case *ast.Ident:
			if strings.HasPrefix(x.Name, "last") {
				if o := info.Uses[x]; o != nil {
					return o, x.Name
				}
				if o := info.Defs[x]; o != nil {
					return o, x.Name
				}
			}
		case *ast.SelectorExpr:
			if strings.HasPrefix(x.Sel.Name, "last") {
				if s := info.Selections[x]; s != nil {
					return s.Obj(), nodeText(c.Fset, x)
				}
			}
		}
		return nil, ""
	}
	strip := func(e ast.Expr) ast.Expr {
		for {
			e = ast.Unparen(e)
			call, ok := e.(*ast.CallExpr)
			if !ok || len(call.Args) != 1 {
				return e
			}
			if tv, ok := info.Types[call.Fun]; !ok || !tv.IsType() {
				return e
			}
			e = call.Args[0]
		}
	}
	same := func(a, b ast.Expr) bool { return sameExpr(info, strip(a), strip(b)) }
	isZero := func(e ast.Expr) bool {
		tv := info.Types[e]
		return tv.Value != nil && tv.Value.ExactString() == "0"
	}
	for _, fd := range c.FuncDecls(p) {
		name := c.FuncName(p, fd)
		type st struct {
			text     string
			minuends []ast.Expr // writer: E of E - L
			sums     []ast.Expr // reader: the variable that receives E + L (or the sum itself)
			diffs    []types.Object
			viaCall  bool
			pos      token.Pos
		}
		states := map[types.Object]*st{}
		get := func(o types.Object, text string, pos token.Pos) *st {
			if states[o] == nil {
				states[o] = &st{text: text, pos: pos}
			}
			return states[o]
		}
		// assignments X = rhs (positionwise)
		type asg struct {
			lhs, rhs ast.Expr
			tok      token.Token
			stmt     *ast.AssignStmt
		}
		var asgs []asg
		ast.Inspect(fd.Body, func(n ast.Node) bool {
			if as, ok := n.(*ast.AssignStmt); ok && len(as.Lhs) == len(as.Rhs) {
				for i := range as.Lhs {
					asgs = append(asgs, asg{as.Lhs[i], as.Rhs[i], as.Tok, as})
				}
			}
			return true
		})
		lhsOf := func(e ast.Expr) ast.Expr {
			for _, a := range asgs {
				if a.rhs == e || strip(a.rhs) == e {
					return a.lhs
				}
			}
			return nil
		}
		ast.Inspect(fd.Body, func(n ast.Node) bool {
			switch x := n.(type) {
			case *ast.BinaryExpr:
				switch x.Op {
				case token.SUB:
					if o, text := stateObj(x.Y); o != nil {
						s := get(o, text, x.Pos())
						s.minuends = append(s.minuends, x.X)
						if l := lhsOf(x); l != nil {
							if id, ok := l.(*ast.Ident); ok {
								if d := info.Defs[id]; d != nil {
									s.diffs = append(s.diffs, d)
								} else if d := info.Uses[id]; d != nil {
									s.diffs = append(s.diffs, d)
								}
							}
						}
					}
				case token.ADD:
					for _, pr := range [][2]ast.Expr{{x.X, x.Y}, {x.Y, x.X}} {
						if o, text := stateObj(pr[1]); o != nil {
							s := get(o, text, x.Pos())
							if l := lhsOf(x); l != nil {
								s.sums = append(s.sums, l)
							}
							s.sums = append(s.sums, x)
						}
					}
				}
			case *ast.CallExpr:
				fn := calleeFunc(info, x)
				if fn == nil || fn.Pkg() == nil || !strings.HasPrefix(fn.Pkg().Path(), ModulePath) {
					return true
				}
				sig := fn.Type().(*types.Signature)
				for i, a := range x.Args {
					if i < sig.Params().Len() && sig.Params().At(i).Name() == "last" {
						if o, text := stateObj(a); o != nil {
							s := get(o, text, x.Pos())
							s.viaCall = true
							if l := lhsOf(x); l != nil {
								if id, ok := l.(*ast.Ident); ok {
									if d := info.Defs[id]; d != nil {
										s.diffs = append(s.diffs, d)
									}
								}
								s.sums = append(s.sums, l)
							}
						}
					}
				}
			}
			return true
		})
		var objs []types.Object
		for o := range states {
			objs = append(objs, o)
		}
		sort.Slice(objs, func(i, j int) bool { return states[objs[i]].text < states[objs[j]].text })
		params := map[types.Object]bool{}
		if fobj, _ := info.Defs[fd.Name].(*types.Func); fobj != nil {
			sig := fobj.Type().(*types.Signature)
			for i := 0; i < sig.Params().Len(); i++ {
				params[sig.Params().At(i)] = true
			}
		}
		for _, o := range objs {
			s := states[o]
			if params[o] {
				continue // a by-value parameter: the function is a helper, the caller owns the state
			}
			ob := Obligation{Key: fmt.Sprintf("%s#%s", name, s.text), Pos: c.Position(s.pos), Status: OK}
			writer := len(s.minuends) > 0
			var updates, bad []string
			for _, a := range asgs {
				lo, _ := stateObj(a.lhs)
				if lo != o {
					continue
				}
				txt := fmt.Sprintf("%s %s %s at %s", nodeText(c.Fset, a.lhs), a.tok, nodeText(c.Fset, a.rhs), c.Position(a.stmt.Pos()))
				switch {
				case a.tok == token.DEFINE || a.tok == token.ASSIGN:
					if isZero(a.rhs) {
						continue // reset / initialisation
					}
					ok := false
					if writer {
						for _, m := range s.minuends {
							if same(a.rhs, m) {
								ok = true
							}
						}
					}
					for _, sum := range s.sums {
						if same(a.rhs, sum) {
							ok = true
						}
					}
					if ok {
						updates = append(updates, txt)
					} else {
						bad = append(bad, txt+" is neither the absolute value the difference was taken from nor the accumulated sum")
					}
				case a.tok == token.ADD_ASSIGN:
					ok := false
					if id, isID := strip(a.rhs).(*ast.Ident); isID {
						for _, d := range s.diffs {
							if info.Uses[id] == d {
								ok = true
							}
						}
					}
					if ok {
						updates = append(updates, txt)
					} else {
						bad = append(bad, txt+" adds something other than the difference just computed")
					}
				default:
					bad = append(bad, txt+" is not an update the rule knows")
				}
			}
			kind := "reader"
			if writer {
				kind = "writer"
			} else if s.viaCall && len(s.diffs) > 0 && len(updates) > 0 && strings.Contains(updates[0], "+=") {
				kind = "writer, difference computed by a helper"
			}
			switch {
			case len(bad) > 0:
				ob.Status = Violation
				ob.Detail = fmt.Sprintf("delta state %s (%s side): %s", s.text, kind, strings.Join(bad, "; "))
			case len(updates) == 0:
				ob.Status = Violation
				ob.Detail = fmt.Sprintf("delta state %s (%s side) is used as the previous value but never updated in %s: every element after the second is decoded against a stale base", s.text, kind, name)
			default:
				ob.Detail = fmt.Sprintf("delta state %s (%s side) is updated with the element's absolute value: %s", s.text, kind, strings.Join(updates, "; "))
			}
			out = append(out, ob)
		}
	}
	return out
}
