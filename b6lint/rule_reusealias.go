package main

import (
	"fmt"
	"go/ast"
	"go/token"
	"go/types"
	"strings"

	"golang.org/x/tools/go/packages"
)

// REUSE-ALIAS (C01): a value whose slice storage is reset and refilled on every iteration must
// not be copied into a collection that outlives the iteration.
//
// This code base reuses buffers with the reset-then-append idiom. A *refill* of a location X is
//
//   - `X = X[0:0]` / `X = X[:0]` (a self-reslice to length zero), or
//   - `X = f(X[0:0], ...)` / `X, n = f(X[0:0], ...)` (the callee appends into the emptied slice:
//     FillReferences, UnmarshalDeltaCodedInts), or
//   - a call `E.M(...)` / `F(&E)` / `F(E)` (E a pointer) of a *refilling function*: a function that
//     refills a location below its pointer receiver or a pointer parameter (`p.Paths = p.Paths[0:0]`
//     in PolygonGeometryReferences.FromPathIDs, `*m = (*m)[0:0]` in Members.Unmarshal), directly or
//     through calls of other refilling functions on parts of it (summaries computed by shape over
//     the whole module, three rounds). The refilled location is then E followed by the callee's path.
//
// Slots (one instance per refill site, keyed function#ordinal in source order): refill sites that
// lie inside an *iteration scope* -- the body of a for/range statement, or a function literal
// (the emit/combine callbacks of the builders run once per feature). Let V be the variable at
// the root of the refilled location. The scopes in which V's storage is reused are the enclosing
// scopes that do not contain V's declaration; a scope whose own loop variable indexes the
// location (`a.Polygons[j].Unmarshal(...)` in `for j := range a.Polygons`) addresses a different
// element each iteration and ends that chain, as does a V that is the scope's range variable or
// parameter.
//
// Obligation: within the outermost such scope there is no *store by value* of V, of a prefix of
// the refilled location, or of the refilled slice itself into storage that outlives the scope:
// `dst = append(dst, v)`, `dst[i] = v` / `dst[i].f = v`, a composite literal (possibly behind &)
// carrying v in one of these positions, or a channel send `ch <- v`; dst outlives the scope when
// its root variable is declared outside it. Such a copy shares the backing array that the next
// refill overwrites.
//
// Accepted: V declared inside the scope (`var pp PolygonGeometryMixed` in the loop body: a fresh
// zero value, hence fresh storage, every iteration); a stored value produced by a call
// (`append(dst, v.Clone())`, `append([]T(nil), v.Paths...)`); stores into collections declared
// inside the scope; marshalling the value into a byte buffer (the normal use).
//
// Retaining callees (second kind of store, and second kind of instance). A call that hands the
// slice to a function which keeps it is a store too, although nothing is assigned in sight:
//
//   - the external functions of raExternalRetainers (bodies in a dependency, each confirmed by
//     reading github.com/golang/geo/s2): s2.LoopFromPoints, s2.PolygonFromLoops,
//     s2.PolygonFromOrientedLoops;
//   - a conversion of the slice (or of its address) to a named slice type of package s2
//     (`s2.Polyline(points)`, `(*s2.Polyline)(&points)`): a conversion shares the backing array;
//   - module functions proved retaining by shape (three rounds): a slice parameter that is passed
//     on to a retaining callee, converted as above, or stored into a field / element
//     (`x.f = p`, `x[i] = p`).
//
// Every call of such a callee whose argument is rooted at a slice *variable* (through
// parentheses, `&` and re-slicing `v[a:b]`; not a call result or a literal) is an instance, keyed
// function#retain<n> in source order. Obligation: the variable's storage is not reused between two
// such calls. It is reused when, in the outermost enclosing iteration scope that does not contain
// the variable's declaration (for a variable rooted at the receiver, a pointer parameter or a
// package variable: also the whole function, reuse across calls), the variable is reset or
// refilled (as above), re-sliced to a prefix of itself (`v = v[:n]`), or has elements stored
// (`v[i] = ...`), and is never assigned a fresh value there (`v = make(...)`, `v = f(...)`).
// A local defined once as another slice or as a prefix of it (`loop := buffer[:n]`,
// `points := m.scratch`) stands for that slice; taking the same prefix on every run counts as a
// re-slice.
// Accepted: `points := make([]s2.Point, n)` (or any other fresh declaration) inside the loop body; a
// variable only appended to or only read inside the scope; arguments that are call results.
//
// Anchored to ingest/compact, encoding, ingest and geojson (violations fail). Obligations in
// ingest/change.go and geojson serve C32 (GeoJSON import), all others C01; would-be violations
// in other packages are reported as info. Not decided: stores of `&V` (pointer aliasing is a different
// class), plain field stores `o.f = v`, aliasing across calls of a method that reuses receiver
// fields (no iteration scope in sight), function literals that run only once.
func init() {
	register(&Rule{
		Name:  "REUSE-ALIAS",
		IR:    "ast",
		Props: []string{"C01", "C32"},
		Floor: 44,
		// C01: refill sites and retaining calls of ingest/compact, encoding and ingest (without
		// change.go); C32: the retaining calls of ingest/change.go and geojson. Set from the
		// engine's enumeration on the repaired tree.
		FloorBy: map[string]int{"C01": 38, "C32": 6},
		Doc: "in ingest/compact, encoding, ingest and geojson, a variable whose slice storage is reset and refilled inside a loop body or callback (x = x[0:0], x = f(x[0:0], ...), or a call of a function that does so on its pointer receiver/parameter) " +
			"and that is declared outside that scope is not copied by value (append, indexed store, composite literal, channel send) into a collection that outlives the scope, nor handed to a function that keeps its slice argument " +
			"(s2.LoopFromPoints, s2.PolygonFromLoops, s2.PolygonFromOrientedLoops, conversions to s2 slice types, module functions that pass it on or store it), unless the stored value is produced by a call (clone); " +
			"conversely every call of such a retaining function on a slice variable gets a slice whose storage is not reset, re-sliced or overwritten for the next iteration",
		Run: runReuseAlias,
	})
}

// raStep is one step of an access chain below a root variable.
type raStep struct {
	field string   // field name, or "" for an index step
	index ast.Expr // index expression for an index step
}

type raChain struct {
	root  types.Object
	steps []raStep
}

// raChainOf resolves x.f.g[i].h (through parentheses, *, and auto-dereference) to a chain.
func raChainOf(info *types.Info, e ast.Expr) (raChain, bool) {
	var rev []raStep
	for {
		switch x := ast.Unparen(e).(type) {
		case *ast.Ident:
			obj := info.ObjectOf(x)
			if _, ok := obj.(*types.Var); !ok {
				return raChain{}, false
			}
			ch := raChain{root: obj}
			for i := len(rev) - 1; i >= 0; i-- {
				ch.steps = append(ch.steps, rev[i])
			}
			return ch, true
		case *ast.StarExpr:
			e = x.X
		case *ast.SelectorExpr:
			if sel := info.Selections[x]; sel == nil || sel.Kind() != types.FieldVal {
				return raChain{}, false
			}
			rev = append(rev, raStep{field: x.Sel.Name})
			e = x.X
		case *ast.IndexExpr:
			if _, isMap := info.TypeOf(x.X).Underlying().(*types.Map); isMap {
				return raChain{}, false
			}
			rev = append(rev, raStep{index: x.Index})
			e = x.X
		default:
			return raChain{}, false
		}
	}
}

func (c raChain) String() string {
	s := c.root.Name()
	for _, st := range c.steps {
		if st.field != "" {
			s += "." + st.field
		} else {
			s += "[" + types.ExprString(st.index) + "]"
		}
	}
	return s
}

func (c raChain) path() string {
	var parts []string
	for _, st := range c.steps {
		if st.field == "" {
			return "" // summaries only carry field paths
		}
		parts = append(parts, st.field)
	}
	return strings.Join(parts, ".")
}

// raIsPrefix: a is a prefix of (or equal to) b.
func raIsPrefix(info *types.Info, a, b raChain) bool {
	if a.root != b.root || len(a.steps) > len(b.steps) {
		return false
	}
	for i, st := range a.steps {
		o := b.steps[i]
		if (st.field == "") != (o.field == "") {
			return false
		}
		if st.field != "" {
			if st.field != o.field {
				return false
			}
		} else if !sameExpr(info, st.index, o.index) {
			return false
		}
	}
	return true
}

func raIsZero(info *types.Info, e ast.Expr) bool {
	if e == nil {
		return false
	}
	tv, ok := info.Types[e]
	return ok && tv.Value != nil && tv.Value.ExactString() == "0"
}

// raZeroReslice: X[0:0] or X[:0]; returns X.
func raZeroReslice(info *types.Info, e ast.Expr) (ast.Expr, bool) {
	se, ok := ast.Unparen(e).(*ast.SliceExpr)
	if !ok || se.Slice3 || !raIsZero(info, se.High) || (se.Low != nil && !raIsZero(info, se.Low)) {
		return nil, false
	}
	if _, isSlice := info.TypeOf(se.X).Underlying().(*types.Slice); !isSlice {
		return nil, false
	}
	return se.X, true
}

// raRefill is a summary entry: the function refills <param>.<path> (param -1 = receiver).
type raRefill struct {
	param int
	path  string
}

type raSite struct {
	node ast.Node // the assignment or call
	loc  raChain
	how  string
}

type raAnalysis struct {
	c       *Ctx
	summary map[*types.Func][]raRefill
	retains map[*types.Func]map[int]string // module functions that keep slice parameter k, with the reason
}

// raExternalRetainers: functions of dependencies that keep the slice they are given. The rule
// cannot read their bodies; each entry was confirmed in the module cache
// (github.com/golang/geo@v0.0.0-20190916061304-5b978397cfec/s2).
var raExternalRetainers = map[string]struct {
	arg int
	why string
}{
	"github.com/golang/geo/s2.LoopFromPoints":           {0, "loop.go: LoopFromPoints sets Loop.vertices = pts, the loop's vertex storage is the argument"},
	"github.com/golang/geo/s2.PolygonFromLoops":         {0, "polygon.go: PolygonFromLoops sets Polygon.loops = loops (and initNested reorders that slice in place)"},
	"github.com/golang/geo/s2.PolygonFromOrientedLoops": {0, "polygon.go: PolygonFromOrientedLoops ends in PolygonFromLoops(loops), which keeps the slice"},
}

const raS2Path = "github.com/golang/geo/s2"

// raSliceArg strips parentheses, & and re-slicing from an argument and resolves it to a chain
// rooted at a variable.
func raSliceArg(info *types.Info, e ast.Expr) (raChain, bool) {
	for {
		e = ast.Unparen(e)
		switch x := e.(type) {
		case *ast.UnaryExpr:
			if x.Op != token.AND {
				return raChain{}, false
			}
			e = x.X
			continue
		case *ast.SliceExpr:
			e = x.X
			continue
		}
		break
	}
	ch, ok := raChainOf(info, e)
	if !ok {
		return raChain{}, false
	}
	t := info.TypeOf(e)
	if t == nil {
		return raChain{}, false
	}
	if p, isPtr := t.Underlying().(*types.Pointer); isPtr {
		t = p.Elem()
	}
	if _, isSlice := t.Underlying().(*types.Slice); !isSlice {
		return raChain{}, false
	}
	return ch, true
}

// retainer: does the call keep one of its slice arguments? Returns the argument and the reason.
func (a *raAnalysis) retainer(info *types.Info, call *ast.CallExpr) (ast.Expr, string, bool) {
	// conversion to a named slice type of s2 (or a pointer to one)
	if tv, ok := info.Types[call.Fun]; ok && tv.IsType() && len(call.Args) == 1 {
		t := tv.Type
		if p, isPtr := t.Underlying().(*types.Pointer); isPtr {
			t = p.Elem()
		}
		if n, isNamed := types.Unalias(t).(*types.Named); isNamed && n.Obj().Pkg() != nil && n.Obj().Pkg().Path() == raS2Path {
			if _, isSlice := n.Underlying().(*types.Slice); isSlice {
				return call.Args[0], fmt.Sprintf("the conversion to %s shares the backing array of its operand", types.TypeString(tv.Type, func(p *types.Package) string { return p.Name() })), true
			}
		}
		return nil, "", false
	}
	f := calleeFunc(info, call)
	if f == nil || f.Pkg() == nil {
		return nil, "", false
	}
	if e, ok := raExternalRetainers[f.Pkg().Path()+"."+f.Name()]; ok && f.Type().(*types.Signature).Recv() == nil && e.arg < len(call.Args) {
		return call.Args[e.arg], "s2." + f.Name() + " keeps its argument (" + e.why + ")", true
	}
	if m := a.retains[f.Origin()]; len(m) > 0 {
		for k := 0; k < len(call.Args); k++ {
			if why, ok := m[k]; ok {
				return call.Args[k], f.Name() + " keeps its argument: " + why, true
			}
		}
	}
	return nil, "", false
}

// summariseRetainers computes the module functions that keep a slice parameter.
func (a *raAnalysis) summariseRetainers() {
	a.retains = map[*types.Func]map[int]string{}
	for round := 0; round < 3; round++ {
		changed := false
		for _, p := range a.c.SortedPkgs() {
			info := p.TypesInfo
			for _, fd := range a.c.FuncDecls(p) {
				fn, _ := info.Defs[fd.Name].(*types.Func)
				if fn == nil {
					continue
				}
				params := map[types.Object]int{}
				i := 0
				for _, fl := range fd.Type.Params.List {
					for _, n := range fl.Names {
						if o := info.Defs[n]; o != nil {
							if _, ok := o.Type().Underlying().(*types.Slice); ok && !bIsByteSlice(o.Type()) {
								params[o] = i
							}
						}
						i++
					}
					if len(fl.Names) == 0 {
						i++
					}
				}
				if len(params) == 0 {
					continue
				}
				// a parameter that is assigned in the body no longer names the caller's slice
				reassigned := map[types.Object]bool{}
				ast.Inspect(fd.Body, func(n ast.Node) bool {
					if as, ok := n.(*ast.AssignStmt); ok {
						for _, l := range as.Lhs {
							if id, ok := ast.Unparen(l).(*ast.Ident); ok {
								if o := info.ObjectOf(id); o != nil {
									if _, isParam := params[o]; isParam {
										reassigned[o] = true
									}
								}
							}
						}
					}
					return true
				})
				note := func(o types.Object, why string) {
					k, ok := params[o]
					if !ok || reassigned[o] {
						return
					}
					if a.retains[fn] == nil {
						a.retains[fn] = map[int]string{}
					}
					if _, have := a.retains[fn][k]; !have {
						a.retains[fn][k] = why
						changed = true
					}
				}
				whole := func(e ast.Expr) (types.Object, bool) {
					ch, ok := raSliceArg(info, e)
					if !ok || len(ch.steps) != 0 {
						return nil, false
					}
					return ch.root, true
				}
				ast.Inspect(fd.Body, func(n ast.Node) bool {
					switch x := n.(type) {
					case *ast.CallExpr:
						if arg, why, ok := a.retainer(info, x); ok {
							if o, ok := whole(arg); ok {
								note(o, fmt.Sprintf("it passes it on at %s (%s)", a.c.Position(x.Pos()), why))
							}
						}
					case *ast.AssignStmt:
						if len(x.Lhs) != len(x.Rhs) || x.Tok != token.ASSIGN {
							return true
						}
						for i, l := range x.Lhs {
							switch ast.Unparen(l).(type) {
							case *ast.SelectorExpr, *ast.IndexExpr:
								if o, ok := whole(x.Rhs[i]); ok {
									note(o, fmt.Sprintf("it stores it with `%s` at %s", nodeText(a.c.Fset, x), a.c.Position(x.Pos())))
								}
							}
						}
					}
					return true
				})
			}
		}
		if !changed {
			break
		}
	}
}

func raJoinPath(a, b string) string {
	if a == "" {
		return b
	}
	if b == "" {
		return a
	}
	return a + "." + b
}

func raWithPath(ch raChain, path string) raChain {
	out := raChain{root: ch.root, steps: append([]raStep(nil), ch.steps...)}
	if path != "" {
		for _, f := range strings.Split(path, ".") {
			out.steps = append(out.steps, raStep{field: f})
		}
	}
	return out
}

// sites finds the refill sites among the nodes below n (function literals excluded unless n is one).
func (a *raAnalysis) sites(info *types.Info, n ast.Node, into func(raSite)) {
	inspectShallow(n, func(m ast.Node) bool {
		switch x := m.(type) {
		case *ast.AssignStmt:
			for i, lhs := range x.Lhs {
				ch, ok := raChainOf(info, lhs)
				if !ok {
					continue
				}
				var rhs ast.Expr
				if len(x.Lhs) == len(x.Rhs) {
					rhs = x.Rhs[i]
				} else if len(x.Rhs) == 1 {
					rhs = x.Rhs[0]
				}
				if rhs == nil {
					continue
				}
				if src, ok := raZeroReslice(info, rhs); ok && sameExpr(info, src, lhs) {
					into(raSite{x, ch, "reset `" + nodeText(a.c.Fset, x) + "`"})
					continue
				}
				if call, ok := ast.Unparen(rhs).(*ast.CallExpr); ok {
					for _, arg := range call.Args {
						if src, ok := raZeroReslice(info, arg); ok && sameExpr(info, src, lhs) {
							into(raSite{x, ch, "reset and refilled by `" + nodeText(a.c.Fset, x) + "`"})
							break
						}
					}
				}
			}
		case *ast.CallExpr:
			f := calleeFunc(info, x)
			if f == nil {
				return true
			}
			sum := a.summary[f.Origin()]
			if len(sum) == 0 {
				return true
			}
			for _, r := range sum {
				var target ast.Expr
				if r.param < 0 {
					se, ok := ast.Unparen(x.Fun).(*ast.SelectorExpr)
					if !ok {
						continue
					}
					target = se.X
				} else if r.param < len(x.Args) {
					target = ast.Unparen(x.Args[r.param])
					if u, ok := target.(*ast.UnaryExpr); ok && u.Op == token.AND {
						target = u.X
					}
				}
				if target == nil {
					continue
				}
				if ch, ok := raChainOf(info, target); ok {
					into(raSite{x, raWithPath(ch, r.path), fmt.Sprintf("refilled by the call `%s` (%s resets and appends to %s)", nodeText(a.c.Fset, x), f.Name(), raJoinPath("its receiver/argument", r.path))})
				}
			}
		}
		return true
	})
}

// summarise computes the refilling functions of the module.
func (a *raAnalysis) summarise() {
	a.summary = map[*types.Func][]raRefill{}
	for round := 0; round < 3; round++ {
		changed := false
		for _, p := range a.c.SortedPkgs() {
			info := p.TypesInfo
			for _, fd := range a.c.FuncDecls(p) {
				fn, _ := info.Defs[fd.Name].(*types.Func)
				if fn == nil {
					continue
				}
				// pointer receiver and pointer parameters
				params := map[types.Object]int{}
				if r := bRecvObj(info, fd); r != nil {
					if _, ok := r.Type().Underlying().(*types.Pointer); ok {
						params[r] = -1
					}
				}
				i := 0
				for _, fl := range fd.Type.Params.List {
					for _, n := range fl.Names {
						if o := info.Defs[n]; o != nil {
							if _, ok := o.Type().Underlying().(*types.Pointer); ok {
								params[o] = i
							}
						}
						i++
					}
					if len(fl.Names) == 0 {
						i++
					}
				}
				if len(params) == 0 {
					continue
				}
				have := map[raRefill]bool{}
				for _, r := range a.summary[fn] {
					have[r] = true
				}
				a.sites(info, fd.Body, func(s raSite) {
					k, ok := params[s.loc.root]
					if !ok {
						return
					}
					for _, st := range s.loc.steps {
						if st.field == "" {
							return // below an index: one element, not the parameter's own storage
						}
					}
					r := raRefill{k, s.loc.path()}
					if !have[r] {
						have[r] = true
						a.summary[fn] = append(a.summary[fn], r)
						changed = true
					}
				})
			}
		}
		if !changed {
			break
		}
	}
}

type raScope struct {
	node     ast.Node // *ast.ForStmt, *ast.RangeStmt or *ast.FuncLit
	body     *ast.BlockStmt
	loopVars map[types.Object]bool
}

func raScopeOf(info *types.Info, n ast.Node) *raScope {
	switch x := n.(type) {
	case *ast.ForStmt:
		s := &raScope{node: x, body: x.Body, loopVars: map[types.Object]bool{}}
		if as, ok := x.Init.(*ast.AssignStmt); ok && as.Tok == token.DEFINE {
			for _, l := range as.Lhs {
				if id, ok := l.(*ast.Ident); ok {
					if o := info.ObjectOf(id); o != nil {
						s.loopVars[o] = true
					}
				}
			}
		}
		return s
	case *ast.RangeStmt:
		s := &raScope{node: x, body: x.Body, loopVars: map[types.Object]bool{}}
		for _, e := range []ast.Expr{x.Key, x.Value} {
			if id, ok := e.(*ast.Ident); ok {
				if o := info.ObjectOf(id); o != nil {
					s.loopVars[o] = true
				}
			}
		}
		return s
	case *ast.FuncLit:
		return &raScope{node: x, body: x.Body, loopVars: map[types.Object]bool{}}
	}
	return nil
}

func runReuseAlias(c *Ctx) []Obligation {
	a := &raAnalysis{c: c}
	a.summarise()
	a.summariseRetainers()
	var out []Obligation
	for _, p := range c.SortedPkgs() {
		anchored := false
		for _, cp := range bCodecPkgs(c) {
			if cp == p {
				anchored = true
			}
		}
		rel := relPkg(p)
		if rel == "ingest" || rel == "geojson" {
			anchored = true
		}
		// which property an obligation at this position serves
		propsAt := func(pos token.Pos) []string {
			if rel == "geojson" || strings.HasPrefix(c.Position(pos), "ingest/change.go:") {
				return []string{"C32"}
			}
			return []string{"C01"}
		}
		info := p.TypesInfo
		for _, fd := range c.FuncDecls(p) {
			out = append(out, a.retainCalls(p, fd, anchored, propsAt)...)
			ord := 0
			// all refill sites of the declaration, including those inside literals
			var sites []raSite
			a.sites(info, fd.Body, func(s raSite) { sites = append(sites, s) })
			ast.Inspect(fd.Body, func(m ast.Node) bool {
				if fl, ok := m.(*ast.FuncLit); ok {
					a.sites(info, fl, func(s raSite) { sites = append(sites, s) })
				}
				return true
			})
			if len(sites) == 0 {
				continue
			}
			// source order
			for i := 1; i < len(sites); i++ {
				for j := i; j > 0 && sites[j].node.Pos() < sites[j-1].node.Pos(); j-- {
					sites[j], sites[j-1] = sites[j-1], sites[j]
				}
			}
			for _, s := range sites {
				chain := enclosing(fd.Body, s.node)
				var scopes []*raScope // innermost first
				for i := len(chain) - 1; i >= 0; i-- {
					if sc := raScopeOf(info, chain[i]); sc != nil && sc.body.Pos() <= s.node.Pos() && s.node.End() <= sc.body.End() {
						scopes = append(scopes, sc)
					}
				}
				if len(scopes) == 0 {
					continue // not inside an iteration scope
				}
				ord++
				ob := Obligation{Key: fmt.Sprintf("%s#%d", c.FuncName(p, fd), ord), Pos: c.Position(s.node.Pos()), Props: propsAt(s.node.Pos())}
				root := s.loc.root
				var reuse *raScope
				why := ""
				for _, sc := range scopes {
					if root.Pos() >= sc.node.Pos() && root.Pos() <= sc.node.End() {
						why = fmt.Sprintf("%s is declared inside the %s at %s: fresh storage every iteration", root.Name(), raScopeKind(sc), c.Position(sc.node.Pos()))
						break
					}
					indexed := false
					for _, st := range s.loc.steps {
						if st.index != nil && dsMentions(info, st.index, sc.loopVars) {
							indexed = true
						}
					}
					if indexed {
						why = fmt.Sprintf("%s is addressed through the loop variable of the %s at %s: a different element every iteration", s.loc, raScopeKind(sc), c.Position(sc.node.Pos()))
						break
					}
					reuse = sc
				}
				if reuse == nil {
					ob.Status, ob.Detail = OK, fmt.Sprintf("%s %s; %s", s.loc, s.how, why)
					if anchored {
						out = append(out, ob)
					}
					continue
				}
				stores := a.stores(info, reuse, s.loc)
				if len(stores) == 0 {
					ob.Status = OK
					ob.Detail = fmt.Sprintf("%s is %s and reused by every run of the %s at %s; it is not copied into a collection that outlives the scope", s.loc, s.how, raScopeKind(reuse), c.Position(reuse.node.Pos()))
					if anchored {
						out = append(out, ob)
					}
					continue
				}
				ob.Status = Violation
				ob.Detail = fmt.Sprintf("%s is %s on every run of the %s at %s (declared outside it, so the backing array is reused), and %s: the stored copy shares the array that the next refill overwrites",
					s.loc, s.how, raScopeKind(reuse), c.Position(reuse.node.Pos()), stores[0])
				ob.Path = stores
				if !anchored {
					ob.Status = Info
				}
				out = append(out, ob)
			}
		}
	}
	return out
}

func raScopeKind(sc *raScope) string {
	switch sc.node.(type) {
	case *ast.FuncLit:
		return "function literal"
	case *ast.RangeStmt:
		return "range loop"
	}
	return "for loop"
}

// stores lists the by-value stores of (a prefix of) loc inside the scope into outliving storage.
func (a *raAnalysis) stores(info *types.Info, sc *raScope, loc raChain) []string {
	var out []string
	outlives := func(dst ast.Expr) bool {
		ch, ok := raChainOf(info, dst)
		if !ok {
			return true // a field of something computed: assume it outlives
		}
		return ch.root.Pos() < sc.node.Pos() || ch.root.Pos() > sc.node.End()
	}
	var aliases func(e ast.Expr) bool
	aliases = func(e ast.Expr) bool {
		e = ast.Unparen(e)
		switch x := e.(type) {
		case *ast.UnaryExpr:
			if x.Op == token.AND {
				if cl, ok := ast.Unparen(x.X).(*ast.CompositeLit); ok {
					return aliases(cl)
				}
			}
			return false
		case *ast.CompositeLit:
			for _, el := range x.Elts {
				if kv, ok := el.(*ast.KeyValueExpr); ok {
					el = kv.Value
				}
				if aliases(el) {
					return true
				}
			}
			return false
		}
		ch, ok := raChainOf(info, e)
		return ok && raIsPrefix(info, ch, loc)
	}
	ast.Inspect(sc.body, func(n ast.Node) bool {
		switch x := n.(type) {
		case *ast.FuncLit:
			return n == ast.Node(sc.node) // do not descend into other literals
		case *ast.CallExpr:
			if arg, why, ok := a.retainer(info, x); ok {
				if ch, ok := raSliceArg(info, arg); ok && raIsPrefix(info, ch, loc) {
					out = append(out, fmt.Sprintf("%s hands it to a function that keeps it (`%s`: %s)", a.c.Position(x.Pos()), nodeText(a.c.Fset, x), why))
				}
			}
		case *ast.SendStmt:
			if aliases(x.Value) {
				out = append(out, fmt.Sprintf("%s sends it on a channel (`%s`)", a.c.Position(x.Pos()), nodeText(a.c.Fset, x)))
			}
		case *ast.AssignStmt:
			for i, rhs := range x.Rhs {
				if call, ok := ast.Unparen(rhs).(*ast.CallExpr); ok && isBuiltin(info, call, "append") && len(call.Args) >= 2 {
					for _, arg := range call.Args[1:] {
						if aliases(arg) && outlives(call.Args[0]) {
							out = append(out, fmt.Sprintf("%s appends a copy of it to %s (`%s`)", a.c.Position(x.Pos()), types.ExprString(call.Args[0]), nodeText(a.c.Fset, x)))
						}
					}
					continue
				}
				if len(x.Lhs) != len(x.Rhs) || x.Tok != token.ASSIGN {
					continue
				}
				// indexed store
				hasIndex := false
				for e := ast.Unparen(x.Lhs[i]); ; {
					switch y := e.(type) {
					case *ast.IndexExpr:
						hasIndex = true
						e = ast.Unparen(y.X)
						continue
					case *ast.SelectorExpr:
						e = ast.Unparen(y.X)
						continue
					case *ast.StarExpr:
						e = ast.Unparen(y.X)
						continue
					}
					break
				}
				if hasIndex && aliases(rhs) {
					// storing a location back into itself is no copy
					if lch, ok := raChainOf(info, x.Lhs[i]); ok && raIsPrefix(info, lch, loc) {
						continue
					}
					dst := x.Lhs[i]
					if ch, ok := raChainOf(info, dst); ok {
						if ch.root.Pos() >= sc.node.Pos() && ch.root.Pos() <= sc.node.End() {
							continue
						}
					}
					out = append(out, fmt.Sprintf("%s stores a copy of it into %s (`%s`)", a.c.Position(x.Pos()), types.ExprString(dst), nodeText(a.c.Fset, x)))
				}
			}
		}
		return true
	})
	return out
}

// raOverlap: one chain is a prefix of the other.
func raOverlap(info *types.Info, a, b raChain) bool {
	return raIsPrefix(info, a, b) || raIsPrefix(info, b, a)
}

// retainCalls: the second kind of instance, calls of retaining callees on slice variables.
func (a *raAnalysis) retainCalls(p *packages.Package, fd *ast.FuncDecl, anchored bool, propsAt func(token.Pos) []string) []Obligation {
	c, info := a.c, p.TypesInfo
	var out []Obligation
	type site struct {
		call *ast.CallExpr
		loc  raChain
		why  string
	}
	var sites []site
	ast.Inspect(fd.Body, func(n ast.Node) bool {
		if call, ok := n.(*ast.CallExpr); ok {
			if arg, why, ok := a.retainer(info, call); ok {
				if ch, ok := raSliceArg(info, arg); ok {
					sites = append(sites, site{call, ch, why})
				}
			}
		}
		return true
	})
	recv := bRecvObj(info, fd)
	ord := 0
	for _, s := range sites {
		ord++
		ob := Obligation{Key: fmt.Sprintf("%s#retain%d", c.FuncName(p, fd), ord), Pos: c.Position(s.call.Pos()), Props: propsAt(s.call.Pos())}
		// a local that is defined once as (a prefix of) another slice names that slice's storage:
		// `loop := buffer[:n]`, `points := m.scratch`
		var aliasNotes []string
		for depth := 0; depth < 2; depth++ {
			r := s.loc.root
			if len(s.loc.steps) != 0 || r.Pos() < fd.Body.Pos() || r.Pos() > fd.Body.End() {
				break
			}
			var defs []ast.Expr
			var defStmt ast.Node
			others := 0
			ast.Inspect(fd.Body, func(n ast.Node) bool {
				switch x := n.(type) {
				case *ast.AssignStmt:
					for i, l := range x.Lhs {
						if id, ok := ast.Unparen(l).(*ast.Ident); ok && info.ObjectOf(id) == r {
							if len(x.Lhs) == len(x.Rhs) && x.Tok == token.DEFINE {
								defs, defStmt = append(defs, x.Rhs[i]), x
							} else {
								others++
							}
						}
					}
				case *ast.ValueSpec:
					for i, id := range x.Names {
						if info.Defs[id] == r && i < len(x.Values) && len(x.Values) == len(x.Names) {
							defs, defStmt = append(defs, x.Values[i]), x
						}
					}
				}
				return true
			})
			if len(defs) != 1 || others != 0 {
				break
			}
			def := ast.Unparen(defs[0])
			prefix := false
			if se, ok := def.(*ast.SliceExpr); ok {
				if se.Low != nil && !raIsZero(info, se.Low) {
					break
				}
				def, prefix = se.X, true
			}
			ch, ok := raSliceArg(info, def)
			if !ok {
				break
			}
			if prefix {
				aliasNotes = append(aliasNotes, fmt.Sprintf("%s: %s is the same prefix of %s on every run (`%s`)", c.Position(defStmt.Pos()), r.Name(), ch, nodeText(c.Fset, defStmt)))
			}
			s.loc = ch
		}
		root := s.loc.root
		chain := enclosing(fd.Body, s.call)
		var scopes []*raScope // innermost first
		for i := len(chain) - 1; i >= 0; i-- {
			if sc := raScopeOf(info, chain[i]); sc != nil && sc.body.Pos() <= s.call.Pos() && s.call.End() <= sc.body.End() {
				scopes = append(scopes, sc)
			}
		}
		// a variable that outlives the call: the whole function is a reuse scope (across calls)
		outlivesCall := root == recv || root.Pkg() == nil || root.Parent() == root.Pkg().Scope()
		if !outlivesCall && (root.Pos() < fd.Body.Pos() || root.Pos() > fd.Body.End()) {
			// a parameter: only pointer parameters name storage of the caller that is refilled here
			_, outlivesCall = root.Type().Underlying().(*types.Pointer)
		}
		var reuse *raScope
		why := "the call is not inside a loop or function literal"
		for _, sc := range scopes {
			if root.Pos() >= sc.node.Pos() && root.Pos() <= sc.node.End() {
				why = fmt.Sprintf("%s is declared inside the %s at %s: a fresh slice for every call", root.Name(), raScopeKind(sc), c.Position(sc.node.Pos()))
				break
			}
			indexed := false
			for _, st := range s.loc.steps {
				if st.index != nil && dsMentions(info, st.index, sc.loopVars) {
					indexed = true
				}
			}
			if indexed {
				why = fmt.Sprintf("%s is addressed through the loop variable of the %s at %s: a different slice every iteration", s.loc, raScopeKind(sc), c.Position(sc.node.Pos()))
				break
			}
			reuse = sc
			why = ""
		}
		var body ast.Node
		scopeText := ""
		switch {
		case reuse != nil:
			body, scopeText = reuse.body, fmt.Sprintf("the %s at %s", raScopeKind(reuse), c.Position(reuse.node.Pos()))
		case outlivesCall && why == "the call is not inside a loop or function literal":
			body, scopeText = fd.Body, "every call of "+fd.Name.Name+" (the variable outlives the call)"
		}
		if body == nil {
			ob.Status, ob.Detail = OK, fmt.Sprintf("`%s` keeps %s (%s); %s", nodeText(c.Fset, s.call), s.loc, s.why, why)
			if anchored {
				out = append(out, ob)
			}
			continue
		}
		// how is the variable written inside the scope?
		reused := append([]string(nil), aliasNotes...)
		fresh := false
		var lit ast.Node
		if reuse != nil {
			lit = reuse.node
		}
		a.sites(info, body, func(rs raSite) {
			if raOverlap(info, rs.loc, s.loc) {
				reused = append(reused, fmt.Sprintf("%s: %s", c.Position(rs.node.Pos()), rs.how))
			}
		})
		ast.Inspect(body, func(n ast.Node) bool {
			if fl, ok := n.(*ast.FuncLit); ok && ast.Node(fl) != lit {
				return false
			}
			as, ok := n.(*ast.AssignStmt)
			if !ok {
				return true
			}
			for i, l := range as.Lhs {
				lch, ok := raChainOf(info, l)
				if !ok {
					continue
				}
				var rhs ast.Expr
				if len(as.Lhs) == len(as.Rhs) {
					rhs = as.Rhs[i]
				} else if len(as.Rhs) == 1 {
					rhs = as.Rhs[0]
				}
				switch {
				case raIsPrefix(info, lch, s.loc) && as.Tok == token.ASSIGN:
					// assignment to the variable itself (or to something that contains it)
					selfSlice, selfAppend, selfReset := false, false, false
					if se, ok := ast.Unparen(rhs).(*ast.SliceExpr); ok && sameExpr(info, se.X, l) {
						selfSlice = true
						if se.Low != nil && !raIsZero(info, se.Low) {
							selfSlice = false // drops a prefix: the remaining storage is still shared, but nothing is refilled
							selfAppend = true
						}
					}
					if call, ok := ast.Unparen(rhs).(*ast.CallExpr); ok {
						if isBuiltin(info, call, "append") && len(call.Args) > 0 && sameExpr(info, call.Args[0], l) {
							selfAppend = true
						}
						for _, arg := range call.Args {
							if src, ok := raZeroReslice(info, arg); ok && sameExpr(info, src, l) {
								selfReset = true // already reported by sites()
							}
						}
					}
					switch {
					case selfSlice:
						if _, zero := raZeroReslice(info, rhs); !zero {
							reused = append(reused, fmt.Sprintf("%s: re-sliced to a prefix of itself `%s`", c.Position(as.Pos()), nodeText(c.Fset, as)))
						}
					case selfAppend, selfReset:
					default:
						fresh = true
					}
				case len(lch.steps) == len(s.loc.steps)+1 && lch.steps[len(lch.steps)-1].field == "" && raIsPrefix(info, s.loc, lch):
					reused = append(reused, fmt.Sprintf("%s: element overwritten `%s`", c.Position(as.Pos()), nodeText(c.Fset, as)))
				}
			}
			return true
		})
		switch {
		case len(reused) == 0:
			ob.Status = OK
			ob.Detail = fmt.Sprintf("`%s` keeps %s (%s); %s is declared outside %s but is not reset, re-sliced or overwritten there", nodeText(c.Fset, s.call), s.loc, s.why, root.Name(), scopeText)
		case fresh:
			ob.Status = OK
			ob.Detail = fmt.Sprintf("`%s` keeps %s (%s); %s is assigned a fresh value inside %s", nodeText(c.Fset, s.call), s.loc, s.why, s.loc, scopeText)
		default:
			ob.Status = Violation
			ob.Detail = fmt.Sprintf("`%s` keeps %s (%s), but the storage of %s is reused by %s (declared outside it and never assigned a fresh slice there): %s; what was kept by an earlier call is overwritten",
				nodeText(c.Fset, s.call), s.loc, s.why, s.loc, scopeText, reused[0])
			ob.Path = reused
		}
		if !anchored {
			if ob.Status != Violation {
				continue
			}
			ob.Status = Info
		}
		out = append(out, ob)
	}
	return out
}
