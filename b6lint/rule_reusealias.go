package main

import (
	"fmt"
	"go/ast"
	"go/token"
	"go/types"
	"strings"
)

// REUSE-ALIAS (C01): a value whose slice storage is reset and refilled on every iteration must
// not be copied into a collection that outlives the iteration.
//
// This code base reuses buffers with the reset-then-append idiom. A *refill* of a location X is
//
//   - `X = X[0:0]` / `X = X[:0]` (a self-reslice to length zero), or
//   - `X = f(X[0:0], ...)` / `X, n = f(X[0:0], ...)` (the callee appends into the emptied slice:
//     FillReferences, UnmarshalDeltaCodedInts), or
//   - a call `E.M(...)` / `F(&E)` / `F(E)` (E a pointer) of a *refilling function*: a function that
//     refills a location below its pointer receiver or a pointer parameter (`p.Paths = p.Paths[0:0]`
//     in PolygonGeometryReferences.FromPathIDs, `*m = (*m)[0:0]` in Members.Unmarshal), directly or
//     through calls of other refilling functions on parts of it (summaries computed by shape over
//     the whole module, three rounds). The refilled location is then E followed by the callee's path.
//
// Slots (one instance per refill site, keyed function#ordinal in source order): refill sites that
// lie inside an *iteration scope* -- the body of a for/range statement, or a function literal
// (the emit/combine callbacks of the builders run once per feature). Let V be the variable at
// the root of the refilled location. The scopes in which V's storage is reused are the enclosing
// scopes that do not contain V's declaration; a scope whose own loop variable indexes the
// location (`a.Polygons[j].Unmarshal(...)` in `for j := range a.Polygons`) addresses a different
// element each iteration and ends that chain, as does a V that is the scope's range variable or
// parameter.
//
// Obligation: within the outermost such scope there is no *store by value* of V, of a prefix of
// the refilled location, or of the refilled slice itself into storage that outlives the scope:
// `dst = append(dst, v)`, `dst[i] = v` / `dst[i].f = v`, a composite literal (possibly behind &)
// carrying v in one of these positions, or a channel send `ch <- v`; dst outlives the scope when
// its root variable is declared outside it. Such a copy shares the backing array that the next
// refill overwrites.
//
// Accepted: V declared inside the scope (`var pp PolygonGeometryMixed` in the loop body: a fresh
// zero value, hence fresh storage, every iteration); a stored value produced by a call
// (`append(dst, v.Clone())`, `append([]T(nil), v.Paths...)`); stores into collections declared
// inside the scope; marshalling the value into a byte buffer (the normal use).
//
// Anchored to ingest/compact and encoding (violations fail); would-be violations in other
// packages are reported as info. Not decided: stores of `&V` (pointer aliasing is a different
// class), plain field stores `o.f = v`, aliasing across calls of a method that reuses receiver
// fields (no iteration scope in sight), function literals that run only once.
func init() {
	register(&Rule{
		Name:  "REUSE-ALIAS",
		IR:    "ast",
		Props: []string{"C01"},
		Floor: 16,
		Doc: "in ingest/compact and encoding, a variable whose slice storage is reset and refilled inside a loop body or callback (x = x[0:0], x = f(x[0:0], ...), or a call of a function that does so on its pointer receiver/parameter) " +
			"and that is declared outside that scope is not copied by value (append, indexed store, composite literal, channel send) into a collection that outlives the scope, unless the stored value is produced by a call (clone)",
		Run: runReuseAlias,
	})
}

// raStep is one step of an access chain below a root variable.
type raStep struct {
	field string   // field name, or "" for an index step
	index ast.Expr // index expression for an index step
}

type raChain struct {
	root  types.Object
	steps []raStep
}

// raChainOf resolves x.f.g[i].h (through parentheses, *, and auto-dereference) to a chain.
func raChainOf(info *types.Info, e ast.Expr) (raChain, bool) {
	var rev []raStep
	for {
		switch x := ast.Unparen(e).(type) {
		case *ast.Ident:
			obj := info.ObjectOf(x)
			if _, ok := obj.(*types.Var); !ok {
				return raChain{}, false
			}
			ch := raChain{root: obj}
			for i := len(rev) - 1; i >= 0; i-- {
				ch.steps = append(ch.steps, rev[i])
			}
			return ch, true
		case *ast.StarExpr:
			e = x.X
		case *ast.SelectorExpr:
			if sel := info.Selections[x]; sel == nil || sel.Kind() != types.FieldVal {
				return raChain{}, false
			}
			rev = append(rev, raStep{field: x.Sel.Name})
			e = x.X
		case *ast.IndexExpr:
			if _, isMap := info.TypeOf(x.X).Underlying().(*types.Map); isMap {
				return raChain{}, false
			}
			rev = append(rev, raStep{index: x.Index})
			e = x.X
		default:
			return raChain{}, false
		}
	}
}

func (c raChain) String() string {
	s := c.root.Name()
	for _, st := range c.steps {
		if st.field != "" {
			s += "." + st.field
		} else {
			s += "[" + types.ExprString(st.index) + "]"
		}
	}
	return s
}

func (c raChain) path() string {
	var parts []string
	for _, st := range c.steps {
		if st.field == "" {
			return "" // summaries only carry field paths
		}
		parts = append(parts, st.field)
	}
	return strings.Join(parts, ".")
}

// raIsPrefix: a is a prefix of (or equal to) b.
func raIsPrefix(info *types.Info, a, b raChain) bool {
	if a.root != b.root || len(a.steps) > len(b.steps) {
		return false
	}
	for i, st := range a.steps {
		o := b.steps[i]
		if (st.field == "") != (o.field == "") {
			return false
		}
		if st.field != "" {
			if st.field != o.field {
				return false
			}
		} else if !sameExpr(info, st.index, o.index) {
			return false
		}
	}
	return true
}

func raIsZero(info *types.Info, e ast.Expr) bool {
	if e == nil {
		return false
	}
	tv, ok := info.Types[e]
	return ok && tv.Value != nil && tv.Value.ExactString() == "0"
}

// raZeroReslice: X[0:0] or X[:0]; returns X.
func raZeroReslice(info *types.Info, e ast.Expr) (ast.Expr, bool) {
	se, ok := ast.Unparen(e).(*ast.SliceExpr)
	if !ok || se.Slice3 || !raIsZero(info, se.High) || (se.Low != nil && !raIsZero(info, se.Low)) {
		return nil, false
	}
	if _, isSlice := info.TypeOf(se.X).Underlying().(*types.Slice); !isSlice {
		return nil, false
	}
	return se.X, true
}

// raRefill is a summary entry: the function refills <param>.<path> (param -1 = receiver).
type raRefill struct {
	param int
	path  string
}

type raSite struct {
	node ast.Node // the assignment or call
	loc  raChain
	how  string
}

type raAnalysis struct {
	c       *Ctx
	summary map[*types.Func][]raRefill
}

func raJoinPath(a, b string) string {
	if a == "" {
		return b
	}
	if b == "" {
		return a
	}
	return a + "." + b
}

func raWithPath(ch raChain, path string) raChain {
	out := raChain{root: ch.root, steps: append([]raStep(nil), ch.steps...)}
	if path != "" {
		for _, f := range strings.Split(path, ".") {
			out.steps = append(out.steps, raStep{field: f})
		}
	}
	return out
}

// sites finds the refill sites among the nodes below n (function literals excluded unless n is one).
func (a *raAnalysis) sites(info *types.Info, n ast.Node, into func(raSite)) {
	inspectShallow(n, func(m ast.Node) bool {
		switch x := m.(type) {
		case *ast.AssignStmt:
			for i, lhs := range x.Lhs {
				ch, ok := raChainOf(info, lhs)
				if !ok {
					continue
				}
				var rhs ast.Expr
				if len(x.Lhs) == len(x.Rhs) {
					rhs = x.Rhs[i]
				} else if len(x.Rhs) == 1 {
					rhs = x.Rhs[0]
				}
				if rhs == nil {
					continue
				}
				if src, ok := raZeroReslice(info, rhs); ok && sameExpr(info, src, lhs) {
					into(raSite{x, ch, "reset `" + nodeText(a.c.Fset, x) + "`"})
					continue
				}
				if call, ok := ast.Unparen(rhs).(*ast.CallExpr); ok {
					for _, arg := range call.Args {
						if src, ok := raZeroReslice(info, arg); ok && sameExpr(info, src, lhs) {
							into(raSite{x, ch, "reset and refilled by `" + nodeText(a.c.Fset, x) + "`"})
							break
						}
					}
				}
			}
		case *ast.CallExpr:
			f := calleeFunc(info, x)
			if f == nil {
				return true
			}
			sum := a.summary[f.Origin()]
			if len(sum) == 0 {
				return true
			}
			for _, r := range sum {
				var target ast.Expr
				if r.param < 0 {
					se, ok := ast.Unparen(x.Fun).(*ast.SelectorExpr)
					if !ok {
						continue
					}
					target = se.X
				} else if r.param < len(x.Args) {
					target = ast.Unparen(x.Args[r.param])
					if u, ok := target.(*ast.UnaryExpr); ok && u.Op == token.AND {
						target = u.X
					}
				}
				if target == nil {
					continue
				}
				if ch, ok := raChainOf(info, target); ok {
					into(raSite{x, raWithPath(ch, r.path), fmt.Sprintf("refilled by the call `%s` (%s resets and appends to %s)", nodeText(a.c.Fset, x), f.Name(), raJoinPath("its receiver/argument", r.path))})
				}
			}
		}
		return true
	})
}

// summarise computes the refilling functions of the module.
func (a *raAnalysis) summarise() {
	a.summary = map[*types.Func][]raRefill{}
	for round := 0; round < 3; round++ {
		changed := false
		for _, p := range a.c.SortedPkgs() {
			info := p.TypesInfo
			for _, fd := range a.c.FuncDecls(p) {
				fn, _ := info.Defs[fd.Name].(*types.Func)
				if fn == nil {
					continue
				}
				// pointer receiver and pointer parameters
				params := map[types.Object]int{}
				if r := bRecvObj(info, fd); r != nil {
					if _, ok := r.Type().Underlying().(*types.Pointer); ok {
						params[r] = -1
					}
				}
				i := 0
				for _, fl := range fd.Type.Params.List {
					for _, n := range fl.Names {
						if o := info.Defs[n]; o != nil {
							if _, ok := o.Type().Underlying().(*types.Pointer); ok {
								params[o] = i
							}
						}
						i++
					}
					if len(fl.Names) == 0 {
						i++
					}
				}
				if len(params) == 0 {
					continue
				}
				have := map[raRefill]bool{}
				for _, r := range a.summary[fn] {
					have[r] = true
				}
				a.sites(info, fd.Body, func(s raSite) {
					k, ok := params[s.loc.root]
					if !ok {
						return
					}
					for _, st := range s.loc.steps {
						if st.field == "" {
							return // below an index: one element, not the parameter's own storage
						}
					}
					r := raRefill{k, s.loc.path()}
					if !have[r] {
						have[r] = true
						a.summary[fn] = append(a.summary[fn], r)
						changed = true
					}
				})
			}
		}
		if !changed {
			break
		}
	}
}

type raScope struct {
	node     ast.Node // *ast.ForStmt, *ast.RangeStmt or *ast.FuncLit
	body     *ast.BlockStmt
	loopVars map[types.Object]bool
}

func raScopeOf(info *types.Info, n ast.Node) *raScope {
	switch x := n.(type) {
	case *ast.ForStmt:
		s := &raScope{node: x, body: x.Body, loopVars: map[types.Object]bool{}}
		if as, ok := x.Init.(*ast.AssignStmt); ok && as.Tok == token.DEFINE {
			for _, l := range as.Lhs {
				if id, ok := l.(*ast.Ident); ok {
					if o := info.ObjectOf(id); o != nil {
						s.loopVars[o] = true
					}
				}
			}
		}
		return s
	case *ast.RangeStmt:
		s := &raScope{node: x, body: x.Body, loopVars: map[types.Object]bool{}}
		for _, e := range []ast.Expr{x.Key, x.Value} {
			if id, ok := e.(*ast.Ident); ok {
				if o := info.ObjectOf(id); o != nil {
					s.loopVars[o] = true
				}
			}
		}
		return s
	case *ast.FuncLit:
		return &raScope{node: x, body: x.Body, loopVars: map[types.Object]bool{}}
	}
	return nil
}

func runReuseAlias(c *Ctx) []Obligation {
	a := &raAnalysis{c: c}
	a.summarise()
	var out []Obligation
	for _, p := range c.SortedPkgs() {
		anchored := false
		for _, cp := range bCodecPkgs(c) {
			if cp == p {
				anchored = true
			}
		}
		info := p.TypesInfo
		for _, fd := range c.FuncDecls(p) {
			ord := 0
			// all refill sites of the declaration, including those inside literals
			var sites []raSite
			a.sites(info, fd.Body, func(s raSite) { sites = append(sites, s) })
			ast.Inspect(fd.Body, func(m ast.Node) bool {
				if fl, ok := m.(*ast.FuncLit); ok {
					a.sites(info, fl, func(s raSite) { sites = append(sites, s) })
				}
				return true
			})
			if len(sites) == 0 {
				continue
			}
			// source order
			for i := 1; i < len(sites); i++ {
				for j := i; j > 0 && sites[j].node.Pos() < sites[j-1].node.Pos(); j-- {
					sites[j], sites[j-1] = sites[j-1], sites[j]
				}
			}
			for _, s := range sites {
				chain := enclosing(fd.Body, s.node)
				var scopes []*raScope // innermost first
				for i := len(chain) - 1; i >= 0; i-- {
					if sc := raScopeOf(info, chain[i]); sc != nil && sc.body.Pos() <= s.node.Pos() && s.node.End() <= sc.body.End() {
						scopes = append(scopes, sc)
					}
				}
				if len(scopes) == 0 {
					continue // not inside an iteration scope
				}
				ord++
				ob := Obligation{Key: fmt.Sprintf("%s#%d", c.FuncName(p, fd), ord), Pos: c.Position(s.node.Pos())}
				root := s.loc.root
				var reuse *raScope
				why := ""
				for _, sc := range scopes {
					if root.Pos() >= sc.node.Pos() && root.Pos() <= sc.node.End() {
						why = fmt.Sprintf("%s is declared inside the %s at %s: fresh storage every iteration", root.Name(), raScopeKind(sc), c.Position(sc.node.Pos()))
						break
					}
					indexed := false
					for _, st := range s.loc.steps {
						if st.index != nil && dsMentions(info, st.index, sc.loopVars) {
							indexed = true
						}
					}
					if indexed {
						why = fmt.Sprintf("%s is addressed through the loop variable of the %s at %s: a different element every iteration", s.loc, raScopeKind(sc), c.Position(sc.node.Pos()))
						break
					}
					reuse = sc
				}
				if reuse == nil {
					ob.Status, ob.Detail = OK, fmt.Sprintf("%s %s; %s", s.loc, s.how, why)
					if anchored {
						out = append(out, ob)
					}
					continue
				}
				stores := a.stores(info, reuse, s.loc)
				if len(stores) == 0 {
					ob.Status = OK
					ob.Detail = fmt.Sprintf("%s is %s and reused by every run of the %s at %s; it is not copied into a collection that outlives the scope", s.loc, s.how, raScopeKind(reuse), c.Position(reuse.node.Pos()))
					if anchored {
						out = append(out, ob)
					}
					continue
				}
				ob.Status = Violation
				ob.Detail = fmt.Sprintf("%s is %s on every run of the %s at %s (declared outside it, so the backing array is reused), and %s: the stored copy shares the array that the next refill overwrites",
					s.loc, s.how, raScopeKind(reuse), c.Position(reuse.node.Pos()), stores[0])
				ob.Path = stores
				if !anchored {
					ob.Status = Info
				}
				out = append(out, ob)
			}
		}
	}
	return out
}

func raScopeKind(sc *raScope) string {
	switch sc.node.(type) {
	case *ast.FuncLit:
		return "function literal"
	case *ast.RangeStmt:
		return "range loop"
	}
	return "for loop"
}

// stores lists the by-value stores of (a prefix of) loc inside the scope into outliving storage.
func (a *raAnalysis) stores(info *types.Info, sc *raScope, loc raChain) []string {
	var out []string
	outlives := func(dst ast.Expr) bool {
		ch, ok := raChainOf(info, dst)
		if !ok {
			return true // a field of something computed: assume it outlives
		}
		return ch.root.Pos() < sc.node.Pos() || ch.root.Pos() > sc.node.End()
	}
	var aliases func(e ast.Expr) bool
	aliases = func(e ast.Expr) bool {
		e = ast.Unparen(e)
		switch x := e.(type) {
		case *ast.UnaryExpr:
			if x.Op == token.AND {
				if cl, ok := ast.Unparen(x.X).(*ast.CompositeLit); ok {
					return aliases(cl)
				}
			}
			return false
		case *ast.CompositeLit:
			for _, el := range x.Elts {
				if kv, ok := el.(*ast.KeyValueExpr); ok {
					el = kv.Value
				}
				if aliases(el) {
					return true
				}
			}
			return false
		}
		ch, ok := raChainOf(info, e)
		return ok && raIsPrefix(info, ch, loc)
	}
	ast.Inspect(sc.body, func(n ast.Node) bool {
		switch x := n.(type) {
		case *ast.FuncLit:
			return n == ast.Node(sc.node) // do not descend into other literals
		case *ast.SendStmt:
			if aliases(x.Value) {
				out = append(out, fmt.Sprintf("%s sends it on a channel (`%s`)", a.c.Position(x.Pos()), nodeText(a.c.Fset, x)))
			}
		case *ast.AssignStmt:
			for i, rhs := range x.Rhs {
				if call, ok := ast.Unparen(rhs).(*ast.CallExpr); ok && isBuiltin(info, call, "append") && len(call.Args) >= 2 {
					for _, arg := range call.Args[1:] {
						if aliases(arg) && outlives(call.Args[0]) {
							out = append(out, fmt.Sprintf("%s appends a copy of it to %s (`%s`)", a.c.Position(x.Pos()), types.ExprString(call.Args[0]), nodeText(a.c.Fset, x)))
						}
					}
					continue
				}
				if len(x.Lhs) != len(x.Rhs) || x.Tok != token.ASSIGN {
					continue
				}
				// indexed store
				hasIndex := false
				for e := ast.Unparen(x.Lhs[i]); ; {
					switch y := e.(type) {
					case *ast.IndexExpr:
						hasIndex = true
						e = ast.Unparen(y.X)
						continue
					case *ast.SelectorExpr:
						e = ast.Unparen(y.X)
						continue
					case *ast.StarExpr:
						e = ast.Unparen(y.X)
						continue
					}
					break
				}
				if hasIndex && aliases(rhs) {
					// storing a location back into itself is no copy
					if lch, ok := raChainOf(info, x.Lhs[i]); ok && raIsPrefix(info, lch, loc) {
						continue
					}
					dst := x.Lhs[i]
					if ch, ok := raChainOf(info, dst); ok {
						if ch.root.Pos() >= sc.node.Pos() && ch.root.Pos() <= sc.node.End() {
							continue
						}
					}
					out = append(out, fmt.Sprintf("%s stores a copy of it into %s (`%s`)", a.c.Position(x.Pos()), types.ExprString(dst), nodeText(a.c.Fset, x)))
				}
			}
		}
		return true
	})
	return out
}
