package main

func init() {
	register(&Rule{Name: "PROBE", Doc: "probe", Props: []string{"C99"}, IR: "ast", Run: func(c *Ctx) []Obligation {
		c.BuildSSA()
		c.CallGraph()
		return []Obligation{{Key: "x", Status: OK}}
	}})
}
