package main

import (
	"fmt"
	"go/ast"
	"go/types"
	"sort"
	"strings"
)

// FILTER-AGREE (C04): a spatial query type Q of package b6 is answered twice: by Q.Matches
// (the definition) and by the filtering iterator I that Q.Compile returns (`return &I{...}`,
// I a struct type of the package with Next and Advance). The geometric predicate applied by
// Matches, by I.Next and by I.Advance must be the same function object.
//
// Discovery: every named type of package b6 with a Matches method returning bool whose
// Compile method returns the address of a composite literal of a package struct type that has
// Next and Advance methods (today: IntersectsCells, IntersectsCap, IntersectsPoint,
// IntersectsPolyline, IntersectsMultiPolygon). Three instances per type.
//
// Accepted idioms:
//   - Matches delegates: its body is the single statement `return F(args)` with F a module
//     function returning bool -> the predicate is F (cellsIntersectFeature, ...);
//   - otherwise Matches is itself the predicate ((*IntersectsCap).Matches) and the iterator
//     must call that method;
//   - in Next/Advance the predicate call is the call (resolved through types, anywhere in the
//     body, including a loop condition and under `!`) of a function returning bool that has a
//     parameter of type b6.Feature; a callee whose body is the single statement `return F(...)`
//     counts as F (calling Q.Matches is calling its delegate). Exactly one distinct predicate
//     must appear.
//
// Not covered: that the arguments handed to the predicate are the query's own data (the
// iterator's fields are filled by Compile); IntersectsFeature has no iterator of its own.
func init() {
	register(&Rule{
		Name:  "FILTER-AGREE",
		IR:    "ast",
		Props: []string{"C04"},
		Floor: 15, // 5 query types x {Matches, Next, Advance}
		Doc: "for each query type of package b6 whose Compile returns a filtering iterator (&I{...}, I with Next and Advance), the " +
			"predicate function applied by Matches, by I.Next and by I.Advance is the same function object",
		Run: runFilterAgree,
	})
}

// gMatchesPredicate returns the function that decides Matches: the delegate of a one-statement
// `return F(...)` body, or Matches itself.
func (c *Ctx) gMatchesPredicate(matches *types.Func) *types.Func {
	fd, p := c.Decl(matches)
	if fd == nil || fd.Body == nil {
		return matches
	}
	if len(fd.Body.List) == 1 {
		if rs, ok := fd.Body.List[0].(*ast.ReturnStmt); ok && len(rs.Results) == 1 {
			if call, ok := ast.Unparen(rs.Results[0]).(*ast.CallExpr); ok {
				if f := calleeFunc(p.TypesInfo, call); f != nil && gIsBoolFunc(f) {
					if d, _ := c.Decl(f); d != nil && d.Body != nil {
						return f.Origin()
					}
				}
			}
		}
	}
	return matches
}

// gFeaturePredicateCalls lists the distinct callees, in a body, of calls to bool functions that
// take a b6.Feature.
func (c *Ctx) gFeaturePredicateCalls(info *types.Info, body ast.Node) []*types.Func {
	root := c.Pkg("")
	var feature types.Type
	if root != nil {
		if tn, ok := root.Types.Scope().Lookup("Feature").(*types.TypeName); ok {
			feature = tn.Type()
		}
	}
	seen := map[*types.Func]bool{}
	var out []*types.Func
	ast.Inspect(body, func(n ast.Node) bool {
		call, ok := n.(*ast.CallExpr)
		if !ok {
			return true
		}
		f := calleeFunc(info, call)
		if f == nil || !gIsBoolFunc(f) || feature == nil {
			return true
		}
		sig := f.Type().(*types.Signature)
		takes := false
		for i := 0; i < sig.Params().Len(); i++ {
			if types.Identical(sig.Params().At(i).Type(), feature) {
				takes = true
			}
		}
		if takes {
			// a call of a method that merely delegates (`return F(...)`) is a call of F
			g := c.gMatchesPredicate(f.Origin())
			if !seen[g] {
				seen[g] = true
				out = append(out, g)
			}
		}
		return true
	})
	sort.Slice(out, func(i, j int) bool { return out[i].FullName() < out[j].FullName() })
	return out
}

func runFilterAgree(c *Ctx) []Obligation {
	var out []Obligation
	for _, fp := range c.gFilterPairs() {
		pred := c.gMatchesPredicate(fp.matches)
		mfd, mp := c.Decl(fp.matches)
		if mfd == nil {
			continue
		}
		how := "is itself the predicate"
		if pred != fp.matches {
			how = "delegates to " + c.gFuncDisplay(pred)
		}
		out = append(out, Obligation{
			Key: gNthKey(c.FuncName(mp, mfd), 1), Pos: c.Position(mfd.Pos()), Status: OK,
			Detail: fmt.Sprintf("query type %s, iterator %s: Matches %s", fp.query.Obj().Name(), fp.iter.Obj().Name(), how),
		})
		for _, m := range []*types.Func{fp.next, fp.advance} {
			fd, p := c.Decl(m)
			ob := Obligation{}
			if fd == nil || fd.Body == nil {
				ob.Key = gNthKey(fmt.Sprintf("b6.(*%s).%s", fp.iter.Obj().Name(), m.Name()), 1)
				ob.Pos = c.Position(m.Pos())
				ob.Status, ob.Detail = Undecided, "method has no body in the module (promoted or external); predicate cannot be read"
				out = append(out, ob)
				continue
			}
			ob.Key, ob.Pos = gNthKey(c.FuncName(p, fd), 1), c.Position(fd.Pos())
			calls := c.gFeaturePredicateCalls(p.TypesInfo, fd.Body)
			var names []string
			for _, f := range calls {
				names = append(names, c.gFuncDisplay(f))
			}
			switch {
			case len(calls) == 0:
				ob.Status = Violation
				ob.Detail = fmt.Sprintf("%s applies no feature predicate, while %s decides by %s", c.FuncName(p, fd), c.FuncName(mp, mfd), c.gFuncDisplay(pred))
			case len(calls) > 1:
				ob.Status = Violation
				ob.Detail = fmt.Sprintf("%s applies more than one feature predicate (%s), while %s decides by %s", c.FuncName(p, fd), strings.Join(names, ", "), c.FuncName(mp, mfd), c.gFuncDisplay(pred))
			case calls[0] != pred.Origin():
				ob.Status = Violation
				ob.Detail = fmt.Sprintf("%s filters with %s but %s decides by %s", c.FuncName(p, fd), names[0], c.FuncName(mp, mfd), c.gFuncDisplay(pred))
			default:
				ob.Status = OK
				ob.Detail = fmt.Sprintf("filters with %s, the predicate of %s", names[0], c.FuncName(mp, mfd))
			}
			out = append(out, ob)
		}
	}
	return out
}
