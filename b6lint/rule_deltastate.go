package main

import (
	"fmt"
	"go/ast"
	"go/token"
	"go/types"
	"sort"
	"strings"

	"golang.org/x/tools/go/packages"
)

// DELTA-STATE (C11, C01): the encoder and the decoder of a delta-coded list keep the same running
// state.
//
// Slots: the Marshal<S>/Unmarshal<S> method pairs of CODEC-SYM (every named non-interface type of
// ingest/compact and encoding; delegation to the receiver's own Marshal*/Unmarshal* methods is
// followed, so Unmarshal -> UnmarshalWithoutLength is seen through), and the package-level
// function pairs Marshal<S>/Unmarshal<S> of the two packages (suffixes equal up to a plural "s":
// MarshalDeltaCodedUint64s/UnmarshalDeltaCodedUint64). A pair is an instance if at least one side
// keeps *loop-carried codec state*: a local variable declared before an element loop (for/range)
// and assigned inside it (the variable itself or a field path of it; not an element slot
// `x[j] = ...`), where some assignment takes its value from the current element or from data
// decoded in that iteration. Byte offsets (variables that index or slice a []byte) and
// counters/bit accumulators (never assigned from the element) are not state.
// Today: LatLngs (2 pairs), References (2 pairs), ReferencesAndLatLngs, and the two delta-coded
// integer codecs of package encoding. Posting lists keep their state in struct fields across calls
// (PostingListEncoder.previous / Iterator.value), not in a Marshal/Unmarshal pair: outside the slot.
//
// From each side the rule extracts the set of state updates
//
//	(component of the state, element field it is taken from, guard set)
//
// where the element is the current element of the loop (range value variable, or the ranged /
// receiver collection indexed by the loop's own index variable; written `[*]`), a component is the
// field path below the state variable (`Reference.Value`, `LatLng`, or the whole variable), and the
// guards are the conditions of the enclosing if statements inside the loop, normalised:
// polarity by branch, `!`, `!=` and De Morgan resolved, `&&` split, operands of `==` ordered, each
// operand an element field path, a local bit set of a codec type indexed by the loop index
// (`$Bits[*]`), or a canonical expression (constants by value, parameters by type and ordinal,
// arguments of a followed delegation substituted).
//
// Accepted update idioms:
//   - `S.c = elem.f`, also inside a parallel assignment (`last, r.Value = r.Value, enc(...)`),
//     conversions ignored; elem.f may be read through a temporary declared in the loop body and
//     defined once (`abs := r.Value; ...; last = abs`), the read then counts where it is defined;
//   - decoder only: `S += delta` followed in the same iteration by `result = append(result, S)` or
//     `elem.f = S` (the state *is* the absolute element: UnmarshalDeltaCodedInts).
//
// Obligations: (1) both sides have the same set of updates (same components, taken from the same
// element fields, under the same guards); (2) the state is taken from the absolute element: on
// the encoder side no assignment earlier in the iteration has overwritten that element field
// (with its encoding), on the decoder side every assignment that reconstructs that element
// field from the state comes before the update. Any other assignment to a state variable, a
// guard that cannot be normalised (switch, `||` on the then-branch, conditions on loop variables
// other than the listed forms), or state below two nested loops is undecided.
//
// Not decided: equality of the initial state values, and that the delta itself is computed
// against the state in the same way.
func init() {
	register(&Rule{
		Name:    "DELTA-STATE",
		IR:      "ast",
		Props:   []string{"C11", "C01", "C31"}, // C31: references are feature IDs; their order-preserving delta coding is part of "consistent with the compact index"
		FloorBy: map[string]int{"C31": 3},
		Floor:   7,
		Doc: "for every Marshal/Unmarshal pair of ingest/compact and encoding (method pairs as in CODEC-SYM with delegation followed, and package-level function pairs) that keeps loop-carried codec state " +
			"(a local declared before the element loop and assigned from the current element inside it), both sides update the same state components from the same element fields under equivalent guards, " +
			"and the state is taken from the absolute (input / fully decoded) element on both sides",
		Run: runDeltaState,
	})
}

type dsLoop struct {
	stmt      ast.Stmt
	body      *ast.BlockStmt
	idx       types.Object // range key or for-loop counter
	val       types.Object // range value variable
	rng       ast.Expr     // ranged-over expression
	guardBase int          // number of guards on the stack when the loop was entered
}

type dsGuard struct {
	cond ast.Expr
	pol  bool
}

type dsAssign struct {
	stmt   *ast.AssignStmt
	lhs    ast.Expr
	rhs    ast.Expr // nil for tuple assignments from one call
	obj    types.Object
	comp   string
	loop   *dsLoop
	loops  []*dsLoop
	guards []dsGuard
	env    *bCodecEnv
	fd     *ast.FuncDecl
	nested bool // the variable is declared outside more than one enclosing loop
}

type dsUpdate struct {
	comp, src string
	guards    []string
	pos       string
}

func (u dsUpdate) key() string {
	comp := u.comp
	if comp == "" {
		comp = "(whole state)"
	}
	g := "always"
	if len(u.guards) > 0 {
		g = "if " + strings.Join(u.guards, " && ")
	}
	return strings.ReplaceAll(fmt.Sprintf("%s <- element%s %s", comp, strings.TrimPrefix(u.src, "[*]"), g), ModulePath+"/", "")
}

type dsSide struct {
	c          *Ctx
	p          *packages.Package
	info       *types.Info
	side       string
	self       *types.Named
	x          *bCodecExtractor
	updates    []dsUpdate
	undecided  []string
	violations []string
}

func (s *dsSide) undecide(format string, args ...interface{}) {
	s.undecided = append(s.undecided, fmt.Sprintf(format, args...))
}

// path resolves an expression to a path rooted at the receiver / the collection parameter;
// elements of the collection (through the loop's own variables) are written [*].
func (s *dsSide) path(e ast.Expr, env *bCodecEnv, coll map[types.Object]bool, loops []*dsLoop) (string, bool) {
	switch e := ast.Unparen(e).(type) {
	case *ast.Ident:
		obj := s.info.ObjectOf(e)
		if obj == nil {
			return "", false
		}
		if obj == env.recv || coll[obj] {
			return "", true
		}
		for _, l := range loops {
			if l.val != nil && obj == l.val {
				p, ok := s.path(l.rng, env, coll, loops)
				if !ok {
					return "", false
				}
				return p + "[*]", true
			}
		}
		return "", false
	case *ast.StarExpr:
		return s.path(e.X, env, coll, loops)
	case *ast.SelectorExpr:
		sel := s.info.Selections[e]
		if sel == nil || sel.Kind() != types.FieldVal {
			return "", false
		}
		p, ok := s.path(e.X, env, coll, loops)
		if !ok {
			return "", false
		}
		if p == "" {
			return e.Sel.Name, true
		}
		return p + "." + e.Sel.Name, true
	case *ast.IndexExpr:
		id, ok := ast.Unparen(e.Index).(*ast.Ident)
		if !ok {
			return "", false
		}
		obj := s.info.ObjectOf(id)
		isIdx := false
		for _, l := range loops {
			if l.idx != nil && l.idx == obj {
				isIdx = true
			}
		}
		if !isIdx {
			return "", false
		}
		p, ok := s.path(e.X, env, coll, loops)
		if !ok {
			return "", false
		}
		return p + "[*]", true
	}
	return "", false
}

func dsIsElem(p string, ok bool) bool { return ok && strings.Contains(p, "[*]") }

// stateComp: the root identifier and field path of an assignment target `S.a.b`.
func dsStateComp(info *types.Info, e ast.Expr) (types.Object, string, bool) {
	var fields []string
	for {
		switch x := ast.Unparen(e).(type) {
		case *ast.Ident:
			obj := info.ObjectOf(x)
			if obj == nil {
				return nil, "", false
			}
			for i, j := 0, len(fields)-1; i < j; i, j = i+1, j-1 {
				fields[i], fields[j] = fields[j], fields[i]
			}
			return obj, strings.Join(fields, "."), true
		case *ast.SelectorExpr:
			if sel := info.Selections[x]; sel == nil || sel.Kind() != types.FieldVal {
				return nil, "", false
			}
			fields = append(fields, x.Sel.Name)
			e = x.X
		default:
			return nil, "", false
		}
	}
}

func dsMentions(info *types.Info, n ast.Node, objs map[types.Object]bool) bool {
	found := false
	ast.Inspect(n, func(m ast.Node) bool {
		if id, ok := m.(*ast.Ident); ok && objs[info.ObjectOf(id)] {
			found = true
		}
		return !found
	})
	return found
}

// analyse one function (following delegation to the receiver's own codec methods).
func (s *dsSide) analyse(fd *ast.FuncDecl, env *bCodecEnv) {
	info := s.info
	// collection parameters of package-level functions: slices that are not byte buffers
	coll := map[types.Object]bool{}
	if fd.Recv == nil {
		for _, fl := range fd.Type.Params.List {
			for _, n := range fl.Names {
				if o := info.Defs[n]; o != nil {
					if _, isSlice := o.Type().Underlying().(*types.Slice); isSlice && !bIsByteSlice(o.Type()) {
						coll[o] = true
					}
				}
			}
		}
	}
	// byte offsets: variables that index or slice a byte buffer
	offsets := map[types.Object]bool{}
	mark := func(e ast.Expr) {
		if e == nil {
			return
		}
		ast.Inspect(e, func(m ast.Node) bool {
			if id, ok := m.(*ast.Ident); ok {
				if o := info.ObjectOf(id); o != nil {
					offsets[o] = true
				}
			}
			return true
		})
	}
	ast.Inspect(fd.Body, func(n ast.Node) bool {
		switch x := n.(type) {
		case *ast.SliceExpr:
			if bIsByteSlice(info.TypeOf(x.X)) {
				mark(x.Low)
				mark(x.High)
			}
		case *ast.IndexExpr:
			if bIsByteSlice(info.TypeOf(x.X)) {
				mark(x.Index)
			}
		}
		return true
	})
	isLocal := func(o types.Object) bool {
		v, ok := o.(*types.Var)
		if !ok || v.IsField() || o == env.recv || o.Pkg() == nil || o.Parent() == o.Pkg().Scope() {
			return false
		}
		if o.Pos() < fd.Body.Pos() || o.Pos() > fd.Body.End() {
			return false // parameter or result
		}
		return true
	}
	var assigns []*dsAssign
	var walk func(list []ast.Stmt, loops []*dsLoop, guards []dsGuard)
	var walkStmt func(st ast.Stmt, loops []*dsLoop, guards []dsGuard)
	delegations := func(n ast.Node) {
		if n == nil {
			return
		}
		inspectShallow(n, func(m ast.Node) bool {
			call, ok := m.(*ast.CallExpr)
			if !ok || s.self == nil {
				return true
			}
			f := calleeFunc(info, call)
			if f == nil || !bProperPrefix(f.Name(), s.side) {
				return true
			}
			sig := f.Type().(*types.Signature)
			if sig.Recv() == nil || namedOf(sig.Recv().Type()) != s.self || !bHasBufferParam(sig) {
				return true
			}
			se, ok := ast.Unparen(call.Fun).(*ast.SelectorExpr)
			if !ok {
				return true
			}
			if id, ok := bStripStarParen(se.X).(*ast.Ident); !ok || info.ObjectOf(id) != env.recv {
				return true
			}
			cfd, cp := s.c.Decl(f)
			if cfd == nil || cfd.Body == nil || cp != s.p || env.depth >= 4 {
				return true
			}
			sub := &bCodecEnv{fd: cfd, recv: bRecvObj(info, cfd), subst: map[types.Object]string{}, rangeOf: map[types.Object]ast.Expr{}, depth: env.depth + 1, args: map[types.Object]ast.Expr{}, parent: env}
			i := 0
			for _, fl := range cfd.Type.Params.List {
				for _, n := range fl.Names {
					if i < len(call.Args) {
						if obj := info.Defs[n]; obj != nil {
							sub.args[obj] = call.Args[i]
						}
					}
					i++
				}
				if len(fl.Names) == 0 {
					i++
				}
			}
			s.analyse(cfd, sub)
			return true
		})
	}
	walk = func(list []ast.Stmt, loops []*dsLoop, guards []dsGuard) {
		for _, st := range list {
			walkStmt(st, loops, guards)
		}
	}
	walkStmt = func(st ast.Stmt, loops []*dsLoop, guards []dsGuard) {
		switch x := st.(type) {
		case nil:
		case *ast.BlockStmt:
			walk(x.List, loops, guards)
		case *ast.LabeledStmt:
			walkStmt(x.Stmt, loops, guards)
		case *ast.IfStmt:
			walkStmt(x.Init, loops, guards)
			delegations(x.Cond)
			walk(x.Body.List, loops, append(append([]dsGuard(nil), guards...), dsGuard{x.Cond, true}))
			if x.Else != nil {
				walkStmt(x.Else, loops, append(append([]dsGuard(nil), guards...), dsGuard{x.Cond, false}))
			}
		case *ast.ForStmt:
			l := &dsLoop{stmt: x, body: x.Body, guardBase: len(guards)}
			if as, ok := x.Init.(*ast.AssignStmt); ok && as.Tok == token.DEFINE && len(as.Lhs) == 1 {
				if id, ok := as.Lhs[0].(*ast.Ident); ok {
					l.idx = info.ObjectOf(id)
				}
			}
			delegations(x.Init)
			delegations(x.Cond)
			walk(x.Body.List, append(append([]*dsLoop(nil), loops...), l), guards)
		case *ast.RangeStmt:
			l := &dsLoop{stmt: x, body: x.Body, rng: x.X, guardBase: len(guards)}
			if id, ok := x.Key.(*ast.Ident); ok && id.Name != "_" {
				l.idx = info.ObjectOf(id)
			}
			if id, ok := x.Value.(*ast.Ident); ok && id.Name != "_" {
				l.val = info.ObjectOf(id)
			}
			delegations(x.X)
			walk(x.Body.List, append(append([]*dsLoop(nil), loops...), l), guards)
		case *ast.SwitchStmt, *ast.TypeSwitchStmt, *ast.SelectStmt:
			// state updates below a switch cannot be normalised: record the assignments with an
			// unnormalisable guard
			var body *ast.BlockStmt
			switch y := x.(type) {
			case *ast.SwitchStmt:
				body = y.Body
			case *ast.TypeSwitchStmt:
				body = y.Body
			case *ast.SelectStmt:
				body = y.Body
			}
			delegations(x)
			for _, cl := range body.List {
				var stmts []ast.Stmt
				switch cc := cl.(type) {
				case *ast.CaseClause:
					stmts = cc.Body
				case *ast.CommClause:
					stmts = cc.Body
				}
				walk(stmts, loops, append(append([]dsGuard(nil), guards...), dsGuard{nil, true}))
			}
		case *ast.AssignStmt:
			delegations(x)
			if len(loops) == 0 {
				return
			}
			for i, lhs := range x.Lhs {
				obj, comp, ok := dsStateComp(info, lhs)
				if !ok || !isLocal(obj) || offsets[obj] {
					continue
				}
				// enclosing loops outside of which the variable is declared
				var outer []*dsLoop
				for _, l := range loops {
					if obj.Pos() < l.stmt.Pos() {
						outer = append(outer, l)
					}
				}
				if len(outer) == 0 {
					continue
				}
				a := &dsAssign{stmt: x, lhs: lhs, obj: obj, comp: comp, loop: outer[len(outer)-1], loops: loops, env: env, fd: fd, nested: len(outer) > 1}
				a.guards = append([]dsGuard(nil), guards[a.loop.guardBase:]...)
				if len(x.Lhs) == len(x.Rhs) {
					a.rhs = x.Rhs[i]
				}
				assigns = append(assigns, a)
			}
		default:
			delegations(st)
		}
	}
	walk(fd.Body.List, nil, nil)

	// which variables are state: some in-loop assignment takes its value from the element or
	// from a local declared inside the loop (decoded data)
	loopVars := func(a *dsAssign) map[types.Object]bool {
		m := map[types.Object]bool{}
		for _, l := range a.loops {
			if l.idx != nil {
				m[l.idx] = true
			}
		}
		return m
	}
	fromElement := func(a *dsAssign) bool {
		var rhs []ast.Expr
		if a.rhs != nil {
			rhs = []ast.Expr{a.rhs}
		} else {
			rhs = a.stmt.Rhs
		}
		idx := loopVars(a)
		hit := false
		for _, r := range rhs {
			ast.Inspect(r, func(m ast.Node) bool {
				if hit {
					return false
				}
				if e, ok := m.(ast.Expr); ok {
					if dsIsElem(s.path(e, a.env, coll, a.loops)) {
						hit = true
						return false
					}
				}
				if id, ok := m.(*ast.Ident); ok {
					o := info.ObjectOf(id)
					if o != nil && !idx[o] && isLocal(o) && o.Pos() > a.loop.body.Pos() && o.Pos() < a.loop.body.End() {
						hit = true
					}
				}
				return true
			})
		}
		return hit
	}
	state := map[types.Object]bool{}
	for _, a := range assigns {
		if fromElement(a) {
			state[a.obj] = true
		}
	}
	if len(state) == 0 {
		return
	}
	// element assignments per loop (for the absoluteness check)
	type elemAssign struct {
		stmt      *ast.AssignStmt
		path      string
		usesState bool
	}
	elemAssigns := func(a *dsAssign) []elemAssign {
		var out []elemAssign
		inspectShallow(a.loop.body, func(n ast.Node) bool {
			as, ok := n.(*ast.AssignStmt)
			if !ok {
				return true
			}
			for i, l := range as.Lhs {
				p, ok := s.path(l, a.env, coll, a.loops)
				if !dsIsElem(p, ok) {
					continue
				}
				var r ast.Node = as
				if len(as.Lhs) == len(as.Rhs) {
					r = as.Rhs[i]
				}
				out = append(out, elemAssign{as, p, dsMentions(info, r, state)})
			}
			return true
		})
		return out
	}
	overlap := func(p, q string) bool {
		if p == q {
			return true
		}
		return strings.HasPrefix(p, q+".") || strings.HasPrefix(q, p+".") || strings.HasPrefix(p, q+"[") || strings.HasPrefix(q, p+"[")
	}
	for _, a := range assigns {
		if !state[a.obj] {
			continue
		}
		where := s.c.Position(a.stmt.Pos())
		text := nodeText(s.c.Fset, a.stmt)
		if a.nested {
			s.undecide("%s: state %s is carried across two nested loops (%s)", where, a.obj.Name(), text)
			continue
		}
		guards, ok := s.normGuards(a, coll)
		if !ok {
			s.undecide("%s: the guard of the state update `%s` cannot be normalised", where, text)
			continue
		}
		switch {
		case a.stmt.Tok == token.ASSIGN && a.rhs != nil:
			readAt := a.stmt.Pos() // where the element field is read
			rhs := bStripConv(info, a.rhs)
			// a temporary declared in the loop body and defined once from an element field
			if id, ok := rhs.(*ast.Ident); ok {
				if o := info.ObjectOf(id); o != nil && isLocal(o) && o.Pos() > a.loop.body.Pos() && o.Pos() < a.loop.body.End() {
					var defs []*ast.AssignStmt
					var defRhs ast.Expr
					inspectShallow(a.loop.body, func(n ast.Node) bool {
						if as, ok := n.(*ast.AssignStmt); ok && len(as.Lhs) == len(as.Rhs) {
							for i, l := range as.Lhs {
								if li, ok := l.(*ast.Ident); ok && info.ObjectOf(li) == o {
									defs = append(defs, as)
									defRhs = as.Rhs[i]
								}
							}
						}
						return true
					})
					if len(defs) == 1 && defs[0].Pos() < a.stmt.Pos() {
						rhs, readAt = bStripConv(info, defRhs), defs[0].Pos()
					}
				}
			}
			src, ok := s.path(rhs, a.env, coll, a.loops)
			if !dsIsElem(src, ok) {
				s.undecide("%s: state update `%s` does not take its value from a field of the current element", where, text)
				continue
			}
			s.updates = append(s.updates, dsUpdate{a.comp, src, guards, where})
			for _, ea := range elemAssigns(a) {
				if !overlap(ea.path, src) {
					continue
				}
				if s.side == "Marshal" && ea.stmt != a.stmt && ea.stmt.Pos() < readAt {
					s.violations = append(s.violations, fmt.Sprintf("encoder: state update `%s` (%s) reads element field %s after `%s` (%s) has overwritten it in the same iteration: the state is not the absolute value",
						text, where, strings.TrimPrefix(src, "[*]"), nodeText(s.c.Fset, ea.stmt), s.c.Position(ea.stmt.Pos())))
				}
				if s.side == "Unmarshal" && ea.usesState && ea.stmt.Pos() >= readAt {
					s.violations = append(s.violations, fmt.Sprintf("decoder: state update `%s` (%s) reads element field %s before `%s` (%s) has reconstructed it from the state: the state is not the decoded absolute value",
						text, where, strings.TrimPrefix(src, "[*]"), nodeText(s.c.Fset, ea.stmt), s.c.Position(ea.stmt.Pos())))
				}
			}
		case a.stmt.Tok == token.ADD_ASSIGN && s.side == "Unmarshal" && len(a.stmt.Lhs) == 1:
			// accumulate, then the element is set from the state
			dest, found := "", false
			inspectShallow(a.loop.body, func(n ast.Node) bool {
				as, ok := n.(*ast.AssignStmt)
				if !ok || found || as.Pos() <= a.stmt.Pos() || len(as.Lhs) != 1 || len(as.Rhs) != 1 {
					return true
				}
				isState := func(e ast.Expr) bool {
					o, comp, ok := dsStateComp(info, bStripConv(info, e))
					return ok && o == a.obj && comp == a.comp
				}
				if call, ok := ast.Unparen(as.Rhs[0]).(*ast.CallExpr); ok && isBuiltin(info, call, "append") && len(call.Args) == 2 && isState(call.Args[1]) && sameExpr(info, as.Lhs[0], call.Args[0]) {
					if p, ok := s.path(call.Args[0], a.env, coll, a.loops); ok {
						dest, found = p+"[*]", true
					}
				} else if isState(as.Rhs[0]) {
					if p, ok := s.path(as.Lhs[0], a.env, coll, a.loops); dsIsElem(p, ok) {
						dest, found = p, true
					}
				}
				return true
			})
			if !found {
				s.undecide("%s: state %s accumulates a delta (`%s`) but the current element is not set from it afterwards in the same iteration", where, a.obj.Name(), text)
				continue
			}
			s.updates = append(s.updates, dsUpdate{a.comp, dest, guards, where})
		default:
			s.undecide("%s: assignment `%s` to the state variable %s is not a recognised update idiom", where, text, a.obj.Name())
		}
	}
}

func bStripStarParen(e ast.Expr) ast.Expr {
	for {
		e = ast.Unparen(e)
		if st, ok := e.(*ast.StarExpr); ok {
			e = st.X
			continue
		}
		return e
	}
}

// normGuards normalises the guard chain of an assignment.
func (s *dsSide) normGuards(a *dsAssign, coll map[types.Object]bool) ([]string, bool) {
	var out []string
	for _, g := range a.guards {
		if g.cond == nil {
			return nil, false
		}
		terms, ok := s.normCond(g.cond, g.pol, a, coll)
		if !ok {
			return nil, false
		}
		out = append(out, terms...)
	}
	sort.Strings(out)
	// drop duplicates
	var uniq []string
	for i, t := range out {
		if i == 0 || out[i-1] != t {
			uniq = append(uniq, t)
		}
	}
	return uniq, true
}

func (s *dsSide) normCond(e ast.Expr, pol bool, a *dsAssign, coll map[types.Object]bool) ([]string, bool) {
	e = ast.Unparen(e)
	sign := func(p bool) string {
		if p {
			return ""
		}
		return "not "
	}
	switch x := e.(type) {
	case *ast.UnaryExpr:
		if x.Op == token.NOT {
			return s.normCond(x.X, !pol, a, coll)
		}
	case *ast.BinaryExpr:
		switch x.Op {
		case token.LAND, token.LOR:
			if (x.Op == token.LAND) != pol {
				return nil, false // a disjunction
			}
			l, ok1 := s.normCond(x.X, pol, a, coll)
			r, ok2 := s.normCond(x.Y, pol, a, coll)
			return append(l, r...), ok1 && ok2
		case token.EQL, token.NEQ:
			l, ok1 := s.operand(x.X, a, coll)
			r, ok2 := s.operand(x.Y, a, coll)
			if !ok1 || !ok2 {
				return nil, false
			}
			if r < l {
				l, r = r, l
			}
			p := pol
			if x.Op == token.NEQ {
				p = !p
			}
			return []string{sign(p) + "(" + l + " == " + r + ")"}, true
		case token.LSS, token.LEQ, token.GTR, token.GEQ:
			l, ok1 := s.operand(x.X, a, coll)
			r, ok2 := s.operand(x.Y, a, coll)
			if !ok1 || !ok2 {
				return nil, false
			}
			// canonical: only < and <=
			op := x.Op
			if op == token.GTR {
				l, r, op = r, l, token.LSS
			} else if op == token.GEQ {
				l, r, op = r, l, token.LEQ
			}
			if !pol { // not (l < r) == r <= l
				if op == token.LSS {
					l, r, op = r, l, token.LEQ
				} else {
					l, r, op = r, l, token.LSS
				}
			}
			return []string{"(" + l + " " + op.String() + " " + r + ")"}, true
		}
	}
	t, ok := s.operand(e, a, coll)
	if !ok {
		return nil, false
	}
	return []string{sign(pol) + t}, true
}

// operand: an element field path, a local codec bit set indexed by the loop index, or a canonical
// expression that does not depend on the loop.
func (s *dsSide) operand(e ast.Expr, a *dsAssign, coll map[types.Object]bool) (string, bool) {
	info := s.info
	e = bStripConv(info, e)
	if p, ok := s.path(e, a.env, coll, a.loops); ok {
		if p == "" {
			p = "(collection)"
		}
		return p, true
	}
	if ix, ok := e.(*ast.IndexExpr); ok {
		if id, ok := ast.Unparen(ix.X).(*ast.Ident); ok {
			obj := info.ObjectOf(id)
			if n := namedOf(info.TypeOf(ix.X)); n != nil && obj != nil && bInCodecPkg(n.Obj()) && obj.Pos() > a.fd.Body.Pos() && obj.Pos() < a.fd.Body.End() {
				if iid, ok := ast.Unparen(ix.Index).(*ast.Ident); ok && a.loop.idx != nil && info.ObjectOf(iid) == a.loop.idx {
					return "$" + n.Obj().Name() + "[*]", true
				}
			}
		}
	}
	// must not depend on the loop's own variables
	loopObjs := map[types.Object]bool{}
	for _, l := range a.loops {
		if l.idx != nil {
			loopObjs[l.idx] = true
		}
		if l.val != nil {
			loopObjs[l.val] = true
		}
	}
	if dsMentions(info, e, loopObjs) {
		return "", false
	}
	before := len(s.x.undecided)
	t := s.x.canon(e, a.env)
	if len(s.x.undecided) > before {
		s.x.undecided = s.x.undecided[:before]
		return "", false
	}
	return t, true
}

type dsPair struct {
	p        *packages.Package
	self     *types.Named
	mfd, ufd *ast.FuncDecl
	label    string
}

// dsPairs enumerates the method pairs (as CODEC-SYM) and the package-level function pairs.
func dsPairs(c *Ctx) []dsPair {
	var out []dsPair
	for _, p := range bCodecPkgs(c) {
		scope := p.Types.Scope()
		names := scope.Names()
		sort.Strings(names)
		funcs := map[string]*types.Func{}
		for _, name := range names {
			switch obj := scope.Lookup(name).(type) {
			case *types.Func:
				if bHasBufferParam(obj.Type().(*types.Signature)) {
					funcs[name] = obj
				}
			case *types.TypeName:
				if obj.IsAlias() {
					continue
				}
				named, ok := obj.Type().(*types.Named)
				if !ok {
					continue
				}
				if _, isIface := named.Underlying().(*types.Interface); isIface {
					continue
				}
				methods := map[string]*types.Func{}
				var mnames []string
				for i := 0; i < named.NumMethods(); i++ {
					m := named.Method(i)
					if bHasBufferParam(m.Type().(*types.Signature)) {
						methods[m.Name()] = m
						mnames = append(mnames, m.Name())
					}
				}
				sort.Strings(mnames)
				for _, mn := range mnames {
					if !bProperPrefix(mn, "Marshal") {
						continue
					}
					un, ok := methods["Unmarshal"+strings.TrimPrefix(mn, "Marshal")]
					if !ok {
						continue
					}
					mfd, mp := c.Decl(methods[mn])
					ufd, up := c.Decl(un)
					if mfd == nil || ufd == nil || mfd.Body == nil || ufd.Body == nil || mp != p || up != p {
						continue
					}
					out = append(out, dsPair{p, named, mfd, ufd, name + "." + mn + "/" + un.Name()})
				}
			}
		}
		var fnames []string
		for n := range funcs {
			fnames = append(fnames, n)
		}
		sort.Strings(fnames)
		for _, mn := range fnames {
			if !bProperPrefix(mn, "Marshal") || mn == "Marshal" {
				continue
			}
			suffix := strings.TrimPrefix(mn, "Marshal")
			un := funcs["Unmarshal"+suffix]
			if un == nil {
				un = funcs["Unmarshal"+strings.TrimSuffix(suffix, "s")]
			}
			if un == nil {
				un = funcs["Unmarshal"+suffix+"s"]
			}
			if un == nil {
				continue
			}
			mfd, mp := c.Decl(funcs[mn])
			ufd, up := c.Decl(un)
			if mfd == nil || ufd == nil || mfd.Body == nil || ufd.Body == nil || mp != p || up != p {
				continue
			}
			out = append(out, dsPair{p, nil, mfd, ufd, mn + "/" + un.Name()})
		}
	}
	return out
}

func runDeltaState(c *Ctx) []Obligation {
	var out []Obligation
	for _, pr := range dsPairs(c) {
		if f := bFileOf(pr.p, pr.mfd); f != nil && c.IsGenerated(f) {
			continue
		}
		mk := func(side string, fd *ast.FuncDecl) *dsSide {
			x := &bCodecExtractor{c: c, pkg: pr.p, info: pr.p.TypesInfo, side: side, self: pr.self}
			s := &dsSide{c: c, p: pr.p, info: pr.p.TypesInfo, side: side, self: pr.self, x: x}
			s.analyse(fd, x.topEnv(fd))
			return s
		}
		m, u := mk("Marshal", pr.mfd), mk("Unmarshal", pr.ufd)
		if len(m.updates)+len(u.updates)+len(m.undecided)+len(u.undecided) == 0 {
			continue // no loop-carried codec state on either side
		}
		ob := Obligation{Key: c.FuncName(pr.p, pr.mfd), Pos: c.Position(pr.mfd.Pos())}
		set := func(us []dsUpdate) (map[string]string, []string) {
			mm := map[string]string{}
			for _, x := range us {
				if _, dup := mm[x.key()]; !dup {
					mm[x.key()] = x.pos
				}
			}
			return mm, sortedKeys(mm)
		}
		ms, mk2 := set(m.updates)
		us, uk2 := set(u.updates)
		var diffs []string
		for _, k := range mk2 {
			if _, ok := us[k]; !ok {
				diffs = append(diffs, fmt.Sprintf("the encoder updates its state `%s` (%s) but the decoder has no such update", k, ms[k]))
			}
		}
		for _, k := range uk2 {
			if _, ok := ms[k]; !ok {
				diffs = append(diffs, fmt.Sprintf("the decoder updates its state `%s` (%s) but the encoder has no such update", k, us[k]))
			}
		}
		und := append(append([]string(nil), m.undecided...), u.undecided...)
		viol := append(append([]string(nil), m.violations...), u.violations...)
		describe := func(side string, keys []string, pos map[string]string) string {
			if len(keys) == 0 {
				return side + ": (no state updates)"
			}
			var parts []string
			for _, k := range keys {
				parts = append(parts, k+" ("+pos[k]+")")
			}
			return side + ": " + strings.Join(parts, "; ")
		}
		switch {
		case len(und) > 0:
			ob.Status = Undecided
			ob.Detail = pr.label + ": " + strings.Join(und, "; ")
		case len(diffs) > 0 || len(viol) > 0:
			ob.Status = Violation
			ob.Detail = pr.label + ": encoder and decoder do not keep the same delta state: " + strings.Join(append(diffs, viol...), "; ")
			ob.Path = []string{describe("encoder", mk2, ms), describe("decoder", uk2, us)}
		default:
			ob.Status = OK
			ob.Detail = pr.label + ": both sides update " + strings.Join(mk2, "; ")
		}
		out = append(out, ob)
	}
	return out
}
