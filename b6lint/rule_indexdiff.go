package main

import (
	"fmt"
	"go/ast"
	"go/token"
	"go/types"

	"golang.org/x/tools/go/cfg"
	"golang.org/x/tools/go/packages"
)

// INDEX-DIFF (C03, C12): when a feature is replaced, the mutable search index is brought up to
// date from the difference between the feature's old and new token sets. The diff yields two
// lists, and both have to be applied: the added tokens indexed, the removed tokens taken out. A
// shortcut that looks at one list only ("nothing added, nothing to do") leaves the dropped tokens
// in the index, and tag queries keep returning a feature that no longer has the tag.
//
// Instances (by shape, all module packages): an assignment `a, r := d(x, y)` whose callee d is a
// module function with exactly two results, both []string, and at least one of whose result
// variables is the token argument of a call `I.Add(v, ts)` / `I.Remove(v, ts)` in the same
// function, where I's method set has both Add and Remove taking (value, []string) (the mutable
// feature index; today sortAndDiffTokens in ModifiedFeatures.UpdateIndex). One obligation per
// diff, ordinal in source order within the function.
//
// Roles: the variable handed to Add is the added list, the one handed to Remove the removed list.
// Where it can be derived they are cross-checked against the callee: a result that is only ever
// appended from elements of one parameter belongs to that parameter, and the parameter whose
// argument at the call is (or contains) a TokensForFeature(...) call is the new token set, so its
// result is the added list. A swap is a violation.
//
// Obligations (go/cfg path search from the diff):
//  1. every path to the end of the iteration (next iteration, break) or of the function passes
//     I.Remove(v, removed), unless it passes an edge on which `removed` is known to be empty;
//  2. the same for I.Add(v, added) and `added`.
//     Emptiness tests accepted: len(x) == 0, x == nil (true edge); len(x) != 0, len(x) > 0,
//     0 < len(x), x != nil (false edge); inside &&, || and ! as far as the edge decides the leaf.
//     A skip (continue / return / break) guarded only by the emptiness of the OTHER list is
//     therefore a violation.
//  3. v is a variable, the same in both calls, and it occurs in the arguments of the diff call
//     (the tokens were computed for that feature: TokensForFeature(WrapFeature(f, byID))).
func init() {
	register(&Rule{
		Name:  "INDEX-DIFF",
		IR:    "cfg",
		Props: []string{"C03", "C12"},
		Floor: 1, // ingest.(*ModifiedFeatures).UpdateIndex
		Doc: "where the old and new token sets of a feature are diffed into (added, removed) and applied to the mutable feature index, both lists are applied on every path: " +
			"Remove(f, removed) unless removed is known empty, Add(f, added) unless added is known empty, for the very feature the tokens were computed for",
		Run: runIndexDiff,
	})
}

func hIsStringSlice(t types.Type) bool {
	sl, ok := t.Underlying().(*types.Slice)
	if !ok {
		return false
	}
	b, ok := sl.Elem().Underlying().(*types.Basic)
	return ok && b.Kind() == types.String
}

// hIndexMethod: call is X.Add / X.Remove with (value, []string) on a type that has both.
func hIndexMethod(info *types.Info, call *ast.CallExpr) (string, bool) {
	sel, ok := ast.Unparen(call.Fun).(*ast.SelectorExpr)
	if !ok || (sel.Sel.Name != "Add" && sel.Sel.Name != "Remove") || len(call.Args) != 2 {
		return "", false
	}
	f := calleeFunc(info, call)
	if f == nil {
		return "", false
	}
	sig, ok := f.Type().(*types.Signature)
	if !ok || sig.Recv() == nil || sig.Params().Len() != 2 || !hIsStringSlice(sig.Params().At(1).Type()) {
		return "", false
	}
	rt := info.TypeOf(sel.X)
	if rt == nil {
		return "", false
	}
	has := func(name string) bool {
		for _, t := range []types.Type{rt, types.NewPointer(rt)} {
			obj, _, _ := types.LookupFieldOrMethod(t, true, f.Pkg(), name)
			if m, ok := obj.(*types.Func); ok {
				if s, ok := m.Type().(*types.Signature); ok && s.Params().Len() == 2 && hIsStringSlice(s.Params().At(1).Type()) {
					return true
				}
			}
		}
		return false
	}
	if !has("Add") || !has("Remove") {
		return "", false
	}
	return sel.Sel.Name, true
}

// hEmptyEdges: on which edges of cond is variable v known to be empty.
func hEmptyEdges(info *types.Info, cond ast.Expr, v types.Object) (onTrue, onFalse bool) {
	isV := func(e ast.Expr) bool { return hIdentObj(info, e) == v }
	isLenV := func(e ast.Expr) bool {
		call, ok := ast.Unparen(e).(*ast.CallExpr)
		return ok && isBuiltin(info, call, "len") && len(call.Args) == 1 && isV(call.Args[0])
	}
	isZero := func(e ast.Expr) bool {
		tv, ok := info.Types[e]
		return ok && tv.Value != nil && tv.Value.String() == "0"
	}
	isNil := func(e ast.Expr) bool {
		id, ok := ast.Unparen(e).(*ast.Ident)
		if !ok {
			return false
		}
		_, n := info.ObjectOf(id).(*types.Nil)
		return n
	}
	// leaf: (emptyWhenTrue, emptyWhenFalse)
	leaf := func(e ast.Expr) (bool, bool) {
		be, ok := ast.Unparen(e).(*ast.BinaryExpr)
		if !ok {
			return false, false
		}
		lenZero := (isLenV(be.X) && isZero(be.Y)) || (isZero(be.X) && isLenV(be.Y))
		nilCmp := (isV(be.X) && isNil(be.Y)) || (isNil(be.X) && isV(be.Y))
		switch be.Op {
		case token.EQL:
			if lenZero || nilCmp {
				return true, false
			}
		case token.NEQ:
			if lenZero || nilCmp {
				return false, true
			}
		case token.GTR: // len(v) > 0
			if isLenV(be.X) && isZero(be.Y) {
				return false, true
			}
		case token.LSS: // 0 < len(v)
			if isZero(be.X) && isLenV(be.Y) {
				return false, true
			}
		case token.LEQ: // len(v) <= 0
			if isLenV(be.X) && isZero(be.Y) {
				return true, false
			}
		}
		return false, false
	}
	on := func(edge bool) bool {
		for _, f := range hFacts(cond, edge) {
			t, fl := leaf(f.leaf)
			if (f.val && t) || (!f.val && fl) {
				return true
			}
		}
		return false
	}
	return on(true), on(false)
}

func runIndexDiff(c *Ctx) []Obligation {
	var out []Obligation
	for _, p := range c.SortedPkgs() {
		for _, u := range c.units(p, true) {
			out = append(out, hIndexDiffUnit(c, p, u)...)
		}
	}
	return out
}

func hIndexDiffUnit(c *Ctx, p *packages.Package, u funcUnit) []Obligation {
	info := p.TypesInfo
	type idxCall struct {
		call *ast.CallExpr
		kind string
		tok  types.Object
	}
	var calls []idxCall
	inspectShallow(u.body, func(n ast.Node) bool {
		if call, ok := n.(*ast.CallExpr); ok {
			if kind, ok := hIndexMethod(info, call); ok {
				calls = append(calls, idxCall{call, kind, hIdentObj(info, call.Args[1])})
			}
		}
		return true
	})
	if len(calls) == 0 {
		return nil
	}
	var out []Obligation
	ord := 0
	var g *cfg.CFG
	inspectShallow(u.body, func(n ast.Node) bool {
		as, ok := n.(*ast.AssignStmt)
		if !ok || len(as.Lhs) != 2 || len(as.Rhs) != 1 {
			return true
		}
		dcall, ok := ast.Unparen(as.Rhs[0]).(*ast.CallExpr)
		if !ok {
			return true
		}
		d := calleeFunc(info, dcall)
		if d == nil || d.Pkg() == nil || len(d.Pkg().Path()) < len(ModulePath) || d.Pkg().Path()[:len(ModulePath)] != ModulePath {
			return true
		}
		sig := d.Type().(*types.Signature)
		if sig.Results().Len() != 2 || !hIsStringSlice(sig.Results().At(0).Type()) || !hIsStringSlice(sig.Results().At(1).Type()) {
			return true
		}
		res := []types.Object{hIdentObj(info, as.Lhs[0]), hIdentObj(info, as.Lhs[1])}
		flows := false
		for _, ic := range calls {
			if ic.tok != nil && (ic.tok == res[0] || ic.tok == res[1]) {
				flows = true
			}
		}
		if !flows {
			return true
		}
		ord++
		ob := Obligation{Key: fmt.Sprintf("%s#%d", u.name, ord), Pos: c.Position(as.Pos())}
		defer func() { out = append(out, ob) }()

		// roles by use
		var addVar, remVar types.Object
		var addCalls, remCalls []*ast.CallExpr
		var problems []string
		for _, ic := range calls {
			if ic.tok == nil || (ic.tok != res[0] && ic.tok != res[1]) {
				continue
			}
			if ic.kind == "Add" {
				if addVar != nil && addVar != ic.tok {
					problems = append(problems, "both results of the diff are passed to Add")
				}
				addVar = ic.tok
				addCalls = append(addCalls, ic.call)
			} else {
				if remVar != nil && remVar != ic.tok {
					problems = append(problems, "both results of the diff are passed to Remove")
				}
				remVar = ic.tok
				remCalls = append(remCalls, ic.call)
			}
		}
		if addVar != nil && addVar == remVar {
			problems = append(problems, fmt.Sprintf("the same result %s is passed to Add and to Remove", addVar.Name()))
		}
		if addVar == nil {
			for _, r := range res {
				if r != nil && r != remVar {
					addVar = r
				}
			}
			if addVar != nil {
				problems = append(problems, fmt.Sprintf("result %s of the diff (the tokens to add) is never passed to the index's Add", addVar.Name()))
			} else {
				problems = append(problems, "one result of the diff is discarded: the tokens to add are never passed to the index's Add")
			}
		}
		if remVar == nil {
			for _, r := range res {
				if r != nil && r != addVar {
					remVar = r
				}
			}
			if remVar != nil {
				problems = append(problems, fmt.Sprintf("result %s of the diff (the tokens to remove) is never passed to the index's Remove", remVar.Name()))
			} else {
				problems = append(problems, "one result of the diff is discarded: the tokens to remove are never passed to the index's Remove")
			}
		}
		// roles by the callee, where derivable
		roleNote := "roles taken from use (Add <- " + hObjName(addVar) + ", Remove <- " + hObjName(remVar) + ")"
		if ai := hAddedResultIndex(c, info, d, dcall); ai >= 0 && len(problems) == 0 {
			if res[ai] != addVar {
				problems = append(problems, fmt.Sprintf("the lists are swapped: result %d of %s is built from the new token set (the argument computed by TokensForFeature) and is the added list, but it is passed to Remove while the other one is passed to Add", ai, d.Name()))
			} else {
				roleNote = fmt.Sprintf("result %d of %s is built from the new token set: %s = added, %s = removed", ai, d.Name(), addVar.Name(), remVar.Name())
			}
		}
		// the feature
		var feat types.Object
		for _, call := range append(append([]*ast.CallExpr{}, addCalls...), remCalls...) {
			v := hIdentObj(info, call.Args[0])
			if v == nil {
				problems = append(problems, fmt.Sprintf("%s at %s is applied to `%s`, not to the variable the tokens were computed for", types.ExprString(call.Fun), c.Position(call.Pos()), types.ExprString(call.Args[0])))
				continue
			}
			if feat != nil && feat != v {
				problems = append(problems, fmt.Sprintf("Add and Remove are applied to different features (%s, %s)", feat.Name(), v.Name()))
			}
			feat = v
			mentioned := false
			for _, a := range dcall.Args {
				if hMentions(info, a, map[types.Object]bool{v: true}) {
					mentioned = true
				}
			}
			if !mentioned {
				problems = append(problems, fmt.Sprintf("%s at %s is applied to %s, which does not occur in the diff's arguments `%s`: the tokens were computed for another feature", types.ExprString(call.Fun), c.Position(call.Pos()), v.Name(), types.ExprString(dcall)))
			}
		}
		if len(problems) > 0 {
			ob.Status = Violation
			ob.Detail = fmt.Sprintf("%s: token diff `%s`: %s", u.name, nodeText(c.Fset, as), problems[0])
			ob.Path = problems
			return true
		}
		// paths
		if g == nil {
			g = newCFG(info, u.body)
		}
		loc, ok := findNode(g, as)
		if !ok {
			ob.Status, ob.Detail = Undecided, "token diff not found in the control-flow graph"
			return true
		}
		var loop ast.Stmt
		for _, e := range enclosing(u.body, as) {
			switch st := e.(type) {
			case *ast.ForStmt:
				loop = st
			case *ast.RangeStmt:
				loop = st
			}
		}
		for _, need := range []struct {
			what  string
			calls []*ast.CallExpr
			v     types.Object
		}{{"Remove", remCalls, remVar}, {"Add", addCalls, addVar}} {
			isCall := func(n ast.Node) bool {
				for _, call := range need.calls {
					if n.Pos() <= call.Pos() && call.End() <= n.End() {
						if _, isLit := n.(*ast.FuncLit); !isLit {
							return true
						}
					}
				}
				return false
			}
			if w := hDiffSearch(c, info, g, loc, loop, isCall, need.v); w != nil {
				ob.Status = Violation
				other := addVar
				if need.what == "Add" {
					other = remVar
				}
				ob.Detail = fmt.Sprintf("%s: after the token diff `%s` a path ends the iteration without index %s(%s, %s) although %s was not tested to be empty (a skip that looks at %s only): the %s tokens are never applied to the index",
					u.name, nodeText(c.Fset, as), need.what, feat.Name(), need.v.Name(), need.v.Name(), other.Name(), map[string]string{"Remove": "dropped", "Add": "new"}[need.what])
				ob.Path = w
				return true
			}
		}
		ob.Status = OK
		ob.Detail = fmt.Sprintf("%s: `%s`: Remove(%s, %s) and Add(%s, %s) are reached on every path on which the list is not known to be empty; %s", u.name, nodeText(c.Fset, as), feat.Name(), remVar.Name(), feat.Name(), addVar.Name(), roleNote)
		return true
	})
	return out
}

func hObjName(o types.Object) string {
	if o == nil {
		return "_"
	}
	return o.Name()
}

// hDiffSearch: a path from just after `from` to the end of the iteration / the function that
// passes neither a required call nor an edge on which v is known to be empty.
func hDiffSearch(c *Ctx, info *types.Info, g *cfg.CFG, from nodeLoc, loop ast.Stmt, isCall func(ast.Node) bool, v types.Object) []string {
	type item struct {
		b     *cfg.Block
		start int
		trail []string
	}
	seen := map[*cfg.Block]bool{}
	work := []item{{from.b, from.i + 1, nil}}
	for len(work) > 0 {
		it := work[0]
		work = work[1:]
		done := false
		for i := it.start; i < len(it.b.Nodes); i++ {
			if isCall(it.b.Nodes[i]) {
				done = true
				break
			}
		}
		if done {
			continue
		}
		if len(it.b.Succs) == 0 {
			if isExitBlock(info, it.b) {
				where := "end of function"
				if len(it.b.Nodes) > 0 {
					last := it.b.Nodes[len(it.b.Nodes)-1]
					where = c.Position(last.Pos()) + " " + nodeText(c.Fset, last)
				}
				return append(append([]string(nil), it.trail...), "leaves the function at "+where)
			}
			continue
		}
		succs := it.b.Succs
		if len(succs) == 2 && len(it.b.Nodes) > 0 {
			if cond, ok := it.b.Nodes[len(it.b.Nodes)-1].(ast.Expr); ok {
				t, f := hEmptyEdges(info, cond, v)
				switch {
				case t && f:
					succs = nil
				case t:
					succs = succs[1:]
				case f:
					succs = succs[:1]
				}
			}
		}
		for _, s := range succs {
			if loop != nil && s.Stmt == loop {
				switch s.Kind {
				case cfg.KindRangeLoop, cfg.KindForLoop, cfg.KindForPost:
					return append(append([]string(nil), it.trail...), "goes on to the next iteration of the loop at "+c.Position(loop.Pos()))
				case cfg.KindRangeDone, cfg.KindForDone:
					return append(append([]string(nil), it.trail...), "breaks out of the loop at "+c.Position(loop.Pos()))
				}
			}
			if seen[s] {
				continue
			}
			seen[s] = true
			t := it.trail
			if len(s.Nodes) > 0 {
				t = append(append([]string(nil), it.trail...), fmt.Sprintf("%s (%s)", c.Position(s.Nodes[0].Pos()), s.Kind))
			}
			work = append(work, item{s, 0, t})
		}
	}
	return nil
}

// hAddedResultIndex derives which result of the diff function is the added list: the one appended
// only from elements of the parameter whose call argument contains a TokensForFeature call.
// -1 when it cannot be derived.
func hAddedResultIndex(c *Ctx, info *types.Info, d *types.Func, call *ast.CallExpr) int {
	fd, dp := c.Decl(d)
	if fd == nil || fd.Body == nil || dp == nil {
		return -1
	}
	dinfo := dp.TypesInfo
	var params []types.Object
	for _, fl := range fd.Type.Params.List {
		for _, n := range fl.Names {
			params = append(params, dinfo.ObjectOf(n))
		}
	}
	if len(params) != len(call.Args) {
		return -1
	}
	// result variables
	var results []types.Object
	ok := true
	ast.Inspect(fd.Body, func(n ast.Node) bool {
		if _, isLit := n.(*ast.FuncLit); isLit {
			return false
		}
		if r, isRet := n.(*ast.ReturnStmt); isRet {
			if len(r.Results) != 2 {
				ok = false
				return true
			}
			cur := []types.Object{hIdentObj(dinfo, r.Results[0]), hIdentObj(dinfo, r.Results[1])}
			if cur[0] == nil || cur[1] == nil || (results != nil && (results[0] != cur[0] || results[1] != cur[1])) {
				ok = false
			}
			results = cur
		}
		return true
	})
	if !ok || results == nil {
		return -1
	}
	// source parameter of each result: x = append(x, P[..])
	src := map[types.Object]map[types.Object]bool{}
	ast.Inspect(fd.Body, func(n ast.Node) bool {
		as, isAs := n.(*ast.AssignStmt)
		if !isAs || len(as.Lhs) != 1 || len(as.Rhs) != 1 {
			return true
		}
		x := hIdentObj(dinfo, as.Lhs[0])
		ap, isCall := ast.Unparen(as.Rhs[0]).(*ast.CallExpr)
		if x == nil || !isCall || !isBuiltin(dinfo, ap, "append") || len(ap.Args) < 2 || hIdentObj(dinfo, ap.Args[0]) != x {
			return true
		}
		for _, a := range ap.Args[1:] {
			for _, pr := range params {
				if hMentions(dinfo, a, map[types.Object]bool{pr: true}) {
					if src[x] == nil {
						src[x] = map[types.Object]bool{}
					}
					src[x][pr] = true
				}
			}
		}
		return true
	})
	isTokensCall := func(e ast.Expr) bool {
		found := false
		ast.Inspect(e, func(n ast.Node) bool {
			if cl, isCall := n.(*ast.CallExpr); isCall {
				if f := calleeFunc(info, cl); f != nil && f.Name() == "TokensForFeature" {
					found = true
				}
			}
			return !found
		})
		return found
	}
	added := -1
	for ri, r := range results {
		if len(src[r]) != 1 {
			return -1
		}
		for pr := range src[r] {
			for pi, q := range params {
				if q == pr && isTokensCall(call.Args[pi]) {
					if added >= 0 {
						return -1
					}
					added = ri
				}
			}
		}
	}
	return added
}
