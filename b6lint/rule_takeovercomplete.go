package main

import (
	"fmt"
	"go/ast"
	"go/token"
	"go/types"
	"sort"

	"golang.org/x/tools/go/cfg"
)

// TAKEOVER-COMPLETE (C07): when a node X takes over the place of another node Y in the AVL
// tree (the in-order successor grafted into the position of a deleted node), X must inherit
// everything that describes Y's *position*: both subtrees, the parent (PARENT-PAIRING) and the
// position-dependent bookkeeping fields — the balance factor. A graft that copies the links
// but not the balance factor leaves a tree whose recorded balance no longer matches its
// heights; later rebalancing trusts it and can dereference a missing sibling.
//
// Discovery (package search, node type N by shape as in PARENT-PAIRING):
//   - a take-over site is a pair of assignments `X.left = Y.left` and `X.right = Y.right`, same
//     X and same Y structurally, X different from Y, both direct statements of the same block
//     statement (so they execute on the same paths);
//   - the position fields of N are the fields, other than parent/left/right, that some rotation
//     function assigns (rotation function: returns *N, takes *N, stores into left/right — see
//     ROTATE-RELINK). Today that is `balance`; the payload `v` is not assigned by rotations
//     and stays with its node.
//
// One instance per (site, position field), numbered per function in source order. Obligation
// (go/cfg): every path through the block passes an assignment to X.f — `X.f = Y.f` (taken
// over) or any other assignment to X.f (recomputed) — either on every path backwards from
// the first of the two link assignments to the start of the block, or on every path forwards
// from it to the end of the block (leaving the block statement, the enclosing loop or the
// function). A re-assignment of the variable X is a witness.
//
// Not covered: that a recomputed value is right; take-overs written without the two link
// copies (e.g. swapping payloads instead of grafting); aliasing of X and Y.
func init() {
	register(&Rule{
		Name:  "TAKEOVER-COMPLETE",
		IR:    "cfg",
		Props: []string{"C07"},
		Floor: 1, // DeleteKey two-children graft x balance
		Doc: "where a node takes over another node's place in the AVL tree (X.left = Y.left and X.right = Y.right in one block), every " +
			"position field of the node type (fields rotations assign, i.e. the balance factor) is assigned on X on every path through that block",
		Run: runTakeoverComplete,
	})
}

func runTakeoverComplete(c *Ctx) []Obligation {
	p := c.Pkg("search")
	if p == nil {
		return nil
	}
	info := p.TypesInfo
	sh := gFindTreeShape(p.Types)
	if sh == nil {
		return nil
	}
	fieldOf := func(e ast.Expr) (*types.Var, ast.Expr) {
		se, ok := ast.Unparen(e).(*ast.SelectorExpr)
		if !ok {
			return nil, nil
		}
		sel := info.Selections[se]
		if sel == nil || sel.Kind() != types.FieldVal {
			return nil, nil
		}
		v, _ := sel.Obj().(*types.Var)
		return v, se.X
	}
	nodeStruct := sh.node.Underlying().(*types.Struct)
	isNodeField := func(v *types.Var) bool {
		for i := 0; i < nodeStruct.NumFields(); i++ {
			if nodeStruct.Field(i) == v {
				return true
			}
		}
		return false
	}
	// position fields: assigned by rotation functions
	rot := c.gRotationFuncs(p, sh)
	posSet := map[*types.Var]bool{}
	for _, fd := range c.FuncDecls(p) {
		fn, _ := info.Defs[fd.Name].(*types.Func)
		if fn == nil || !rot[fn] {
			continue
		}
		inspectShallow(fd.Body, func(n ast.Node) bool {
			switch s := n.(type) {
			case *ast.AssignStmt:
				for _, l := range s.Lhs {
					if v, _ := fieldOf(l); v != nil && isNodeField(v) && v != sh.parent && v != sh.left && v != sh.right {
						posSet[v] = true
					}
				}
			case *ast.IncDecStmt:
				if v, _ := fieldOf(s.X); v != nil && isNodeField(v) && v != sh.parent && v != sh.left && v != sh.right {
					posSet[v] = true
				}
			}
			return true
		})
	}
	var posFields []*types.Var
	for i := 0; i < nodeStruct.NumFields(); i++ {
		if posSet[nodeStruct.Field(i)] {
			posFields = append(posFields, nodeStruct.Field(i))
		}
	}
	if len(posFields) == 0 {
		return nil
	}

	var out []Obligation
	for _, fd := range c.FuncDecls(p) {
		name := c.FuncName(p, fd)
		type site struct {
			block       *ast.BlockStmt
			first       *ast.AssignStmt
			x, y        ast.Expr
			left, right *ast.AssignStmt
		}
		var sites []site
		ast.Inspect(fd.Body, func(n ast.Node) bool {
			if _, isLit := n.(*ast.FuncLit); isLit {
				return false
			}
			blk, ok := n.(*ast.BlockStmt)
			if !ok {
				return true
			}
			type copy struct {
				as   *ast.AssignStmt
				f    *types.Var
				x, y ast.Expr
			}
			var copies []copy
			for _, st := range blk.List {
				as, ok := st.(*ast.AssignStmt)
				if !ok || as.Tok != token.ASSIGN || len(as.Lhs) != 1 || len(as.Rhs) != 1 {
					continue
				}
				lf, x := fieldOf(as.Lhs[0])
				rf, y := fieldOf(as.Rhs[0])
				if lf != nil && lf == rf && (lf == sh.left || lf == sh.right) && !sameExpr(info, x, y) {
					copies = append(copies, copy{as, lf, x, y})
				}
			}
			for _, a := range copies {
				if a.f != sh.left {
					continue
				}
				for _, b := range copies {
					if b.f == sh.right && sameExpr(info, a.x, b.x) && sameExpr(info, a.y, b.y) {
						first := a.as
						if b.as.Pos() < first.Pos() {
							first = b.as
						}
						sites = append(sites, site{blk, first, a.x, a.y, a.as, b.as})
					}
				}
			}
			return true
		})
		if len(sites) == 0 {
			continue
		}
		sort.SliceStable(sites, func(i, j int) bool { return sites[i].first.Pos() < sites[j].first.Pos() })
		g := newCFG(info, fd.Body)
		ord := 0
		for _, s := range sites {
			for _, f := range posFields {
				ord++
				ob := Obligation{Key: gNthKey(name, ord), Pos: c.Position(s.first.Pos())}
				xs, ys := types.ExprString(s.x), types.ExprString(s.y)
				loc, ok := findNode(g, s.first)
				if !ok {
					ob.Status, ob.Detail = Undecided, "take-over site not found in the control-flow graph"
					out = append(out, ob)
					continue
				}
				xRoot := gRootIdent(info, s.x)
				var found *ast.AssignStmt
				isSet := func(n ast.Node) bool {
					switch a := n.(type) {
					case *ast.AssignStmt:
						for _, l := range a.Lhs {
							if v, x := fieldOf(l); v == f && sameExpr(info, x, s.x) {
								found = a
								return true
							}
						}
					case *ast.IncDecStmt:
						if v, x := fieldOf(a.X); v == f && sameExpr(info, x, s.x) {
							return true
						}
					}
					return false
				}
				kill := func(n ast.Node) string {
					if gAssigns(info, n, xRoot) {
						return xs + " is re-assigned inside the take-over block"
					}
					return ""
				}
				inBlock := func(b *cfg.Block) bool {
					var pos, end token.Pos
					switch {
					case len(b.Nodes) > 0:
						pos, end = b.Nodes[0].Pos(), b.Nodes[0].End()
					case b.Stmt != nil:
						pos, end = b.Stmt.Pos(), b.Stmt.End()
					default:
						return false
					}
					return s.block.Pos() <= pos && end <= s.block.End()
				}
				outside := func(dir string) func(b *cfg.Block) string {
					return func(b *cfg.Block) string {
						if !inBlock(b) {
							return fmt.Sprintf("%s the take-over block (%s..%s) without an assignment to %s.%s", dir, c.Position(s.block.Pos()), c.Position(s.block.End()), xs, f.Name())
						}
						return ""
					}
				}
				back := &gSearch{c: c, info: info, stopNode: isSet, killNode: kill, badBlock: outside("enters")}
				wb := back.backward(g, loc.b, loc.i)
				var wf []string
				if wb != nil {
					fwd := &gSearch{c: c, info: info, stopNode: isSet, killNode: kill, badBlock: outside("leaves"), exitBad: true}
					wf = fwd.forward(loc.b, loc.i+1)
				}
				if wb == nil || wf == nil {
					ob.Status = OK
					how := "assigned"
					if found != nil {
						how = nodeText(c.Fset, found)
					}
					ob.Detail = fmt.Sprintf("%s takes over the place of %s (%s; %s): position field %s is set on every path (%s)", xs, ys, nodeText(c.Fset, s.left), nodeText(c.Fset, s.right), f.Name(), how)
				} else {
					ob.Status = Violation
					ob.Detail = fmt.Sprintf("%s: %s takes over the place of %s at %s (%s; %s) but %s.%s is not assigned on every path through that block; %s keeps the %s of its old position", name, xs, ys, c.Position(s.first.Pos()), nodeText(c.Fset, s.left), nodeText(c.Fset, s.right), xs, f.Name(), xs, f.Name())
					ob.Path = append(ob.Path, "backwards from "+c.Position(s.first.Pos())+":")
					ob.Path = append(ob.Path, wb...)
					ob.Path = append(ob.Path, "forwards from "+c.Position(s.first.Pos())+":")
					ob.Path = append(ob.Path, wf...)
				}
				out = append(out, ob)
			}
		}
	}
	return out
}
