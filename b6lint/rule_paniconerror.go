package main

import (
	"fmt"
	"go/ast"
	"go/types"
)

// PANIC-ON-ERROR (C23): on the request path a runtime error handed back by a callee must be
// returned to the client, not turned into panic(err): a panic in the gRPC handler ends the
// whole process.
//
// Slots: every call of the builtin panic in the request-path packages (api, api/functions,
// grpc and the root package b6) whose argument has the static type `error`.
// Violation: the argument is a variable that is assigned, in the same function declaration
// (function literals included), from the result of a call.
// Accepted: package initialisation (func init and functions only called while initialising
// package-level variables are not request path: only `init` is recognised, by its special
// name), re-panicking a recovered value (its type is interface{}, not error), panics whose
// argument is not an error (invariant messages).
func init() {
	register(&Rule{
		Name:  "PANIC-ON-ERROR",
		IR:    "ast",
		Props: []string{"C23"},
		Floor: 10, // panic call sites examined in the request-path packages (21 on today's tree)
		Doc: "in the request-path packages (api, api/functions, grpc, b6) no error value returned by a callee is passed to panic outside package initialisation: " +
			"such an error depends on client or world data and must be returned, because a panic in a handler terminates the server",
		Run: runPanicOnError,
	})
}

func runPanicOnError(c *Ctx) []Obligation {
	var out []Obligation
	errType := types.Universe.Lookup("error").Type()
	for _, rel := range []string{"", "api", "api/functions", "grpc"} {
		p := c.Pkg(rel)
		if p == nil {
			continue
		}
		info := p.TypesInfo
		for _, fd := range c.FuncDecls(p) {
			name := c.FuncName(p, fd)
			// variables assigned from a call result anywhere in this declaration
			fromCall := map[types.Object]*ast.CallExpr{}
			ast.Inspect(fd.Body, func(n ast.Node) bool {
				as, ok := n.(*ast.AssignStmt)
				if !ok {
					return true
				}
				if len(as.Rhs) == 1 {
					if call, ok := ast.Unparen(as.Rhs[0]).(*ast.CallExpr); ok {
						for _, l := range as.Lhs {
							if id, ok := l.(*ast.Ident); ok {
								if obj := info.ObjectOf(id); obj != nil && types.Identical(obj.Type(), errType) {
									fromCall[obj] = call
								}
							}
						}
					}
				} else {
					for i, r := range as.Rhs {
						if call, ok := ast.Unparen(r).(*ast.CallExpr); ok && i < len(as.Lhs) {
							if id, ok := as.Lhs[i].(*ast.Ident); ok {
								if obj := info.ObjectOf(id); obj != nil && types.Identical(obj.Type(), errType) {
									fromCall[obj] = call
								}
							}
						}
					}
				}
				return true
			})
			ord := 0
			ast.Inspect(fd.Body, func(n ast.Node) bool {
				call, ok := n.(*ast.CallExpr)
				if !ok || !isBuiltin(info, call, "panic") || len(call.Args) != 1 {
					return true
				}
				ord++
				ob := Obligation{Key: fmt.Sprintf("%s#%d", name, ord), Pos: c.Position(call.Pos()), Status: OK}
				arg := ast.Unparen(call.Args[0])
				t := info.TypeOf(arg)
				switch {
				case t == nil || !types.Identical(t, errType):
					ob.Detail = "panic argument is not an error value (" + nodeText(c.Fset, arg) + ")"
				case fd.Recv == nil && fd.Name.Name == "init":
					ob.Detail = "package initialisation, not on the request path"
				default:
					id, isIdent := arg.(*ast.Ident)
					var src *ast.CallExpr
					if isIdent {
						src = fromCall[info.ObjectOf(id)]
					} else if cx, ok := arg.(*ast.CallExpr); ok {
						src = cx
					}
					if src != nil {
						ob.Status = Violation
						ob.Detail = fmt.Sprintf("panic(%s): the error comes from the call %s at %s and depends on run-time data; it must be returned, a panic here terminates the server",
							nodeText(c.Fset, arg), nodeText(c.Fset, src), c.Position(src.Pos()))
					} else {
						ob.Detail = "error value not produced by a call in this function"
					}
				}
				out = append(out, ob)
				return true
			})
		}
	}
	return out
}
