package main

import (
	"fmt"
	"go/ast"
	"go/token"
	"go/types"
	"sort"
	"strings"

	"golang.org/x/tools/go/callgraph"
	"golang.org/x/tools/go/packages"
	"golang.org/x/tools/go/ssa"
)

// PARALLEL-EFFECTS (C35): a build stage runs one closure on N goroutines. Two obligations per
// stage, keyed by the name of the closure variable (no ordinals, no lines):
//
//	<func>#<stage>      a stage whose workers look features up in the shared feature map
//	                    (reads-shared) does not also mutate features in place (writes-feature);
//	<func>#<stage>.acc  every write of the workers to storage captured from the enclosing
//	                    function (accumulators) is under a mutex held exclusively, or lands in a
//	                    slot indexed by the goroutine parameter (atomics are calls, not writes).
//
// Stages (packages ingest and ingest/compact, by shape):
//   - `go w(...)` inside a loop, w a local variable bound once to a function literal;
//   - X.Read(options, w, ctx) where Read is ingest.FeatureSource's method (interface or an
//     implementation) and w is such a variable; its int parameter is the goroutine parameter.
//     A Read whose options literal sets no Goroutines field runs w on one goroutine (every
//     source clamps <1 to 1) and is reported as info only.
//     Functions that themselves take an Emit callback are sources/relays (PRODUCER,
//     STOP-AFTER-ERROR and ERR-RETURNED look at those), not build stages.
//
// The worker body is the stage closure plus the function literals it calls (resolved through
// the VTA call graph, so `emit` parameters bound in a caller are included), depth 6.
//
// Effects are computed by following *arguments*, never by whole-callee reachability, because
// the VTA graph is context-insensitive (ValidatePath's LocationsByID parameter, for one, is
// bound to the in-memory feature map by one caller and to immutable compact blocks by another):
//   - reads-shared: a value whose type is (a pointer to) the feature map type of package ingest
//     (the named map type with element ingest.Feature) occurs in the worker body and a map
//     lookup / range on it is reached: directly, through one of its own methods, or by passing it
//     (also converted to an interface) down static calls and invoking a method on the parameter;
//   - writes-feature: a worker item (a parameter of the closure or a value received from a
//     channel whose type implements b6.Feature) reaches, through static calls, type assertions
//     and interface conversions, (a) a call of a mutator of ingest.Feature (its explicit methods
//     that do not return a Feature: SetTags, AddTag, ModifyOrAddTag, RemoveTag, ..., MergeFrom)
//     or (b) a store through an element of a slice obtained from the feature's tag data (results
//     of accessor methods whose type is built from b6.Tag: Get, AllTags, ...) or a store into a
//     field of the feature struct.
//
// Accepted accumulator idioms: write under Lock() of any mutex (RLock does not count); slot
// `xs[g]...` with g the goroutine parameter (also passed on to a local closure); method call on
// a captured object that is itself disciplined: no write to receiver-reachable storage outside a
// mutex of that callee (followed through static calls on receiver-reachable objects, depth 6,
// with the "only called with the lock held" idiom of GUARDED-BY).
//
// Not covered: shared maps that reach a callee through a struct field (WrapFeature(feature, w))
// rather than an argument; writes performed by callees through non-receiver arguments; effects
// behind interface calls on anything but the tracked value.
func init() {
	register(&Rule{
		Name:  "PARALLEL-EFFECTS",
		IR:    "callgraph",
		Props: []string{"C35"},
		// stages: Finish validate/index, NewWorldFromSource f, NewMutableWorldFromSource f, colouring emit,
		// sortIndexIDs finish, emitPoints emitFeature, emitPathsAreasAndRelations validateFeature,
		// fillStringTableAndSummary emit: 9 stages x 2 obligations
		Floor: 18,
		Doc: "closures run by N goroutines of a build stage (go in a loop, FeatureSource.Read callbacks): workers that look features up in the shared feature map " +
			"do not mutate features in place, and every write to captured storage is under a mutex, or indexed by the goroutine parameter; effects follow arguments through static calls (VTA for closure calls), depth 6",
		Run: runParallelEffects,
	})
}

type hStage struct {
	pkg   *packages.Package
	decl  *ast.FuncDecl
	name  string
	lit   *ast.FuncLit
	kind  string // "go": started in a loop; "read": callback of FeatureSource.Read
	pos   token.Pos
	par   bool // runs on several goroutines
	gpIdx int  // index of the goroutine parameter, -1 if none
}

type hPE struct {
	c        *Ctx
	cg       *callgraph.Graph
	locker   *hLocker
	ingest   *packages.Package
	b6Feat   *types.Interface // b6.Feature
	inFeat   *types.Interface // ingest.Feature
	emitType types.Type       // ingest.Emit
	readSig  *types.Signature // FeatureSource.Read
	shared   *types.Named     // ingest.FeaturesByID (map[b6.FeatureID]Feature)
	mutators map[string]bool
	tagTypes map[*types.TypeName]bool
	tagIface []*types.Interface

	edges     map[ssa.CallInstruction][]*ssa.Function
	edgesDone map[*ssa.Function]bool
	memo      map[string]*hEffect
	recvMemo  map[string]string
	mapReads  map[*ssa.Function]int
}

type hEffect struct {
	found bool
	why   []string
}

const hDepth = 6

func hNewPE(c *Ctx) (*hPE, string) {
	pe := &hPE{c: c, edges: map[ssa.CallInstruction][]*ssa.Function{}, edgesDone: map[*ssa.Function]bool{}, memo: map[string]*hEffect{},
		recvMemo: map[string]string{}, mapReads: map[*ssa.Function]int{}, mutators: map[string]bool{}, tagTypes: map[*types.TypeName]bool{}}
	root, in := c.Pkg(""), c.Pkg("ingest")
	if root == nil || in == nil {
		return nil, "packages b6 / ingest not loaded"
	}
	pe.ingest = in
	iface := func(p *packages.Package, name string) *types.Interface {
		tn, _ := p.Types.Scope().Lookup(name).(*types.TypeName)
		if tn == nil {
			return nil
		}
		it, _ := tn.Type().Underlying().(*types.Interface)
		return it
	}
	pe.b6Feat, pe.inFeat = iface(root, "Feature"), iface(in, "Feature")
	src := iface(in, "FeatureSource")
	if pe.b6Feat == nil || pe.inFeat == nil || src == nil {
		return nil, "interfaces b6.Feature / ingest.Feature / ingest.FeatureSource not found"
	}
	for i := 0; i < src.NumMethods(); i++ {
		if src.Method(i).Name() == "Read" {
			pe.readSig = src.Method(i).Type().(*types.Signature)
		}
	}
	if pe.readSig == nil {
		return nil, "ingest.FeatureSource has no Read method"
	}
	for i := 0; i < pe.readSig.Params().Len(); i++ {
		if _, ok := pe.readSig.Params().At(i).Type().Underlying().(*types.Signature); ok {
			pe.emitType = pe.readSig.Params().At(i).Type()
		}
	}
	if pe.emitType == nil {
		return nil, "FeatureSource.Read has no callback parameter"
	}
	// mutators: explicit methods of ingest.Feature that do not hand back a Feature
	for i := 0; i < pe.inFeat.NumExplicitMethods(); i++ {
		m := pe.inFeat.ExplicitMethod(i)
		sig := m.Type().(*types.Signature)
		returnsFeature := false
		for j := 0; j < sig.Results().Len(); j++ {
			if types.Implements(sig.Results().At(j).Type(), pe.b6Feat) {
				returnsFeature = true
			}
		}
		if !returnsFeature {
			pe.mutators[m.Name()] = true
		}
	}
	if len(pe.mutators) == 0 {
		return nil, "ingest.Feature declares no mutator"
	}
	// shared feature map: named map type of package ingest with element ingest.Feature
	sc := in.Types.Scope()
	for _, n := range sc.Names() {
		if tn, ok := sc.Lookup(n).(*types.TypeName); ok {
			if mt, ok := tn.Type().Underlying().(*types.Map); ok {
				if it, ok := mt.Elem().Underlying().(*types.Interface); ok && types.Identical(it, pe.inFeat) {
					pe.shared = tn.Type().(*types.Named)
				}
			}
		}
	}
	if pe.shared == nil {
		return nil, "no named map type with element ingest.Feature in package ingest"
	}
	// tag data: types b6.Tag is built from
	tagTN, _ := root.Types.Scope().Lookup("Tag").(*types.TypeName)
	if tagTN == nil {
		return nil, "b6.Tag not found"
	}
	var walk func(t types.Type, d int)
	walk = func(t types.Type, d int) {
		if d > 6 {
			return
		}
		if n, ok := types.Unalias(t).(*types.Named); ok {
			if n.Obj().Pkg() != root.Types || pe.tagTypes[n.Obj()] {
				return
			}
			pe.tagTypes[n.Obj()] = true
			if it, ok := n.Underlying().(*types.Interface); ok {
				pe.tagIface = append(pe.tagIface, it)
			}
		}
		switch u := t.Underlying().(type) {
		case *types.Struct:
			for i := 0; i < u.NumFields(); i++ {
				walk(u.Field(i).Type(), d+1)
			}
		case *types.Slice:
			walk(u.Elem(), d+1)
		case *types.Pointer:
			walk(u.Elem(), d+1)
		case *types.Array:
			walk(u.Elem(), d+1)
		}
	}
	walk(tagTN.Type(), 0)
	pe.cg = c.CallGraph()
	pe.locker = hNewLocker(c)
	return pe, ""
}

func (pe *hPE) isFeatureType(t types.Type) bool {
	if t == nil {
		return false
	}
	return types.Implements(t, pe.b6Feat)
}

func (pe *hPE) isSharedType(t types.Type) bool {
	n := namedOf(t)
	return n != nil && n.Obj() == pe.shared.Obj()
}

// isTagData: the type can refer to a feature's tag storage.
func (pe *hPE) isTagData(t types.Type) bool {
	for i := 0; i < 4; i++ {
		if n, ok := types.Unalias(t).(*types.Named); ok {
			if pe.tagTypes[n.Obj()] {
				return true
			}
		}
		switch u := t.Underlying().(type) {
		case *types.Slice:
			t = u.Elem()
			continue
		case *types.Pointer:
			t = u.Elem()
			continue
		case *types.Array:
			t = u.Elem()
			continue
		case *types.Tuple:
			for j := 0; j < u.Len(); j++ {
				if pe.isTagData(u.At(j).Type()) {
					return true
				}
			}
			return false
		case *types.Interface:
			return false
		}
		break
	}
	if _, isIface := t.Underlying().(*types.Interface); !isIface {
		for _, it := range pe.tagIface {
			if types.Implements(t, it) {
				if _, ok := t.Underlying().(*types.Slice); ok {
					return true
				}
			}
		}
	}
	return false
}

// callees of a call instruction: static callee, or the VTA targets.
func (pe *hPE) callees(site ssa.CallInstruction) []*ssa.Function {
	com := site.Common()
	if f := com.StaticCallee(); f != nil {
		return []*ssa.Function{f}
	}
	fn := site.Parent()
	if !pe.edgesDone[fn] {
		pe.edgesDone[fn] = true
		if n := pe.cg.Nodes[fn]; n != nil {
			for _, e := range n.Out {
				if e.Site != nil && e.Callee.Func != nil {
					pe.edges[e.Site] = append(pe.edges[e.Site], e.Callee.Func)
				}
			}
		}
	}
	out := append([]*ssa.Function(nil), pe.edges[site]...)
	sort.Slice(out, func(i, j int) bool { return out[i].String() < out[j].String() })
	return out
}

// ---- effects that follow a tracked value --------------------------------------------------

const (
	hModeFeature = "feature" // the value is a worker item (a feature)
	hModeData    = "data"    // the value is (or points into) tag data of a feature
	hModeShared  = "shared"  // the value is the shared feature map
)

// track computes the values of fn derived from the roots, per mode, and reports an effect.
// For feature/data roots the effect is writes-feature, for shared roots reads-shared.
func (pe *hPE) track(fn *ssa.Function, roots map[ssa.Value]string, depth int) *hEffect {
	eff := &hEffect{}
	if fn == nil || fn.Blocks == nil || depth > hDepth {
		return eff
	}
	F, D, E, S := map[ssa.Value]bool{}, map[ssa.Value]bool{}, map[ssa.Value]bool{}, map[ssa.Value]bool{}
	for v, m := range roots {
		switch m {
		case hModeFeature:
			F[v] = true
		case hModeData:
			D[v] = true
			if _, isPtr := v.Type().Underlying().(*types.Pointer); isPtr {
				E[v] = true
			}
		case hModeShared:
			S[v] = true
		}
	}
	changed := true
	set := func(m map[ssa.Value]bool, v ssa.Value) {
		if !m[v] {
			m[v] = true
			changed = true
		}
	}
	for iter := 0; changed && iter < 20; iter++ {
		changed = false
		for _, b := range fn.Blocks {
			for _, ins := range b.Instrs {
				v, isVal := ins.(ssa.Value)
				var srcs []ssa.Value
				conv := false // value-preserving conversion: every mode flows
				switch x := ins.(type) {
				case *ssa.TypeAssert:
					srcs, conv = []ssa.Value{x.X}, true
				case *ssa.ChangeInterface:
					srcs, conv = []ssa.Value{x.X}, true
				case *ssa.MakeInterface:
					srcs, conv = []ssa.Value{x.X}, true
				case *ssa.ChangeType:
					srcs, conv = []ssa.Value{x.X}, true
				case *ssa.Phi:
					srcs, conv = x.Edges, true
				case *ssa.Extract:
					if _, isCall := x.Tuple.(*ssa.Call); !isCall {
						srcs, conv = []ssa.Value{x.Tuple}, true
					} else if D[x.Tuple] && pe.isTagData(x.Type()) {
						set(D, x)
					}
				case *ssa.FieldAddr:
					if F[x.X] { // a field of the feature struct itself
						set(D, x)
						set(E, x)
					}
					if D[x.X] {
						set(D, x)
					}
					if E[x.X] {
						set(E, x)
					}
				case *ssa.Field:
					if D[x.X] {
						set(D, x)
					}
				case *ssa.IndexAddr:
					if D[x.X] {
						set(D, x)
						if _, isSlice := x.X.Type().Underlying().(*types.Slice); isSlice || E[x.X] {
							set(E, x) // element of a shared backing array
						}
					}
				case *ssa.Index:
					if D[x.X] {
						set(D, x)
					}
				case *ssa.Slice:
					if D[x.X] {
						set(D, x)
					}
				case *ssa.UnOp:
					if x.Op == token.MUL {
						if D[x.X] {
							set(D, x) // load of tag data (a copy that may still hold slices)
						}
						if S[x.X] {
							set(S, x)
						}
						if F[x.X] {
							set(F, x)
						}
					}
				case *ssa.Store:
					if _, local := x.Addr.(*ssa.Alloc); local {
						if D[x.Val] {
							set(D, x.Addr) // local copy of tag data: not shared itself, its slices are
						}
						if F[x.Val] {
							set(F, x.Addr)
						}
						if S[x.Val] {
							set(S, x.Addr)
						}
					}
				case *ssa.Call:
					// accessor on the feature: result built from tag types is the feature's storage
					com := x.Common()
					recvTracked := false
					if com.IsInvoke() {
						recvTracked = F[com.Value]
					} else if f := com.StaticCallee(); f != nil && f.Signature.Recv() != nil && len(com.Args) > 0 {
						recvTracked = F[com.Args[0]]
					}
					if recvTracked && pe.isTagData(x.Type()) {
						set(D, x)
					}
				}
				if conv && isVal {
					for _, s := range srcs {
						if s == nil {
							continue
						}
						if F[s] {
							set(F, v)
						}
						if D[s] {
							set(D, v)
						}
						if S[s] {
							set(S, v)
						}
					}
				}
			}
		}
	}
	where := func(p token.Pos) string { return pe.c.Position(p) }
	name := hSSAName(fn)
	for _, b := range fn.Blocks {
		for _, ins := range b.Instrs {
			switch x := ins.(type) {
			case *ssa.Store:
				if E[x.Addr] {
					eff.found = true
					eff.why = append(eff.why, fmt.Sprintf("%s stores through %s into the feature's own storage at %s", name, hPath(x.Addr), where(x.Pos())))
				}
			case *ssa.MapUpdate:
				if D[x.Map] {
					eff.found = true
					eff.why = append(eff.why, fmt.Sprintf("%s updates a map of the feature at %s", name, where(x.Pos())))
				}
			case *ssa.Lookup:
				if S[x.X] {
					eff.found = true
					eff.why = append(eff.why, fmt.Sprintf("%s looks up the shared feature map at %s", name, where(x.Pos())))
				}
			case *ssa.Range:
				if S[x.X] {
					eff.found = true
					eff.why = append(eff.why, fmt.Sprintf("%s ranges over the shared feature map at %s", name, where(x.Pos())))
				}
			case ssa.CallInstruction:
				com := x.Common()
				if com.IsInvoke() {
					switch {
					case F[com.Value] && pe.mutators[com.Method.Name()]:
						eff.found = true
						eff.why = append(eff.why, fmt.Sprintf("%s calls mutator %s on the worker's feature at %s", name, com.Method.Name(), where(x.Pos())))
					case S[com.Value]:
						// dispatches to the shared map's own method
						if m := pe.sharedMethod(com.Method.Name()); m != nil && pe.readsMap(m, 0) {
							eff.found = true
							eff.why = append(eff.why, fmt.Sprintf("%s calls %s on the shared feature map at %s", name, com.Method.Name(), where(x.Pos())))
						}
					}
					// arguments of an interface call are not followed (stated limit)
					continue
				}
				static := com.StaticCallee()
				if static != nil && static.Signature.Recv() != nil && len(com.Args) > 0 {
					if (F[com.Args[0]] || E[com.Args[0]]) && pe.mutators[static.Name()] {
						eff.found = true
						eff.why = append(eff.why, fmt.Sprintf("%s calls mutator %s on the worker's feature at %s", name, static.Name(), where(x.Pos())))
						continue
					}
					if S[com.Args[0]] && pe.readsMap(static, 0) {
						eff.found = true
						eff.why = append(eff.why, fmt.Sprintf("%s calls %s on the shared feature map at %s", name, static.Name(), where(x.Pos())))
						continue
					}
				}
				// pass tracked values down
				var targets []*ssa.Function
				anyTracked := false
				for _, a := range com.Args {
					if F[a] || D[a] || S[a] {
						anyTracked = true
					}
				}
				if !anyTracked {
					continue
				}
				targets = pe.callees(x)
				for _, callee := range targets {
					if callee.Blocks == nil || len(callee.Params) != len(com.Args) {
						continue
					}
					for i, a := range com.Args {
						mode := ""
						switch {
						case F[a]:
							mode = hModeFeature
						case D[a]:
							mode = hModeData
						case S[a]:
							mode = hModeShared
						}
						if mode == "" {
							continue
						}
						sub := pe.trackParam(callee, i, mode, depth+1)
						if sub.found {
							eff.found = true
							eff.why = append(eff.why, fmt.Sprintf("%s passes it to %s at %s", name, hSSAName(callee), where(x.Pos())))
							eff.why = append(eff.why, sub.why...)
						}
					}
				}
			}
		}
	}
	if len(eff.why) > 8 {
		eff.why = eff.why[:8]
	}
	return eff
}

func (pe *hPE) trackParam(fn *ssa.Function, idx int, mode string, depth int) *hEffect {
	key := fmt.Sprintf("%s/%d/%s", fn.String(), idx, mode)
	if e, ok := pe.memo[key]; ok {
		return e
	}
	pe.memo[key] = &hEffect{} // recursion: assume nothing
	if depth > hDepth || idx >= len(fn.Params) {
		return pe.memo[key]
	}
	e := pe.track(fn, map[ssa.Value]string{fn.Params[idx]: mode}, depth)
	pe.memo[key] = e
	return e
}

// sharedMethod: the method with this name of the shared map type (pointer receiver set).
func (pe *hPE) sharedMethod(name string) *ssa.Function {
	ms := pe.c.Prog.MethodSets.MethodSet(types.NewPointer(pe.shared))
	for i := 0; i < ms.Len(); i++ {
		if ms.At(i).Obj().Name() == name {
			return pe.c.Prog.MethodValue(ms.At(i))
		}
	}
	return nil
}

// readsMap: a method of the shared map type that looks up / ranges over its receiver.
func (pe *hPE) readsMap(fn *ssa.Function, depth int) bool {
	if fn == nil || fn.Blocks == nil || depth > 3 || len(fn.Params) == 0 {
		return false
	}
	switch pe.mapReads[fn] {
	case 1:
		return false
	case 2:
		return true
	}
	pe.mapReads[fn] = 1
	e := pe.track(fn, map[ssa.Value]string{fn.Params[0]: hModeShared}, hDepth-2+depth)
	if e.found {
		pe.mapReads[fn] = 2
	}
	return e.found
}

// ---- accumulator discipline -------------------------------------------------------------------

// hRootOf walks an address / value back to where it comes from. indexed collects the index
// operands of IndexAddr steps on the way.
func hRootOf(v ssa.Value) (root ssa.Value, indexed []ssa.Value) {
	for i := 0; i < 24 && v != nil; i++ {
		switch x := v.(type) {
		case *ssa.FieldAddr:
			v = x.X
		case *ssa.Field:
			v = x.X
		case *ssa.IndexAddr:
			indexed = append(indexed, x.Index)
			v = x.X
		case *ssa.Index:
			indexed = append(indexed, x.Index)
			v = x.X
		case *ssa.Slice:
			v = x.X
		case *ssa.ChangeType:
			v = x.X
		case *ssa.Lookup:
			v = x.X
		case *ssa.Extract:
			if lk, ok := x.Tuple.(*ssa.Lookup); ok {
				v = lk.X
			} else {
				return v, indexed
			}
		case *ssa.UnOp:
			if x.Op != token.MUL {
				return v, indexed
			}
			// a pointer held in captured storage still designates storage shared by the workers
			v = x.X
		case *ssa.Phi:
			// any edge that leads to captured storage decides
			for _, e := range x.Edges {
				r, ix := hRootOf(e)
				if _, isFV := r.(*ssa.FreeVar); isFV {
					return r, append(indexed, ix...)
				}
				if _, isP := r.(*ssa.Parameter); isP {
					return r, append(indexed, ix...)
				}
			}
			return v, indexed
		default:
			return v, indexed
		}
	}
	return v, indexed
}

// hSharedFreeVar: the captured variable lives outside the worker body (a free variable that is
// bound to a local of one of the worker's own literals is private to one invocation).
func hSharedFreeVar(fv *ssa.FreeVar, body map[*ssa.Function]bool) bool {
	fn := fv.Parent()
	parent := fn.Parent()
	if parent == nil || !body[parent] {
		return true
	}
	idx := -1
	for i, v := range fn.FreeVars {
		if v == fv {
			idx = i
		}
	}
	for _, b := range parent.Blocks {
		for _, ins := range b.Instrs {
			mc, ok := ins.(*ssa.MakeClosure)
			if !ok || mc.Fn != ssa.Value(fn) || idx < 0 || idx >= len(mc.Bindings) {
				continue
			}
			switch bnd := mc.Bindings[idx].(type) {
			case *ssa.FreeVar:
				return hSharedFreeVar(bnd, body)
			case *ssa.Alloc:
				return false
			}
		}
	}
	return true
}

type hAccFinding struct {
	pos  token.Pos
	text string
}

// checkWorker examines one function literal of the worker body.
func (pe *hPE) checkWorker(fn *ssa.Function, gparams map[int]bool, guarded bool, depth int, visited map[*ssa.Function]bool, out *[]hAccFinding, oks *[]string) {
	if fn == nil || fn.Blocks == nil || depth > hDepth || visited[fn] {
		return
	}
	visited[fn] = true
	held := pe.locker.locks(fn)
	isG := func(v ssa.Value) bool {
		p, ok := v.(*ssa.Parameter)
		if !ok || p.Parent() != fn {
			return false
		}
		for i, q := range fn.Params {
			if q == p && gparams[i] {
				return true
			}
		}
		return false
	}
	slot := func(ix []ssa.Value) bool {
		for _, i := range ix {
			if isG(i) {
				return true
			}
		}
		return false
	}
	for _, b := range fn.Blocks {
		for _, ins := range b.Instrs {
			locked := guarded || held[ins].anyExclusive()
			switch x := ins.(type) {
			case *ssa.Store:
				root, ix := hRootOf(x.Addr)
				fv, captured := root.(*ssa.FreeVar)
				if !captured || !hSharedFreeVar(fv, visited) {
					continue
				}
				switch {
				case slot(ix):
					*oks = append(*oks, fmt.Sprintf("%s: slot of the goroutine parameter", hPath(x.Addr)))
				case locked:
					*oks = append(*oks, fmt.Sprintf("%s: under a mutex", hPath(x.Addr)))
				default:
					*out = append(*out, hAccFinding{x.Pos(), fmt.Sprintf("%s writes captured %s (%s) at %s with no mutex held and not in a slot of the goroutine parameter", hSSAName(fn), fv.Name(), hPath(x.Addr), pe.c.Position(x.Pos()))})
				}
			case *ssa.MapUpdate:
				root, ix := hRootOf(x.Map)
				fv, captured := root.(*ssa.FreeVar)
				if !captured || !hSharedFreeVar(fv, visited) {
					continue
				}
				switch {
				case slot(ix):
					*oks = append(*oks, fmt.Sprintf("%s: slot of the goroutine parameter", hPath(x.Map)))
				case locked:
					*oks = append(*oks, fmt.Sprintf("map %s: under a mutex", hPath(x.Map)))
				default:
					*out = append(*out, hAccFinding{x.Pos(), fmt.Sprintf("%s updates captured map %s (%s) at %s with no mutex held", hSSAName(fn), fv.Name(), hPath(x.Map), pe.c.Position(x.Pos()))})
				}
			case ssa.CallInstruction:
				if _, isGo := x.(*ssa.Go); isGo {
					continue
				}
				com := x.Common()
				if com.IsInvoke() {
					continue
				}
				if op, _ := hMutexOp(com); op != "" {
					continue
				}
				static := com.StaticCallee()
				if static != nil {
					if static.Blocks == nil || hFuncPkg(static) == nil || !strings.HasPrefix(hFuncPkg(static).Pkg.Path(), ModulePath) {
						continue // outside the module (sync, atomic, log, ...)
					}
					if static.Parent() != nil {
						// directly called literal
						pe.checkWorker(static, pe.mapG(com.Args, static, isG), locked, depth+1, visited, out, oks)
						continue
					}
					if static.Signature.Recv() == nil || len(com.Args) == 0 {
						continue
					}
					root, ix := hRootOf(com.Args[0])
					fv, captured := root.(*ssa.FreeVar)
					if !captured || !hSharedFreeVar(fv, visited) {
						continue
					}
					if slot(ix) {
						*oks = append(*oks, fmt.Sprintf("%s.%s(): receiver is a slot of the goroutine parameter", fv.Name(), static.Name()))
						continue
					}
					if locked {
						*oks = append(*oks, fmt.Sprintf("%s.%s(): called under a mutex", fv.Name(), static.Name()))
						continue
					}
					if w := pe.recvWrites(static, 0, 0); w != "" {
						*out = append(*out, hAccFinding{x.Pos(), fmt.Sprintf("%s calls %s on captured %s at %s with no mutex held, and %s", hSSAName(fn), static.Name(), fv.Name(), pe.c.Position(x.Pos()), w)})
					} else {
						*oks = append(*oks, fmt.Sprintf("%s.%s(): callee synchronises its own writes", fv.Name(), static.Name()))
					}
					continue
				}
				// call of a function value: literals run as part of the worker
				for _, callee := range pe.callees(x) {
					if callee.Parent() == nil || callee.Blocks == nil {
						continue
					}
					pe.checkWorker(callee, pe.mapG(com.Args, callee, isG), locked, depth+1, visited, out, oks)
				}
			}
		}
	}
}

func (pe *hPE) mapG(args []ssa.Value, callee *ssa.Function, isG func(ssa.Value) bool) map[int]bool {
	g := map[int]bool{}
	if len(args) != len(callee.Params) {
		return g
	}
	for i, a := range args {
		if isG(a) {
			g[i] = true
		}
	}
	return g
}

// recvWrites: does fn write storage reachable from parameter idx outside any mutex? Returns a
// description of the first such write, or "".
func (pe *hPE) recvWrites(fn *ssa.Function, idx int, depth int) string {
	if fn == nil || fn.Blocks == nil || depth > hDepth || idx >= len(fn.Params) {
		return ""
	}
	key := fmt.Sprintf("%s/%d", fn.String(), idx)
	if w, ok := pe.recvMemo[key]; ok {
		return w
	}
	pe.recvMemo[key] = ""
	held := pe.locker.locks(fn)
	param := fn.Params[idx]
	res := ""
	for _, b := range fn.Blocks {
		for _, ins := range b.Instrs {
			if res != "" {
				break
			}
			if held[ins].anyExclusive() {
				continue
			}
			switch x := ins.(type) {
			case *ssa.Store:
				if root, _ := hRootOf(x.Addr); root == ssa.Value(param) {
					res = fmt.Sprintf("%s writes %s at %s outside a mutex", hSSAName(fn), hPath(x.Addr), pe.c.Position(x.Pos()))
				}
			case *ssa.MapUpdate:
				if root, _ := hRootOf(x.Map); root == ssa.Value(param) {
					res = fmt.Sprintf("%s updates map %s at %s outside a mutex", hSSAName(fn), hPath(x.Map), pe.c.Position(x.Pos()))
				}
			case ssa.CallInstruction:
				com := x.Common()
				static := com.StaticCallee()
				if com.IsInvoke() || static == nil || static.Blocks == nil || static.Signature.Recv() == nil || len(com.Args) == 0 {
					continue
				}
				if hFuncPkg(static) == nil || !strings.HasPrefix(hFuncPkg(static).Pkg.Path(), ModulePath) {
					continue
				}
				if root, _ := hRootOf(com.Args[0]); root == ssa.Value(param) {
					if w := pe.recvWrites(static, 0, depth+1); w != "" {
						res = w
					}
				}
			}
		}
	}
	pe.recvMemo[key] = res
	return res
}

// ---- stage discovery ----------------------------------------------------------------------------

func (pe *hPE) stages() []hStage {
	var out []hStage
	for _, rel := range []string{"ingest", "ingest/compact"} {
		p := pe.c.Pkg(rel)
		if p == nil {
			continue
		}
		info := p.TypesInfo
		for _, fd := range pe.c.FuncDecls(p) {
			relay := false
			for _, fl := range fd.Type.Params.List {
				if types.Identical(info.TypeOf(fl.Type), pe.emitType) {
					relay = true
				}
			}
			if relay {
				continue
			}
			// local variables bound to function literals
			lits := map[types.Object][]*ast.FuncLit{}
			other := map[types.Object]int{}
			ast.Inspect(fd.Body, func(n ast.Node) bool {
				bind := func(lhs ast.Expr, rhs ast.Expr) {
					id, ok := lhs.(*ast.Ident)
					if !ok {
						return
					}
					obj := info.ObjectOf(id)
					if obj == nil {
						return
					}
					if fl, ok := ast.Unparen(rhs).(*ast.FuncLit); ok {
						lits[obj] = append(lits[obj], fl)
					} else {
						other[obj]++
					}
				}
				switch x := n.(type) {
				case *ast.AssignStmt:
					if len(x.Lhs) == len(x.Rhs) {
						for i := range x.Lhs {
							bind(x.Lhs[i], x.Rhs[i])
						}
					}
				case *ast.ValueSpec:
					if len(x.Names) == len(x.Values) {
						for i := range x.Names {
							bind(x.Names[i], x.Values[i])
						}
					}
				}
				return true
			})
			single := func(e ast.Expr) (*ast.FuncLit, string) {
				id, ok := ast.Unparen(e).(*ast.Ident)
				if !ok {
					return nil, ""
				}
				obj := info.ObjectOf(id)
				if obj == nil || len(lits[obj]) != 1 || other[obj] != 0 {
					return nil, ""
				}
				return lits[obj][0], id.Name
			}
			ast.Inspect(fd.Body, func(n ast.Node) bool {
				switch x := n.(type) {
				case *ast.GoStmt:
					lit, name := single(x.Call.Fun)
					if lit == nil {
						return true
					}
					inLoop := false
					for _, e := range enclosing(fd.Body, x) {
						switch e.(type) {
						case *ast.ForStmt, *ast.RangeStmt:
							inLoop = true
						}
					}
					if inLoop {
						out = append(out, hStage{pkg: p, decl: fd, name: name, lit: lit, kind: "go", pos: x.Pos(), par: true, gpIdx: -1})
					}
				case *ast.CallExpr:
					f := calleeFunc(info, x)
					if f == nil || f.Name() != "Read" {
						return true
					}
					sig, ok := f.Type().(*types.Signature)
					if !ok || sig.Recv() == nil || !types.Identical(types.NewSignatureType(nil, nil, nil, sig.Params(), sig.Results(), sig.Variadic()),
						types.NewSignatureType(nil, nil, nil, pe.readSig.Params(), pe.readSig.Results(), pe.readSig.Variadic())) {
						return true
					}
					for i, a := range x.Args {
						if i >= sig.Params().Len() || !types.Identical(sig.Params().At(i).Type(), pe.emitType) {
							continue
						}
						lit, name := single(a)
						if lit == nil {
							continue
						}
						st := hStage{pkg: p, decl: fd, name: name, lit: lit, kind: "read", pos: x.Pos(), par: true, gpIdx: -1}
						// goroutine parameter: the int parameter of the callback
						es := pe.emitType.Underlying().(*types.Signature)
						for j := 0; j < es.Params().Len(); j++ {
							if b, ok := es.Params().At(j).Type().Underlying().(*types.Basic); ok && b.Kind() == types.Int {
								st.gpIdx = j
							}
						}
						// options literal without a goroutine count: one goroutine
						if !pe.optionsParallel(info, fd, x.Args[0]) {
							st.par = false
						}
						out = append(out, st)
					}
				}
				return true
			})
		}
	}
	return out
}

// optionsParallel: the options argument is a composite literal (directly or the single binding
// of a local variable) that sets a field named like the goroutine count; anything else that is
// not a literal is assumed parallel.
func (pe *hPE) optionsParallel(info *types.Info, fd *ast.FuncDecl, e ast.Expr) bool {
	lit, ok := ast.Unparen(e).(*ast.CompositeLit)
	if !ok {
		id, isID := ast.Unparen(e).(*ast.Ident)
		if !isID {
			return true
		}
		obj := info.ObjectOf(id)
		var bound []ast.Expr
		ast.Inspect(fd.Body, func(n ast.Node) bool {
			if as, ok := n.(*ast.AssignStmt); ok && len(as.Lhs) == len(as.Rhs) {
				for i, l := range as.Lhs {
					if li, ok := l.(*ast.Ident); ok && info.ObjectOf(li) == obj {
						bound = append(bound, as.Rhs[i])
					}
				}
			}
			return true
		})
		if len(bound) != 1 {
			return true
		}
		if lit, ok = ast.Unparen(bound[0]).(*ast.CompositeLit); !ok {
			return true
		}
	}
	for _, el := range lit.Elts {
		kv, ok := el.(*ast.KeyValueExpr)
		if !ok {
			return true // positional literal: all fields set
		}
		if k, ok := kv.Key.(*ast.Ident); ok && k.Name == "Goroutines" {
			if tv, ok := info.Types[kv.Value]; ok && tv.Value != nil && (tv.Value.String() == "0" || tv.Value.String() == "1") {
				return false
			}
			return true
		}
	}
	return false
}

func hFindLit(fn *ssa.Function, lit *ast.FuncLit) *ssa.Function {
	for _, a := range fn.AnonFuncs {
		if a.Syntax() == ast.Node(lit) || a.Pos() == lit.Type.Func {
			return a
		}
		if r := hFindLit(a, lit); r != nil {
			return r
		}
	}
	return nil
}

func runParallelEffects(c *Ctx) []Obligation {
	c.BuildSSA()
	pe, msg := hNewPE(c)
	if pe == nil {
		return []Obligation{{Key: "ingest#anchor", Status: Undecided, Detail: msg}}
	}
	stages := pe.stages()
	var out []Obligation
	used := map[string]int{}
	for _, st := range stages {
		fname := c.FuncName(st.pkg, st.decl)
		key := fmt.Sprintf("%s#%s", fname, st.name)
		used[key]++
		if used[key] > 1 {
			key = fmt.Sprintf("%s#%s%d", fname, st.name, used[key])
		}
		pos := c.Position(st.pos)
		obj, _ := st.pkg.TypesInfo.Defs[st.decl.Name].(*types.Func)
		var encl *ssa.Function
		if obj != nil {
			encl = c.SSAFunc(obj)
		}
		var fn *ssa.Function
		if encl != nil {
			fn = hFindLit(encl, st.lit)
		}
		if fn == nil {
			out = append(out, Obligation{Key: key, Pos: pos, Status: Undecided, Detail: "the stage closure has no SSA function"})
			continue
		}
		if !st.par {
			out = append(out, Obligation{Key: key, Pos: pos, Status: Info, Detail: fmt.Sprintf("callback %s is read with an options literal that sets no goroutine count: it runs on one goroutine, no obligation", st.name)})
			continue
		}
		// worker body: the closure and the literals it calls
		var acc []hAccFinding
		var oks []string
		visited := map[*ssa.Function]bool{}
		g := map[int]bool{}
		if st.gpIdx >= 0 {
			g[st.gpIdx] = true
		}
		pe.checkWorker(fn, g, false, 0, visited, &acc, &oks)
		var body []*ssa.Function
		for f := range visited {
			body = append(body, f)
		}
		sort.Slice(body, func(i, j int) bool { return body[i].Pos() < body[j].Pos() })

		// effects
		reads, writes := &hEffect{}, &hEffect{}
		for _, f := range body {
			roots := map[ssa.Value]string{}
			for _, p := range f.Params {
				if pe.isFeatureType(p.Type()) {
					roots[p] = hModeFeature
				}
			}
			sroots := map[ssa.Value]string{}
			for _, b := range f.Blocks {
				for _, ins := range b.Instrs {
					v, ok := ins.(ssa.Value)
					if !ok {
						continue
					}
					if u, ok := ins.(*ssa.UnOp); ok && u.Op == token.ARROW {
						// value received from a channel
						t := u.Type()
						if tup, ok := t.(*types.Tuple); ok && tup.Len() > 0 {
							t = tup.At(0).Type()
						}
						if pe.isFeatureType(t) {
							roots[v] = hModeFeature
						}
					}
					if pe.isSharedType(v.Type()) {
						switch v.(type) {
						case *ssa.Alloc, *ssa.MakeMap:
						default:
							sroots[v] = hModeShared
						}
					}
				}
			}
			for _, fv := range f.FreeVars {
				if pe.isSharedType(fv.Type()) {
					sroots[fv] = hModeShared
				}
			}
			if len(roots) > 0 {
				if e := pe.track(f, roots, 0); e.found && !writes.found {
					writes = e
				}
			}
			if len(sroots) > 0 {
				if e := pe.track(f, sroots, 0); e.found && !reads.found {
					reads = e
				}
			}
		}
		ex := Obligation{Key: key, Pos: pos}
		switch {
		case reads.found && writes.found:
			ex.Status = Violation
			ex.Detail = fmt.Sprintf("stage %s of %s (%d literal(s) per worker): workers look features up in the shared feature map and also mutate features in place, so one worker can read a feature while another rewrites it", st.name, fname, len(body))
			ex.Path = append(ex.Path, "reads-shared:")
			ex.Path = append(ex.Path, reads.why...)
			ex.Path = append(ex.Path, "writes-feature:")
			ex.Path = append(ex.Path, writes.why...)
		default:
			ex.Status = OK
			ex.Detail = fmt.Sprintf("stage %s of %s (%s, %d literal(s) per worker): reads-shared=%v writes-feature=%v", st.name, fname, st.kind, len(body), reads.found, writes.found)
		}
		out = append(out, ex)

		ao := Obligation{Key: key + ".acc", Pos: pos}
		if len(acc) > 0 {
			sort.Slice(acc, func(i, j int) bool { return acc[i].pos < acc[j].pos })
			ao.Status = Violation
			ao.Detail = fmt.Sprintf("stage %s of %s: %s", st.name, fname, acc[0].text)
			for _, a := range acc {
				ao.Path = append(ao.Path, a.text)
			}
		} else {
			ao.Status = OK
			sort.Strings(oks)
			uniq := oks[:0]
			for i, s := range oks {
				if i == 0 || s != oks[i-1] {
					uniq = append(uniq, s)
				}
			}
			if len(uniq) > 6 {
				uniq = append(uniq[:6], "...")
			}
			ao.Detail = fmt.Sprintf("stage %s of %s: %d accumulator access(es), all disciplined [%s]", st.name, fname, len(oks), strings.Join(uniq, "; "))
		}
		out = append(out, ao)
	}
	return out
}
