package main

import (
	"fmt"
	"go/ast"
	"go/token"
	"go/types"

	"golang.org/x/tools/go/cfg"
	"golang.org/x/tools/go/packages"
)

// BLOCKSCAN (C17): after Merge, compact.FeaturesByID holds several feature blocks per feature
// type and more than one of them may carry the same namespace. A scan
//
//	for _, fb := range <[]*featureBlock> { if <fb.Namespaces[..] == ns> { ... } }
//
// may therefore give up (return, break, or any jump out of the loop) inside the
// namespace-match branch only after a lookup in *that* block succeeded; on a miss it has to
// go on to the next block.
//
// Instances: every range loop in ingest/compact over a slice of pointers to the block type
// (derived from the element type of the per-feature-type array field of FeaturesByID) whose
// body tests the loop variable's namespace array against a value (== or !=). One obligation
// per loop, ordinal in source order inside the function.
//
// Decision (go/cfg, path search from the match edge of each namespace test): every path that
// reaches a return statement, the loop's done block (break) or a block of an enclosing
// statement (labelled break/continue/goto) must first pass a *success edge* of a lookup in the
// loop variable's block. Paths that come back to the loop head or end in panic are fine.
//
// Accepted lookups in block X: a method call on X's map field (a field of X whose type is a
// pointer to a type of package encoding) - results bool / []byte / slice; and a call that
// passes X to a module function which is itself a lookup helper (every non-nil return of the
// helper is behind a success edge of a lookup in its block parameter; depth 3).
// Accepted success tests: `ok`, `v != nil`, `len(v) > 0`, `len(v) != 0`, `0 < len(v)` hold on
// their true edge, `v == nil`, `len(v) == 0` on their false edge, where every assignment of
// ok/v in the function is a lookup in X. go/cfg keeps a compound condition as one node, so the
// rule itself derives what an edge decides: the true edge of A && B decides A and B, the false
// edge of A || B decides !A and !B, ! swaps the edges. The same is done for the namespace test
// (`ok && ns == fb.Namespaces[t]`: its true edge is the match branch; `ns != ... ` : the false edge).
func init() {
	register(&Rule{
		Name:  "BLOCKSCAN",
		IR:    "cfg",
		Props: []string{"C17"},
		// findWithoutCache, hasFeatureWithID, FindLocationByID, findPathsByPoint, FindAreasByPoint x3,
		// fillPathSegments, isGraphNode, FindRelationsByFeature, fillRelationsFrom{Point,Path,Area,Relation}
		Floor: 14,
		Doc: "in ingest/compact, a loop over feature blocks leaves the loop (return, break, jump) inside the namespace-match branch " +
			"only behind the success edge of a lookup in that block, because several merged blocks may share a namespace",
		Run: runBlockscan,
	})
}

// hCompact describes the anchors of the compact world shared by BLOCKSCAN and POINTKIND.
type hCompact struct {
	pkg   *packages.Package
	byID  *types.Named // compact.FeaturesByID
	block *types.Named // element type of FeaturesByID's per-type block slices (featureBlock)
}

func hCompactAnchors(c *Ctx) (*hCompact, string) {
	p := c.Pkg("ingest/compact")
	if p == nil {
		return nil, "package ingest/compact not loaded"
	}
	tn, _ := p.Types.Scope().Lookup("FeaturesByID").(*types.TypeName)
	if tn == nil {
		return nil, "type compact.FeaturesByID not found"
	}
	named, _ := tn.Type().(*types.Named)
	st, _ := named.Underlying().(*types.Struct)
	if st == nil {
		return nil, "compact.FeaturesByID is not a struct"
	}
	h := &hCompact{pkg: p, byID: named}
	for i := 0; i < st.NumFields(); i++ {
		arr, ok := st.Field(i).Type().Underlying().(*types.Array)
		if !ok {
			continue
		}
		sl, ok := arr.Elem().Underlying().(*types.Slice)
		if !ok {
			continue
		}
		if ptr, ok := sl.Elem().(*types.Pointer); ok {
			if n := namedOf(ptr.Elem()); n != nil {
				if _, isStruct := n.Underlying().(*types.Struct); isStruct {
					h.block = n
				}
			}
		}
	}
	if h.block == nil {
		return nil, "compact.FeaturesByID has no [N][]*block field"
	}
	return h, ""
}

// isBlockPtr reports *block.
func (h *hCompact) isBlockPtr(t types.Type) bool {
	ptr, ok := types.Unalias(t).(*types.Pointer)
	if !ok {
		return false
	}
	n := namedOf(ptr.Elem())
	return n != nil && n.Obj() == h.block.Obj()
}

// hScan is the per-function context of a BLOCKSCAN decision.
type hScan struct {
	c     *Ctx
	h     *hCompact
	info  *types.Info
	depth int
	// assigns: every right-hand side assigned to a variable in this function body
	assigns map[types.Object][]hRHS
}

type hRHS struct {
	call *ast.CallExpr // nil: not a call
	idx  int           // result index
	n    int           // number of results bound
}

func hCollectAssigns(info *types.Info, body ast.Node) map[types.Object][]hRHS {
	m := map[types.Object][]hRHS{}
	add := func(lhs []ast.Expr, rhs []ast.Expr) {
		if len(rhs) == 1 && len(lhs) >= 1 {
			call, _ := ast.Unparen(rhs[0]).(*ast.CallExpr)
			for i, l := range lhs {
				id, ok := l.(*ast.Ident)
				if !ok || id.Name == "_" {
					continue
				}
				if obj := info.ObjectOf(id); obj != nil {
					if len(lhs) == 1 {
						m[obj] = append(m[obj], hRHS{call, 0, 1})
					} else {
						m[obj] = append(m[obj], hRHS{call, i, len(lhs)})
					}
				}
			}
			return
		}
		for i, l := range lhs {
			id, ok := l.(*ast.Ident)
			if !ok || id.Name == "_" || i >= len(rhs) {
				continue
			}
			if obj := info.ObjectOf(id); obj != nil {
				call, _ := ast.Unparen(rhs[i]).(*ast.CallExpr)
				m[obj] = append(m[obj], hRHS{call, 0, 1})
			}
		}
	}
	ast.Inspect(body, func(n ast.Node) bool {
		switch x := n.(type) {
		case *ast.AssignStmt:
			add(x.Lhs, x.Rhs)
		case *ast.ValueSpec:
			if len(x.Values) > 0 {
				var lhs []ast.Expr
				for _, id := range x.Names {
					lhs = append(lhs, id)
				}
				add(lhs, x.Values)
			}
		case *ast.RangeStmt:
			// a variable bound by range is never a lookup result
			for _, e := range []ast.Expr{x.Key, x.Value} {
				if id, ok := e.(*ast.Ident); ok && id.Name != "_" {
					if obj := info.ObjectOf(id); obj != nil {
						m[obj] = append(m[obj], hRHS{nil, 0, 1})
					}
				}
			}
		case *ast.IncDecStmt:
			if id, ok := x.X.(*ast.Ident); ok {
				if obj := info.ObjectOf(id); obj != nil {
					m[obj] = append(m[obj], hRHS{nil, 0, 1})
				}
			}
		}
		return true
	})
	return m
}

func hIsIdentOf(info *types.Info, e ast.Expr, obj types.Object) bool {
	id, ok := ast.Unparen(e).(*ast.Ident)
	return ok && obj != nil && info.ObjectOf(id) == obj
}

// isNamespaceMatch reports `X.<namespaces>[..] ==/!= v` (either side) for block variable x.
func (s *hScan) isNamespaceMatch(e ast.Expr, x types.Object) (token.Token, bool) {
	be, ok := ast.Unparen(e).(*ast.BinaryExpr)
	if !ok || (be.Op != token.EQL && be.Op != token.NEQ) {
		return 0, false
	}
	side := func(e ast.Expr) bool {
		ix, ok := ast.Unparen(e).(*ast.IndexExpr)
		if !ok {
			return false
		}
		sel, ok := ast.Unparen(ix.X).(*ast.SelectorExpr)
		if !ok || !hIsIdentOf(s.info, sel.X, x) {
			return false
		}
		arr, ok := s.info.TypeOf(sel).Underlying().(*types.Array)
		if !ok {
			return false
		}
		en := namedOf(arr.Elem())
		return en != nil && en.Obj().Pkg() == s.h.pkg.Types && en.Obj().Name() == "Namespace"
	}
	if side(be.X) || side(be.Y) {
		return be.Op, true
	}
	return 0, false
}

// lookupCall reports whether call is a lookup in block x.
func (s *hScan) lookupCall(call *ast.CallExpr, x types.Object) bool {
	if call == nil {
		return false
	}
	// method on the block's map field: X.<field>.<method>(...)
	if sel, ok := ast.Unparen(call.Fun).(*ast.SelectorExpr); ok {
		if inner, ok := ast.Unparen(sel.X).(*ast.SelectorExpr); ok && hIsIdentOf(s.info, inner.X, x) {
			if selInfo := s.info.Selections[inner]; selInfo != nil && selInfo.Kind() == types.FieldVal {
				if n := namedOf(selInfo.Type()); n != nil && n.Obj().Pkg() != nil && n.Obj().Pkg().Path() == ModulePath+"/encoding" {
					if _, isPtr := types.Unalias(selInfo.Type()).(*types.Pointer); isPtr {
						if f := calleeFunc(s.info, call); f != nil && hIsIDLookupSig(f) {
							return true
						}
					}
				}
			}
		}
	}
	// helper that receives the block
	f := calleeFunc(s.info, call)
	if f == nil {
		return false
	}
	for i, a := range call.Args {
		if hIsIdentOf(s.info, a, x) {
			if s.isLookupHelper(f, i) {
				return true
			}
		}
	}
	return false
}

var hHelperMemo = map[string]int{} // 0 unknown, 1 in progress / no, 2 yes

// isLookupHelper: a module function whose single nilable result is non-nil only behind a
// success edge of a lookup in its block parameter argIdx.
func (s *hScan) isLookupHelper(f *types.Func, argIdx int) bool {
	if s.depth >= 3 {
		return false
	}
	fd, p := s.c.Decl(f)
	if fd == nil || fd.Body == nil || p == nil {
		return false
	}
	key := fmt.Sprintf("%p/%s/%d", s.c, f.FullName(), argIdx)
	switch hHelperMemo[key] {
	case 1:
		return false
	case 2:
		return true
	}
	hHelperMemo[key] = 1
	sig := f.Type().(*types.Signature)
	if sig.Results().Len() != 1 || argIdx >= sig.Params().Len() {
		return false
	}
	switch sig.Results().At(0).Type().Underlying().(type) {
	case *types.Interface, *types.Pointer, *types.Slice, *types.Map:
	default:
		return false
	}
	if !s.h.isBlockPtr(sig.Params().At(argIdx).Type()) {
		return false
	}
	// parameter object
	var param types.Object
	n := 0
	for _, fl := range fd.Type.Params.List {
		for _, name := range fl.Names {
			if n == argIdx {
				param = p.TypesInfo.ObjectOf(name)
			}
			n++
		}
		if len(fl.Names) == 0 {
			n++
		}
	}
	if param == nil {
		return false
	}
	sub := &hScan{c: s.c, h: s.h, info: p.TypesInfo, depth: s.depth + 1, assigns: hCollectAssigns(p.TypesInfo, fd.Body)}
	g := newCFG(p.TypesInfo, fd.Body)
	if len(g.Blocks) == 0 {
		return false
	}
	w := sub.search(g, g.Blocks[0], param, nil, func(r *ast.ReturnStmt) bool {
		if len(r.Results) != 1 {
			return true
		}
		if id, ok := ast.Unparen(r.Results[0]).(*ast.Ident); ok && id.Name == "nil" {
			if _, isNil := p.TypesInfo.ObjectOf(id).(*types.Nil); isNil {
				return false // returning nil is a miss, not a give-up with a value
			}
		}
		return true
	})
	if w == nil {
		hHelperMemo[key] = 2
		return true
	}
	return false
}

// lookupVar: every assignment of obj is a lookup in x; kind tells which result it holds.
func (s *hScan) lookupVar(obj types.Object, x types.Object) bool {
	as := s.assigns[obj]
	if len(as) == 0 {
		return false
	}
	for _, a := range as {
		if a.call == nil || !s.lookupCall(a.call, x) {
			return false
		}
	}
	return true
}

// successLeaf classifies a leaf condition: (trueIsSuccess, falseIsSuccess).
func (s *hScan) successLeaf(e ast.Expr, x types.Object) (bool, bool) {
	e = ast.Unparen(e)
	isLookupValue := func(v ast.Expr) bool {
		v = ast.Unparen(v)
		if id, ok := v.(*ast.Ident); ok {
			obj := s.info.ObjectOf(id)
			if _, isVar := obj.(*types.Var); isVar {
				return s.lookupVar(obj, x)
			}
			return false
		}
		if call, ok := v.(*ast.CallExpr); ok {
			return s.lookupCall(call, x)
		}
		return false
	}
	isNil := func(v ast.Expr) bool {
		id, ok := ast.Unparen(v).(*ast.Ident)
		if !ok {
			return false
		}
		_, n := s.info.ObjectOf(id).(*types.Nil)
		return n
	}
	isZero := func(v ast.Expr) bool {
		tv, ok := s.info.Types[v]
		return ok && tv.Value != nil && tv.Value.String() == "0"
	}
	isLenOfLookup := func(v ast.Expr) bool {
		call, ok := ast.Unparen(v).(*ast.CallExpr)
		return ok && isBuiltin(s.info, call, "len") && len(call.Args) == 1 && isLookupValue(call.Args[0])
	}
	switch v := e.(type) {
	case *ast.Ident:
		if b, ok := s.info.TypeOf(v).Underlying().(*types.Basic); ok && b.Info()&types.IsBoolean != 0 {
			if obj, isVar := s.info.ObjectOf(v).(*types.Var); isVar && s.lookupVar(obj, x) {
				return true, false
			}
		}
	case *ast.BinaryExpr:
		switch v.Op {
		case token.NEQ, token.EQL:
			pos := v.Op == token.NEQ
			if (isLookupValue(v.X) && isNil(v.Y)) || (isNil(v.X) && isLookupValue(v.Y)) {
				return pos, !pos
			}
			if (isLenOfLookup(v.X) && isZero(v.Y)) || (isZero(v.X) && isLenOfLookup(v.Y)) {
				return pos, !pos
			}
		case token.GTR: // len(v) > 0
			if isLenOfLookup(v.X) && isZero(v.Y) {
				return true, false
			}
		case token.LSS: // 0 < len(v)
			if isZero(v.X) && isLenOfLookup(v.Y) {
				return true, false
			}
		}
	}
	return false, false
}

// search walks the CFG forward from the start of block `from`. It returns a witness path to a
// give-up point reached without passing a success edge of a lookup in x, or nil.
// loop == nil: whole function (helper analysis), give-up = a return accepted by badReturn.
// loop != nil: give-up = any return, the loop's done block, or a block of an enclosing statement.
func (s *hScan) search(g *cfg.CFG, from *cfg.Block, x types.Object, loop *ast.RangeStmt, badReturn func(*ast.ReturnStmt) bool) []string {
	type item struct {
		b     *cfg.Block
		trail []string
	}
	seen := map[*cfg.Block]bool{}
	var work []item
	// enter decides what following the edge prev -> nb means.
	enter := func(prev *cfg.Block, nb *cfg.Block, trail []string) []string {
		if loop != nil && nb.Stmt != nil {
			if nb.Stmt == ast.Stmt(loop) {
				if nb.Kind == cfg.KindRangeLoop {
					return nil // next block: fine
				}
				if nb.Kind == cfg.KindRangeDone {
					where := s.c.Position(loop.Pos())
					if prev != nil && len(prev.Nodes) > 0 {
						where = s.c.Position(prev.Nodes[len(prev.Nodes)-1].End())
					}
					return append(append([]string(nil), trail...), "breaks out of the block loop after "+where+" without a successful lookup in this block")
				}
			} else if nb.Stmt.Pos() < loop.Pos() || nb.Stmt.Pos() >= loop.End() {
				return append(append([]string(nil), trail...), "jumps out of the block loop to "+s.c.Position(nb.Stmt.Pos())+" without a successful lookup in this block")
			}
		}
		if seen[nb] {
			return nil
		}
		seen[nb] = true
		t := trail
		if len(nb.Nodes) > 0 {
			t = append(append([]string(nil), trail...), fmt.Sprintf("%s (%s)", s.c.Position(nb.Nodes[0].Pos()), nb.Kind))
		}
		work = append(work, item{nb, t})
		return nil
	}
	if w := enter(nil, from, nil); w != nil {
		return w
	}
	for len(work) > 0 {
		it := work[0]
		work = work[1:]
		for _, n := range it.b.Nodes {
			if r, ok := n.(*ast.ReturnStmt); ok {
				if badReturn == nil || badReturn(r) {
					return append(append([]string(nil), it.trail...), "reaches "+s.c.Position(r.Pos())+" `"+nodeText(s.c.Fset, r)+"` without a successful lookup in this block")
				}
			}
		}
		succs := it.b.Succs
		if len(succs) == 2 && len(it.b.Nodes) > 0 {
			if cond, ok := it.b.Nodes[len(it.b.Nodes)-1].(ast.Expr); ok {
				t, f := s.successEdges(cond, x)
				switch {
				case t && f:
					succs = nil
				case t:
					succs = succs[1:] // the true edge is discharged
				case f:
					succs = succs[:1]
				}
			}
		}
		for _, nb := range succs {
			if w := enter(it.b, nb, it.trail); w != nil {
				return w
			}
		}
	}
	return nil
}

func runBlockscan(c *Ctx) []Obligation {
	h, msg := hCompactAnchors(c)
	if h == nil {
		return []Obligation{{Key: "compact.FeaturesByID#anchor", Status: Undecided, Detail: msg}}
	}
	var out []Obligation
	p := h.pkg
	info := p.TypesInfo
	for _, u := range c.units(p, true) {
		// block loops directly in this unit (not in nested literals), in source order
		var loops []*ast.RangeStmt
		inspectShallow(u.body, func(n ast.Node) bool {
			rs, ok := n.(*ast.RangeStmt)
			if !ok {
				return true
			}
			sl, ok := info.TypeOf(rs.X).Underlying().(*types.Slice)
			if ok && h.isBlockPtr(sl.Elem()) {
				loops = append(loops, rs)
			}
			return true
		})
		if len(loops) == 0 {
			continue
		}
		var g *cfg.CFG
		s := &hScan{c: c, h: h, info: info, assigns: hCollectAssigns(info, u.body)}
		ord := 0
		for _, loop := range loops {
			id, ok := loop.Value.(*ast.Ident)
			if !ok || id.Name == "_" {
				continue
			}
			x := info.ObjectOf(id)
			if x == nil {
				continue
			}
			if g == nil {
				g = newCFG(info, u.body)
			}
			// namespace tests on x inside the loop body: leaf conditions of the CFG
			type match struct {
				b     *cfg.Block
				start *cfg.Block
				cond  ast.Expr
			}
			var matches []match
			for _, b := range g.Blocks {
				if !b.Live || len(b.Nodes) == 0 || len(b.Succs) != 2 {
					continue
				}
				cond, ok := b.Nodes[len(b.Nodes)-1].(ast.Expr)
				if !ok || cond.Pos() < loop.Body.Pos() || cond.End() > loop.Body.End() {
					continue
				}
				onT, onF, leaf := s.matchEdges(cond, x)
				if onT {
					matches = append(matches, match{b, b.Succs[0], leaf})
				}
				if onF {
					matches = append(matches, match{b, b.Succs[1], leaf})
				}
			}
			if len(matches) == 0 {
				continue // a plain enumeration of blocks, no namespace-match branch
			}
			ord++
			ob := Obligation{Key: fmt.Sprintf("%s#%d", u.name, ord), Pos: c.Position(loop.Pos())}
			ob.Status = OK
			ob.Detail = fmt.Sprintf("loop over blocks %s: every exit inside the namespace-match branch (%s) is behind a successful lookup in %s", types.ExprString(loop.X), types.ExprString(matches[0].cond), id.Name)
			for _, m := range matches {
				if w := s.search(g, m.start, x, loop, nil); w != nil {
					ob.Status = Violation
					ob.Detail = fmt.Sprintf("loop over blocks %s gives up inside the namespace-match branch (%s at %s) without a successful lookup in block %s; another block with the same namespace (after Merge) is never consulted",
						types.ExprString(loop.X), types.ExprString(m.cond), c.Position(m.cond.Pos()), id.Name)
					ob.Path = append([]string{"match edge of " + c.Position(m.cond.Pos())}, w...)
					break
				}
			}
			out = append(out, ob)
		}
	}
	return out
}

// hIsIDLookupSig: a method keyed by a uint64 id whose results tell hit from miss (a bool, or a
// nilable value).
func hIsIDLookupSig(f *types.Func) bool {
	sig, ok := f.Type().(*types.Signature)
	if !ok || sig.Params().Len() == 0 || sig.Results().Len() == 0 {
		return false
	}
	if b, ok := sig.Params().At(0).Type().Underlying().(*types.Basic); !ok || b.Kind() != types.Uint64 {
		return false
	}
	for i := 0; i < sig.Results().Len(); i++ {
		switch t := sig.Results().At(i).Type().Underlying().(type) {
		case *types.Basic:
			if t.Info()&types.IsBoolean != 0 {
				return true
			}
		case *types.Slice, *types.Pointer, *types.Interface, *types.Map:
			return true
		}
	}
	return false
}

// hFact is a leaf condition known to hold (val=true) or not to hold on a CFG edge.
type hFact struct {
	leaf ast.Expr
	val  bool
}

// hFacts lists the leaf conditions decided on the given edge of a (possibly compound)
// condition: go/cfg does not split &&, || and !, so this is done here. The true edge of A && B
// decides both, the false edge of A || B decides both, ! swaps; the other edges decide nothing.
func hFacts(e ast.Expr, edge bool) []hFact {
	e = ast.Unparen(e)
	switch v := e.(type) {
	case *ast.UnaryExpr:
		if v.Op == token.NOT {
			return hFacts(v.X, !edge)
		}
	case *ast.BinaryExpr:
		switch v.Op {
		case token.LAND:
			if edge {
				return append(hFacts(v.X, true), hFacts(v.Y, true)...)
			}
			return nil
		case token.LOR:
			if !edge {
				return append(hFacts(v.X, false), hFacts(v.Y, false)...)
			}
			return nil
		}
	}
	return []hFact{{e, edge}}
}

// successEdges: does a successful lookup in x hold on the true / on the false edge of cond.
func (s *hScan) successEdges(cond ast.Expr, x types.Object) (bool, bool) {
	on := func(edge bool) bool {
		for _, f := range hFacts(cond, edge) {
			t, fl := s.successLeaf(f.leaf, x)
			if (f.val && t) || (!f.val && fl) {
				return true
			}
		}
		return false
	}
	return on(true), on(false)
}

// matchEdges: does the namespace of block x equal the wanted one on the true / false edge.
func (s *hScan) matchEdges(cond ast.Expr, x types.Object) (onTrue, onFalse bool, leaf ast.Expr) {
	on := func(edge bool) bool {
		for _, f := range hFacts(cond, edge) {
			if op, ok := s.isNamespaceMatch(f.leaf, x); ok && (op == token.EQL) == f.val {
				leaf = f.leaf
				return true
			}
		}
		return false
	}
	onTrue = on(true)
	onFalse = on(false)
	return
}
