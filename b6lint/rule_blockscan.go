package main

import (
	"fmt"
	"go/ast"
	"go/token"
	"go/types"
	"strings"

	"golang.org/x/tools/go/cfg"
	"golang.org/x/tools/go/packages"
)

// BLOCKSCAN (C17): after Merge, compact.FeaturesByID holds several feature blocks per feature
// type and more than one of them may carry the same namespace. A scan
//
//	for _, fb := range <[]*featureBlock> { if <fb.Namespaces[..] == ns> { ... } }
//
// may therefore give up (return, break, or any jump out of the loop) inside the
// namespace-match branch only after a lookup in *that* block succeeded; on a miss it has to
// go on to the next block.
//
// Instances: every range loop in ingest/compact over a slice of pointers to the block type
// (derived from the element type of the per-feature-type array field of FeaturesByID) whose
// body tests the loop variable's namespace array against a value (== or !=). One obligation
// per loop, ordinal in source order inside the function.
//
// Decision (go/cfg, path search from the match edge of each namespace test): every path that
// reaches a return statement, the loop's done block (break) or a block of an enclosing
// statement (labelled break/continue/goto) must first pass a *success edge* of a lookup in the
// loop variable's block. Paths that come back to the loop head or end in panic are fine.
//
// Accepted lookups in block X: a method call on X's map field (a field of X whose type is a
// pointer to a type of package encoding) - results bool / []byte / slice; and a call that
// passes X to a module function which is itself a lookup helper (every non-nil return of the
// helper is behind a success edge of a lookup in its block parameter; depth 3).
// Accepted success tests: `ok`, `v != nil`, `len(v) > 0`, `len(v) != 0`, `0 < len(v)` hold on
// their true edge, `v == nil`, `len(v) == 0` on their false edge, where every assignment of
// ok/v in the function is a lookup in X. go/cfg keeps a compound condition as one node, so the
// rule itself derives what an edge decides: the true edge of A && B decides A and B, the false
// edge of A || B decides !A and !B, ! swaps the edges. The same is done for the namespace test
// (`ok && ns == fb.Namespaces[t]`: its true edge is the match branch; `ns != ... ` : the false edge).
//
// Second condition (rejecting give-up, added after seeded change C17-1): a successful lookup is
// not enough when the branch then *rejects* what it found. A block may hold only a
// references-only record for a point whose real record is in another block of the namespace
// (an overlay merged before its base), a decoded value may be empty, and so on. Within the match
// branch the rule therefore also computes
//   - the variables data-dependent on the lookup (assigned from it, decoded from it by a method
//     call that receives it, ranged over it, ... to a fixpoint);
//   - record tests: conditions (if / for conditions, case comparisons of a switch whose tag is
//     such a variable) with a leaf that mentions such a variable and is not itself a success test;
//   - productions: statements that mention such a variable and write a variable declared outside
//     the block loop (assignment, append, map store, method call on it / passing its address);
//   - give-ups: an edge to the loop's done block or out of the loop, or a return that neither
//     mentions lookup data nor is a constant different from the not-found return that follows
//     the loop (`return true` against `return false` is a found-return, not a give-up).
//
// A give-up is a violation if it is control dependent on an edge of a record test (all paths
// from that edge lead to this give-up, the other edge can go on to the next block, produce, or
// leave differently) and some path match edge -> test -> that edge -> give-up has no production:
// the found record was rejected, nothing of it was used, and the scan still stops. A give-up
// that only depends on the success test ("first record found wins", e.g. the final break of
// fillPathSegments) is accepted.
func init() {
	register(&Rule{
		Name:    "BLOCKSCAN",
		IR:      "cfg",
		Props:   []string{"C17", "C30"},
		FloorBy: map[string]int{"C17": 14, "C30": 2},
		// findWithoutCache, hasFeatureWithID, FindLocationByID, findPathsByPoint, FindAreasByPoint x3,
		// fillPathSegments, isGraphNode, FindRelationsByFeature, fillRelationsFrom{Point,Path,Area,Relation}
		Floor: 14,
		Doc: "in ingest/compact, a loop over feature blocks leaves the loop (return, break, jump) inside the namespace-match branch " +
			"only behind the success edge of a lookup in that block, because several merged blocks may share a namespace; and a give-up " +
			"(break, jump, return of the not-found value) is not control dependent on a test that rejects the found record (kind, zero/empty test) " +
			"unless data of that record was used for the result on the way",
		// The scans that the compact world's Traverse runs through (found by static reachability from
		// the methods that return b6.Segments) also decide what the shortest-path search can see: C30.
		Run: func(c *Ctx) []Obligation {
			out := runBlockscan(c)
			reach := traverseReach(c)
			for i := range out {
				fn := out[i].Key
				if j := strings.LastIndex(fn, "#"); j >= 0 {
					fn = fn[:j]
				}
				if reach[fn] {
					out[i].Props = []string{"C17", "C30"}
				} else {
					out[i].Props = []string{"C17"}
				}
			}
			return out
		},
	})
}

// traverseReach returns the names (as in obligation keys) of the functions of ingest/compact that
// are statically reachable from a method whose result is b6.Segments.
func traverseReach(c *Ctx) map[string]bool {
	reach := map[string]bool{}
	p := c.Pkg("ingest/compact")
	if p == nil {
		return reach
	}
	info := p.TypesInfo
	decls := map[*types.Func]*ast.FuncDecl{}
	for _, fd := range c.FuncDecls(p) {
		if obj, _ := info.Defs[fd.Name].(*types.Func); obj != nil {
			decls[obj] = fd
		}
	}
	var work []*types.Func
	for obj := range decls {
		sig := obj.Type().(*types.Signature)
		if sig.Results().Len() == 1 {
			if n := namedOf(sig.Results().At(0).Type()); n != nil && n.Obj().Name() == "Segments" && n.Obj().Pkg() != nil && n.Obj().Pkg().Path() == ModulePath {
				work = append(work, obj)
			}
		}
	}
	seen := map[*types.Func]bool{}
	for len(work) > 0 {
		f := work[len(work)-1]
		work = work[:len(work)-1]
		if seen[f] {
			continue
		}
		seen[f] = true
		fd := decls[f]
		if fd == nil || fd.Body == nil {
			continue
		}
		reach[c.FuncName(p, fd)] = true
		ast.Inspect(fd.Body, func(n ast.Node) bool {
			if call, ok := n.(*ast.CallExpr); ok {
				if g := calleeFunc(info, call); g != nil && decls[g] != nil {
					work = append(work, g)
				}
			}
			return true
		})
	}
	return reach
}

// hCompact describes the anchors of the compact world shared by BLOCKSCAN and POINTKIND.
type hCompact struct {
	pkg   *packages.Package
	byID  *types.Named // compact.FeaturesByID
	block *types.Named // element type of FeaturesByID's per-type block slices (featureBlock)
}

func hCompactAnchors(c *Ctx) (*hCompact, string) {
	p := c.Pkg("ingest/compact")
	if p == nil {
		return nil, "package ingest/compact not loaded"
	}
	tn, _ := p.Types.Scope().Lookup("FeaturesByID").(*types.TypeName)
	if tn == nil {
		return nil, "type compact.FeaturesByID not found"
	}
	named, _ := tn.Type().(*types.Named)
	st, _ := named.Underlying().(*types.Struct)
	if st == nil {
		return nil, "compact.FeaturesByID is not a struct"
	}
	h := &hCompact{pkg: p, byID: named}
	for i := 0; i < st.NumFields(); i++ {
		arr, ok := st.Field(i).Type().Underlying().(*types.Array)
		if !ok {
			continue
		}
		sl, ok := arr.Elem().Underlying().(*types.Slice)
		if !ok {
			continue
		}
		if ptr, ok := sl.Elem().(*types.Pointer); ok {
			if n := namedOf(ptr.Elem()); n != nil {
				if _, isStruct := n.Underlying().(*types.Struct); isStruct {
					h.block = n
				}
			}
		}
	}
	if h.block == nil {
		return nil, "compact.FeaturesByID has no [N][]*block field"
	}
	return h, ""
}

// isBlockPtr reports *block.
func (h *hCompact) isBlockPtr(t types.Type) bool {
	ptr, ok := types.Unalias(t).(*types.Pointer)
	if !ok {
		return false
	}
	n := namedOf(ptr.Elem())
	return n != nil && n.Obj() == h.block.Obj()
}

// hScan is the per-function context of a BLOCKSCAN decision.
type hScan struct {
	c     *Ctx
	h     *hCompact
	info  *types.Info
	depth int
	// assigns: every right-hand side assigned to a variable in this function body
	assigns map[types.Object][]hRHS
}

type hRHS struct {
	call *ast.CallExpr // nil: not a call
	idx  int           // result index
	n    int           // number of results bound
}

func hCollectAssigns(info *types.Info, body ast.Node) map[types.Object][]hRHS {
	m := map[types.Object][]hRHS{}
	add := func(lhs []ast.Expr, rhs []ast.Expr) {
		if len(rhs) == 1 && len(lhs) >= 1 {
			call, _ := ast.Unparen(rhs[0]).(*ast.CallExpr)
			for i, l := range lhs {
				id, ok := l.(*ast.Ident)
				if !ok || id.Name == "_" {
					continue
				}
				if obj := info.ObjectOf(id); obj != nil {
					if len(lhs) == 1 {
						m[obj] = append(m[obj], hRHS{call, 0, 1})
					} else {
						m[obj] = append(m[obj], hRHS{call, i, len(lhs)})
					}
				}
			}
			return
		}
		for i, l := range lhs {
			id, ok := l.(*ast.Ident)
			if !ok || id.Name == "_" || i >= len(rhs) {
				continue
			}
			if obj := info.ObjectOf(id); obj != nil {
				call, _ := ast.Unparen(rhs[i]).(*ast.CallExpr)
				m[obj] = append(m[obj], hRHS{call, 0, 1})
			}
		}
	}
	ast.Inspect(body, func(n ast.Node) bool {
		switch x := n.(type) {
		case *ast.AssignStmt:
			add(x.Lhs, x.Rhs)
		case *ast.ValueSpec:
			if len(x.Values) > 0 {
				var lhs []ast.Expr
				for _, id := range x.Names {
					lhs = append(lhs, id)
				}
				add(lhs, x.Values)
			}
		case *ast.RangeStmt:
			// a variable bound by range is never a lookup result
			for _, e := range []ast.Expr{x.Key, x.Value} {
				if id, ok := e.(*ast.Ident); ok && id.Name != "_" {
					if obj := info.ObjectOf(id); obj != nil {
						m[obj] = append(m[obj], hRHS{nil, 0, 1})
					}
				}
			}
		case *ast.IncDecStmt:
			if id, ok := x.X.(*ast.Ident); ok {
				if obj := info.ObjectOf(id); obj != nil {
					m[obj] = append(m[obj], hRHS{nil, 0, 1})
				}
			}
		}
		return true
	})
	return m
}

func hIsIdentOf(info *types.Info, e ast.Expr, obj types.Object) bool {
	id, ok := ast.Unparen(e).(*ast.Ident)
	return ok && obj != nil && info.ObjectOf(id) == obj
}

// isNamespaceMatch reports `X.<namespaces>[..] ==/!= v` (either side) for block variable x.
func (s *hScan) isNamespaceMatch(e ast.Expr, x types.Object) (token.Token, bool) {
	be, ok := ast.Unparen(e).(*ast.BinaryExpr)
	if !ok || (be.Op != token.EQL && be.Op != token.NEQ) {
		return 0, false
	}
	side := func(e ast.Expr) bool {
		ix, ok := ast.Unparen(e).(*ast.IndexExpr)
		if !ok {
			return false
		}
		sel, ok := ast.Unparen(ix.X).(*ast.SelectorExpr)
		if !ok || !hIsIdentOf(s.info, sel.X, x) {
			return false
		}
		arr, ok := s.info.TypeOf(sel).Underlying().(*types.Array)
		if !ok {
			return false
		}
		en := namedOf(arr.Elem())
		return en != nil && en.Obj().Pkg() == s.h.pkg.Types && en.Obj().Name() == "Namespace"
	}
	if side(be.X) || side(be.Y) {
		return be.Op, true
	}
	return 0, false
}

// lookupCall reports whether call is a lookup in block x.
func (s *hScan) lookupCall(call *ast.CallExpr, x types.Object) bool {
	if call == nil {
		return false
	}
	// method on the block's map field: X.<field>.<method>(...)
	if sel, ok := ast.Unparen(call.Fun).(*ast.SelectorExpr); ok {
		if inner, ok := ast.Unparen(sel.X).(*ast.SelectorExpr); ok && hIsIdentOf(s.info, inner.X, x) {
			if selInfo := s.info.Selections[inner]; selInfo != nil && selInfo.Kind() == types.FieldVal {
				if n := namedOf(selInfo.Type()); n != nil && n.Obj().Pkg() != nil && n.Obj().Pkg().Path() == ModulePath+"/encoding" {
					if _, isPtr := types.Unalias(selInfo.Type()).(*types.Pointer); isPtr {
						if f := calleeFunc(s.info, call); f != nil && hIsIDLookupSig(f) {
							return true
						}
					}
				}
			}
		}
	}
	// helper that receives the block
	f := calleeFunc(s.info, call)
	if f == nil {
		return false
	}
	for i, a := range call.Args {
		if hIsIdentOf(s.info, a, x) {
			if s.isLookupHelper(f, i) {
				return true
			}
		}
	}
	return false
}

var hHelperMemo = map[string]int{} // 0 unknown, 1 in progress / no, 2 yes

// isLookupHelper: a module function whose single nilable result is non-nil only behind a
// success edge of a lookup in its block parameter argIdx.
func (s *hScan) isLookupHelper(f *types.Func, argIdx int) bool {
	if s.depth >= 3 {
		return false
	}
	fd, p := s.c.Decl(f)
	if fd == nil || fd.Body == nil || p == nil {
		return false
	}
	key := fmt.Sprintf("%p/%s/%d", s.c, f.FullName(), argIdx)
	switch hHelperMemo[key] {
	case 1:
		return false
	case 2:
		return true
	}
	hHelperMemo[key] = 1
	sig := f.Type().(*types.Signature)
	if sig.Results().Len() != 1 || argIdx >= sig.Params().Len() {
		return false
	}
	switch sig.Results().At(0).Type().Underlying().(type) {
	case *types.Interface, *types.Pointer, *types.Slice, *types.Map:
	default:
		return false
	}
	if !s.h.isBlockPtr(sig.Params().At(argIdx).Type()) {
		return false
	}
	// parameter object
	var param types.Object
	n := 0
	for _, fl := range fd.Type.Params.List {
		for _, name := range fl.Names {
			if n == argIdx {
				param = p.TypesInfo.ObjectOf(name)
			}
			n++
		}
		if len(fl.Names) == 0 {
			n++
		}
	}
	if param == nil {
		return false
	}
	sub := &hScan{c: s.c, h: s.h, info: p.TypesInfo, depth: s.depth + 1, assigns: hCollectAssigns(p.TypesInfo, fd.Body)}
	g := newCFG(p.TypesInfo, fd.Body)
	if len(g.Blocks) == 0 {
		return false
	}
	w := sub.search(g, g.Blocks[0], param, nil, func(r *ast.ReturnStmt) bool {
		if len(r.Results) != 1 {
			return true
		}
		if id, ok := ast.Unparen(r.Results[0]).(*ast.Ident); ok && id.Name == "nil" {
			if _, isNil := p.TypesInfo.ObjectOf(id).(*types.Nil); isNil {
				return false // returning nil is a miss, not a give-up with a value
			}
		}
		return true
	})
	if w == nil {
		hHelperMemo[key] = 2
		return true
	}
	return false
}

// lookupVar: every assignment of obj is a lookup in x; kind tells which result it holds.
func (s *hScan) lookupVar(obj types.Object, x types.Object) bool {
	as := s.assigns[obj]
	if len(as) == 0 {
		return false
	}
	for _, a := range as {
		if a.call == nil || !s.lookupCall(a.call, x) {
			return false
		}
	}
	return true
}

// successLeaf classifies a leaf condition: (trueIsSuccess, falseIsSuccess).
func (s *hScan) successLeaf(e ast.Expr, x types.Object) (bool, bool) {
	e = ast.Unparen(e)
	isLookupValue := func(v ast.Expr) bool {
		v = ast.Unparen(v)
		if id, ok := v.(*ast.Ident); ok {
			obj := s.info.ObjectOf(id)
			if _, isVar := obj.(*types.Var); isVar {
				return s.lookupVar(obj, x)
			}
			return false
		}
		if call, ok := v.(*ast.CallExpr); ok {
			return s.lookupCall(call, x)
		}
		return false
	}
	isNil := func(v ast.Expr) bool {
		id, ok := ast.Unparen(v).(*ast.Ident)
		if !ok {
			return false
		}
		_, n := s.info.ObjectOf(id).(*types.Nil)
		return n
	}
	isZero := func(v ast.Expr) bool {
		tv, ok := s.info.Types[v]
		return ok && tv.Value != nil && tv.Value.String() == "0"
	}
	isLenOfLookup := func(v ast.Expr) bool {
		call, ok := ast.Unparen(v).(*ast.CallExpr)
		return ok && isBuiltin(s.info, call, "len") && len(call.Args) == 1 && isLookupValue(call.Args[0])
	}
	switch v := e.(type) {
	case *ast.Ident:
		if b, ok := s.info.TypeOf(v).Underlying().(*types.Basic); ok && b.Info()&types.IsBoolean != 0 {
			if obj, isVar := s.info.ObjectOf(v).(*types.Var); isVar && s.lookupVar(obj, x) {
				return true, false
			}
		}
	case *ast.BinaryExpr:
		switch v.Op {
		case token.NEQ, token.EQL:
			pos := v.Op == token.NEQ
			if (isLookupValue(v.X) && isNil(v.Y)) || (isNil(v.X) && isLookupValue(v.Y)) {
				return pos, !pos
			}
			if (isLenOfLookup(v.X) && isZero(v.Y)) || (isZero(v.X) && isLenOfLookup(v.Y)) {
				return pos, !pos
			}
		case token.GTR: // len(v) > 0
			if isLenOfLookup(v.X) && isZero(v.Y) {
				return true, false
			}
		case token.LSS: // 0 < len(v)
			if isZero(v.X) && isLenOfLookup(v.Y) {
				return true, false
			}
		}
	}
	return false, false
}

// search walks the CFG forward from the start of block `from`. It returns a witness path to a
// give-up point reached without passing a success edge of a lookup in x, or nil.
// loop == nil: whole function (helper analysis), give-up = a return accepted by badReturn.
// loop != nil: give-up = any return, the loop's done block, or a block of an enclosing statement.
func (s *hScan) search(g *cfg.CFG, from *cfg.Block, x types.Object, loop *ast.RangeStmt, badReturn func(*ast.ReturnStmt) bool) []string {
	type item struct {
		b     *cfg.Block
		trail []string
	}
	seen := map[*cfg.Block]bool{}
	var work []item
	// enter decides what following the edge prev -> nb means.
	enter := func(prev *cfg.Block, nb *cfg.Block, trail []string) []string {
		if loop != nil && nb.Stmt != nil {
			if nb.Stmt == ast.Stmt(loop) {
				if nb.Kind == cfg.KindRangeLoop {
					return nil // next block: fine
				}
				if nb.Kind == cfg.KindRangeDone {
					where := s.c.Position(loop.Pos())
					if prev != nil && len(prev.Nodes) > 0 {
						where = s.c.Position(prev.Nodes[len(prev.Nodes)-1].End())
					}
					return append(append([]string(nil), trail...), "breaks out of the block loop after "+where+" without a successful lookup in this block")
				}
			} else if nb.Stmt.Pos() < loop.Pos() || nb.Stmt.Pos() >= loop.End() {
				return append(append([]string(nil), trail...), "jumps out of the block loop to "+s.c.Position(nb.Stmt.Pos())+" without a successful lookup in this block")
			}
		}
		if seen[nb] {
			return nil
		}
		seen[nb] = true
		t := trail
		if len(nb.Nodes) > 0 {
			t = append(append([]string(nil), trail...), fmt.Sprintf("%s (%s)", s.c.Position(nb.Nodes[0].Pos()), nb.Kind))
		}
		work = append(work, item{nb, t})
		return nil
	}
	if w := enter(nil, from, nil); w != nil {
		return w
	}
	for len(work) > 0 {
		it := work[0]
		work = work[1:]
		for _, n := range it.b.Nodes {
			if r, ok := n.(*ast.ReturnStmt); ok {
				if badReturn == nil || badReturn(r) {
					return append(append([]string(nil), it.trail...), "reaches "+s.c.Position(r.Pos())+" `"+nodeText(s.c.Fset, r)+"` without a successful lookup in this block")
				}
			}
		}
		succs := it.b.Succs
		if len(succs) == 2 && len(it.b.Nodes) > 0 {
			if cond, ok := it.b.Nodes[len(it.b.Nodes)-1].(ast.Expr); ok {
				t, f := s.successEdges(cond, x)
				switch {
				case t && f:
					succs = nil
				case t:
					succs = succs[1:] // the true edge is discharged
				case f:
					succs = succs[:1]
				}
			}
		}
		for _, nb := range succs {
			if w := enter(it.b, nb, it.trail); w != nil {
				return w
			}
		}
	}
	return nil
}

func runBlockscan(c *Ctx) []Obligation {
	h, msg := hCompactAnchors(c)
	if h == nil {
		return []Obligation{{Key: "compact.FeaturesByID#anchor", Status: Undecided, Detail: msg}}
	}
	var out []Obligation
	p := h.pkg
	info := p.TypesInfo
	for _, u := range c.units(p, true) {
		// block loops directly in this unit (not in nested literals), in source order
		var loops []*ast.RangeStmt
		inspectShallow(u.body, func(n ast.Node) bool {
			rs, ok := n.(*ast.RangeStmt)
			if !ok {
				return true
			}
			sl, ok := info.TypeOf(rs.X).Underlying().(*types.Slice)
			if ok && h.isBlockPtr(sl.Elem()) {
				loops = append(loops, rs)
			}
			return true
		})
		if len(loops) == 0 {
			continue
		}
		var g *cfg.CFG
		s := &hScan{c: c, h: h, info: info, assigns: hCollectAssigns(info, u.body)}
		ord := 0
		for _, loop := range loops {
			id, ok := loop.Value.(*ast.Ident)
			if !ok || id.Name == "_" {
				continue
			}
			x := info.ObjectOf(id)
			if x == nil {
				continue
			}
			if g == nil {
				g = newCFG(info, u.body)
			}
			// namespace tests on x inside the loop body: leaf conditions of the CFG
			type match struct {
				b     *cfg.Block
				start *cfg.Block
				cond  ast.Expr
			}
			var matches []match
			for _, b := range g.Blocks {
				if !b.Live || len(b.Nodes) == 0 || len(b.Succs) != 2 {
					continue
				}
				cond, ok := b.Nodes[len(b.Nodes)-1].(ast.Expr)
				if !ok || cond.Pos() < loop.Body.Pos() || cond.End() > loop.Body.End() {
					continue
				}
				onT, onF, leaf := s.matchEdges(cond, x)
				if onT {
					matches = append(matches, match{b, b.Succs[0], leaf})
				}
				if onF {
					matches = append(matches, match{b, b.Succs[1], leaf})
				}
			}
			if len(matches) == 0 {
				continue // a plain enumeration of blocks, no namespace-match branch
			}
			ord++
			ob := Obligation{Key: fmt.Sprintf("%s#%d", u.name, ord), Pos: c.Position(loop.Pos())}
			ob.Status = OK
			ob.Detail = fmt.Sprintf("loop over blocks %s: every exit inside the namespace-match branch (%s) is behind a successful lookup in %s", types.ExprString(loop.X), types.ExprString(matches[0].cond), id.Name)
			for _, m := range matches {
				if w := s.search(g, m.start, x, loop, nil); w != nil {
					ob.Status = Violation
					ob.Detail = fmt.Sprintf("loop over blocks %s gives up inside the namespace-match branch (%s at %s) without a successful lookup in block %s; another block with the same namespace (after Merge) is never consulted",
						types.ExprString(loop.X), types.ExprString(m.cond), c.Position(m.cond.Pos()), id.Name)
					ob.Path = append([]string{"match edge of " + c.Position(m.cond.Pos())}, w...)
					break
				}
			}
			if ob.Status == OK {
				var starts []*cfg.Block
				for _, m := range matches {
					starts = append(starts, m.start)
				}
				if w := s.rejectingGiveUp(g, u.body, starts, x, loop); w != nil {
					ob.Status = Violation
					ob.Detail = fmt.Sprintf("loop over blocks %s: %s; another block of the namespace may hold the real record (e.g. an overlay file merged before its base file), but the scan stops here", types.ExprString(loop.X), w[0])
					ob.Path = w[1:]
				} else {
					ob.Detail += "; no give-up depends on a test that rejects the found record"
				}
			}
			out = append(out, ob)
		}
	}
	return out
}

// hIsIDLookupSig: a method keyed by a uint64 id whose results tell hit from miss (a bool, or a
// nilable value).
func hIsIDLookupSig(f *types.Func) bool {
	sig, ok := f.Type().(*types.Signature)
	if !ok || sig.Params().Len() == 0 || sig.Results().Len() == 0 {
		return false
	}
	if b, ok := sig.Params().At(0).Type().Underlying().(*types.Basic); !ok || b.Kind() != types.Uint64 {
		return false
	}
	for i := 0; i < sig.Results().Len(); i++ {
		switch t := sig.Results().At(i).Type().Underlying().(type) {
		case *types.Basic:
			if t.Info()&types.IsBoolean != 0 {
				return true
			}
		case *types.Slice, *types.Pointer, *types.Interface, *types.Map:
			return true
		}
	}
	return false
}

// hFact is a leaf condition known to hold (val=true) or not to hold on a CFG edge.
type hFact struct {
	leaf ast.Expr
	val  bool
}

// hFacts lists the leaf conditions decided on the given edge of a (possibly compound)
// condition: go/cfg does not split &&, || and !, so this is done here. The true edge of A && B
// decides both, the false edge of A || B decides both, ! swaps; the other edges decide nothing.
func hFacts(e ast.Expr, edge bool) []hFact {
	e = ast.Unparen(e)
	switch v := e.(type) {
	case *ast.UnaryExpr:
		if v.Op == token.NOT {
			return hFacts(v.X, !edge)
		}
	case *ast.BinaryExpr:
		switch v.Op {
		case token.LAND:
			if edge {
				return append(hFacts(v.X, true), hFacts(v.Y, true)...)
			}
			return nil
		case token.LOR:
			if !edge {
				return append(hFacts(v.X, false), hFacts(v.Y, false)...)
			}
			return nil
		}
	}
	return []hFact{{e, edge}}
}

// successEdges: does a successful lookup in x hold on the true / on the false edge of cond.
func (s *hScan) successEdges(cond ast.Expr, x types.Object) (bool, bool) {
	on := func(edge bool) bool {
		for _, f := range hFacts(cond, edge) {
			t, fl := s.successLeaf(f.leaf, x)
			if (f.val && t) || (!f.val && fl) {
				return true
			}
		}
		return false
	}
	return on(true), on(false)
}

// matchEdges: does the namespace of block x equal the wanted one on the true / false edge.
func (s *hScan) matchEdges(cond ast.Expr, x types.Object) (onTrue, onFalse bool, leaf ast.Expr) {
	on := func(edge bool) bool {
		for _, f := range hFacts(cond, edge) {
			if op, ok := s.isNamespaceMatch(f.leaf, x); ok && (op == token.EQL) == f.val {
				leaf = f.leaf
				return true
			}
		}
		return false
	}
	onTrue = on(true)
	onFalse = on(false)
	return
}

// ---- rejecting give-ups --------------------------------------------------------------------------

func hRootIdent(e ast.Expr) *ast.Ident {
	for {
		switch v := ast.Unparen(e).(type) {
		case *ast.Ident:
			return v
		case *ast.SelectorExpr:
			e = v.X
		case *ast.IndexExpr:
			e = v.X
		case *ast.StarExpr:
			e = v.X
		case *ast.SliceExpr:
			e = v.X
		case *ast.UnaryExpr:
			if v.Op == token.AND {
				e = v.X
				continue
			}
			return nil
		default:
			return nil
		}
	}
}

func hMentions(info *types.Info, n ast.Node, set map[types.Object]bool) bool {
	found := false
	ast.Inspect(n, func(x ast.Node) bool {
		if found {
			return false
		}
		if id, ok := x.(*ast.Ident); ok {
			if obj := info.Uses[id]; obj != nil && set[obj] {
				found = true
			}
		}
		return true
	})
	return found
}

// derivedVars: variables of the function that are data-dependent on a lookup in block x.
func (s *hScan) derivedVars(body ast.Node, x types.Object) map[types.Object]bool {
	d := map[types.Object]bool{}
	for obj, as := range s.assigns {
		for _, a := range as {
			if a.call != nil && s.lookupCall(a.call, x) {
				d[obj] = true
			}
		}
	}
	mark := func(e ast.Expr) bool {
		if id := hRootIdent(e); id != nil && id.Name != "_" {
			if v, ok := s.info.ObjectOf(id).(*types.Var); ok && !v.IsField() && v != x && !d[v] {
				d[v] = true
				return true
			}
		}
		return false
	}
	for changed, iter := true, 0; changed && iter < 10; iter++ {
		changed = false
		ast.Inspect(body, func(n ast.Node) bool {
			switch v := n.(type) {
			case *ast.AssignStmt:
				dep := false
				for _, r := range v.Rhs {
					if hMentions(s.info, r, d) {
						dep = true
					}
				}
				if dep {
					for _, l := range v.Lhs {
						if mark(l) {
							changed = true
						}
					}
				}
			case *ast.ValueSpec:
				dep := false
				for _, r := range v.Values {
					if hMentions(s.info, r, d) {
						dep = true
					}
				}
				if dep {
					for _, l := range v.Names {
						if mark(l) {
							changed = true
						}
					}
				}
			case *ast.RangeStmt:
				if hMentions(s.info, v.X, d) {
					for _, e := range []ast.Expr{v.Key, v.Value} {
						if e != nil && mark(e) {
							changed = true
						}
					}
				}
			case *ast.ExprStmt:
				call, ok := v.X.(*ast.CallExpr)
				if !ok {
					return true
				}
				dep := false
				for _, a := range call.Args {
					if hMentions(s.info, a, d) {
						dep = true
					}
				}
				if !dep {
					return true
				}
				// p.Decode(..., data): the receiver now holds lookup data; so does &v passed along
				if sel, ok := ast.Unparen(call.Fun).(*ast.SelectorExpr); ok {
					if _, isPkg := s.info.ObjectOf(hRootIdentOrNil(sel.X)).(*types.PkgName); !isPkg && mark(sel.X) {
						changed = true
					}
				}
				for _, a := range call.Args {
					if u, ok := ast.Unparen(a).(*ast.UnaryExpr); ok && u.Op == token.AND && mark(u.X) {
						changed = true
					}
				}
			}
			return true
		})
	}
	return d
}

func hRootIdentOrNil(e ast.Expr) *ast.Ident {
	if id := hRootIdent(e); id != nil {
		return id
	}
	return &ast.Ident{Name: "_"}
}

// hLeaves flattens &&, || and !.
func hLeaves(e ast.Expr) []ast.Expr {
	e = ast.Unparen(e)
	switch v := e.(type) {
	case *ast.UnaryExpr:
		if v.Op == token.NOT {
			return hLeaves(v.X)
		}
	case *ast.BinaryExpr:
		if v.Op == token.LAND || v.Op == token.LOR {
			return append(hLeaves(v.X), hLeaves(v.Y)...)
		}
	}
	return []ast.Expr{e}
}

type hExit struct {
	from *cfg.Block
	to   *cfg.Block      // nil for a return
	ret  *ast.ReturnStmt // nil for an edge
	kind string          // "continue", "break", "jump", "found-return", "give-up-return"
}

func (s *hScan) rejectingGiveUp(g *cfg.CFG, body ast.Node, starts []*cfg.Block, x types.Object, loop *ast.RangeStmt) []string {
	derived := s.derivedVars(body, x)
	outer := func(e ast.Expr) bool {
		id := hRootIdent(e)
		if id == nil || id.Name == "_" {
			return false
		}
		v, ok := s.info.ObjectOf(id).(*types.Var)
		if !ok || v.IsField() || v == x {
			return false
		}
		return v.Pos() < loop.Body.Pos() || v.Pos() > loop.Body.End()
	}
	produces := func(n ast.Node) bool {
		switch v := n.(type) {
		case *ast.AssignStmt:
			if !hMentions(s.info, v, derived) {
				return false
			}
			for _, l := range v.Lhs {
				if outer(l) {
					return true
				}
			}
		case *ast.IncDecStmt:
			return outer(v.X) && hMentions(s.info, v, derived)
		case *ast.ExprStmt:
			call, ok := v.X.(*ast.CallExpr)
			if !ok || !hMentions(s.info, call, derived) {
				return false
			}
			if sel, ok := ast.Unparen(call.Fun).(*ast.SelectorExpr); ok {
				if _, isPkg := s.info.ObjectOf(hRootIdentOrNil(sel.X)).(*types.PkgName); !isPkg && outer(sel.X) {
					return true
				}
			}
			for _, a := range call.Args {
				if u, ok := ast.Unparen(a).(*ast.UnaryExpr); ok && u.Op == token.AND && outer(u.X) {
					return true
				}
			}
		}
		return false
	}

	// region: blocks of the match branch
	inLoop := func(b *cfg.Block) (region bool, kind string) {
		if b.Stmt != nil {
			if b.Stmt == ast.Stmt(loop) {
				if b.Kind == cfg.KindRangeLoop {
					return false, "continue"
				}
				if b.Kind == cfg.KindRangeDone {
					return false, "break"
				}
			} else if b.Stmt.Pos() < loop.Pos() || b.Stmt.Pos() >= loop.End() {
				return false, "jump"
			}
		}
		return true, ""
	}
	region := map[*cfg.Block]bool{}
	var order []*cfg.Block
	var work []*cfg.Block
	for _, st := range starts {
		if in, _ := inLoop(st); in && !region[st] {
			region[st] = true
			work = append(work, st)
		}
	}
	for len(work) > 0 {
		b := work[0]
		work = work[1:]
		order = append(order, b)
		for _, nb := range b.Succs {
			if in, _ := inLoop(nb); in && !region[nb] {
				region[nb] = true
				work = append(work, nb)
			}
		}
	}
	// the not-found returns: those reachable once the loop is exhausted
	var notFound []*ast.ReturnStmt
	for _, b := range g.Blocks {
		if b.Stmt == ast.Stmt(loop) && b.Kind == cfg.KindRangeDone {
			seen := map[*cfg.Block]bool{b: true}
			q := []*cfg.Block{b}
			for len(q) > 0 {
				c := q[0]
				q = q[1:]
				stop := false
				for _, n := range c.Nodes {
					if r, ok := n.(*ast.ReturnStmt); ok {
						notFound = append(notFound, r)
						stop = true
					}
				}
				if stop {
					continue
				}
				for _, nb := range c.Succs {
					if !seen[nb] && !region[nb] {
						seen[nb] = true
						q = append(q, nb)
					}
				}
			}
		}
	}
	isGiveUpReturn := func(r *ast.ReturnStmt) bool {
		if hMentions(s.info, r, derived) {
			return false
		}
		// constants that differ from a constant not-found return: the found answer
		allConst := len(r.Results) > 0
		for _, e := range r.Results {
			if tv, ok := s.info.Types[e]; !ok || tv.Value == nil {
				allConst = false
			}
		}
		if allConst {
			for _, nf := range notFound {
				if len(nf.Results) != len(r.Results) {
					continue
				}
				differs := false
				for i, e := range nf.Results {
					tv, ok := s.info.Types[e]
					if ok && tv.Value != nil && tv.Value.ExactString() != s.info.Types[r.Results[i]].Value.ExactString() {
						differs = true
					}
				}
				if differs {
					return false
				}
			}
		}
		return true
	}
	// exits and clean blocks
	var exits []hExit
	clean := map[*cfg.Block]bool{}
	for _, b := range order {
		clean[b] = true
		var ret *ast.ReturnStmt
		for _, n := range b.Nodes {
			if produces(n) {
				clean[b] = false
			}
			if r, ok := n.(*ast.ReturnStmt); ok {
				ret = r
			}
		}
		if ret != nil {
			k := "found-return"
			if isGiveUpReturn(ret) {
				k = "give-up-return"
			}
			exits = append(exits, hExit{from: b, ret: ret, kind: k})
			continue
		}
		for _, nb := range b.Succs {
			if in, kind := inLoop(nb); !in {
				exits = append(exits, hExit{from: b, to: nb, kind: kind})
			}
		}
	}
	// case comparisons of switches over lookup data
	caseTag := map[ast.Expr]ast.Expr{}
	ast.Inspect(loop.Body, func(n ast.Node) bool {
		if sw, ok := n.(*ast.SwitchStmt); ok && sw.Tag != nil && hMentions(s.info, sw.Tag, derived) {
			for _, cs := range sw.Body.List {
				for _, e := range cs.(*ast.CaseClause).List {
					caseTag[e] = sw.Tag
				}
			}
		}
		return true
	})
	recordTest := func(b *cfg.Block) (ast.Expr, bool) {
		if len(b.Succs) != 2 || len(b.Nodes) == 0 {
			return nil, false
		}
		cond, ok := b.Nodes[len(b.Nodes)-1].(ast.Expr)
		if !ok {
			return nil, false
		}
		if _, isCase := caseTag[cond]; isCase {
			return cond, true
		}
		for _, leaf := range hLeaves(cond) {
			if !hMentions(s.info, leaf, derived) {
				continue
			}
			if t, f := s.successLeaf(leaf, x); t || f {
				continue
			}
			return cond, true
		}
		return nil, false
	}
	reachFrom := func(from []*cfg.Block, pass func(*cfg.Block) bool) map[*cfg.Block]bool {
		seen := map[*cfg.Block]bool{}
		var q []*cfg.Block
		for _, b := range from {
			if region[b] && pass(b) && !seen[b] {
				seen[b] = true
				q = append(q, b)
			}
		}
		for len(q) > 0 {
			b := q[0]
			q = q[1:]
			hasRet := false
			for _, n := range b.Nodes {
				if _, ok := n.(*ast.ReturnStmt); ok {
					hasRet = true
				}
			}
			if hasRet {
				continue
			}
			for _, nb := range b.Succs {
				if region[nb] && pass(nb) && !seen[nb] {
					seen[nb] = true
					q = append(q, nb)
				}
			}
		}
		return seen
	}
	any := func(*cfg.Block) bool { return true }
	isClean := func(b *cfg.Block) bool { return clean[b] }
	cleanFromStart := reachFrom(starts, isClean)

	for gi, gu := range exits {
		if gu.kind != "break" && gu.kind != "jump" && gu.kind != "give-up-return" {
			continue
		}
		// blocks that own another exit
		other := map[*cfg.Block]bool{}
		for ei, e := range exits {
			if ei != gi {
				other[e.from] = true
			}
		}
		// avoid(n): n can reach a block owning another exit
		avoid := func(n *cfg.Block) bool {
			r := reachFrom([]*cfg.Block{n}, any)
			for b := range r {
				if other[b] {
					return true
				}
			}
			return false
		}
		reaches := func(n *cfg.Block) bool { return reachFrom([]*cfg.Block{n}, any)[gu.from] }
		for _, t := range order {
			cond, ok := recordTest(t)
			if !ok || !cleanFromStart[t] {
				continue
			}
			for ei, sc := range t.Succs {
				oth := t.Succs[1-ei]
				// every path from this edge ends in the give-up
				var must bool
				if region[sc] {
					must = reaches(sc) && !avoid(sc)
				} else {
					must = gu.to != nil && gu.from == t && gu.to == sc
				}
				if !must {
					continue
				}
				// the other edge has somewhere else to go
				var canAvoid bool
				if region[oth] {
					canAvoid = avoid(oth)
				} else {
					canAvoid = !(gu.to != nil && gu.from == t && gu.to == oth)
				}
				if !canAvoid {
					continue
				}
				// a path to the give-up on which nothing of the record was used
				if region[sc] && !reachFrom([]*cfg.Block{sc}, isClean)[gu.from] {
					continue
				}
				edge := "true"
				if ei == 1 {
					edge = "false"
				}
				what := "breaks out of the block loop"
				switch gu.kind {
				case "jump":
					what = "jumps out of the block loop to " + s.c.Position(gu.to.Stmt.Pos())
				case "give-up-return":
					what = "returns the not-found value (`" + nodeText(s.c.Fset, gu.ret) + "` at " + s.c.Position(gu.ret.Pos()) + ")"
				}
				tag := ""
				if te, isCase := caseTag[cond]; isCase {
					tag = " of switch " + types.ExprString(te)
				}
				return []string{
					fmt.Sprintf("after a successful lookup the branch %s when the found record is rejected by the test `%s`%s at %s (%s edge), without having used the record's data", what, types.ExprString(cond), tag, s.c.Position(cond.Pos()), edge),
					fmt.Sprintf("record test %s `%s`%s, %s edge", s.c.Position(cond.Pos()), types.ExprString(cond), tag, edge),
					"no statement on the way writes a result variable from the lookup data",
					"give-up: " + what,
				}
			}
		}
	}
	return nil
}
