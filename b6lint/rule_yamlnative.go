package main

import (
	"fmt"
	"go/ast"
	"go/types"
	"sort"
	"strings"
)

// YAML-NATIVE (C18): a change file stores tag values as YAML through Expression.MarshalYAML and
// reads them through Expression.UnmarshalYAML. MarshalYAML "fast-tracks" some expression types as
// native YAML scalars (an int, a float, a plain string); UnmarshalYAML sees only the native kind
// and has to rebuild the expression from it. That is lossless only if the arm of the reader for
// that native kind rebuilds exactly the type the writer fast-tracked. When the reader's arm calls a
// kind-guessing text parser (a function whose returns construct several different expression
// types depending on what the text looks like), a string that merely looks like a point, a
// feature ID or a list comes back as a different kind — unless the writer fast-tracks only text
// that the same parser maps back to the same value.
//
// Slots (by shape, root package): the type switch over the expression's dynamic type in
// (Expression).MarshalYAML whose arms return a conversion to a basic type or the result of
// String(); the type switch over the decoded interface{} in (*Expression).UnmarshalYAML. One
// obligation per fast-tracked type T (written as native kind K):
//   - the reader has an arm for K;
//   - if that arm stores a conversion T'(v): T' == T;
//   - if that arm stores the result of a module function F(v): either F constructs a single type
//     (== T), or the writer's return is guarded by a test that calls F (the round-trip guard:
//     `if back, ok := F(string(e))…; ok && back == e { return string(e), nil }`).
func init() {
	register(&Rule{
		Name:  "YAML-NATIVE",
		IR:    "ast",
		Props: []string{"C18"},
		Floor: 4, // Int, Float, String, Expressions
		Doc: "every expression type that (Expression).MarshalYAML writes as a native YAML scalar is rebuilt as the same type by the arm of (*Expression).UnmarshalYAML for that scalar kind; " +
			"where the reader goes through a kind-guessing text parser, the writer fast-tracks only text for which it has checked, with the same parser, that it reads back as the same value",
		Run: runYAMLNative,
	})
}

func runYAMLNative(c *Ctx) []Obligation {
	var out []Obligation
	p := c.Pkg("")
	if p == nil {
		return out
	}
	info := p.TypesInfo
	marshal, _ := c.LookupMethod("", "Expression", "MarshalYAML")
	unmarshal, _ := c.LookupMethod("", "Expression", "UnmarshalYAML")
	if marshal == nil || unmarshal == nil {
		return out
	}
	basicName := func(t types.Type) string {
		if b, ok := t.Underlying().(*types.Basic); ok {
			switch {
			case b.Info()&types.IsString != 0:
				return "string"
			case b.Info()&types.IsFloat != 0:
				return "float64"
			case b.Info()&types.IsInteger != 0:
				return "int"
			case b.Info()&types.IsBoolean != 0:
				return "bool"
			}
		}
		return ""
	}
	// reader arms: native kind -> how the expression is rebuilt
	type readArm struct {
		conv string      // T' of a conversion
		fn   *types.Func // module function called
		pos  string
	}
	reader := map[string]readArm{}
	ast.Inspect(unmarshal.Body, func(n ast.Node) bool {
		ts, ok := n.(*ast.TypeSwitchStmt)
		if !ok {
			return true
		}
		for _, st := range ts.Body.List {
			cc := st.(*ast.CaseClause)
			if len(cc.List) != 1 {
				continue
			}
			tv, ok := info.Types[cc.List[0]]
			if !ok || !tv.IsType() {
				continue
			}
			k := basicName(tv.Type)
			if k == "" {
				continue
			}
			arm := readArm{pos: c.Position(cc.Pos())}
			for _, s := range cc.Body {
				ast.Inspect(s, func(m ast.Node) bool {
					as, ok := m.(*ast.AssignStmt)
					if !ok || len(as.Rhs) != 1 {
						return true
					}
					rhs := ast.Unparen(as.Rhs[0])
					if sel, ok := rhs.(*ast.SelectorExpr); ok {
						rhs = ast.Unparen(sel.X) // F(v).AnyExpression
					}
					call, ok := rhs.(*ast.CallExpr)
					if !ok {
						return true
					}
					if ftv, ok := info.Types[call.Fun]; ok && ftv.IsType() {
						if nt := namedOf(ftv.Type); nt != nil {
							arm.conv = nt.Obj().Name()
						}
					} else if fn := calleeFunc(info, call); fn != nil && fn.Pkg() != nil && strings.HasPrefix(fn.Pkg().Path(), ModulePath) {
						arm.fn = fn
					}
					return true
				})
			}
			reader[k] = arm
		}
		return false
	})
	// constructors a module function can return (one level: the callees of its return statements)
	constructs := func(fn *types.Func) []string {
		fd, fp := c.Decl(fn)
		if fd == nil || fd.Body == nil {
			return nil
		}
		set := map[string]bool{}
		inspectShallow(fd.Body, func(n ast.Node) bool {
			r, ok := n.(*ast.ReturnStmt)
			if !ok || len(r.Results) != 1 {
				return true
			}
			if call, ok := ast.Unparen(r.Results[0]).(*ast.CallExpr); ok {
				if g := calleeFunc(fp.TypesInfo, call); g != nil {
					set[g.Name()] = true
					return true
				}
			}
			set[nodeText(c.Fset, r.Results[0])] = true
			return true
		})
		var names []string
		for k := range set {
			names = append(names, k)
		}
		sort.Strings(names)
		return names
	}
	// writer arms
	ast.Inspect(marshal.Body, func(n ast.Node) bool {
		ts, ok := n.(*ast.TypeSwitchStmt)
		if !ok {
			return true
		}
		for _, st := range ts.Body.List {
			cc := st.(*ast.CaseClause)
			if len(cc.List) != 1 {
				continue
			}
			tv, ok := info.Types[cc.List[0]]
			if !ok || !tv.IsType() {
				continue
			}
			nt := namedOf(tv.Type)
			if nt == nil {
				continue
			}
			T := nt.Obj().Name()
			// the fast-track return(s) of this arm
			var rets []*ast.ReturnStmt
			for _, s := range cc.Body {
				ast.Inspect(s, func(m ast.Node) bool {
					if r, ok := m.(*ast.ReturnStmt); ok && len(r.Results) == 2 {
						rets = append(rets, r)
					}
					return true
				})
			}
			for _, r := range rets {
				k := basicName(info.TypeOf(r.Results[0]))
				if k == "" {
					continue
				}
				ob := Obligation{Key: fmt.Sprintf("b6.(Expression).MarshalYAML#%s", T), Pos: c.Position(r.Pos()), Status: OK}
				arm, has := reader[k]
				switch {
				case !has:
					ob.Status = Violation
					ob.Detail = fmt.Sprintf("%s is written as a native YAML %s, but UnmarshalYAML has no arm for a %s", T, k, k)
				case arm.conv != "":
					if arm.conv != T {
						ob.Status = Violation
						ob.Detail = fmt.Sprintf("%s is written as a native YAML %s, but the reader's arm at %s rebuilds a %s", T, k, arm.pos, arm.conv)
					} else {
						ob.Detail = fmt.Sprintf("%s is written as a native YAML %s and rebuilt by the conversion %s(v) at %s", T, k, arm.conv, arm.pos)
					}
				case arm.fn != nil:
					cs := constructs(arm.fn)
					guarded := false
					path := enclosing(marshal.Body, r)
					for i, a := range path {
						is, ok := a.(*ast.IfStmt)
						if !ok || i+1 >= len(path) || path[i+1] != ast.Node(is.Body) {
							continue
						}
						for _, part := range []ast.Node{is.Init, is.Cond} {
							if part == nil {
								continue
							}
							ast.Inspect(part, func(m ast.Node) bool {
								if call, ok := m.(*ast.CallExpr); ok {
									if g := calleeFunc(info, call); g != nil && g == arm.fn {
										guarded = true
									}
								}
								return true
							})
						}
					}
					switch {
					case len(cs) <= 1:
						ob.Detail = fmt.Sprintf("%s is written as a native YAML %s and read back through %s, which builds one kind only (%v)", T, k, arm.fn.Name(), cs)
					case guarded:
						ob.Detail = fmt.Sprintf("%s is written as a native YAML %s only after checking with %s (the reader's parser) that the text reads back as the same value", T, k, arm.fn.Name())
					default:
						ob.Status = Violation
						ob.Detail = fmt.Sprintf("%s is written as a native YAML %s, but a %s is read back (arm at %s) through %s, which guesses the kind from the text (it returns %s): a value whose text looks like another kind changes type in a change file",
							T, k, k, arm.pos, arm.fn.Name(), strings.Join(cs, ", "))
					}
				default:
					ob.Status = Undecided
					ob.Detail = fmt.Sprintf("%s is written as a native YAML %s; the reader's arm at %s was not understood", T, k, arm.pos)
				}
				out = append(out, ob)
			}
		}
		return false
	})
	return out
}
