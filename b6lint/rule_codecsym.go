package main

import (
	"fmt"
	"go/ast"
	"go/token"
	"go/types"
	"sort"
	"strings"

	"golang.org/x/tools/go/packages"
)

// CODEC-SYM (C11). Slots: every named non-interface type of ingest/compact and encoding that has a
// method Marshal<S> and a method Unmarshal<S> (same suffix S, both with a []byte buffer
// parameter). One instance per such pair, keyed by the Marshal method.
//
// From each side the rule extracts the ordered list of *sub-codec calls on fields*:
//
//   - a call of a method named Marshal*/Unmarshal* (by side) declared in the two packages (also
//     through an interface) whose receiver expression is a path rooted at the method's receiver:
//     x.F, x.F.G, (*x)[j], a range value variable over such a path, or a local variable of a codec
//     type (a local that is afterwards appended to a receiver path, `*m = append(*m, Member{ID: id})`,
//     stands for that element path `[*].ID`; a local that is never stored is `$Type`);
//   - a call of a package-level function Marshal*/Unmarshal* of the two packages that takes such
//     a path as an argument (Marshal side) or is assigned to one (Unmarshal side:
//     `a.Polygons, n = UnmarshalAreaGeometry(...)`, `p.Token, i = UnmarshalString(buffer)`).
//     Function calls with no relation to a receiver field (header varints such as
//     MarshalGeometryEncodingAndLength) are primitive writes and not part of the list.
//
// A Marshal*/Unmarshal* method call on the receiver itself (delegation, e.g. Unmarshal ->
// UnmarshalWithoutLength) is replaced by the callee's own list with arguments substituted.
// The list keeps control structure: loops are loop{...}; the arms of an if/switch form an
// unordered set alt{...|...} (so swapping arms together with the condition is not a difference).
//
// The primary of a call is the tuple of its arguments that are neither the buffer, nor plain
// integers (counts), nor the field itself, in canonical form: constants by value, package-level
// objects by identity, parameters of the two methods by (type, ordinal among parameters of that
// type), the receiver as itself.
//
// Obligation: both lists have the same fields in the same order and structure, and equal primaries.
func init() {
	register(&Rule{
		Name:  "CODEC-SYM",
		IR:    "ast",
		Props: []string{"C11"},
		Floor: 33,
		Doc: "for every named type of ingest/compact and encoding with a Marshal<S>/Unmarshal<S> method pair, the ordered lists of sub-codec calls on receiver fields " +
			"(field path, primary-namespace arguments; delegation to the receiver's own Marshal*/Unmarshal* methods inlined) are the same on both sides: " +
			"same fields, same order, same loop/branch structure, structurally equal primary expressions (identifiers resolved to objects, constants by value)",
		Run: runCodecSym,
	})
}

type bCodecItem struct {
	kind    string // "call", "alt", "loop"
	path    string
	primary string // canonical
	pretty  string // source text of the primary
	pos     string
	alts    [][]bCodecItem
	body    []bCodecItem
}

func bCodecRender(items []bCodecItem) string {
	var parts []string
	for _, it := range items {
		switch it.kind {
		case "call":
			parts = append(parts, fmt.Sprintf("%s<%s>", it.path, it.primary))
		case "loop":
			parts = append(parts, "loop{"+bCodecRender(it.body)+"}")
		case "alt":
			var as []string
			for _, a := range it.alts {
				as = append(as, bCodecRender(a))
			}
			sort.Strings(as)
			parts = append(parts, "alt{"+strings.Join(as, "|")+"}")
		}
	}
	return strings.Join(parts, ";")
}

func bCodecFlat(items []bCodecItem, out *[]bCodecItem) {
	for _, it := range items {
		switch it.kind {
		case "call":
			*out = append(*out, it)
		case "loop":
			bCodecFlat(it.body, out)
		case "alt":
			// deterministic: arms in the canonical (sorted) order
			arms := append([][]bCodecItem(nil), it.alts...)
			sort.SliceStable(arms, func(i, j int) bool { return bCodecRender(arms[i]) < bCodecRender(arms[j]) })
			for _, a := range arms {
				bCodecFlat(a, out)
			}
		}
	}
}

func bCodecEmpty(items []bCodecItem) bool { return len(items) == 0 }

type bCodecExtractor struct {
	c         *Ctx
	pkg       *packages.Package
	info      *types.Info
	side      string // "Marshal" or "Unmarshal"
	self      *types.Named
	undecided []string
}

type bCodecEnv struct {
	fd      *ast.FuncDecl
	recv    types.Object
	subst   map[types.Object]string // parameter object -> canonical text
	rangeOf map[types.Object]ast.Expr
	depth   int
	// inlined delegation: parameter object -> argument expression, evaluated lazily in parent
	args   map[types.Object]ast.Expr
	parent *bCodecEnv
}

func (x *bCodecExtractor) note(format string, args ...interface{}) {
	x.undecided = append(x.undecided, fmt.Sprintf(format, args...))
}

// topEnv builds the environment of the paired method itself: parameters are named by type and ordinal.
func (x *bCodecExtractor) topEnv(fd *ast.FuncDecl) *bCodecEnv {
	env := &bCodecEnv{fd: fd, recv: bRecvObj(x.info, fd), subst: map[types.Object]string{}, rangeOf: map[types.Object]ast.Expr{}}
	count := map[string]int{}
	for _, f := range fd.Type.Params.List {
		for _, n := range f.Names {
			obj := x.info.Defs[n]
			if obj == nil {
				continue
			}
			ts := types.TypeString(obj.Type(), nil)
			env.subst[obj] = fmt.Sprintf("param(%s#%d)", ts, count[ts])
			count[ts]++
		}
		if len(f.Names) == 0 {
			ts := types.TypeString(x.info.TypeOf(f.Type), nil)
			count[ts]++
		}
	}
	return env
}

func (x *bCodecExtractor) pathOf(e ast.Expr, env *bCodecEnv) (string, bool) {
	switch e := ast.Unparen(e).(type) {
	case *ast.Ident:
		obj := x.info.ObjectOf(e)
		if obj == nil {
			return "", false
		}
		if obj == env.recv {
			return "", true
		}
		if r, ok := env.rangeOf[obj]; ok {
			p, ok := x.pathOf(r, env)
			if !ok {
				return "", false
			}
			return p + "[*]", true
		}
		v, ok := obj.(*types.Var)
		if !ok || v.IsField() || obj.Parent() == nil || obj.Parent() == obj.Pkg().Scope() {
			return "", false
		}
		if _, isParam := env.subst[obj]; isParam {
			return "", false
		}
		if _, isParam := env.args[obj]; isParam {
			return "", false
		}
		n := namedOf(obj.Type())
		if n == nil || !bInCodecPkg(n.Obj()) {
			return "", false
		}
		if dest, ok := x.appendDest(obj, env); ok {
			return dest, true
		}
		return "$" + n.Obj().Name(), true
	case *ast.StarExpr:
		return x.pathOf(e.X, env)
	case *ast.UnaryExpr:
		return x.pathOf(e.X, env)
	case *ast.SliceExpr:
		return x.pathOf(e.X, env)
	case *ast.IndexExpr:
		p, ok := x.pathOf(e.X, env)
		if !ok {
			return "", false
		}
		return p + "[*]", true
	case *ast.SelectorExpr:
		sel := x.info.Selections[e]
		if sel == nil || sel.Kind() != types.FieldVal {
			return "", false
		}
		p, ok := x.pathOf(e.X, env)
		if !ok {
			return "", false
		}
		if p == "" {
			return e.Sel.Name, true
		}
		return p + "." + e.Sel.Name, true
	}
	return "", false
}

// appendDest: where a local codec value ends up: X = append(X, local) or X = append(X, T{K: local}).
func (x *bCodecExtractor) appendDest(obj types.Object, env *bCodecEnv) (string, bool) {
	dest, found := "", false
	ast.Inspect(env.fd.Body, func(n ast.Node) bool {
		if found {
			return false
		}
		call, ok := n.(*ast.CallExpr)
		if !ok || !isBuiltin(x.info, call, "append") || len(call.Args) < 2 {
			return true
		}
		for _, a := range call.Args[1:] {
			a = ast.Unparen(a)
			if u, ok := a.(*ast.UnaryExpr); ok {
				a = ast.Unparen(u.X)
			}
			suffix := ""
			hit := false
			switch a := a.(type) {
			case *ast.Ident:
				hit = x.info.ObjectOf(a) == obj
			case *ast.CompositeLit:
				for _, el := range a.Elts {
					kv, ok := el.(*ast.KeyValueExpr)
					if !ok {
						continue
					}
					if id, ok := ast.Unparen(kv.Value).(*ast.Ident); ok && x.info.ObjectOf(id) == obj {
						if k, ok := kv.Key.(*ast.Ident); ok {
							hit, suffix = true, "."+k.Name
						}
					}
				}
			}
			if hit {
				if p, ok := x.pathOf(call.Args[0], env); ok {
					dest, found = p+"[*]"+suffix, true
					return false
				}
			}
		}
		return true
	})
	return dest, found
}

// canon renders an expression canonically in env.
func (x *bCodecExtractor) canon(e ast.Expr, env *bCodecEnv) string {
	e = ast.Unparen(e)
	if tv, ok := x.info.Types[e]; ok && tv.Value != nil {
		return "const(" + tv.Value.ExactString() + ":" + types.TypeString(tv.Type, nil) + ")"
	}
	switch e := e.(type) {
	case *ast.Ident:
		obj := x.info.ObjectOf(e)
		if obj == nil {
			return "?" + e.Name
		}
		if s, ok := env.subst[obj]; ok {
			return s
		}
		if a, ok := env.args[obj]; ok {
			return x.canon(a, env.parent)
		}
		if obj == env.recv {
			return "recv"
		}
		if obj.Pkg() != nil && obj.Parent() == obj.Pkg().Scope() {
			return "obj(" + obj.Pkg().Path() + "." + obj.Name() + ")"
		}
		if obj.Parent() == types.Universe {
			return "universe(" + obj.Name() + ")"
		}
		if r, ok := env.rangeOf[obj]; ok {
			return "elem(" + x.canon(r, env) + ")"
		}
		if def := x.singleDef(obj, env); def != nil {
			return x.canon(def, env)
		}
		x.note("%s: primary expression uses local variable %s that has no single defining expression", x.c.Position(e.Pos()), e.Name)
		return "?local(" + e.Name + ")"
	case *ast.SelectorExpr:
		if id, ok := e.X.(*ast.Ident); ok {
			if _, isPkg := x.info.ObjectOf(id).(*types.PkgName); isPkg {
				obj := x.info.ObjectOf(e.Sel)
				if obj != nil && obj.Pkg() != nil {
					return "obj(" + obj.Pkg().Path() + "." + obj.Name() + ")"
				}
			}
		}
		return x.canon(e.X, env) + "." + e.Sel.Name
	case *ast.CallExpr:
		var args []string
		for _, a := range e.Args {
			args = append(args, x.canon(a, env))
		}
		if tv, ok := x.info.Types[e.Fun]; ok && tv.IsType() {
			return "conv(" + types.TypeString(tv.Type, nil) + ";" + strings.Join(args, ",") + ")"
		}
		if id, ok := ast.Unparen(e.Fun).(*ast.Ident); ok {
			if b, ok := x.info.Uses[id].(*types.Builtin); ok {
				return "builtin(" + b.Name() + ";" + strings.Join(args, ",") + ")"
			}
		}
		if f := calleeFunc(x.info, e); f != nil {
			recv := ""
			if sig, ok := f.Type().(*types.Signature); ok && sig.Recv() != nil {
				if se, ok := ast.Unparen(e.Fun).(*ast.SelectorExpr); ok {
					recv = x.canon(se.X, env)
				}
			}
			return "call(" + f.FullName() + ";" + recv + ";" + strings.Join(args, ",") + ")"
		}
		return "dyncall(" + x.canon(e.Fun, env) + ";" + strings.Join(args, ",") + ")"
	case *ast.IndexExpr:
		return x.canon(e.X, env) + "[" + x.canon(e.Index, env) + "]"
	case *ast.StarExpr:
		return "*" + x.canon(e.X, env)
	case *ast.UnaryExpr:
		return e.Op.String() + x.canon(e.X, env)
	case *ast.BinaryExpr:
		return "(" + x.canon(e.X, env) + e.Op.String() + x.canon(e.Y, env) + ")"
	}
	return "expr(" + types.ExprString(e) + ")"
}

// singleDef returns the only expression ever assigned to a local variable, if there is exactly one.
func (x *bCodecExtractor) singleDef(obj types.Object, env *bCodecEnv) ast.Expr {
	var defs []ast.Expr
	multi := false
	ast.Inspect(env.fd.Body, func(n ast.Node) bool {
		switch n := n.(type) {
		case *ast.AssignStmt:
			for i, l := range n.Lhs {
				id, ok := l.(*ast.Ident)
				if !ok || x.info.ObjectOf(id) != obj {
					continue
				}
				if len(n.Lhs) == len(n.Rhs) && (n.Tok == token.DEFINE || n.Tok == token.ASSIGN) {
					defs = append(defs, n.Rhs[i])
				} else {
					multi = true
				}
			}
		case *ast.IncDecStmt:
			if id, ok := n.X.(*ast.Ident); ok && x.info.ObjectOf(id) == obj {
				multi = true
			}
		case *ast.ValueSpec:
			for i, id := range n.Names {
				if x.info.Defs[id] == obj {
					if i < len(n.Values) {
						defs = append(defs, n.Values[i])
					} else {
						multi = true
					}
				}
			}
		}
		return true
	})
	if multi || len(defs) != 1 {
		return nil
	}
	return defs[0]
}

func (x *bCodecExtractor) isSideName(name string) bool { return bProperPrefix(name, x.side) }

// call classifies one call expression; lhs are the assignment targets when the call is the only
// right-hand side of an assignment.
func (x *bCodecExtractor) call(call *ast.CallExpr, lhs []ast.Expr, env *bCodecEnv) []bCodecItem {
	f := calleeFunc(x.info, call)
	if f == nil || !bInCodecPkg(f) || !x.isSideName(f.Name()) {
		return nil
	}
	sig, ok := f.Type().(*types.Signature)
	if !ok || !bHasBufferParam(sig) {
		return nil
	}
	var pathArg ast.Expr
	path, okPath := "", false
	if sig.Recv() != nil {
		se, ok := ast.Unparen(call.Fun).(*ast.SelectorExpr)
		if !ok {
			return nil
		}
		path, okPath = x.pathOf(se.X, env)
		if !okPath {
			x.note("%s: %s is called on %s, which is not a path rooted at the receiver", x.c.Position(call.Pos()), f.Name(), types.ExprString(se.X))
			return nil
		}
		// delegation to a method of the receiver's own type: inline
		if path == "" && x.self != nil && namedOf(sig.Recv().Type()) == x.self {
			return x.inline(f, call, env)
		}
	} else {
		for _, cand := range append(append([]ast.Expr(nil), lhs...), call.Args...) {
			if p, ok := x.pathOf(cand, env); ok {
				path, okPath, pathArg = p, true, cand
				break
			}
		}
		if !okPath {
			return nil // primitive header read/write, no field involved
		}
	}
	var prim, pretty []string
	for _, a := range call.Args {
		t := x.info.TypeOf(a)
		if t == nil || bIsPlainByteSlice(t) || bUnnamedInteger(t) || a == pathArg {
			continue
		}
		if sig.Recv() == nil {
			if _, ok := x.pathOf(a, env); ok {
				continue
			}
		}
		prim = append(prim, x.canon(a, env))
		pretty = append(pretty, x.prettyExpr(a, env))
	}
	return []bCodecItem{{kind: "call", path: path, primary: strings.Join(prim, ","), pretty: strings.Join(pretty, ", "), pos: x.c.Position(call.Pos())}}
}

func (x *bCodecExtractor) prettyExpr(e ast.Expr, env *bCodecEnv) string {
	s := types.ExprString(e)
	if env.depth > 0 {
		s += " [in " + env.fd.Name.Name + "]"
	}
	return s
}

func (x *bCodecExtractor) inline(f *types.Func, call *ast.CallExpr, env *bCodecEnv) []bCodecItem {
	fd, p := x.c.Decl(f)
	if fd == nil || fd.Body == nil || p != x.pkg {
		x.note("%s: delegation to %s cannot be inlined (no body)", x.c.Position(call.Pos()), f.Name())
		return nil
	}
	if env.depth >= 4 {
		x.note("%s: delegation deeper than 4 levels", x.c.Position(call.Pos()))
		return nil
	}
	sub := &bCodecEnv{fd: fd, recv: bRecvObj(x.info, fd), subst: map[types.Object]string{}, rangeOf: map[types.Object]ast.Expr{}, depth: env.depth + 1, args: map[types.Object]ast.Expr{}, parent: env}
	i := 0
	for _, fl := range fd.Type.Params.List {
		for _, n := range fl.Names {
			if i < len(call.Args) {
				if obj := x.info.Defs[n]; obj != nil {
					sub.args[obj] = call.Args[i]
				}
			}
			i++
		}
		if len(fl.Names) == 0 {
			i++
		}
	}
	return x.block(fd.Body.List, sub)
}

// exprItems collects the sub-codec calls inside an expression or simple statement, in source order.
func (x *bCodecExtractor) exprItems(n ast.Node, env *bCodecEnv) []bCodecItem {
	if n == nil {
		return nil
	}
	var out []bCodecItem
	var lhs []ast.Expr
	var only *ast.CallExpr
	if as, ok := n.(*ast.AssignStmt); ok && len(as.Rhs) == 1 {
		if c, ok := ast.Unparen(as.Rhs[0]).(*ast.CallExpr); ok {
			lhs, only = as.Lhs, c
		}
	}
	inspectShallow(n, func(m ast.Node) bool {
		if c, ok := m.(*ast.CallExpr); ok {
			if c == only {
				out = append(out, x.call(c, lhs, env)...)
			} else {
				out = append(out, x.call(c, nil, env)...)
			}
		}
		return true
	})
	return out
}

func (x *bCodecExtractor) block(list []ast.Stmt, env *bCodecEnv) []bCodecItem {
	var out []bCodecItem
	for _, s := range list {
		out = append(out, x.stmt(s, env)...)
	}
	return out
}

func bAltItem(alts [][]bCodecItem) []bCodecItem {
	for _, a := range alts {
		if !bCodecEmpty(a) {
			return []bCodecItem{{kind: "alt", alts: alts}}
		}
	}
	return nil
}

func (x *bCodecExtractor) stmt(s ast.Stmt, env *bCodecEnv) []bCodecItem {
	switch s := s.(type) {
	case nil:
		return nil
	case *ast.BlockStmt:
		return x.block(s.List, env)
	case *ast.LabeledStmt:
		return x.stmt(s.Stmt, env)
	case *ast.IfStmt:
		out := x.stmt(s.Init, env)
		out = append(out, x.exprItems(s.Cond, env)...)
		alts := [][]bCodecItem{x.block(s.Body.List, env), x.stmt(s.Else, env)}
		return append(out, bAltItem(alts)...)
	case *ast.SwitchStmt:
		out := x.stmt(s.Init, env)
		out = append(out, x.exprItems(s.Tag, env)...)
		return append(out, bAltItem(x.clauses(s.Body, env))...)
	case *ast.TypeSwitchStmt:
		out := x.stmt(s.Init, env)
		out = append(out, x.stmt(s.Assign, env)...)
		return append(out, bAltItem(x.clauses(s.Body, env))...)
	case *ast.ForStmt:
		out := x.stmt(s.Init, env)
		body := x.exprItems(s.Cond, env)
		body = append(body, x.block(s.Body.List, env)...)
		body = append(body, x.stmt(s.Post, env)...)
		if !bCodecEmpty(body) {
			out = append(out, bCodecItem{kind: "loop", body: body})
		}
		return out
	case *ast.RangeStmt:
		out := x.exprItems(s.X, env)
		if id, ok := s.Value.(*ast.Ident); ok {
			if obj := x.info.ObjectOf(id); obj != nil {
				env.rangeOf[obj] = s.X
			}
		}
		body := x.block(s.Body.List, env)
		if !bCodecEmpty(body) {
			out = append(out, bCodecItem{kind: "loop", body: body})
		}
		return out
	case *ast.SelectStmt, *ast.GoStmt, *ast.DeferStmt:
		if len(x.exprItems(s, env)) > 0 {
			x.note("%s: sub-codec call inside select/go/defer", x.c.Position(s.Pos()))
		}
		return nil
	default:
		return x.exprItems(s, env)
	}
}

func (x *bCodecExtractor) clauses(body *ast.BlockStmt, env *bCodecEnv) [][]bCodecItem {
	var alts [][]bCodecItem
	hasDefault := false
	for _, cl := range body.List {
		cc, ok := cl.(*ast.CaseClause)
		if !ok {
			continue
		}
		if cc.List == nil {
			hasDefault = true
		}
		var arm []bCodecItem
		for _, e := range cc.List {
			arm = append(arm, x.exprItems(e, env)...)
		}
		arm = append(arm, x.block(cc.Body, env)...)
		alts = append(alts, arm)
	}
	if !hasDefault {
		alts = append(alts, nil)
	}
	return alts
}

func bCodecDescribe(items []bCodecItem) string {
	var flat []bCodecItem
	bCodecFlat(items, &flat)
	if len(flat) == 0 {
		return "(no sub-codec calls)"
	}
	var ps []string
	for _, it := range flat {
		p := it.path
		if p == "" {
			p = "(self)"
		}
		if it.pretty != "" {
			p += "<" + it.pretty + ">"
		}
		ps = append(ps, p)
	}
	return strings.Join(ps, ", ")
}

func runCodecSym(c *Ctx) []Obligation {
	var out []Obligation
	for _, p := range bCodecPkgs(c) {
		scope := p.Types.Scope()
		names := scope.Names()
		sort.Strings(names)
		for _, name := range names {
			tn, ok := scope.Lookup(name).(*types.TypeName)
			if !ok || tn.IsAlias() {
				continue
			}
			named, ok := tn.Type().(*types.Named)
			if !ok {
				continue
			}
			if _, isIface := named.Underlying().(*types.Interface); isIface {
				continue
			}
			methods := map[string]*types.Func{}
			var mnames []string
			for i := 0; i < named.NumMethods(); i++ {
				m := named.Method(i)
				sig := m.Type().(*types.Signature)
				if !bHasBufferParam(sig) {
					continue
				}
				methods[m.Name()] = m
				mnames = append(mnames, m.Name())
			}
			sort.Strings(mnames)
			for _, mn := range mnames {
				if !bProperPrefix(mn, "Marshal") {
					continue
				}
				un, ok := methods["Unmarshal"+strings.TrimPrefix(mn, "Marshal")]
				if !ok {
					continue
				}
				mfd, mp := c.Decl(methods[mn])
				ufd, up := c.Decl(un)
				if mfd == nil || ufd == nil || mfd.Body == nil || ufd.Body == nil || mp != p || up != p {
					continue
				}
				if f := bFileOf(p, mfd); f != nil && c.IsGenerated(f) {
					continue
				}
				ob := Obligation{Key: c.FuncName(p, mfd), Pos: c.Position(mfd.Pos())}
				mx := &bCodecExtractor{c: c, pkg: p, info: p.TypesInfo, side: "Marshal", self: named}
				ux := &bCodecExtractor{c: c, pkg: p, info: p.TypesInfo, side: "Unmarshal", self: named}
				ml := mx.block(mfd.Body.List, mx.topEnv(mfd))
				ul := ux.block(ufd.Body.List, ux.topEnv(ufd))
				var mflat, uflat []bCodecItem
				bCodecFlat(ml, &mflat)
				bCodecFlat(ul, &uflat)
				und := append(append([]string(nil), mx.undecided...), ux.undecided...)
				switch {
				case len(und) > 0:
					ob.Status = Undecided
					ob.Detail = fmt.Sprintf("%s.%s/%s: %s", name, mn, un.Name(), strings.Join(und, "; "))
				case bCodecRender(ml) == bCodecRender(ul):
					ob.Status = OK
					ob.Detail = fmt.Sprintf("%s.%s and %s agree: %s", name, mn, un.Name(), bCodecDescribe(ml))
				default:
					ob.Status = Violation
					ob.Detail = fmt.Sprintf("%s.%s and %s (%s) disagree: ", name, mn, un.Name(), c.Position(ufd.Pos())) + bCodecDiff(mflat, uflat, ml, ul)
					ob.Path = []string{mn + " side: " + bCodecDescribe(ml), un.Name() + " side: " + bCodecDescribe(ul)}
				}
				out = append(out, ob)
			}
		}
	}
	return out
}

func bFileOf(p *packages.Package, n ast.Node) *ast.File {
	for _, f := range p.Syntax {
		if f.Pos() <= n.Pos() && n.End() <= f.End() {
			return f
		}
	}
	return nil
}

func bCodecDiff(m, u []bCodecItem, ml, ul []bCodecItem) string {
	show := func(p string) string {
		if p == "" {
			return "(self)"
		}
		return p
	}
	for i := 0; i < len(m) && i < len(u); i++ {
		if m[i].path != u[i].path {
			return fmt.Sprintf("sub-codec call #%d is on field %s when writing (%s) but on field %s when reading (%s)", i+1, show(m[i].path), m[i].pos, show(u[i].path), u[i].pos)
		}
		if m[i].primary != u[i].primary {
			return fmt.Sprintf("field %s is written with primary %s (%s) but read with primary %s (%s)", show(m[i].path), m[i].pretty, m[i].pos, u[i].pretty, u[i].pos)
		}
	}
	if len(m) > len(u) {
		return fmt.Sprintf("field %s is written (%s) but never read", show(m[len(u)].path), m[len(u)].pos)
	}
	if len(u) > len(m) {
		return fmt.Sprintf("field %s is read (%s) but never written", show(u[len(m)].path), u[len(m)].pos)
	}
	return fmt.Sprintf("same sub-codec calls but different loop/branch structure: %s vs %s", bCodecRender(ml), bCodecRender(ul))
}
