package main

import (
	"fmt"
	"go/ast"
	"go/token"
	"go/types"
	"sort"

	"golang.org/x/tools/go/cfg"
)

// MERGE-DEDUP (C03, C17): a k-way merge returns each feature once by stepping, after it has
// yielded an ID, every source that is positioned on that ID. The loop that does this changes
// the head of the heap (advancing the top source, heap.Fix, heap.Pop of an exhausted source);
// after each such change the new head may again carry the ID just returned. The loop may
// therefore only be left after the new head was looked at: a `break` straight after
// heap.Pop returns the feature a second time when its other copy is in another source.
//
// Subjects: the iterator types returned by the approved mergers of MERGE-ORDERED
// (b6.MergeFeatures, ingest.newOverlayFeatures; the type is read from the composite literal
// the merger returns). In the type's Next method the skip-duplicates loop is a for statement
// that contains a call into container/heap and is preceded by `cur := <...>.FeatureID()`
// (a local of type b6.FeatureID defined before the loop and not assigned inside it).
// A merger type without such a loop gets an info line (overlayFeatures merges two sides with an
// explicit `overlayID == baseID` branch and has no heap).
//
// Instances: every head modification inside the loop, in source order — a call of
// container/heap.Fix/Pop/Push/Remove/Init, a call of a method named Next on an element of
// the heap, and a direct edit of the heap's storage (h[i] = ..., h = h[a:b]; whether such an
// edit keeps the heap order is decided by HEAP-DISCIPLINE, not here). Obligation (go/cfg, from just after the modification): every path meets, before
// it leaves the loop (break, return) —
//   - a condition that compares against cur with == or != (any edge of it may leave), or
//   - the empty edge of a condition that only tests the heap's length against 0, or
//   - another head modification (which has its own instance).
//
// Going round the loop is allowed. Accepted idioms: the test at the bottom of a `for {}`
// (today), the test as the loop condition, `len(h) == 0 || h[0].FeatureID() != cur` in one
// condition. Not covered: that the comparison looks at the new head (h[0]) rather than at
// something else; sources that yield the same ID twice themselves.
func init() {
	register(&Rule{
		Name:  "MERGE-DEDUP",
		IR:    "cfg",
		Props: []string{"C03", "C17"},
		Floor: 3, // mergedFeatures.Next: element Next(), heap.Fix, heap.Pop
		Doc: "in the skip-duplicates loop of a heap merger's Next, every way out of the loop after a head modification (element Next, heap.Fix, " +
			"heap.Pop) passes a comparison with the ID just returned, or the empty edge of the heap's emptiness test",
		Run: runMergeDedup,
	})
}

func runMergeDedup(c *Ctx) []Obligation {
	root := c.Pkg("")
	if root == nil {
		return nil
	}
	var featureID *types.Named
	if tn, ok := root.Types.Scope().Lookup("FeatureID").(*types.TypeName); ok {
		featureID, _ = tn.Type().(*types.Named)
	}
	if featureID == nil {
		return nil
	}
	var mergers []*types.Func
	if f, ok := root.Types.Scope().Lookup("MergeFeatures").(*types.Func); ok {
		mergers = append(mergers, f)
	}
	if ip := c.Pkg("ingest"); ip != nil {
		if f, ok := ip.Types.Scope().Lookup("newOverlayFeatures").(*types.Func); ok {
			mergers = append(mergers, f)
		}
	}
	var out []Obligation
	for _, mf := range mergers {
		fd, p := c.Decl(mf)
		if fd == nil || fd.Body == nil {
			continue
		}
		info := p.TypesInfo
		var iter *types.Named
		inspectShallow(fd.Body, func(n ast.Node) bool {
			if rs, ok := n.(*ast.ReturnStmt); ok && len(rs.Results) == 1 {
				e := ast.Unparen(rs.Results[0])
				if ue, ok := e.(*ast.UnaryExpr); ok && ue.Op == token.AND {
					e = ast.Unparen(ue.X)
				}
				if cl, ok := e.(*ast.CompositeLit); ok {
					iter = namedOf(info.TypeOf(cl))
				}
			}
			return true
		})
		if iter == nil {
			continue
		}
		next := gMethod(iter, "Next")
		nd, np := c.Decl(next)
		if next == nil || nd == nil || nd.Body == nil {
			continue
		}
		ninfo := np.TypesInfo
		name := c.FuncName(np, nd)
		isHeapCall := func(call *ast.CallExpr) bool {
			f := calleeFunc(ninfo, call)
			return f != nil && f.Pkg() != nil && f.Pkg().Path() == "container/heap"
		}
		// loops containing heap calls
		var loops []*ast.ForStmt
		inspectShallow(nd.Body, func(n ast.Node) bool {
			if fs, ok := n.(*ast.ForStmt); ok && gContainsCall(fs.Body, isHeapCall) {
				loops = append(loops, fs)
			}
			return true
		})
		// cur := X.FeatureID() before the loop, not assigned inside it
		type skip struct {
			loop *ast.ForStmt
			cur  types.Object
		}
		var skips []skip
		for _, fs := range loops {
			var cur types.Object
			inspectShallow(nd.Body, func(n ast.Node) bool {
				as, ok := n.(*ast.AssignStmt)
				if !ok || as.End() > fs.Pos() || len(as.Lhs) != 1 || len(as.Rhs) != 1 {
					return true
				}
				id, ok := as.Lhs[0].(*ast.Ident)
				if !ok {
					return true
				}
				obj := ninfo.ObjectOf(id)
				if obj == nil || namedOf(obj.Type()) != featureID {
					return true
				}
				if _, isCall := ast.Unparen(as.Rhs[0]).(*ast.CallExpr); !isCall {
					return true
				}
				// the definition must enclose the loop's scope: same or outer block
				encl := enclosing(nd.Body, fs)
				for _, e := range encl {
					if blk, ok := e.(*ast.BlockStmt); ok {
						for _, st := range blk.List {
							if st == ast.Stmt(as) {
								cur = obj
							}
						}
					}
				}
				return true
			})
			if cur == nil {
				continue
			}
			assignedInside := false
			inspectShallow(fs.Body, func(n ast.Node) bool {
				if gAssigns(ninfo, n, cur) {
					assignedInside = true
				}
				return true
			})
			if !assignedInside {
				skips = append(skips, skip{fs, cur})
			}
		}
		if len(skips) == 0 {
			out = append(out, Obligation{Key: name + "#no-skip-loop", Pos: c.Position(nd.Pos()), Status: Info,
				Detail: fmt.Sprintf("%s (iterator of merger %s) has no heap-based skip-duplicates loop; de-duplication has another shape and is not decided by this rule", name, mf.Name())})
			continue
		}
		g := newCFG(ninfo, nd.Body)
		ord := 0
		for _, sk := range skips {
			// the heap expression: first argument of the heap calls (through &)
			var heapExpr ast.Expr
			inspectShallow(sk.loop.Body, func(n ast.Node) bool {
				if call, ok := n.(*ast.CallExpr); ok && isHeapCall(call) && len(call.Args) > 0 && heapExpr == nil {
					e := ast.Unparen(call.Args[0])
					if ue, ok := e.(*ast.UnaryExpr); ok && ue.Op == token.AND {
						e = ast.Unparen(ue.X)
					}
					heapExpr = e
				}
				return true
			})
			isElementNext := func(call *ast.CallExpr) bool {
				se, ok := ast.Unparen(call.Fun).(*ast.SelectorExpr)
				if !ok || se.Sel.Name != "Next" || len(call.Args) != 0 || heapExpr == nil {
					return false
				}
				ix, ok := ast.Unparen(se.X).(*ast.IndexExpr)
				return ok && sameExpr(ninfo, ix.X, heapExpr)
			}
			isMod := func(call *ast.CallExpr) bool { return isHeapCall(call) || isElementNext(call) }
			// a direct edit of the heap's storage (h[i] = ..., h = h[a:b]) changes the head as well;
			// whether it keeps the heap order is HEAP-DISCIPLINE's question, here it only counts as
			// one more modification after which the head must be looked at again
			isDirectEdit := func(n ast.Node) bool {
				as, ok := n.(*ast.AssignStmt)
				if !ok || heapExpr == nil || as.Tok == token.DEFINE {
					return false
				}
				for _, l := range as.Lhs {
					l = ast.Unparen(l)
					if ix, ok := l.(*ast.IndexExpr); ok && sameExpr(ninfo, ix.X, heapExpr) {
						return true
					}
					if sameExpr(ninfo, l, heapExpr) {
						return true
					}
				}
				return false
			}
			var mods []ast.Node
			inspectShallow(sk.loop.Body, func(n ast.Node) bool {
				if call, ok := n.(*ast.CallExpr); ok && isMod(call) {
					mods = append(mods, call)
				}
				if isDirectEdit(n) {
					mods = append(mods, n)
				}
				return true
			})
			sort.Slice(mods, func(i, j int) bool { return mods[i].Pos() < mods[j].Pos() })
			mentionsCur := func(n ast.Node) bool {
				found := false
				inspectShallow(n, func(x ast.Node) bool {
					if be, ok := x.(*ast.BinaryExpr); ok && (be.Op == token.EQL || be.Op == token.NEQ) {
						for _, side := range []ast.Expr{be.X, be.Y} {
							if id, ok := ast.Unparen(side).(*ast.Ident); ok && ninfo.ObjectOf(id) == sk.cur {
								found = true
							}
						}
					}
					return true
				})
				return found
			}
			// emptiness-only condition: len(heap) OP 0 -> successor index on which the heap is empty
			emptyEdge := func(b *cfg.Block) (int, bool) {
				cond, ok := gCondOf(b).(ast.Expr)
				if !ok || heapExpr == nil {
					return 0, false
				}
				be, ok := ast.Unparen(cond).(*ast.BinaryExpr)
				if !ok {
					return 0, false
				}
				isLen := func(e ast.Expr) bool {
					call, ok := ast.Unparen(e).(*ast.CallExpr)
					if !ok || len(call.Args) != 1 {
						return false
					}
					if isBuiltin(ninfo, call, "len") {
						return sameExpr(ninfo, call.Args[0], heapExpr)
					}
					return false
				}
				isZero := func(e ast.Expr) bool {
					tv, ok := ninfo.Types[ast.Unparen(e)]
					return ok && tv.Value != nil && tv.Value.String() == "0"
				}
				op, l, r := be.Op, be.X, be.Y
				if isZero(l) && isLen(r) {
					l, r = r, l
					switch op {
					case token.LSS:
						op = token.GTR
					case token.GTR:
						op = token.LSS
					}
				}
				if !isLen(l) || !isZero(r) {
					return 0, false
				}
				switch op {
				case token.EQL:
					return 0, true
				case token.NEQ, token.GTR:
					return 1, true
				}
				return 0, false
			}
			_, _, done := gLoopBlocks(g, sk.loop)
			for _, mod := range mods {
				ord++
				ob := Obligation{Key: gNthKey(name, ord), Pos: c.Position(mod.Pos())}
				loc, ok := findNode(g, mod)
				if !ok {
					ob.Status, ob.Detail = Undecided, "head modification not found in the control-flow graph"
					out = append(out, ob)
					continue
				}
				modText := nodeText(c.Fset, mod)
				// the node holding the modification may itself be a condition that also compares cur
				startsWithTest := mentionsCur(loc.b.Nodes[loc.i])
				s := &gSearch{c: c, info: ninfo, exitBad: true,
					stopNode: func(n ast.Node) bool {
						return mentionsCur(n) || gContainsCall(n, isMod) || isDirectEdit(n)
					},
					stopEdge: func(b *cfg.Block, k int) bool {
						z, ok := emptyEdge(b)
						return ok && z == k
					},
					badBlock: func(b *cfg.Block) string {
						if b == done || !gInside(b, sk.loop) {
							return fmt.Sprintf("leaves the skip-duplicates loop at %s without comparing the new head with %s", c.Position(sk.loop.Pos()), sk.cur.Name())
						}
						return ""
					}}
				var w []string
				if !startsWithTest {
					w = s.forward(loc.b, loc.i+1)
				}
				if w != nil {
					ob.Status = Violation
					ob.Detail = fmt.Sprintf("%s: after %s at %s the loop that skips sources positioned on %s can be left without looking at the new head; a feature that is also the head of another source is returned twice", name, modText, c.Position(mod.Pos()), sk.cur.Name())
					ob.Path = append([]string{"head modified at " + c.Position(mod.Pos()) + ": " + modText}, w...)
				} else {
					ob.Status = OK
					ob.Detail = fmt.Sprintf("after %s every way out of the loop passes a comparison with %s or the empty-heap edge", modText, sk.cur.Name())
				}
				out = append(out, ob)
			}
		}
	}
	return out
}
