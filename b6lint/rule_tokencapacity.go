package main

import (
	"fmt"
	"go/ast"
	"go/constant"
	"go/token"
	"go/types"
	"sort"

	"golang.org/x/tools/go/cfg"
	"golang.org/x/tools/go/packages"
)

// TOKEN-CAPACITY (C28; C25 for api/functions.(*mapParallelCollection).run): worker -> owner
// channels (error / token / cancel / result channels).
//
// Slots (discovered by shape and type in every module package, the slot construction is
// PRODUCER's): a function declaration P that starts goroutines (`go`, errgroup.Group.Go) and
// creates a channel with make(chan ..) - of any element type, struct{} included - on which a
// body that runs on one of those goroutines (the goroutine body itself, or a closure / module
// function it calls, followed as in PRODUCER) sends, while no goroutine body of the slot
// receives from it: the receiver is P's own synchronous code, or nobody. (Channels that
// goroutines receive from are the data channels of PRODUCER; channels P did not create - its
// parameters, struct fields - belong to whoever created them.)
//
// Obligation per send site: the send cannot block for ever once the owner has stopped
// receiving (left its dispatch loop, returned, is waiting in wg.Wait()). Accepted idioms:
//
//	(a) capacity covers every worker: the channel is buffered, every body that sends on it is
//	    started in one place, the capacity expression is the same expression as the number of
//	    goroutines started there (`for i := 0; i < N; i++ { go w(i) }`, `for i := range N`,
//	    `for .. range xs` with capacity len(xs), a start outside any loop counts 1; constants
//	    compare by value, other expressions by sameExpr with no assignment to their variables
//	    between the make and the end of the starting loop), and each worker sends at most once:
//	    from the send no send on the channel is reachable again in the same body.
//	(b) the send is a select case with a default case, or with receives from cancellation
//	    sources (`<-ctx.Done()`, a struct{} channel other than this one) each of whose cases
//	    leaves: no send on the channel reachable afterwards.
//	(c) the owner drains until the workers are done: P ranges over the channel in its own body
//	    and leaves that loop only when the channel is closed, and the close sits in a goroutine
//	    body after a Wait() (sync.WaitGroup / errgroup) as an earlier sibling statement.
//
// A constant capacity under a non-constant number of workers (`make(chan struct{}, 1)` with
// `goroutines` workers), an unbuffered channel, or a worker that can send twice is a violation;
// capacity and worker count that are different non-constant expressions are undecided.
//
// Obligations are raised for pools owned by functions of encoding, ingest, ingest/compact, osm
// (C28) and api/functions.(*mapParallelCollection).run (C25); other pools are info.
func init() {
	register(&Rule{
		Name:  "TOKEN-CAPACITY",
		IR:    "cfg",
		Props: []string{"C28", "C25"}, // every obligation names its own property
		Floor: 1,                      // encoding.(*Uint64Map).EachItem#1 (cancel <- struct{}{})
		// today the shape does not occur in mapParallelCollection.run (its workers send only on the
		// field family out, which PRODUCER and CLOSE-ALL cover)
		FloorBy: map[string]int{"C28": 1, "C25": 0},
		Doc: "in a goroutine worker pool, a send that a worker goroutine performs on a channel the pool owner created and only the owner (or nobody) receives from cannot block for ever: " +
			"the channel's capacity is the number of workers started and each worker sends at most once, or the send is a select case with default / a leaving cancellation case, " +
			"or the owner ranges over the channel until it is closed after the workers' Wait()",
		Run: runTokenCapacity,
	})
}

// aCount is the number of goroutines one start site creates.
type aCount struct {
	expr    ast.Expr // N, or X of len(X) when lenOf
	lenOf   bool
	one     bool // started outside any loop
	unknown string
	loop    ast.Stmt
}

// aStartCount reads the number of goroutines started by the statement `start` of unit u.
func aStartCount(u *aUnit, start ast.Node) aCount {
	info := u.info()
	chain := aChain(u.body, start)
	var loops []ast.Stmt
	for _, n := range chain {
		switch s := n.(type) {
		case *ast.ForStmt:
			loops = append(loops, s)
		case *ast.RangeStmt:
			loops = append(loops, s)
		}
	}
	switch len(loops) {
	case 0:
		return aCount{one: true}
	case 1:
	default:
		return aCount{unknown: "the goroutines are started inside nested loops"}
	}
	switch s := loops[0].(type) {
	case *ast.RangeStmt:
		t := info.TypeOf(s.X)
		if t == nil {
			break
		}
		switch x := t.Underlying().(type) {
		case *types.Basic:
			if x.Info()&types.IsInteger != 0 {
				return aCount{expr: s.X, loop: s}
			}
		case *types.Slice, *types.Array, *types.Map:
			return aCount{expr: s.X, lenOf: true, loop: s}
		case *types.Pointer:
			if _, ok := x.Elem().Underlying().(*types.Array); ok {
				return aCount{expr: s.X, lenOf: true, loop: s}
			}
		}
		return aCount{unknown: "the goroutines are started in a range loop over " + types.ExprString(s.X)}
	case *ast.ForStmt:
		// for i := 0; i < N; i++
		as, ok := s.Init.(*ast.AssignStmt)
		if !ok || len(as.Lhs) != 1 || len(as.Rhs) != 1 {
			break
		}
		if tv, ok := info.Types[as.Rhs[0]]; !ok || tv.Value == nil || constant.Sign(tv.Value) != 0 {
			break
		}
		key := aObjOf(info, as.Lhs[0])
		cond, ok := s.Cond.(*ast.BinaryExpr)
		if !ok || key == nil || cond.Op != token.LSS || aObjOf(info, cond.X) != key {
			break
		}
		inc, ok := s.Post.(*ast.IncDecStmt)
		if !ok || inc.Tok != token.INC || aObjOf(info, inc.X) != key {
			break
		}
		if call, ok := ast.Unparen(cond.Y).(*ast.CallExpr); ok && isBuiltin(info, call, "len") && len(call.Args) == 1 {
			return aCount{expr: call.Args[0], lenOf: true, loop: s}
		}
		return aCount{expr: cond.Y, loop: s}
	}
	return aCount{unknown: "the loop that starts the goroutines is not of the form `for i := 0; i < N; i++` or `for .. range N`"}
}

func aConstInt(info *types.Info, e ast.Expr) (int64, bool) {
	if e == nil {
		return 0, false
	}
	if tv, ok := info.Types[e]; ok && tv.Value != nil {
		if v := constant.ToInt(tv.Value); v.Kind() == constant.Int {
			n, exact := constant.Int64Val(v)
			return n, exact
		}
	}
	return 0, false
}

// aIdentObjs collects the variables an expression mentions.
func aIdentObjs(info *types.Info, e ast.Expr) map[types.Object]bool {
	m := map[types.Object]bool{}
	ast.Inspect(e, func(n ast.Node) bool {
		if id, ok := n.(*ast.Ident); ok {
			if v, ok := info.ObjectOf(id).(*types.Var); ok {
				m[v] = true
			}
		}
		return true
	})
	return m
}

type aTokSend struct {
	unit *aUnit
	stmt *ast.SendStmt
	root types.Object
}

type aTokOb struct {
	declName string
	pos      token.Pos
	ob       Obligation
	rank     int
}

func runTokenCapacity(c *Ctx) []Obligation {
	var found []aTokOb
	for _, p := range c.SortedPkgs() {
		for _, fd := range c.FuncDecls(p) {
			if !aStartsGoroutines(p.TypesInfo, fd) {
				continue
			}
			found = append(found, aTokenPool(c, p, fd)...)
		}
	}
	byDecl := map[string][]aTokOb{}
	for _, f := range found {
		byDecl[f.declName] = append(byDecl[f.declName], f)
	}
	var out []Obligation
	for _, name := range sortedKeys(byDecl) {
		list := byDecl[name]
		sort.SliceStable(list, func(i, j int) bool { return list[i].pos < list[j].pos })
		ord := 0
		for i := 0; i < len(list); {
			j := i
			best := list[i]
			for ; j < len(list) && list[j].pos == list[i].pos; j++ {
				if list[j].rank > best.rank {
					best = list[j]
				}
			}
			ord++
			best.ob.Key = fmt.Sprintf("%s#%d", name, ord)
			out = append(out, best.ob)
			i = j
		}
	}
	return out
}

// aTokenPool analyses the worker->owner channels of one declaration.
func aTokenPool(c *Ctx, p *packages.Package, fd *ast.FuncDecl) []aTokOb {
	a, _, _ := aPoolOps(c, p, fd)
	owner := c.FuncName(p, fd)

	// goroutine start sites: target unit -> (starting unit, statement)
	type start struct {
		unit *aUnit
		node ast.Node
	}
	starts := map[*aUnit][]start{}
	for _, u := range append([]*aUnit(nil), a.units...) {
		info := u.info()
		aShallow(u.body, func(n ast.Node) bool {
			switch s := n.(type) {
			case *ast.GoStmt:
				for _, t := range a.targets(u, s.Call, 3) {
					starts[t] = append(starts[t], start{u, s})
				}
			case *ast.CallExpr:
				if f := calleeFunc(info, s); (aIsGroupMethod(f, "Go") || aIsGroupMethod(f, "TryGo")) && len(s.Args) == 1 {
					var t *aUnit
					switch x := ast.Unparen(s.Args[0]).(type) {
					case *ast.FuncLit:
						t = aUnitOfLit(a.units, x)
					case *ast.Ident:
						t = a.litOfVar[info.ObjectOf(x)]
					}
					if t != nil {
						starts[t] = append(starts[t], start{u, s})
					}
				}
			}
			return true
		})
	}
	// bodies that run on a started goroutine: the goroutine bodies and what they call
	runsOn := map[*aUnit]*aUnit{} // unit -> the goroutine body it runs under
	var work []*aUnit
	for _, u := range a.units {
		if len(starts[u]) > 0 {
			runsOn[u] = u
			work = append(work, u)
		}
	}
	sort.SliceStable(work, func(i, j int) bool { return work[i].pos() < work[j].pos() })
	for len(work) > 0 {
		u := work[0]
		work = work[1:]
		var calls []*ast.CallExpr
		goCalls := map[*ast.CallExpr]bool{}
		aShallow(u.body, func(n ast.Node) bool {
			switch s := n.(type) {
			case *ast.GoStmt:
				goCalls[s.Call] = true
			case *ast.CallExpr:
				calls = append(calls, s)
			}
			return true
		})
		for _, call := range calls {
			if goCalls[call] {
				continue
			}
			if f := calleeFunc(u.info(), call); aIsGroupMethod(f, "Go") || aIsGroupMethod(f, "TryGo") {
				continue
			}
			for _, t := range a.targets(u, call, 3) {
				if runsOn[t] == nil {
					runsOn[t] = runsOn[u]
					work = append(work, t)
				}
			}
		}
	}

	// channel operations of every element type
	var sends []aTokSend
	recvOnGo := map[types.Object]bool{}
	type ownerRecv struct {
		unit *aUnit
		node ast.Node
	}
	ownerRecvs := map[types.Object][]ownerRecv{}
	closes := map[types.Object][]start{} // close(C) statements: unit + ExprStmt
	for _, u := range a.units {
		info := u.info()
		noteRecv := func(x ast.Expr, node ast.Node) {
			if aChanType(info.TypeOf(x)) == nil {
				return
			}
			root := a.find(aRootObj(info, x))
			if root == nil {
				return
			}
			if runsOn[u] != nil {
				recvOnGo[root] = true
			} else {
				ownerRecvs[root] = append(ownerRecvs[root], ownerRecv{u, node})
			}
		}
		aShallow(u.body, func(n ast.Node) bool {
			switch s := n.(type) {
			case *ast.SendStmt:
				if aChanType(info.TypeOf(s.Chan)) != nil && runsOn[u] != nil {
					sends = append(sends, aTokSend{u, s, a.find(aRootObj(info, s.Chan))})
				}
			case *ast.UnaryExpr:
				if s.Op == token.ARROW {
					noteRecv(s.X, s)
				}
			case *ast.RangeStmt:
				noteRecv(s.X, s)
			case *ast.ExprStmt:
				if call, ok := s.X.(*ast.CallExpr); ok && isBuiltin(info, call, "close") && len(call.Args) == 1 {
					if root := a.find(aRootObj(info, call.Args[0])); root != nil {
						closes[root] = append(closes[root], start{u, s})
					}
				}
			}
			return true
		})
	}
	if len(sends) == 0 {
		return nil
	}
	sort.SliceStable(sends, func(i, j int) bool { return sends[i].stmt.Pos() < sends[j].stmt.Pos() })

	// channels P creates: family -> make call (in P's own bodies)
	type made struct {
		call *ast.CallExpr
		unit *aUnit
		n    int
	}
	makes := map[types.Object]*made{}
	for _, u := range a.own {
		info := u.info()
		note := func(lhs ast.Expr, rhs ast.Expr) {
			call, ok := ast.Unparen(rhs).(*ast.CallExpr)
			if !ok || !isBuiltin(info, call, "make") || len(call.Args) == 0 || aChanType(info.TypeOf(call)) == nil {
				return
			}
			root := a.find(aRootObj(info, lhs))
			if v, isVar := root.(*types.Var); !isVar || v.IsField() {
				return
			}
			if m := makes[root]; m != nil {
				m.n++
				return
			}
			makes[root] = &made{call: call, unit: u, n: 1}
		}
		aShallow(u.body, func(n ast.Node) bool {
			switch s := n.(type) {
			case *ast.AssignStmt:
				if len(s.Lhs) == len(s.Rhs) {
					for i := range s.Rhs {
						note(s.Lhs[i], s.Rhs[i])
					}
				}
			case *ast.ValueSpec:
				if len(s.Names) == len(s.Values) {
					for i := range s.Values {
						note(s.Names[i], s.Values[i])
					}
				}
			}
			return true
		})
	}
	foreign := map[types.Object]bool{}
	for _, v := range a.own[0].params() {
		if v != nil && aChanFamily(v.Type()) != nil {
			foreign[a.find(v)] = true
		}
	}

	rel := relPkg(p)
	var props []string
	anchored := false
	switch {
	case aC28Packages[rel]:
		anchored, props = true, []string{"C28"}
	case aIsMapParallelRun(p, fd):
		anchored, props = true, []string{"C25"}
	}

	var out []aTokOb
	for _, s := range sends {
		if s.root == nil || foreign[s.root] || recvOnGo[s.root] {
			continue // unresolvable sends and data channels are PRODUCER's subjects
		}
		mk := makes[s.root]
		if mk == nil {
			continue // not created by P
		}
		info := s.unit.info()
		chText := types.ExprString(s.stmt.Chan)
		ob := Obligation{Pos: c.Position(s.stmt.Pos()), Props: props}
		emit := func(status, detail string, path []string) {
			ob.Status, ob.Detail, ob.Path = status, detail, path
			if !anchored && status != Info {
				ob.Status = Info
				ob.Detail = "pool outside the anchors of C25/C28, not an obligation; the analysis says " + status + ": " + detail
			}
			if len(ob.Props) == 0 {
				ob.Props = []string{"C28"}
			}
			out = append(out, aTokOb{declName: c.FuncName(s.unit.pkg, s.unit.decl), pos: s.stmt.Pos(), ob: ob, rank: aStatusRank(ob.Status)})
		}
		sameChan := func(n ast.Node) string {
			if ss, ok := n.(*ast.SendStmt); ok && a.find(aRootObj(info, ss.Chan)) == s.root {
				return "sends on " + chText + " again"
			}
			return ""
		}
		head := fmt.Sprintf("worker send on %s (created at %s) in pool %s", chText, c.Position(mk.call.Pos()), owner)

		// (b) select with default, or with cancellation cases that leave
		chain := aChain(s.unit.body, s.stmt)
		if len(chain) >= 4 {
			if cc, ok := chain[len(chain)-2].(*ast.CommClause); ok && cc.Comm == ast.Stmt(s.stmt) {
				if sel, ok := chain[len(chain)-4].(*ast.SelectStmt); ok {
					hasDefault := false
					var cancels []*ast.CommClause
					for _, x := range sel.Body.List {
						oc := x.(*ast.CommClause)
						if oc == cc {
							continue
						}
						if oc.Comm == nil {
							hasDefault = true
							continue
						}
						if ue, _ := aRecvOperand(oc.Comm); ue != nil && aIsCancelRecvExpr(info, ue.X) && a.find(aRootObj(info, ue.X)) != s.root {
							cancels = append(cancels, oc)
						}
					}
					if hasDefault {
						emit(OK, head+" is a select case with a default case and never blocks", nil)
						continue
					}
					if len(cancels) > 0 {
						g := s.unit.cfg()
						var witness []string
						var at *ast.CommClause
						for _, oc := range cancels {
							b := aBlockOf(g, cfg.KindSelectCaseBody, oc)
							if b == nil {
								continue
							}
							fl := &aFlow{c: c, info: info, ctxErrNonNil: true, tagless: aTagless(s.unit.body), bad: sameChan}
							if w := fl.run(b, 0, nil); w != nil {
								witness, at = w, oc
								break
							}
						}
						if witness == nil {
							emit(OK, head+" is a select case next to a cancellation receive whose case leaves", nil)
							continue
						}
						emit(Violation, fmt.Sprintf("%s: the cancellation case at %s does not leave - the send is reachable again after it", head, c.Position(at.Pos())), witness)
						continue
					}
				}
			}
		}

		// (c) the owner ranges over the channel until close, close after Wait() in a goroutine
		drained := false
		for _, r := range ownerRecvs[s.root] {
			rs, ok := r.node.(*ast.RangeStmt)
			if !ok {
				continue
			}
			early := false
			for _, e := range a.exits(aRecv{r.unit, rs, s.root}, s.root) {
				if e.benign != "close" { // an exit on the received value stops draining just the same
					early = true
				}
			}
			if early {
				continue
			}
			for _, cl := range closes[s.root] {
				if runsOn[cl.unit] == nil {
					continue
				}
				cinfo := cl.unit.info()
				cchain := aChain(cl.unit.body, cl.node)
				for i := 0; i+1 < len(cchain) && !drained; i++ {
					for _, st := range aStmtList(cchain[i]) {
						if ast.Node(st) == cchain[i+1] {
							break
						}
						if es, ok := st.(*ast.ExprStmt); ok {
							if call, ok := es.X.(*ast.CallExpr); ok {
								f := calleeFunc(cinfo, call)
								if aIsGroupMethod(f, "Wait") || aIsWaitGroupWait(f) {
									drained = true
								}
							}
						}
					}
				}
			}
		}
		if drained {
			emit(OK, head+": the owner ranges over the channel until it is closed, and it is closed on a goroutine after the workers' Wait()", nil)
			continue
		}

		// (a) capacity == number of workers, each sends at most once
		if mk.n > 1 {
			emit(Undecided, head+": the channel variable is assigned more than one make(chan ..)", nil)
			continue
		}
		var capExpr ast.Expr
		if len(mk.call.Args) >= 2 {
			capExpr = mk.call.Args[1]
		}
		after := "the owner has stopped receiving (it left its loop, or is in Wait())"
		if len(ownerRecvs[s.root]) == 0 {
			after = "nobody receives from the channel"
		}
		if capExpr == nil {
			emit(Violation, fmt.Sprintf("%s: the channel is unbuffered, so the worker blocks for ever once %s", head, after), nil)
			continue
		}
		// the goroutine bodies that send on this family
		bodies := map[*aUnit]bool{}
		for _, t := range sends {
			if t.root == s.root {
				bodies[runsOn[t.unit]] = true
			}
		}
		var counts []aCount
		var startUnit *aUnit
		nStarts := 0
		var bodyList []*aUnit
		for b := range bodies {
			bodyList = append(bodyList, b)
		}
		sort.SliceStable(bodyList, func(i, j int) bool { return bodyList[i].pos() < bodyList[j].pos() })
		for _, b := range bodyList {
			for _, st := range starts[b] {
				nStarts++
				startUnit = st.unit
				counts = append(counts, aStartCount(st.unit, st.node))
			}
		}
		// at most one send per worker
		loc, okLoc := findNode(s.unit.cfg(), s.stmt)
		if !okLoc {
			emit(Undecided, head+": send not found in the control-flow graph", nil)
			continue
		}
		once := &aFlow{c: c, info: info, tagless: aTagless(s.unit.body), bad: sameChan}
		if w := once.run(loc.b, loc.i+1, nil); w != nil {
			emit(Violation, fmt.Sprintf("%s: a worker can send more than once, so no capacity tied to the number of workers is enough once %s", head, after), w)
			continue
		}
		if s.unit != runsOn[s.unit] {
			emit(Undecided, head+": the send is in a function the worker calls; how often the worker calls it is not decided", nil)
			continue
		}
		capVal, capConst := aConstInt(mk.unit.info(), capExpr)
		capText := types.ExprString(capExpr)
		// total number of workers
		total := int64(0)
		allConst := true
		var unknown string
		for _, ct := range counts {
			switch {
			case ct.unknown != "":
				unknown = ct.unknown
				allConst = false
			case ct.one:
				total++
			default:
				if v, ok := aConstInt(startUnit.info(), ct.expr); ok && !ct.lenOf {
					total += v
				} else {
					allConst = false
				}
			}
		}
		if unknown != "" {
			emit(Undecided, fmt.Sprintf("%s: capacity %s, but %s", head, capText, unknown), nil)
			continue
		}
		if allConst {
			if capConst && capVal >= total {
				emit(OK, fmt.Sprintf("%s: capacity %s holds one send of each of the %d worker(s), and a worker sends at most once", head, capText, total), nil)
			} else if capConst {
				emit(Violation, fmt.Sprintf("%s: capacity %s is less than the %d workers that can each send once; a worker blocks for ever once %s", head, capText, total, after), nil)
			} else {
				emit(Undecided, fmt.Sprintf("%s: capacity %s is not a constant while the number of workers is %d", head, capText, total), nil)
			}
			continue
		}
		if nStarts != 1 {
			emit(Undecided, fmt.Sprintf("%s: the workers are started at %d places with non-constant counts", head, nStarts), nil)
			continue
		}
		ct := counts[0]
		nText := types.ExprString(ct.expr)
		if ct.lenOf {
			nText = "len(" + nText + ")"
		}
		if capConst {
			emit(Violation, fmt.Sprintf("%s: capacity %s is a constant but %s workers are started (at %s) and each can send once: with more failing workers than capacity plus what the owner still receives, a worker blocks for ever (holding whatever it holds, never reaching its Done()) once %s",
				head, capText, nText, c.Position(ct.loop.Pos()), after), nil)
			continue
		}
		same := false
		if ct.lenOf {
			if call, ok := ast.Unparen(capExpr).(*ast.CallExpr); ok && isBuiltin(mk.unit.info(), call, "len") && len(call.Args) == 1 {
				same = sameExpr(info, call.Args[0], ct.expr)
			}
		} else {
			same = sameExpr(info, capExpr, ct.expr)
		}
		if !same {
			emit(Undecided, fmt.Sprintf("%s: capacity %s and the number of workers %s are different expressions", head, capText, nText), nil)
			continue
		}
		// no assignment to the variables of the expression between the make and the end of the loop
		vars := aIdentObjs(mk.unit.info(), capExpr)
		var reassigned ast.Node
		if mk.unit == startUnit {
			lo, hi := mk.call.End(), ct.loop.End()
			if lo > hi {
				lo, hi = ct.loop.Pos(), mk.call.Pos()
			}
			aShallow(mk.unit.body, func(n ast.Node) bool {
				check := func(e ast.Expr) {
					if o := aObjOf(mk.unit.info(), e); o != nil && vars[o] && e.Pos() > lo && e.Pos() < hi && reassigned == nil {
						reassigned = n
					}
				}
				switch x := n.(type) {
				case *ast.AssignStmt:
					if x.Tok != token.DEFINE {
						for _, l := range x.Lhs {
							check(l)
						}
					}
				case *ast.IncDecStmt:
					check(x.X)
				case *ast.UnaryExpr:
					if x.Op == token.AND {
						check(x.X)
					}
				}
				return true
			})
		} else {
			emit(Undecided, head+": the channel is made and the workers are started in different function bodies", nil)
			continue
		}
		if reassigned != nil {
			emit(Undecided, fmt.Sprintf("%s: %s is assigned at %s between the make and the loop that starts the workers", head, capText, c.Position(reassigned.Pos())), nil)
			continue
		}
		emit(OK, fmt.Sprintf("%s: capacity %s is the number of workers started at %s, and a worker sends at most once", head, capText, c.Position(ct.loop.Pos())), nil)
	}
	return out
}

func aIsWaitGroupWait(f *types.Func) bool {
	if f == nil || f.Name() != "Wait" {
		return false
	}
	sig, ok := f.Type().(*types.Signature)
	return ok && sig.Recv() != nil && isNamed(sig.Recv().Type(), "sync", "WaitGroup")
}
