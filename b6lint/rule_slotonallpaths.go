package main

import (
	"fmt"
	"go/ast"
	"go/types"

	"golang.org/x/tools/go/cfg"
)

// STORED-OBJECT (C38): when a feature is replaced, the world keeps its own object (the existing
// one, merged, or a clone of the caller's) and everything that follows — the reference index, the
// search index — has to be fed that object, not the value the caller passed in: the method records
// it in its work list (`m.features[0] = stored`) before it goes on. If one branch (the feature
// already exists) forgets the assignment, by-ID reads stay right, but the search index holds the
// caller's pointer for every token the replacement adds, and a later edit of the caller's value
// shows through search results.
//
// Subjects, by shape (package ingest): methods that assign a constant-index element of a slice
// field of their receiver (`recv.F[0] = …`) and afterwards call other methods on the receiver.
// Obligation (control-flow graph): every path from the entry to the first such call passes an
// assignment to that element.
func init() {
	register(&Rule{
		Name:  "STORED-OBJECT",
		IR:    "cfg",
		Props: []string{"C38"},
		Floor: 1,
		Doc:   "a method that replaces the first entry of its receiver's work list with the world's own object does so on every path before it hands the list to the indexing steps: no branch lets the caller's value through",
		Run:   runStoredObject,
	})
}

func runStoredObject(c *Ctx) []Obligation {
	var out []Obligation
	p := c.Pkg("ingest")
	if p == nil {
		return out
	}
	info := p.TypesInfo
	for _, fd := range c.FuncDecls(p) {
		recv := gRecvObj(info, fd)
		if recv == nil || fd.Body == nil {
			continue
		}
		// assignments recv.F[k] = … (k constant)
		var assigns []*ast.AssignStmt
		var field types.Object
		ast.Inspect(fd.Body, func(n ast.Node) bool {
			as, ok := n.(*ast.AssignStmt)
			if !ok {
				return true
			}
			for _, l := range as.Lhs {
				ix, ok := ast.Unparen(l).(*ast.IndexExpr)
				if !ok {
					continue
				}
				if tv := info.Types[ix.Index]; tv.Value == nil {
					continue
				}
				sel, ok := ast.Unparen(ix.X).(*ast.SelectorExpr)
				if !ok {
					continue
				}
				if x, ok := ast.Unparen(sel.X).(*ast.Ident); !ok || info.Uses[x] != recv {
					continue
				}
				if _, isSlice := info.TypeOf(sel).Underlying().(*types.Slice); !isSlice {
					continue
				}
				assigns = append(assigns, as)
				field = info.Selections[sel].Obj()
			}
			return true
		})
		if len(assigns) == 0 {
			continue
		}
		// the first call of a method on the receiver after the first assignment (in source order)
		var after *ast.CallExpr
		ast.Inspect(fd.Body, func(n ast.Node) bool {
			call, ok := n.(*ast.CallExpr)
			if !ok || after != nil {
				return true
			}
			sel, ok := ast.Unparen(call.Fun).(*ast.SelectorExpr)
			if !ok {
				return true
			}
			if x, ok := ast.Unparen(sel.X).(*ast.Ident); ok && info.Uses[x] == recv && call.Pos() > assigns[len(assigns)-1].End() {
				if _, isM := info.Uses[sel.Sel].(*types.Func); isM {
					after = call
				}
			}
			return true
		})
		if after == nil {
			continue
		}
		g := newCFG(info, fd.Body)
		target, ok := findNode(g, after)
		ob := Obligation{Key: c.FuncName(p, fd), Pos: c.Position(after.Pos()), Status: OK,
			Detail: fmt.Sprintf("every path to %s has assigned %s[…] the stored object", srcText(c.Fset, after.Fun), field.Name())}
		if !ok {
			ob.Status = Undecided
			ob.Detail = "the call was not found in the control-flow graph"
			out = append(out, ob)
			continue
		}
		isAssign := func(n ast.Node) bool {
			found := false
			ast.Inspect(n, func(k ast.Node) bool {
				for _, a := range assigns {
					if k == ast.Node(a) {
						found = true
					}
				}
				return true
			})
			return found
		}
		seen := map[int32]bool{}
		var walk func(b *cfg.Block, from int) bool // reaches target without an assignment
		walk = func(b *cfg.Block, from int) bool {
			for i := from; i < len(b.Nodes); i++ {
				if b == target.b && i == target.i {
					return true
				}
				if isAssign(b.Nodes[i]) {
					return false
				}
			}
			for _, s := range b.Succs {
				if seen[s.Index] {
					continue
				}
				seen[s.Index] = true
				if walk(s, 0) {
					return true
				}
			}
			return false
		}
		if len(g.Blocks) > 0 && walk(g.Blocks[0], 0) {
			ob.Status = Violation
			ob.Detail = fmt.Sprintf("a path reaches %s without having assigned %s[…]: on it the list still holds the value the caller passed in, and the indexing steps that follow record the caller's object, not the world's", srcText(c.Fset, after), field.Name())
		}
		out = append(out, ob)
	}
	return out
}
