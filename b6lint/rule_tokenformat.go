package main

import (
	"fmt"
	"go/ast"
	"go/constant"
	"go/types"
	"sort"
	"strings"
)

// TOKEN-FORMAT (C03): the index side (b6.TokenForTag) and the query side (the Compile methods
// of b6.Tagged and b6.Keyed) must spell search tokens from the same constant pieces. Both
// sides are reduced to normalised structures — for each key-prefix guard a list of constant
// pieces and classified variable pieces, read out of string concatenations and fmt.Sprintf
// formats (%s / %v only), with constants folded by value — and the structures are compared;
// no source text is compared.
//
// Variable pieces (S is the receiver or a parameter of the function):
//
//	<key-tail>   S.Key[1:]           (a string field named Key, sliced from constant 1, no upper bound)
//	<value>      S.Value.String()    (method String of a field named Value)
//
// Guards: the token expression sits in the then-branch of `if strings.HasPrefix(S.Key, "<p>")`
// (else-if chains included) or in a `case strings.HasPrefix(S.Key, "<p>"):` clause of a
// tagless switch; the callee is resolved through types. A token expression under no such
// guard, or under two, is undecided.
//
// Index side: each `return <token>, true` of TokenForTag gives index[p].
// Query side: each composite literal, in Tagged.Compile / Keyed.Compile, of
//
//	search.All{Token: E}          requires pieces(E) == index[p]                    (exact token)
//	search.TokenPrefix{Prefix: E} requires index[p] == pieces(E) ++ <rest>, pieces(E) ending in a
//	                              non-empty constant (the separator) and <rest> non-empty (the value)
//
// where p is the literal's guard; p must be an indexed prefix. Any other literal of a struct
// type of package search with a string field inside those methods is undecided.
// Instances: one per indexed prefix of TokenForTag, one per query-side literal. An indexed
// prefix for which a Compile method has no arm is a violation: the tags are searchable but the query
// returns nothing (Tagged used to have no `@` arm; it now searches by the key token and filters by value).
//
// Not covered: tokens built elsewhere (spatial tokens are TOKEN-TOTALITY), the semantics of
// Value.String(), callers that bypass TokenForTag.
func init() {
	register(&Rule{
		Name:  "TOKEN-FORMAT",
		IR:    "ast",
		Props: []string{"C03"},
		Floor: 5, // TokenForTag #, @; Tagged.Compile #; Keyed.Compile #, @
		Doc: "b6.TokenForTag (index side) and Tagged.Compile / Keyed.Compile (query side) build tokens from the same normalised pieces " +
			"per key prefix: an exact-token query equals the indexed token structure, a prefix query is the indexed structure up to and " +
			"including its constant separator",
		Run: runTokenFormat,
	})
}

// gTokenCanon classifies S.Key[1:] and S.Value.String() for subjects that are parameters or
// the receiver of fd.
func gTokenCanon(info *types.Info, fd *ast.FuncDecl) func(ast.Expr) string {
	subjects := map[types.Object]bool{}
	add := func(fl *ast.FieldList) {
		if fl == nil {
			return
		}
		for _, f := range fl.List {
			for _, n := range f.Names {
				if o := info.Defs[n]; o != nil {
					subjects[o] = true
				}
			}
		}
	}
	add(fd.Recv)
	add(fd.Type.Params)
	fieldOfSubject := func(e ast.Expr, name string) bool {
		se, ok := ast.Unparen(e).(*ast.SelectorExpr)
		if !ok || se.Sel.Name != name {
			return false
		}
		sel := info.Selections[se]
		if sel == nil || sel.Kind() != types.FieldVal {
			return false
		}
		id, ok := ast.Unparen(se.X).(*ast.Ident)
		return ok && subjects[info.ObjectOf(id)]
	}
	return func(e ast.Expr) string {
		switch x := ast.Unparen(e).(type) {
		case *ast.SliceExpr:
			if x.High != nil || x.Max != nil || x.Low == nil || !fieldOfSubject(x.X, "Key") {
				return ""
			}
			if tv, ok := info.Types[x.Low]; ok && tv.Value != nil {
				if v, exact := constant.Int64Val(tv.Value); exact && v == 1 {
					return "key-tail"
				}
			}
		case *ast.CallExpr:
			if len(x.Args) != 0 {
				return ""
			}
			if se, ok := ast.Unparen(x.Fun).(*ast.SelectorExpr); ok && se.Sel.Name == "String" && fieldOfSubject(se.X, "Value") {
				if f := calleeFunc(info, x); f != nil {
					return "value"
				}
			}
		}
		return ""
	}
}

// gPrefixGuards returns the constant prefixes p of the `strings.HasPrefix(S.Key, p)` guards
// whose true branch contains target, and the number of guards seen.
func gPrefixGuards(info *types.Info, fd *ast.FuncDecl, target ast.Node) []string {
	hasPrefix := func(e ast.Expr) (string, bool) {
		call, ok := ast.Unparen(e).(*ast.CallExpr)
		if !ok || len(call.Args) != 2 {
			return "", false
		}
		f := calleeFunc(info, call)
		if f == nil || f.Pkg() == nil || f.Pkg().Path() != "strings" || f.Name() != "HasPrefix" {
			return "", false
		}
		se, ok := ast.Unparen(call.Args[0]).(*ast.SelectorExpr)
		if !ok || se.Sel.Name != "Key" {
			return "", false
		}
		tv, ok := info.Types[ast.Unparen(call.Args[1])]
		if !ok || tv.Value == nil || tv.Value.Kind() != constant.String {
			return "", false
		}
		return constant.StringVal(tv.Value), true
	}
	var out []string
	chain := enclosing(fd.Body, target)
	for i, n := range chain {
		if i+1 >= len(chain) {
			break
		}
		next := chain[i+1]
		switch s := n.(type) {
		case *ast.IfStmt:
			if next == ast.Node(s.Body) {
				if p, ok := hasPrefix(s.Cond); ok {
					out = append(out, p)
				}
			}
		case *ast.CaseClause:
			inBody := false
			for _, b := range s.Body {
				if ast.Node(b) == next {
					inBody = true
				}
			}
			if inBody && len(s.List) == 1 {
				if p, ok := hasPrefix(s.List[0]); ok {
					out = append(out, p)
				}
			}
		}
	}
	return out
}

func runTokenFormat(c *Ctx) []Obligation {
	p := c.Pkg("")
	sp := c.Pkg("search")
	if p == nil || sp == nil {
		return nil
	}
	info := p.TypesInfo
	var out []Obligation

	// ---- index side
	index := map[string][]gPiece{}
	ifd, _ := c.LookupFunc("", "TokenForTag")
	if ifd == nil || ifd.Body == nil {
		return nil
	}
	iname := c.FuncName(p, ifd)
	canon := gTokenCanon(info, ifd)
	n := 0
	indexOK := true
	inspectShallow(ifd.Body, func(x ast.Node) bool {
		rs, ok := x.(*ast.ReturnStmt)
		if !ok || len(rs.Results) != 2 {
			return true
		}
		tv, ok := info.Types[ast.Unparen(rs.Results[1])]
		if !ok || tv.Value == nil || tv.Value.Kind() != constant.Bool {
			n++
			indexOK = false
			out = append(out, Obligation{Key: gNthKey(iname, n), Pos: c.Position(rs.Pos()), Status: Undecided,
				Detail: "TokenForTag returns a non-constant `indexed` flag; cannot tell which returns produce tokens"})
			return true
		}
		if !constant.BoolVal(tv.Value) {
			return true // not indexed
		}
		n++
		ob := Obligation{Key: gNthKey(iname, n), Pos: c.Position(rs.Pos())}
		guards := gPrefixGuards(info, ifd, rs)
		ps, why := gStringPieces(info, rs.Results[0], canon)
		switch {
		case len(guards) != 1:
			ob.Status, ob.Detail = Undecided, fmt.Sprintf("token return %s is under %d strings.HasPrefix(.Key, const) guards, expected exactly one", nodeText(c.Fset, rs), len(guards))
			indexOK = false
		case why != "":
			ob.Status, ob.Detail = Undecided, fmt.Sprintf("index token for prefix %q: %s", guards[0], why)
			indexOK = false
		case index[guards[0]] != nil:
			ob.Status, ob.Detail = Undecided, fmt.Sprintf("prefix %q is indexed by two different returns", guards[0])
			indexOK = false
		case len(ps) == 0 || ps[0].Const || ps[0].Text != "key-tail":
			ob.Status = Violation
			ob.Detail = fmt.Sprintf("index token for prefix %q is %s: it does not start with the key without its prefix character", guards[0], gPiecesString(ps))
			index[guards[0]] = ps
		default:
			ob.Status, ob.Detail = OK, fmt.Sprintf("index token for prefix %q = %s", guards[0], gPiecesString(ps))
			index[guards[0]] = ps
		}
		out = append(out, ob)
		return true
	})
	prefixes := sortedKeys(index)

	// ---- query side
	for _, tname := range []string{"Tagged", "Keyed"} {
		qfd, _ := c.LookupMethod("", tname, "Compile")
		if qfd == nil || qfd.Body == nil {
			continue
		}
		qname := c.FuncName(p, qfd)
		qcanon := gTokenCanon(info, qfd)
		covered := map[string]bool{}
		k := 0
		inspectShallow(qfd.Body, func(x ast.Node) bool {
			cl, ok := x.(*ast.CompositeLit)
			if !ok {
				return true
			}
			named := namedOf(info.TypeOf(cl))
			if named == nil || named.Obj().Pkg() != sp.Types {
				return true
			}
			st, ok := named.Underlying().(*types.Struct)
			if !ok {
				return true
			}
			// the string field of the literal
			var fieldName string
			var value ast.Expr
			nString := 0
			for i := 0; i < st.NumFields(); i++ {
				if b, ok := st.Field(i).Type().Underlying().(*types.Basic); ok && b.Kind() == types.String {
					nString++
					fieldName = st.Field(i).Name()
					for j, el := range cl.Elts {
						if kv, ok := el.(*ast.KeyValueExpr); ok {
							if id, ok := kv.Key.(*ast.Ident); ok && info.Uses[id] == st.Field(i) {
								value = kv.Value
							}
						} else if j == i {
							value = el
						}
					}
				}
			}
			if nString == 0 {
				return true
			}
			k++
			ob := Obligation{Key: gNthKey(qname, k), Pos: c.Position(cl.Pos())}
			kind := named.Obj().Name() + "." + fieldName
			defer func() { out = append(out, ob) }()
			if nString != 1 || value == nil || (kind != "All.Token" && kind != "TokenPrefix.Prefix") {
				ob.Status, ob.Detail = Undecided, fmt.Sprintf("%s builds search.%s; only search.All{Token} and search.TokenPrefix{Prefix} are known token queries", qname, named.Obj().Name())
				return true
			}
			if !indexOK {
				ob.Status, ob.Detail = Undecided, "the index side (TokenForTag) could not be normalised; nothing to compare with"
				return true
			}
			guards := gPrefixGuards(info, qfd, cl)
			if len(guards) != 1 {
				ob.Status, ob.Detail = Undecided, fmt.Sprintf("search.%s literal is under %d strings.HasPrefix(.Key, const) guards, expected exactly one", named.Obj().Name(), len(guards))
				return true
			}
			pfx := guards[0]
			ps, why := gStringPieces(info, value, qcanon)
			if why != "" {
				ob.Status, ob.Detail = Undecided, fmt.Sprintf("query token for prefix %q: %s", pfx, why)
				return true
			}
			want, indexed := index[pfx]
			if !indexed {
				ob.Status = Violation
				ob.Detail = fmt.Sprintf("%s queries tokens for key prefix %q, which TokenForTag does not index (indexed prefixes: %s)", qname, pfx, strings.Join(prefixes, " "))
				return true
			}
			covered[pfx] = true
			switch kind {
			case "All.Token":
				if gPiecesEqual(ps, want) {
					ob.Status, ob.Detail = OK, fmt.Sprintf("prefix %q: exact token %s equals the indexed token", pfx, gPiecesString(ps))
				} else {
					ob.Status = Violation
					ob.Detail = fmt.Sprintf("%s, prefix %q: exact-token query %s differs from the token TokenForTag indexes, %s", qname, pfx, gPiecesString(ps), gPiecesString(want))
				}
			case "TokenPrefix.Prefix":
				isPrefix := len(ps) > 0 && len(ps) < len(want) && gPiecesEqual(ps, want[:len(ps)])
				if isPrefix && ps[len(ps)-1].Const {
					ob.Status, ob.Detail = OK, fmt.Sprintf("prefix %q: token prefix %s is the indexed token %s up to and including its separator", pfx, gPiecesString(ps), gPiecesString(want))
				} else {
					ob.Status = Violation
					ob.Detail = fmt.Sprintf("%s, prefix %q: token-prefix query %s is not the indexed token %s cut after its constant separator", qname, pfx, gPiecesString(ps), gPiecesString(want))
				}
			}
			return true
		})
		var missing []string
		for _, pfx := range prefixes {
			if !covered[pfx] {
				missing = append(missing, pfx)
			}
		}
		sort.Strings(missing)
		for _, pfx := range missing {
			out = append(out, Obligation{Key: fmt.Sprintf("%s#no-arm-%s", qname, gPrefixName(pfx)), Pos: c.Position(qfd.Pos()), Status: Violation,
				Detail: fmt.Sprintf("%s has no token arm for the indexed key prefix %q: tags with that prefix are searchable (TokenForTag indexes them) but such a query compiles to whatever the fall-through returns — the empty iterator — while its Matches accepts the tagged features", qname, pfx)})
		}
	}
	return out
}

func gPrefixName(p string) string {
	switch p {
	case "#":
		return "hash"
	case "@":
		return "at"
	}
	return fmt.Sprintf("%x", p)
}
