package main

import (
	"fmt"
	"go/ast"
	"go/token"
	"go/types"
)

// SLOT-FRESH (C21): the VM keeps the arguments of all lambdas of a program in one array and the
// compiler gives every lambda parameter its own slot: `f.Bind(s, c.NumArgs); c.NumArgs++`. The
// slots of an enclosing lambda stay live while an inner lambda runs (the outer body reads them
// after the inner call returns), so no two parameters of one program may share a slot — not even
// one that shadows the other's name: the inner lambda's store would overwrite the outer value.
//
// Discovery, by type and shape (package api): a binder is a method with a parameter of type int
// that appends that parameter to a []int field of its receiver (frame.Bind). Subjects are the
// call sites of binders. Obligations per call site:
//
//	(a) the slot argument is an int field read through a pointer (a counter shared by the whole
//	    compilation), not a value looked up from an existing binding;
//	(b) on every control-flow path from the call to the end of the function or to the next
//	    binder call, that counter is incremented (X++ or X += 1);
//	(c) `#guard`: a capacity test of the counter (an if statement that compares it with a constant
//	    and returns) precedes the call inside the same innermost loop: a test made once before a
//	    loop that binds several parameters admits a lambda that starts below the limit and ends
//	    above it, and the slot one past the end of the VM's argument array is bound (C23: the
//	    first store into it panics in the request handler).
func init() {
	register(&Rule{
		Name:    "SLOT-FRESH",
		IR:      "cfg",
		Props:   []string{"C21", "C23"},
		Floor:   2,
		FloorBy: map[string]int{"C21": 1, "C23": 1},
		Doc:     "every lambda parameter is bound to a fresh VM slot: the slot handed to the binder is the compilation's counter, and the counter is incremented on every path before the next binding or the end of the function (no slot is shared, not even by a parameter that shadows another)",
		Run:     runSlotFresh,
	})
}

func runSlotFresh(c *Ctx) []Obligation {
	var out []Obligation
	p := c.Pkg("api")
	if p == nil {
		return out
	}
	info := p.TypesInfo
	// binders: method -> index of the int parameter that is appended to a []int field of the receiver
	binders := map[*types.Func]int{}
	for _, fd := range c.FuncDecls(p) {
		if fd.Recv == nil || fd.Body == nil {
			continue
		}
		obj, _ := info.Defs[fd.Name].(*types.Func)
		recv := gRecvObj(info, fd)
		if obj == nil || recv == nil {
			continue
		}
		sig := obj.Type().(*types.Signature)
		for i := 0; i < sig.Params().Len(); i++ {
			prm := sig.Params().At(i)
			if b, ok := prm.Type().Underlying().(*types.Basic); !ok || b.Kind() != types.Int {
				continue
			}
			ast.Inspect(fd.Body, func(n ast.Node) bool {
				as, ok := n.(*ast.AssignStmt)
				if !ok || len(as.Lhs) != 1 || len(as.Rhs) != 1 {
					return true
				}
				call, ok := as.Rhs[0].(*ast.CallExpr)
				if !ok || !isBuiltin(info, call, "append") || len(call.Args) != 2 {
					return true
				}
				sel, ok := ast.Unparen(as.Lhs[0]).(*ast.SelectorExpr)
				if !ok {
					return true
				}
				if id, ok := ast.Unparen(sel.X).(*ast.Ident); !ok || info.Uses[id] != recv {
					return true
				}
				if sl, ok := info.TypeOf(sel).Underlying().(*types.Slice); !ok || !types.Identical(sl.Elem(), types.Typ[types.Int]) {
					return true
				}
				if id, ok := ast.Unparen(call.Args[1]).(*ast.Ident); ok && info.Uses[id] == prm {
					binders[obj] = i
				}
				return true
			})
		}
	}
	for _, fd := range c.FuncDecls(p) {
		if fd.Body == nil {
			continue
		}
		var sites []*ast.CallExpr
		ast.Inspect(fd.Body, func(n ast.Node) bool {
			if call, ok := n.(*ast.CallExpr); ok {
				if f := calleeFunc(info, call); f != nil {
					if _, ok := binders[f]; ok {
						sites = append(sites, call)
					}
				}
			}
			return true
		})
		if len(sites) == 0 {
			continue
		}
		name := c.FuncName(p, fd)
		g := newCFG(info, fd.Body)
		isIncr := func(n ast.Node, counter ast.Expr) bool {
			found := false
			ast.Inspect(n, func(m ast.Node) bool {
				switch x := m.(type) {
				case *ast.IncDecStmt:
					if x.Tok == token.INC && sameExpr(info, ast.Unparen(x.X), counter) {
						found = true
					}
				case *ast.AssignStmt:
					if x.Tok == token.ADD_ASSIGN && len(x.Lhs) == 1 && sameExpr(info, ast.Unparen(x.Lhs[0]), counter) {
						if tv := info.Types[x.Rhs[0]]; tv.Value != nil && tv.Value.ExactString() == "1" {
							found = true
						}
					}
				case *ast.FuncLit:
					return false
				}
				return true
			})
			return found
		}
		isSite := func(n ast.Node, except *ast.CallExpr) bool {
			found := false
			ast.Inspect(n, func(m ast.Node) bool {
				if call, ok := m.(*ast.CallExpr); ok && call != except {
					for _, s := range sites {
						if s == call {
							found = true
						}
					}
				}
				return true
			})
			return found
		}
		for i, call := range sites {
			slot := ast.Unparen(call.Args[binders[calleeFunc(info, call)]])
			ob := Obligation{Key: fmt.Sprintf("%s#bind%d", name, i+1), Props: []string{"C21"}, Pos: c.Position(call.Pos()), Status: OK}
			// (c) the capacity test
			if sel, ok := slot.(*ast.SelectorExpr); ok {
				gob := Obligation{Key: fmt.Sprintf("%s#guard%d", name, i+1), Props: []string{"C23", "C21"}, Pos: c.Position(call.Pos()), Status: Violation,
					Detail: fmt.Sprintf("no capacity test of %s (an if statement that compares it with a constant and returns) precedes %s", srcText(c.Fset, sel), srcText(c.Fset, call))}
				myLoops := enclosingLoops(fd.Body, call)
				var inner ast.Node
				if len(myLoops) > 0 {
					inner = myLoops[len(myLoops)-1]
				}
				ast.Inspect(fd.Body, func(n ast.Node) bool {
					ifs, ok := n.(*ast.IfStmt)
					if !ok || ifs.Pos() > call.Pos() {
						return true
					}
					be, ok := ast.Unparen(ifs.Cond).(*ast.BinaryExpr)
					if !ok {
						return true
					}
					var other ast.Expr
					switch {
					case sameExpr(info, ast.Unparen(be.X), sel):
						other = be.Y
					case sameExpr(info, ast.Unparen(be.Y), sel):
						other = be.X
					default:
						if add, ok := ast.Unparen(be.X).(*ast.BinaryExpr); ok && sameExpr(info, ast.Unparen(add.X), sel) {
							other = be.Y
						} else {
							return true
						}
					}
					if tv := info.Types[other]; tv.Value == nil {
						return true
					}
					returns := false
					for _, st := range ifs.Body.List {
						if _, ok := st.(*ast.ReturnStmt); ok {
							returns = true
						}
					}
					if !returns {
						return true
					}
					gl := enclosingLoops(fd.Body, ifs)
					var ginner ast.Node
					if len(gl) > 0 {
						ginner = gl[len(gl)-1]
					}
					if ginner == inner {
						gob.Status = OK
						gob.Detail = fmt.Sprintf("the capacity test %s precedes %s in the same loop iteration", srcText(c.Fset, ifs.Cond), srcText(c.Fset, call))
					} else if gob.Status != OK {
						gob.Detail = fmt.Sprintf("the capacity test %s at %s is made once, outside the loop in which %s binds one slot per iteration: a lambda that starts below the limit and ends above it is accepted, and the slot one past the end of the argument array is bound", srcText(c.Fset, ifs.Cond), c.Position(ifs.Pos()), srcText(c.Fset, call))
					}
					return true
				})
				out = append(out, gob)
			}
			// (a) a counter: an int field selected through a pointer-typed variable
			isCounter := false
			if sel, ok := slot.(*ast.SelectorExpr); ok {
				if s := info.Selections[sel]; s != nil && s.Kind() == types.FieldVal {
					if _, isPtr := info.TypeOf(sel.X).(*types.Pointer); isPtr {
						isCounter = true
					}
				}
			}
			if !isCounter {
				ob.Status = Violation
				ob.Detail = fmt.Sprintf("the slot bound by %s is %s, not the compilation's slot counter: a parameter that is given the slot of another binding overwrites it when it is stored, and the enclosing lambda reads the overwritten value after the inner call returns", srcText(c.Fset, call), srcText(c.Fset, slot))
				out = append(out, ob)
				continue
			}
			// (b) the counter is incremented on every path before the next binder call / exit
			loc, ok := findNode(g, call)
			if !ok {
				ob.Status = Undecided
				ob.Detail = "the call was not found in the control-flow graph"
				out = append(out, ob)
				continue
			}
			bad := ""
			seen := map[int32]bool{}
			var walk func(b int32, from int) bool // true if a path reaches exit/another site without increment
			walk = func(bi int32, from int) bool {
				blk := g.Blocks[bi]
				for k := from; k < len(blk.Nodes); k++ {
					if isIncr(blk.Nodes[k], slot) {
						return false
					}
					if isSite(blk.Nodes[k], call) || (k > from && isSite(blk.Nodes[k], nil)) {
						bad = "another binding at " + c.Position(blk.Nodes[k].Pos())
						return true
					}
				}
				if len(blk.Succs) == 0 {
					if endsInNoReturn(info, blk) {
						return false
					}
					bad = "the end of the function"
					return true
				}
				for _, s := range blk.Succs {
					if seen[s.Index] {
						continue
					}
					seen[s.Index] = true
					if walk(s.Index, 0) {
						return true
					}
				}
				return false
			}
			if walk(loc.b.Index, loc.i+1) {
				ob.Status = Violation
				ob.Detail = fmt.Sprintf("after %s a path reaches %s without incrementing %s: the next parameter bound is given the same slot", srcText(c.Fset, call), bad, srcText(c.Fset, slot))
			} else {
				ob.Detail = fmt.Sprintf("%s binds the counter %s, which is incremented on every path before the next binding", srcText(c.Fset, call), srcText(c.Fset, slot))
			}
			out = append(out, ob)
		}
	}
	return out
}
