package main

import (
	"fmt"
	"go/ast"
	"go/types"
	"strings"
)

// GUARDED-ELEMENT (C32): inside nested loops over polygons and rings the importer tests one
// element of a slice and then acts on "it" (`if loops[k].Area() > 2π { loops[k].Invert() }`). When
// the action names a different element than the test (`loops[j].Invert()` with the outer loop's
// index) the code still compiles and, for data whose interesting element happens to sit at equal
// indices, still works: the ring that is re-oriented is not the ring that was found to be inverted.
//
// Slots (by shape, whole module): an if statement without else whose condition mentions exactly one
// element A[i] of a slice/array variable A (i an identifier), whose body is a single expression
// statement or assignment that mentions an element of the same A, and where both indices are
// variables bound by enclosing for/range statements. Obligation: the body's element is A[i] — the
// element that was tested. ingest/change.go and package geojson carry C32; elsewhere the verdict is
// informational. Bodies that mention both elements (swaps, comparisons of two elements) are not
// instances.
func init() {
	register(&Rule{
		Name:  "GUARDED-ELEMENT",
		IR:    "ast",
		Props: []string{"C32"},
		Floor: 2,
		Doc: "where an if statement tests one element A[i] of a slice inside nested loops and its one-statement body acts on an element of the same slice, the body acts on A[i], the element tested " +
			"(instances: every such if; ingest/change.go and geojson are anchored, other code informational)",
		Run: runGuardedElement,
	})
}

func runGuardedElement(c *Ctx) []Obligation {
	var out []Obligation
	for _, p := range c.SortedPkgs() {
		info := p.TypesInfo
		rel := relPkg(p)
		for _, fd := range c.FuncDecls(p) {
			anchored := rel == "geojson" || (rel == "ingest" && strings.HasPrefix(c.Position(fd.Pos()), "ingest/change.go:"))
			name := c.FuncName(p, fd)
			ord := 0
			// loop variables in scope
			var loopVars []map[types.Object]bool
			var visit func(n ast.Node)
			elems := func(n ast.Node) map[string][2]types.Object { // text -> (array, index)
				found := map[string][2]types.Object{}
				ast.Inspect(n, func(m ast.Node) bool {
					ix, ok := m.(*ast.IndexExpr)
					if !ok {
						return true
					}
					aid, ok1 := ast.Unparen(ix.X).(*ast.Ident)
					iid, ok2 := ast.Unparen(ix.Index).(*ast.Ident)
					if !ok1 || !ok2 {
						return true
					}
					ao, io := info.Uses[aid], info.Uses[iid]
					if ao == nil || io == nil {
						return true
					}
					switch ao.Type().Underlying().(type) {
					case *types.Slice, *types.Array:
					default:
						return true
					}
					found[aid.Name+"["+iid.Name+"]"] = [2]types.Object{ao, io}
					return true
				})
				return found
			}
			isLoopVar := func(o types.Object) bool {
				for _, m := range loopVars {
					if m[o] {
						return true
					}
				}
				return false
			}
			visit = func(n ast.Node) {
				if n == nil {
					return
				}
				switch x := n.(type) {
				case *ast.RangeStmt:
					vars := map[types.Object]bool{}
					for _, e := range []ast.Expr{x.Key, x.Value} {
						if id, ok := e.(*ast.Ident); ok {
							if o := info.Defs[id]; o != nil {
								vars[o] = true
							}
						}
					}
					loopVars = append(loopVars, vars)
					visit(x.Body)
					loopVars = loopVars[:len(loopVars)-1]
					return
				case *ast.ForStmt:
					vars := map[types.Object]bool{}
					if as, ok := x.Init.(*ast.AssignStmt); ok {
						for _, l := range as.Lhs {
							if id, ok := l.(*ast.Ident); ok {
								if o := info.Defs[id]; o != nil {
									vars[o] = true
								}
							}
						}
					}
					loopVars = append(loopVars, vars)
					visit(x.Body)
					loopVars = loopVars[:len(loopVars)-1]
					return
				case *ast.IfStmt:
					if x.Else == nil && len(x.Body.List) == 1 && len(loopVars) >= 1 {
						ce := elems(x.Cond)
						be := elems(x.Body.List[0])
						if len(ce) == 1 {
							var ck string
							var cv [2]types.Object
							for k, v := range ce {
								ck, cv = k, v
							}
							// body elements of the same array
							var same []string
							other := ""
							for k, v := range be {
								if v[0] == cv[0] {
									same = append(same, k)
									if v[1] != cv[1] {
										other = k
									}
								}
							}
							_, isExpr := x.Body.List[0].(*ast.ExprStmt)
							_, isAssign := x.Body.List[0].(*ast.AssignStmt)
							if len(same) == 1 && (isExpr || isAssign) && isLoopVar(cv[1]) {
								ord++
								ob := Obligation{Key: fmt.Sprintf("%s#%d", name, ord), Pos: c.Position(x.Pos()), Status: OK,
									Detail: fmt.Sprintf("the test and the action both name %s", ck)}
								if other != "" && isLoopVar(be[other][1]) {
									ob.Status = Violation
									ob.Detail = fmt.Sprintf("the condition tests %s but the body acts on %s (%s): inside the nested loops these are different elements unless the indices happen to be equal",
										ck, other, strings.TrimSpace(nodeText(c.Fset, x.Body.List[0])))
								}
								if !anchored {
									if ob.Status == Violation {
										ob.Detail = "verdict violation (outside the anchored packages): " + ob.Detail
									}
									ob.Status = Info
								}
								out = append(out, ob)
							}
						}
					}
				}
				// generic descent
				ast.Inspect(n, func(m ast.Node) bool {
					if m == n {
						return true
					}
					switch m.(type) {
					case *ast.RangeStmt, *ast.ForStmt, *ast.IfStmt:
						visit(m)
						return false
					}
					return true
				})
			}
			visit(fd.Body)
		}
	}
	return out
}
