package main

import (
	"fmt"
	"go/ast"
	"go/constant"
	"go/token"
	"go/types"
	"sort"
	"strings"
)

// ALIAS-TABLE (C31): the shell's feature-ID alias table is a consistent, unambiguous code.
//
// Slot (by type, not by name): a package-level variable of package api initialised with a
// composite literal `[]S{...}` where S is a struct with a string field (the prefix), a field of
// type b6.Namespace, a field of type b6.FeatureType, a field of type func(*S, string)
// (b6.FeatureID, error) (the parser) and a field of type func(*S, b6.FeatureID) string (the
// printer). Each element is one instance (7 today).
//
// Obligations per element:
//
//	(1) family: parser and printer belong to one codec family — (a) over the whole table the
//	    parser determines the printer and the printer the parser; (b) the parser calls the
//	    decoder and the printer the encoder of the same row of the inverse-pair table below
//	    (for strconv with equal base constants); (c) the parser strips `len(a.Prefix)` from its
//	    token and the printer's result starts with `a.Prefix` (leftmost operand of a `+` chain, or
//	    first argument of a fmt.Sprintf whose format starts with "%s"), a being the function's
//	    own first parameter.
//	(2) no other element has the same namespace with the same type (the invalid type is a
//	    wildcard in the printer's lookup, so it clashes with every type).
//	(3) the prefix begins and ends with '/', and neither it nor any other element's prefix nor a
//	    full-form head "/<type>/" (type names taken from the constant strings returned by the
//	    non-default cases of b6.FeatureType.String) is a prefix of the other.
//
// An unknown codec function, a non-constant field, or a printer/parser of another shape is
// `undecided`.
func init() {
	register(&Rule{
		Name:  "ALIAS-TABLE",
		IR:    "ast",
		Props: []string{"C31"},
		Floor: 7, // /n/ /w/ /a/ /r/ /uk/ons/ /gb/codepoint/ /gb/uprn/
		Doc: "each element of the shell's alias table pairs the parser and printer of one codec family which strip/emit the element's own prefix; " +
			"no two elements share (namespace, type); no prefix is a prefix of another prefix or of a /<type>/ full form, or vice versa",
		Run: runAliasTable,
	})
}

// jInversePairs: decoder/encoder pairs the alias parsers and printers are built on, by
// types.Func full name. This is the rule's idiom list: a new alias family needs a new row.
var jInversePairs = [][2]string{
	{"strconv.ParseUint", "strconv.FormatUint"},
	{ModulePath + ".FeatureIDFromUKONSCode", ModulePath + ".UKONSCodeFromFeatureID"},
	{ModulePath + ".PointIDFromGBPostcode", ModulePath + ".PostcodeFromPointID"},
}

type jAliasFields struct {
	prefix, ns, typ, from, to int
}

// jAliasStruct recognises the element struct and returns its field indices.
func jAliasStruct(t types.Type) (*types.Struct, jAliasFields, bool) {
	f := jAliasFields{-1, -1, -1, -1, -1}
	st, ok := t.Underlying().(*types.Struct)
	if !ok {
		return nil, f, false
	}
	set := func(slot *int, i int) bool {
		if *slot >= 0 {
			return false
		}
		*slot = i
		return true
	}
	for i := 0; i < st.NumFields(); i++ {
		ft := st.Field(i).Type()
		okf := true
		switch {
		case isNamed(ft, ModulePath, "Namespace") && !jIsPointer(ft):
			okf = set(&f.ns, i)
		case isNamed(ft, ModulePath, "FeatureType") && !jIsPointer(ft):
			okf = set(&f.typ, i)
		default:
			if b, ok := ft.Underlying().(*types.Basic); ok && b.Kind() == types.String {
				okf = set(&f.prefix, i)
			} else if sig, ok := ft.Underlying().(*types.Signature); ok && sig.Params().Len() == 2 {
				p1 := sig.Params().At(1).Type()
				switch {
				case sig.Results().Len() == 2 && isNamed(sig.Results().At(0).Type(), ModulePath, "FeatureID") && jIsError(sig.Results().At(1).Type()) && jIsString(p1):
					okf = set(&f.from, i)
				case sig.Results().Len() == 1 && jIsString(sig.Results().At(0).Type()) && isNamed(p1, ModulePath, "FeatureID"):
					okf = set(&f.to, i)
				}
			}
		}
		if !okf {
			return nil, f, false
		}
	}
	if f.prefix < 0 || f.ns < 0 || f.typ < 0 || f.from < 0 || f.to < 0 {
		return nil, f, false
	}
	return st, f, true
}

func jIsPointer(t types.Type) bool { _, ok := t.Underlying().(*types.Pointer); return ok }
func jIsString(t types.Type) bool {
	b, ok := t.Underlying().(*types.Basic)
	return ok && b.Kind() == types.String
}

type jAlias struct {
	lit      *ast.CompositeLit
	prefix   string
	ns       string
	typ      constant.Value
	typName  string
	from, to *types.Func
	problems []string // undecided reasons
}

// jTypeHeads extracts the strings returned by the non-default cases of b6.FeatureType.String.
func jTypeHeads(c *Ctx) []string {
	fd, p := c.LookupMethod("", "FeatureType", "String")
	if fd == nil {
		return nil
	}
	var out []string
	ast.Inspect(fd.Body, func(n ast.Node) bool {
		cl, ok := n.(*ast.CaseClause)
		if !ok || len(cl.List) == 0 {
			return true
		}
		for _, s := range cl.Body {
			if r, ok := s.(*ast.ReturnStmt); ok && len(r.Results) == 1 {
				if v, ok := jConstString(p.TypesInfo, r.Results[0]); ok {
					out = append(out, v)
				}
			}
		}
		return true
	})
	sort.Strings(out)
	return out
}

func runAliasTable(c *Ctx) []Obligation {
	p := c.Pkg("api")
	if p == nil {
		return nil
	}
	info := p.TypesInfo
	var out []Obligation
	heads := jTypeHeads(c)
	invalidType := constant.Value(nil)
	if root := c.Pkg(""); root != nil {
		if k, ok := root.Types.Scope().Lookup("FeatureTypeInvalid").(*types.Const); ok {
			invalidType = k.Val()
		}
	}

	files := append([]*ast.File(nil), p.Syntax...)
	sort.Slice(files, func(i, j int) bool {
		return c.Fset.Position(files[i].Pos()).Filename < c.Fset.Position(files[j].Pos()).Filename
	})
	for _, f := range files {
		if c.IsGenerated(f) || jGenerated(c, f.Pos()) {
			continue
		}
		for _, d := range f.Decls {
			gd, ok := d.(*ast.GenDecl)
			if !ok || gd.Tok != token.VAR {
				continue
			}
			for _, sp := range gd.Specs {
				vs := sp.(*ast.ValueSpec)
				for i, name := range vs.Names {
					if i >= len(vs.Values) {
						continue
					}
					lit, ok := ast.Unparen(vs.Values[i]).(*ast.CompositeLit)
					if !ok {
						continue
					}
					sl, ok := info.TypeOf(lit).Underlying().(*types.Slice)
					if !ok {
						continue
					}
					st, fields, ok := jAliasStruct(sl.Elem())
					if !ok {
						continue
					}
					out = append(out, jCheckAliases(c, relPkg(p)+"."+name.Name, lit, st, fields, heads, invalidType)...)
				}
			}
		}
	}
	return out
}

func jCheckAliases(c *Ctx, key string, table *ast.CompositeLit, st *types.Struct, fields jAliasFields, heads []string, invalidType constant.Value) []Obligation {
	p := c.Pkg("api")
	info := p.TypesInfo
	var as []*jAlias
	for _, e := range table.Elts {
		lit, ok := e.(*ast.CompositeLit)
		a := &jAlias{}
		as = append(as, a)
		if !ok {
			a.lit = table
			a.problems = append(a.problems, "element is not a composite literal")
			continue
		}
		a.lit = lit
		vals := map[int]ast.Expr{}
		for i, el := range lit.Elts {
			if kv, ok := el.(*ast.KeyValueExpr); ok {
				if id, ok := kv.Key.(*ast.Ident); ok {
					for fi := 0; fi < st.NumFields(); fi++ {
						if st.Field(fi).Name() == id.Name {
							vals[fi] = kv.Value
						}
					}
				}
			} else {
				vals[i] = el
			}
		}
		need := func(i int, what string) ast.Expr {
			if v, ok := vals[i]; ok {
				return v
			}
			a.problems = append(a.problems, "field "+st.Field(i).Name()+" ("+what+") is not set")
			return nil
		}
		if v := need(fields.prefix, "prefix"); v != nil {
			if s, ok := jConstString(info, v); ok {
				a.prefix = s
			} else {
				a.problems = append(a.problems, "prefix is not a constant string")
			}
		}
		if v := need(fields.ns, "namespace"); v != nil {
			if s, ok := jConstString(info, v); ok {
				a.ns = s
			} else {
				a.problems = append(a.problems, "namespace is not a constant")
			}
		}
		if v := need(fields.typ, "type"); v != nil {
			if k := jConst(info, v); k != nil {
				a.typ, a.typName = k, types.ExprString(v)
			} else {
				a.problems = append(a.problems, "type is not a constant")
			}
		}
		if v := need(fields.from, "parser"); v != nil {
			if a.from = jFuncOfExpr(info, v); a.from == nil {
				a.problems = append(a.problems, "parser is not a named function")
			}
		}
		if v := need(fields.to, "printer"); v != nil {
			if a.to = jFuncOfExpr(info, v); a.to == nil {
				a.problems = append(a.problems, "printer is not a named function")
			}
		}
	}

	// (1a) the pairing parser <-> printer is one-to-one over the table
	toOf, fromOf := map[*types.Func]map[*types.Func]bool{}, map[*types.Func]map[*types.Func]bool{}
	for _, a := range as {
		if a.from != nil && a.to != nil {
			if toOf[a.from] == nil {
				toOf[a.from] = map[*types.Func]bool{}
			}
			if fromOf[a.to] == nil {
				fromOf[a.to] = map[*types.Func]bool{}
			}
			toOf[a.from][a.to] = true
			fromOf[a.to][a.from] = true
		}
	}
	prefixField := st.Field(fields.prefix).Name()

	var out []Obligation
	for i, a := range as {
		ob := Obligation{Key: fmt.Sprintf("%s#%d", key, i+1), Pos: c.Position(a.lit.Pos())}
		if len(a.problems) > 0 {
			ob.Status = Undecided
			ob.Detail = fmt.Sprintf("alias %q: %s", a.prefix, strings.Join(a.problems, "; "))
			out = append(out, ob)
			continue
		}
		var bad, unk []string
		// (1a)
		if len(toOf[a.from]) > 1 {
			bad = append(bad, fmt.Sprintf("parser %s is paired with different printers in the table (%s)", a.from.Name(), jFuncNames(toOf[a.from])))
		}
		if len(fromOf[a.to]) > 1 {
			bad = append(bad, fmt.Sprintf("printer %s is paired with different parsers in the table (%s)", a.to.Name(), jFuncNames(fromOf[a.to])))
		}
		// (1b) (1c)
		b, u := jAliasFamily(c, a, prefixField)
		bad, unk = append(bad, b...), append(unk, u...)
		// (2)
		for j, o := range as {
			if j == i || len(o.problems) > 0 || o.ns != a.ns {
				continue
			}
			same := constant.Compare(a.typ, token.EQL, o.typ)
			wild := invalidType != nil && (constant.Compare(a.typ, token.EQL, invalidType) || constant.Compare(o.typ, token.EQL, invalidType))
			if same || wild {
				bad = append(bad, fmt.Sprintf("shares namespace %q and type %s with alias %q (element %d): the printer always picks the first", a.ns, a.typName, o.prefix, j+1))
			}
		}
		// (3)
		if !strings.HasPrefix(a.prefix, "/") || !strings.HasSuffix(a.prefix, "/") || len(a.prefix) < 3 {
			bad = append(bad, fmt.Sprintf("prefix %q is not of the form /…/", a.prefix))
		}
		for j, o := range as {
			if j == i || len(o.problems) > 0 {
				continue
			}
			if strings.HasPrefix(o.prefix, a.prefix) || strings.HasPrefix(a.prefix, o.prefix) {
				bad = append(bad, fmt.Sprintf("prefix %q and prefix %q (element %d) are prefixes of one another: the parser takes the first that matches", a.prefix, o.prefix, j+1))
			}
		}
		for _, h := range heads {
			full := "/" + h + "/"
			if strings.HasPrefix(full, a.prefix) || strings.HasPrefix(a.prefix, full) {
				bad = append(bad, fmt.Sprintf("prefix %q collides with the full form %q of feature type %q", a.prefix, full, h))
			}
		}
		if len(heads) == 0 {
			unk = append(unk, "no feature type names found in b6.FeatureType.String")
		}
		switch {
		case len(bad) > 0:
			ob.Status = Violation
			ob.Detail = fmt.Sprintf("alias %q (%s, %s): %s", a.prefix, a.ns, a.typName, strings.Join(append(bad, unk...), "; "))
		case len(unk) > 0:
			ob.Status = Undecided
			ob.Detail = fmt.Sprintf("alias %q (%s, %s): %s", a.prefix, a.ns, a.typName, strings.Join(unk, "; "))
		default:
			ob.Status = OK
			ob.Detail = fmt.Sprintf("alias %q (%s, %s): %s/%s are one family and use the element's prefix; (namespace, type) and prefix are unambiguous", a.prefix, a.ns, a.typName, a.from.Name(), a.to.Name())
		}
		out = append(out, ob)
	}
	return out
}

func jFuncNames(m map[*types.Func]bool) string {
	var s []string
	for f := range m {
		s = append(s, f.Name())
	}
	sort.Strings(s)
	return strings.Join(s, ", ")
}

// jAliasFamily checks (1b) and (1c) for one element.
func jAliasFamily(c *Ctx, a *jAlias, prefixField string) (bad, unk []string) {
	ffd, fp := c.Decl(a.from)
	tfd, tp := c.Decl(a.to)
	if ffd == nil || ffd.Body == nil || tfd == nil || tfd.Body == nil {
		return nil, []string{"parser or printer is not declared in the module"}
	}
	// (1b)
	row := func(calls map[string]*ast.CallExpr, col int) (int, *ast.CallExpr, int) {
		found, n := -1, 0
		var call *ast.CallExpr
		for i, pair := range jInversePairs {
			if cl, ok := calls[pair[col]]; ok {
				found, call = i, cl
				n++
			}
		}
		return found, call, n
	}
	fr, fcall, fn := row(jCallees(fp.TypesInfo, ffd.Body), 0)
	tr, tcall, tn := row(jCallees(tp.TypesInfo, tfd.Body), 1)
	switch {
	case fn != 1:
		unk = append(unk, fmt.Sprintf("parser %s calls %d known decoders (need exactly one of the inverse-pair table)", a.from.Name(), fn))
	case tn != 1:
		unk = append(unk, fmt.Sprintf("printer %s calls %d known encoders (need exactly one of the inverse-pair table)", a.to.Name(), tn))
	case fr != tr:
		bad = append(bad, fmt.Sprintf("parser %s decodes with %s but printer %s encodes with %s: not one family", a.from.Name(), jInversePairs[fr][0], a.to.Name(), jInversePairs[tr][1]))
	default:
		if strings.HasPrefix(jInversePairs[fr][0], "strconv.") && len(fcall.Args) >= 2 && len(tcall.Args) >= 2 {
			fb, tb := jConst(fp.TypesInfo, fcall.Args[1]), jConst(tp.TypesInfo, tcall.Args[1])
			if fb == nil || tb == nil {
				unk = append(unk, "number base is not constant")
			} else if !constant.Compare(fb, token.EQL, tb) {
				bad = append(bad, fmt.Sprintf("parser reads base %s but printer writes base %s", fb, tb))
			}
		}
	}
	// (1c)
	isOwnPrefix := func(info *types.Info, fd *ast.FuncDecl, e ast.Expr) bool {
		sel, ok := ast.Unparen(e).(*ast.SelectorExpr)
		if !ok || sel.Sel.Name != prefixField {
			return false
		}
		id, ok := ast.Unparen(sel.X).(*ast.Ident)
		if !ok || fd.Type.Params == nil || len(fd.Type.Params.List) == 0 || len(fd.Type.Params.List[0].Names) == 0 {
			return false
		}
		return info.ObjectOf(id) == info.Defs[fd.Type.Params.List[0].Names[0]]
	}
	strips := false
	ast.Inspect(ffd.Body, func(n ast.Node) bool {
		se, ok := n.(*ast.SliceExpr)
		if !ok || se.Low == nil || se.High != nil {
			return true
		}
		if call, ok := ast.Unparen(se.Low).(*ast.CallExpr); ok && isBuiltin(fp.TypesInfo, call, "len") && len(call.Args) == 1 && isOwnPrefix(fp.TypesInfo, ffd, call.Args[0]) {
			strips = true
		}
		return true
	})
	if !strips {
		unk = append(unk, fmt.Sprintf("parser %s does not strip len(a.%s) from its token", a.from.Name(), prefixField))
	}
	emits := false
	ast.Inspect(tfd.Body, func(n ast.Node) bool {
		r, ok := n.(*ast.ReturnStmt)
		if !ok || len(r.Results) != 1 {
			return true
		}
		e := ast.Unparen(r.Results[0])
		for {
			b, ok := e.(*ast.BinaryExpr)
			if !ok || b.Op != token.ADD {
				break
			}
			e = ast.Unparen(b.X)
		}
		if isOwnPrefix(tp.TypesInfo, tfd, e) {
			emits = true
		}
		if call, ok := e.(*ast.CallExpr); ok && len(call.Args) >= 2 {
			if f := calleeFunc(tp.TypesInfo, call); f != nil && f.FullName() == "fmt.Sprintf" {
				if format, ok := jConstString(tp.TypesInfo, call.Args[0]); ok && strings.HasPrefix(format, "%s") && isOwnPrefix(tp.TypesInfo, tfd, call.Args[1]) {
					emits = true
				}
			}
		}
		return true
	})
	if !emits {
		unk = append(unk, fmt.Sprintf("no result of printer %s starts with a.%s", a.to.Name(), prefixField))
	}
	return bad, unk
}
