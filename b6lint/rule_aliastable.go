package main

import (
	"fmt"
	"go/ast"
	"go/constant"
	"go/token"
	"go/types"
	"sort"
	"strings"
)

// ALIAS-TABLE (C31): the shell's feature-ID alias table is a consistent, unambiguous code.
//
// Slot (by type, not by name): a package-level variable of package api initialised with a
// composite literal `[]S{...}` where S is a struct with a string field (the prefix), a field of
// type b6.Namespace, a field of type b6.FeatureType, a field of type func(*S, string)
// (b6.FeatureID, error) (the parser) and a field of type func(*S, b6.FeatureID) string (the
// printer). Each element is one instance (7 today).
//
// Obligations per element:
//
//	(1) family: parser and printer belong to one codec family — (a) over the whole table the
//	    parser determines the printer and the printer the parser; (b) either both call the two
//	    halves of one row of the inverse-pair table below (the b6 codecs), or both are the plain
//	    number codec and agree on what matters for the value's type (FeatureID.Value, uint64):
//	    base, signedness and width. The printer is read from the call that prints the Value of
//	    its FeatureID parameter — strconv.FormatUint / AppendUint(v, B), FormatInt / AppendInt /
//	    Itoa, or a fmt.Sprintf / Sprint verb %d %v (base 10) %x %X (16) %o (8) %b (2) — and the
//	    integer conversions wrapped around the operand; the parser from strconv.ParseUint(s, B,
//	    bits) / ParseInt / Atoi and the conversions between its result and the integer field of
//	    the FeatureID literal it builds. Violations name the values lost: a signed step on either
//	    side (Itoa(int(v)), FormatInt(int64(v)), ParseInt, Atoi) loses v >= 2^63; a width below
//	    64 bits (uint32(v), bitSize 32) loses v >= 2^width; the bases must be equal constants.
//	    A table codec on one side and the number codec on the other is a violation. (c) the
//	    parser strips `len(a.Prefix)` from its token and the printer's result starts with
//	    `a.Prefix` (leftmost operand of a `+` chain, first argument of a fmt.Sprintf whose format
//	    starts with "%s", or string(strconv.AppendX([]byte(a.Prefix), …))), a being the
//	    function's own first parameter.
//	(2) no other element has the same namespace with the same type (the invalid type is a
//	    wildcard in the printer's lookup, so it clashes with every type).
//	(3) the prefix begins and ends with '/', and neither it nor any other element's prefix nor a
//	    full-form head "/<type>/" (type names taken from the constant strings returned by the
//	    non-default cases of b6.FeatureType.String) is a prefix of the other.
//
// A non-constant field or base, or a printer/parser whose number handling cannot be read (no
// strconv/fmt call on the Value, the parsed number not reaching the FeatureID literal) is
// `undecided`.
func init() {
	register(&Rule{
		Name:  "ALIAS-TABLE",
		IR:    "ast",
		Props: []string{"C31"},
		Floor: 7, // /n/ /w/ /a/ /r/ /uk/ons/ /gb/codepoint/ /gb/uprn/
		Doc: "each element of the shell's alias table pairs the parser and printer of one codec family which strip/emit the element's own prefix; " +
			"no two elements share (namespace, type); no prefix is a prefix of another prefix or of a /<type>/ full form, or vice versa",
		Run: runAliasTable,
	})
}

// jInversePairs: decoder/encoder pairs of the root package the alias parsers and printers are
// built on, by types.Func full name (the plain number codec is not tabled: it is read from the
// code, see jNumPrinter / jNumParser). A new b6 alias codec needs a new row.
var jInversePairs = [][2]string{
	{ModulePath + ".FeatureIDFromUKONSCode", ModulePath + ".UKONSCodeFromFeatureID"},
	{ModulePath + ".PointIDFromGBPostcode", ModulePath + ".PostcodeFromPointID"},
}

type jAliasFields struct {
	prefix, ns, typ, from, to int
}

// jAliasStruct recognises the element struct and returns its field indices.
func jAliasStruct(t types.Type) (*types.Struct, jAliasFields, bool) {
	f := jAliasFields{-1, -1, -1, -1, -1}
	st, ok := t.Underlying().(*types.Struct)
	if !ok {
		return nil, f, false
	}
	set := func(slot *int, i int) bool {
		if *slot >= 0 {
			return false
		}
		*slot = i
		return true
	}
	for i := 0; i < st.NumFields(); i++ {
		ft := st.Field(i).Type()
		okf := true
		switch {
		case isNamed(ft, ModulePath, "Namespace") && !jIsPointer(ft):
			okf = set(&f.ns, i)
		case isNamed(ft, ModulePath, "FeatureType") && !jIsPointer(ft):
			okf = set(&f.typ, i)
		default:
			if b, ok := ft.Underlying().(*types.Basic); ok && b.Kind() == types.String {
				okf = set(&f.prefix, i)
			} else if sig, ok := ft.Underlying().(*types.Signature); ok && sig.Params().Len() == 2 {
				p1 := sig.Params().At(1).Type()
				switch {
				case sig.Results().Len() == 2 && isNamed(sig.Results().At(0).Type(), ModulePath, "FeatureID") && jIsError(sig.Results().At(1).Type()) && jIsString(p1):
					okf = set(&f.from, i)
				case sig.Results().Len() == 1 && jIsString(sig.Results().At(0).Type()) && isNamed(p1, ModulePath, "FeatureID"):
					okf = set(&f.to, i)
				}
			}
		}
		if !okf {
			return nil, f, false
		}
	}
	if f.prefix < 0 || f.ns < 0 || f.typ < 0 || f.from < 0 || f.to < 0 {
		return nil, f, false
	}
	return st, f, true
}

func jIsPointer(t types.Type) bool { _, ok := t.Underlying().(*types.Pointer); return ok }
func jIsString(t types.Type) bool {
	b, ok := t.Underlying().(*types.Basic)
	return ok && b.Kind() == types.String
}

type jAlias struct {
	lit      *ast.CompositeLit
	prefix   string
	ns       string
	typ      constant.Value
	typName  string
	from, to *types.Func
	problems []string // undecided reasons
}

// jTypeHeads extracts the strings returned by the non-default cases of b6.FeatureType.String.
func jTypeHeads(c *Ctx) []string {
	fd, p := c.LookupMethod("", "FeatureType", "String")
	if fd == nil {
		return nil
	}
	var out []string
	ast.Inspect(fd.Body, func(n ast.Node) bool {
		cl, ok := n.(*ast.CaseClause)
		if !ok || len(cl.List) == 0 {
			return true
		}
		for _, s := range cl.Body {
			if r, ok := s.(*ast.ReturnStmt); ok && len(r.Results) == 1 {
				if v, ok := jConstString(p.TypesInfo, r.Results[0]); ok {
					out = append(out, v)
				}
			}
		}
		return true
	})
	sort.Strings(out)
	return out
}

func runAliasTable(c *Ctx) []Obligation {
	p := c.Pkg("api")
	if p == nil {
		return nil
	}
	info := p.TypesInfo
	var out []Obligation
	heads := jTypeHeads(c)
	invalidType := constant.Value(nil)
	if root := c.Pkg(""); root != nil {
		if k, ok := root.Types.Scope().Lookup("FeatureTypeInvalid").(*types.Const); ok {
			invalidType = k.Val()
		}
	}

	files := append([]*ast.File(nil), p.Syntax...)
	sort.Slice(files, func(i, j int) bool {
		return c.Fset.Position(files[i].Pos()).Filename < c.Fset.Position(files[j].Pos()).Filename
	})
	for _, f := range files {
		if c.IsGenerated(f) || jGenerated(c, f.Pos()) {
			continue
		}
		for _, d := range f.Decls {
			gd, ok := d.(*ast.GenDecl)
			if !ok || gd.Tok != token.VAR {
				continue
			}
			for _, sp := range gd.Specs {
				vs := sp.(*ast.ValueSpec)
				for i, name := range vs.Names {
					if i >= len(vs.Values) {
						continue
					}
					lit, ok := ast.Unparen(vs.Values[i]).(*ast.CompositeLit)
					if !ok {
						continue
					}
					sl, ok := info.TypeOf(lit).Underlying().(*types.Slice)
					if !ok {
						continue
					}
					st, fields, ok := jAliasStruct(sl.Elem())
					if !ok {
						continue
					}
					out = append(out, jCheckAliases(c, relPkg(p)+"."+name.Name, lit, st, fields, heads, invalidType)...)
				}
			}
		}
	}
	return out
}

func jCheckAliases(c *Ctx, key string, table *ast.CompositeLit, st *types.Struct, fields jAliasFields, heads []string, invalidType constant.Value) []Obligation {
	p := c.Pkg("api")
	info := p.TypesInfo
	var as []*jAlias
	for _, e := range table.Elts {
		lit, ok := e.(*ast.CompositeLit)
		a := &jAlias{}
		as = append(as, a)
		if !ok {
			a.lit = table
			a.problems = append(a.problems, "element is not a composite literal")
			continue
		}
		a.lit = lit
		vals := map[int]ast.Expr{}
		for i, el := range lit.Elts {
			if kv, ok := el.(*ast.KeyValueExpr); ok {
				if id, ok := kv.Key.(*ast.Ident); ok {
					for fi := 0; fi < st.NumFields(); fi++ {
						if st.Field(fi).Name() == id.Name {
							vals[fi] = kv.Value
						}
					}
				}
			} else {
				vals[i] = el
			}
		}
		need := func(i int, what string) ast.Expr {
			if v, ok := vals[i]; ok {
				return v
			}
			a.problems = append(a.problems, "field "+st.Field(i).Name()+" ("+what+") is not set")
			return nil
		}
		if v := need(fields.prefix, "prefix"); v != nil {
			if s, ok := jConstString(info, v); ok {
				a.prefix = s
			} else {
				a.problems = append(a.problems, "prefix is not a constant string")
			}
		}
		if v := need(fields.ns, "namespace"); v != nil {
			if s, ok := jConstString(info, v); ok {
				a.ns = s
			} else {
				a.problems = append(a.problems, "namespace is not a constant")
			}
		}
		if v := need(fields.typ, "type"); v != nil {
			if k := jConst(info, v); k != nil {
				a.typ, a.typName = k, types.ExprString(v)
			} else {
				a.problems = append(a.problems, "type is not a constant")
			}
		}
		if v := need(fields.from, "parser"); v != nil {
			if a.from = jFuncOfExpr(info, v); a.from == nil {
				a.problems = append(a.problems, "parser is not a named function")
			}
		}
		if v := need(fields.to, "printer"); v != nil {
			if a.to = jFuncOfExpr(info, v); a.to == nil {
				a.problems = append(a.problems, "printer is not a named function")
			}
		}
	}

	// (1a) the pairing parser <-> printer is one-to-one over the table
	toOf, fromOf := map[*types.Func]map[*types.Func]bool{}, map[*types.Func]map[*types.Func]bool{}
	for _, a := range as {
		if a.from != nil && a.to != nil {
			if toOf[a.from] == nil {
				toOf[a.from] = map[*types.Func]bool{}
			}
			if fromOf[a.to] == nil {
				fromOf[a.to] = map[*types.Func]bool{}
			}
			toOf[a.from][a.to] = true
			fromOf[a.to][a.from] = true
		}
	}
	prefixField := st.Field(fields.prefix).Name()

	var out []Obligation
	for i, a := range as {
		ob := Obligation{Key: fmt.Sprintf("%s#%d", key, i+1), Pos: c.Position(a.lit.Pos())}
		if len(a.problems) > 0 {
			ob.Status = Undecided
			ob.Detail = fmt.Sprintf("alias %q: %s", a.prefix, strings.Join(a.problems, "; "))
			out = append(out, ob)
			continue
		}
		var bad, unk []string
		// (1a)
		if len(toOf[a.from]) > 1 {
			bad = append(bad, fmt.Sprintf("parser %s is paired with different printers in the table (%s)", a.from.Name(), jFuncNames(toOf[a.from])))
		}
		if len(fromOf[a.to]) > 1 {
			bad = append(bad, fmt.Sprintf("printer %s is paired with different parsers in the table (%s)", a.to.Name(), jFuncNames(fromOf[a.to])))
		}
		// (1b) (1c)
		b, u := jAliasFamily(c, a, prefixField)
		bad, unk = append(bad, b...), append(unk, u...)
		// (2)
		for j, o := range as {
			if j == i || len(o.problems) > 0 || o.ns != a.ns {
				continue
			}
			same := constant.Compare(a.typ, token.EQL, o.typ)
			wild := invalidType != nil && (constant.Compare(a.typ, token.EQL, invalidType) || constant.Compare(o.typ, token.EQL, invalidType))
			if same || wild {
				bad = append(bad, fmt.Sprintf("shares namespace %q and type %s with alias %q (element %d): the printer always picks the first", a.ns, a.typName, o.prefix, j+1))
			}
		}
		// (3)
		if !strings.HasPrefix(a.prefix, "/") || !strings.HasSuffix(a.prefix, "/") || len(a.prefix) < 3 {
			bad = append(bad, fmt.Sprintf("prefix %q is not of the form /…/", a.prefix))
		}
		for j, o := range as {
			if j == i || len(o.problems) > 0 {
				continue
			}
			if strings.HasPrefix(o.prefix, a.prefix) || strings.HasPrefix(a.prefix, o.prefix) {
				bad = append(bad, fmt.Sprintf("prefix %q and prefix %q (element %d) are prefixes of one another: the parser takes the first that matches", a.prefix, o.prefix, j+1))
			}
		}
		for _, h := range heads {
			full := "/" + h + "/"
			if strings.HasPrefix(full, a.prefix) || strings.HasPrefix(a.prefix, full) {
				bad = append(bad, fmt.Sprintf("prefix %q collides with the full form %q of feature type %q", a.prefix, full, h))
			}
		}
		if len(heads) == 0 {
			unk = append(unk, "no feature type names found in b6.FeatureType.String")
		}
		switch {
		case len(bad) > 0:
			ob.Status = Violation
			ob.Detail = fmt.Sprintf("alias %q (%s, %s): %s", a.prefix, a.ns, a.typName, strings.Join(append(bad, unk...), "; "))
		case len(unk) > 0:
			ob.Status = Undecided
			ob.Detail = fmt.Sprintf("alias %q (%s, %s): %s", a.prefix, a.ns, a.typName, strings.Join(unk, "; "))
		default:
			ob.Status = OK
			ob.Detail = fmt.Sprintf("alias %q (%s, %s): %s/%s are one family and use the element's prefix; (namespace, type) and prefix are unambiguous", a.prefix, a.ns, a.typName, a.from.Name(), a.to.Name())
		}
		out = append(out, ob)
	}
	return out
}

func jFuncNames(m map[*types.Func]bool) string {
	var s []string
	for f := range m {
		s = append(s, f.Name())
	}
	sort.Strings(s)
	return strings.Join(s, ", ")
}

// jAliasFamily checks (1b) and (1c) for one element.
func jAliasFamily(c *Ctx, a *jAlias, prefixField string) (bad, unk []string) {
	ffd, fp := c.Decl(a.from)
	tfd, tp := c.Decl(a.to)
	if ffd == nil || ffd.Body == nil || tfd == nil || tfd.Body == nil {
		return nil, []string{"parser or printer is not declared in the module"}
	}
	// (1b) the codec family of each side: a b6 codec of the inverse-pair table, or the plain
	// number codec read from the strconv/fmt calls
	row := func(calls map[string]*ast.CallExpr, col int) (int, int) {
		found, n := -1, 0
		for i, pair := range jInversePairs {
			if _, ok := calls[pair[col]]; ok {
				found = i
				n++
			}
		}
		return found, n
	}
	fr, fn := row(jCallees(fp.TypesInfo, ffd.Body), 0)
	tr, tn := row(jCallees(tp.TypesInfo, tfd.Body), 1)
	switch {
	case fn > 1 || tn > 1:
		unk = append(unk, "parser or printer calls more than one codec of the inverse-pair table")
	case fn == 1 && tn == 1:
		if fr != tr {
			bad = append(bad, fmt.Sprintf("parser %s decodes with %s but printer %s encodes with %s: not one family", a.from.Name(), jInversePairs[fr][0], a.to.Name(), jInversePairs[tr][1]))
		}
	default:
		// at least one side is not a table codec: both must be the number codec, and agree
		var pn, tnum *jNumCodec
		var pwhy, twhy string
		if fn == 0 {
			pn, pwhy = jNumParser(fp.TypesInfo, ffd)
		}
		if tn == 0 {
			tnum, twhy = jNumPrinter(tp.TypesInfo, tfd)
		}
		switch {
		case fn == 1 && tnum != nil:
			bad = append(bad, fmt.Sprintf("parser %s decodes with %s but printer %s prints a plain number (%s): not one family", a.from.Name(), jInversePairs[fr][0], a.to.Name(), tnum.how))
		case tn == 1 && pn != nil:
			bad = append(bad, fmt.Sprintf("parser %s reads a plain number (%s) but printer %s encodes with %s: not one family", a.from.Name(), pn.how, a.to.Name(), jInversePairs[tr][1]))
		case fn == 0 && pn == nil:
			unk = append(unk, fmt.Sprintf("cannot read how parser %s turns the text into the value: %s", a.from.Name(), pwhy))
		case tn == 0 && tnum == nil:
			unk = append(unk, fmt.Sprintf("cannot read how printer %s turns the value into text: %s", a.to.Name(), twhy))
		default:
			bad = append(bad, jNumAgree(a, pn, tnum)...)
		}
	}
	// (1c)
	isOwnPrefix := func(info *types.Info, fd *ast.FuncDecl, e ast.Expr) bool {
		sel, ok := ast.Unparen(e).(*ast.SelectorExpr)
		if !ok || sel.Sel.Name != prefixField {
			return false
		}
		id, ok := ast.Unparen(sel.X).(*ast.Ident)
		if !ok || fd.Type.Params == nil || len(fd.Type.Params.List) == 0 || len(fd.Type.Params.List[0].Names) == 0 {
			return false
		}
		return info.ObjectOf(id) == info.Defs[fd.Type.Params.List[0].Names[0]]
	}
	strips := false
	ast.Inspect(ffd.Body, func(n ast.Node) bool {
		se, ok := n.(*ast.SliceExpr)
		if !ok || se.Low == nil || se.High != nil {
			return true
		}
		if call, ok := ast.Unparen(se.Low).(*ast.CallExpr); ok && isBuiltin(fp.TypesInfo, call, "len") && len(call.Args) == 1 && isOwnPrefix(fp.TypesInfo, ffd, call.Args[0]) {
			strips = true
		}
		return true
	})
	if !strips {
		unk = append(unk, fmt.Sprintf("parser %s does not strip len(a.%s) from its token", a.from.Name(), prefixField))
	}
	emits := false
	ast.Inspect(tfd.Body, func(n ast.Node) bool {
		r, ok := n.(*ast.ReturnStmt)
		if !ok || len(r.Results) != 1 {
			return true
		}
		e := ast.Unparen(r.Results[0])
		for {
			b, ok := e.(*ast.BinaryExpr)
			if !ok || b.Op != token.ADD {
				break
			}
			e = ast.Unparen(b.X)
		}
		if isOwnPrefix(tp.TypesInfo, tfd, e) {
			emits = true
		}
		// string(strconv.AppendUint([]byte(a.Prefix), v, 10))
		if conv, ok := e.(*ast.CallExpr); ok && len(conv.Args) == 1 {
			if tv, ok := tp.TypesInfo.Types[conv.Fun]; ok && tv.IsType() {
				if app, ok := ast.Unparen(conv.Args[0]).(*ast.CallExpr); ok && len(app.Args) >= 1 {
					if f := calleeFunc(tp.TypesInfo, app); f != nil && f.Pkg() != nil && f.Pkg().Path() == "strconv" && strings.HasPrefix(f.Name(), "Append") {
						if dst, ok := ast.Unparen(app.Args[0]).(*ast.CallExpr); ok && len(dst.Args) == 1 {
							if tv, ok := tp.TypesInfo.Types[dst.Fun]; ok && tv.IsType() && isOwnPrefix(tp.TypesInfo, tfd, dst.Args[0]) {
								emits = true
							}
						}
					}
				}
			}
		}
		if call, ok := e.(*ast.CallExpr); ok && len(call.Args) >= 2 {
			if f := calleeFunc(tp.TypesInfo, call); f != nil && f.FullName() == "fmt.Sprintf" {
				if format, ok := jConstString(tp.TypesInfo, call.Args[0]); ok && strings.HasPrefix(format, "%s") && isOwnPrefix(tp.TypesInfo, tfd, call.Args[1]) {
					emits = true
				}
			}
		}
		return true
	})
	if !emits {
		unk = append(unk, fmt.Sprintf("no result of printer %s starts with a.%s", a.to.Name(), prefixField))
	}
	return bad, unk
}

// jNumCodec describes how a plain number travels through one side of an alias.
type jNumCodec struct {
	base   int64
	signed bool   // some step treats the value as a signed integer
	width  int    // narrowest integer width on the way, in bits
	how    string // the source text that does it
}

func jIntWidth(t types.Type) (width int, signed, ok bool) {
	b, isBasic := t.Underlying().(*types.Basic)
	if !isBasic || b.Info()&types.IsInteger == 0 {
		return 0, false, false
	}
	switch b.Kind() {
	case types.Int8:
		return 8, true, true
	case types.Int16:
		return 16, true, true
	case types.Int32:
		return 32, true, true
	case types.Int64, types.Int:
		return 64, true, true
	case types.Uint8:
		return 8, false, true
	case types.Uint16:
		return 16, false, true
	case types.Uint32:
		return 32, false, true
	case types.Uint64, types.Uint, types.Uintptr:
		return 64, false, true
	}
	return 0, false, false
}

// jStripIntConversions removes integer conversions around e, folding them into the codec.
func jStripIntConversions(info *types.Info, e ast.Expr, k *jNumCodec) ast.Expr {
	for {
		e = ast.Unparen(e)
		if w, sg, ok := jIntWidth(info.TypeOf(e)); ok {
			if sg {
				k.signed = true
			}
			if w < k.width {
				k.width = w
			}
		}
		call, ok := e.(*ast.CallExpr)
		if !ok || len(call.Args) != 1 {
			return e
		}
		if tv, ok := info.Types[call.Fun]; !ok || !tv.IsType() {
			return e
		}
		e = call.Args[0]
	}
}

// jNumPrinter reads how the printer turns the Value of its FeatureID parameter into digits.
func jNumPrinter(info *types.Info, fd *ast.FuncDecl) (*jNumCodec, string) {
	isValueOfParam := func(e ast.Expr) bool {
		sel, ok := ast.Unparen(e).(*ast.SelectorExpr)
		if !ok {
			return false
		}
		s, ok := info.Selections[sel]
		if !ok || s.Kind() != types.FieldVal || !isNamed(s.Recv(), ModulePath, "FeatureID") {
			return false
		}
		if _, _, isInt := jIntWidth(s.Type()); !isInt {
			return false
		}
		id, ok := ast.Unparen(sel.X).(*ast.Ident)
		if !ok {
			return false
		}
		for _, fl := range fd.Type.Params.List {
			for _, n := range fl.Names {
				if info.Defs[n] == info.ObjectOf(id) {
					return true
				}
			}
		}
		return false
	}
	var found []*jNumCodec
	why := "no strconv/fmt call prints the Value of the FeatureID parameter"
	try := func(call *ast.CallExpr, operand ast.Expr, base int64, signed bool) {
		k := &jNumCodec{base: base, signed: signed, width: 64, how: types.ExprString(call)}
		if inner := jStripIntConversions(info, operand, k); isValueOfParam(inner) {
			found = append(found, k)
		}
	}
	constBase := func(e ast.Expr) (int64, bool) {
		k := jConst(info, e)
		if k == nil {
			return 0, false
		}
		v, ok := constant.Int64Val(constant.ToInt(k))
		return v, ok
	}
	ast.Inspect(fd.Body, func(n ast.Node) bool {
		call, ok := n.(*ast.CallExpr)
		if !ok {
			return true
		}
		f := calleeFunc(info, call)
		if f == nil || f.Pkg() == nil {
			return true
		}
		switch f.Pkg().Path() + "." + f.Name() {
		case "strconv.FormatUint", "strconv.FormatInt":
			if len(call.Args) == 2 {
				if b, ok := constBase(call.Args[1]); ok {
					try(call, call.Args[0], b, f.Name() == "FormatInt")
				} else {
					why = "the base of " + types.ExprString(call) + " is not constant"
				}
			}
		case "strconv.AppendUint", "strconv.AppendInt":
			if len(call.Args) == 3 {
				if b, ok := constBase(call.Args[2]); ok {
					try(call, call.Args[1], b, f.Name() == "AppendInt")
				} else {
					why = "the base of " + types.ExprString(call) + " is not constant"
				}
			}
		case "strconv.Itoa":
			if len(call.Args) == 1 {
				try(call, call.Args[0], 10, true)
			}
		case "fmt.Sprint", "fmt.Sprintln":
			for _, a := range call.Args {
				try(call, a, 10, false)
			}
		case "fmt.Sprintf":
			if len(call.Args) < 1 {
				return true
			}
			format, isConst := jConstString(info, call.Args[0])
			verbs, parsed := jpVerbs(format)
			if !isConst || !parsed || len(verbs) != len(call.Args)-1 {
				why = "the format of " + jShort(types.ExprString(call)) + " cannot be paired with its arguments"
				return true
			}
			for i, a := range call.Args[1:] {
				base := int64(0)
				switch verbs[i].verb {
				case 'd', 'v':
					base = 10
				case 'x', 'X':
					base = 16
				case 'o':
					base = 8
				case 'b':
					base = 2
				}
				if base != 0 {
					try(call, a, base, false)
				} else {
					k := &jNumCodec{width: 64}
					if isValueOfParam(jStripIntConversions(info, a, k)) {
						why = "the Value is printed with the verb " + verbs[i].text
					}
				}
			}
		}
		return true
	})
	if len(found) != 1 {
		if len(found) > 1 {
			why = "the Value is printed more than once"
		}
		return nil, why
	}
	return found[0], ""
}

// jNumParser reads how the parser turns digits into the Value of the FeatureID it builds.
func jNumParser(info *types.Info, fd *ast.FuncDecl) (*jNumCodec, string) {
	type parse struct {
		call *ast.CallExpr
		k    *jNumCodec
		obj  types.Object // variable receiving the number
	}
	var parses []parse
	why := "no strconv.ParseUint/ParseInt/Atoi call"
	ast.Inspect(fd.Body, func(n ast.Node) bool {
		var lhs []ast.Expr
		var rhs ast.Expr
		switch x := n.(type) {
		case *ast.AssignStmt:
			if len(x.Rhs) == 1 {
				lhs, rhs = x.Lhs, x.Rhs[0]
			}
		case *ast.ValueSpec:
			if len(x.Values) == 1 {
				for _, nm := range x.Names {
					lhs = append(lhs, nm)
				}
				rhs = x.Values[0]
			}
		}
		call, ok := ast.Unparen(rhs).(*ast.CallExpr)
		if rhs == nil || !ok || len(lhs) != 2 {
			return true
		}
		f := calleeFunc(info, call)
		if f == nil || f.Pkg() == nil || f.Pkg().Path() != "strconv" {
			return true
		}
		k := &jNumCodec{width: 64, how: types.ExprString(call)}
		switch f.Name() {
		case "ParseUint", "ParseInt":
			if len(call.Args) != 3 {
				return true
			}
			bk, wk := jConst(info, call.Args[1]), jConst(info, call.Args[2])
			if bk == nil || wk == nil {
				why = "base or bit size of " + types.ExprString(call) + " is not constant"
				return true
			}
			k.base, _ = constant.Int64Val(constant.ToInt(bk))
			w, _ := constant.Int64Val(constant.ToInt(wk))
			if w == 0 {
				w = 64 // int/uint: 64 bits on the platforms b6 builds for
			}
			k.width = int(w)
			k.signed = f.Name() == "ParseInt"
		case "Atoi":
			k.base, k.signed = 10, true
		default:
			return true
		}
		if id, ok := lhs[0].(*ast.Ident); ok && id.Name != "_" {
			parses = append(parses, parse{call, k, info.ObjectOf(id)})
		}
		return true
	})
	// the Value element of the FeatureID literal(s)
	var found []*jNumCodec
	ast.Inspect(fd.Body, func(n ast.Node) bool {
		lit, ok := n.(*ast.CompositeLit)
		if !ok || !isNamed(info.TypeOf(lit), ModulePath, "FeatureID") || jIsPointer(info.TypeOf(lit)) {
			return true
		}
		for _, el := range lit.Elts {
			kv, ok := el.(*ast.KeyValueExpr)
			if !ok {
				continue
			}
			if _, _, isInt := jIntWidth(info.TypeOf(kv.Value)); !isInt {
				continue
			}
			k := &jNumCodec{width: 64}
			inner := jStripIntConversions(info, kv.Value, k)
			if id, ok := inner.(*ast.Ident); ok {
				for _, ps := range parses {
					if ps.obj == info.ObjectOf(id) {
						c := *ps.k
						c.signed = c.signed || k.signed
						if k.width < c.width {
							c.width = k.width
						}
						if types.ExprString(kv.Value) != id.Name {
							c.how += ", then " + types.ExprString(kv.Value)
						}
						found = append(found, &c)
					}
				}
			}
		}
		return true
	})
	if len(found) != 1 {
		if len(parses) > 0 && len(found) == 0 {
			why = "the parsed number does not reach an integer field of the FeatureID literal in a way the rule follows"
		} else if len(found) > 1 {
			why = "more than one parsed number reaches the FeatureID"
		}
		return nil, why
	}
	return found[0], ""
}

// jNumAgree compares the two sides of the number codec for a 64-bit unsigned value.
func jNumAgree(a *jAlias, p, t *jNumCodec) []string {
	var bad []string
	lost := func(width int, signed bool) string {
		if signed && width >= 64 {
			return "values >= 2^63"
		}
		if signed {
			return fmt.Sprintf("values >= 2^%d", width-1)
		}
		return fmt.Sprintf("values >= 2^%d", width)
	}
	if t.signed || t.width < 64 {
		what := "print as negative numbers"
		if !t.signed {
			what = "are truncated"
		}
		bad = append(bad, fmt.Sprintf("printer %s sends the uint64 value through %s (%s): %s %s and do not parse back to the same ID", a.to.Name(), jIntDesc(t), t.how, lost(t.width, t.signed), what))
	}
	if p.signed || p.width < 64 {
		bad = append(bad, fmt.Sprintf("parser %s reads the number through %s (%s): %s are rejected or wrapped although they are valid IDs", a.from.Name(), jIntDesc(p), p.how, lost(p.width, p.signed)))
	}
	if p.base != t.base {
		bad = append(bad, fmt.Sprintf("parser %s reads base %d (%s) but printer %s writes base %d (%s)", a.from.Name(), p.base, p.how, a.to.Name(), t.base, t.how))
	}
	return bad
}

func jIntDesc(k *jNumCodec) string {
	s := "an unsigned"
	if k.signed {
		s = "a signed"
	}
	return fmt.Sprintf("%s %d-bit integer", s, k.width)
}
