package main

import (
	"fmt"
	"go/ast"
	"go/types"
)

// EMIT-REJECT (C36): a feature source hands its features to an emit callback from as many
// goroutines as the build asks for, in no particular order. A callback that adds each feature to a
// world that validates what it is given (a path needs its points, an area its paths) gets an error
// for every feature that overtakes one it refers to. Dropping that error makes the world that is
// built depend on the interleaving: with one goroutine everything arrives in the source's order and
// is accepted; with eight, a quarter of the paths and areas were silently left out.
//
// Subjects, by type (whole module): function literals and functions whose signature is that of
// ingest.Emit (func(ingest.Feature, int) error), and in them every call of a method with an error
// result on a value whose type implements ingest.MutableWorld. Obligation: the error is bound to a
// variable or returned (not dropped by calling the method as a statement, not assigned to _).
func init() {
	register(&Rule{
		Name:  "EMIT-REJECT",
		IR:    "ast",
		Props: []string{"C36"},
		Floor: 1,
		Doc:   "an emit callback of a feature source (called from many goroutines in no particular order) does not drop the error with which a validating world rejects a feature that arrived before the features it refers to: what is rejected must be kept for later or reported, or the world built depends on the interleaving",
		Run:   runEmitReject,
	})
}

func runEmitReject(c *Ctx) []Obligation {
	var out []Obligation
	ip := c.Pkg("ingest")
	if ip == nil {
		return out
	}
	etn, _ := ip.Types.Scope().Lookup("Emit").(*types.TypeName)
	mtn, _ := ip.Types.Scope().Lookup("MutableWorld").(*types.TypeName)
	if etn == nil || mtn == nil {
		return out
	}
	emitSig, _ := etn.Type().Underlying().(*types.Signature)
	mw, _ := mtn.Type().Underlying().(*types.Interface)
	if emitSig == nil || mw == nil {
		return out
	}
	for _, p := range c.SortedPkgs() {
		info := p.TypesInfo
		for _, fd := range c.FuncDecls(p) {
			if fd.Body == nil {
				continue
			}
			name := c.FuncName(p, fd)
			ord := 0
			// serial(fl): the literal is handed to a call whose options name no goroutine count
			serial := func(fl *ast.FuncLit) bool {
				var bound types.Object
				ast.Inspect(fd.Body, func(n ast.Node) bool {
					if as, ok := n.(*ast.AssignStmt); ok && len(as.Lhs) == 1 && len(as.Rhs) == 1 && as.Rhs[0] == ast.Expr(fl) {
						if id, ok := as.Lhs[0].(*ast.Ident); ok {
							bound = info.Defs[id]
						}
					}
					return true
				})
				isSerial := false
				ast.Inspect(fd.Body, func(n ast.Node) bool {
					call, ok := n.(*ast.CallExpr)
					if !ok {
						return true
					}
					passes := false
					for _, a := range call.Args {
						if a == ast.Expr(fl) {
							passes = true
						}
						if id, ok := ast.Unparen(a).(*ast.Ident); ok && bound != nil && info.Uses[id] == bound {
							passes = true
						}
					}
					if !passes {
						return true
					}
					for _, a := range call.Args {
						if cl, ok := ast.Unparen(a).(*ast.CompositeLit); ok {
							if n := namedOf(info.TypeOf(cl)); n != nil && n.Obj().Name() == "ReadOptions" {
								hasCount := false
								for _, e := range cl.Elts {
									if kv, ok := e.(*ast.KeyValueExpr); ok {
										if k, ok := kv.Key.(*ast.Ident); ok {
											if b, ok := info.TypeOf(kv.Value).Underlying().(*types.Basic); ok && b.Info()&types.IsInteger != 0 && k.Name != "" {
												if tv := info.Types[kv.Value]; tv.Value == nil || (tv.Value.ExactString() != "0" && tv.Value.ExactString() != "1") {
													hasCount = true
												}
											}
										}
									}
								}
								if !hasCount {
									isSerial = true
								}
							}
						}
					}
					return true
				})
				return isSerial
			}
			var demote bool
			check := func(body *ast.BlockStmt) {
				var stack []ast.Node
				ast.Inspect(body, func(n ast.Node) bool {
					if n == nil {
						stack = stack[:len(stack)-1]
						return true
					}
					stack = append(stack, n)
					call, ok := n.(*ast.CallExpr)
					if !ok {
						return true
					}
					sel, ok := ast.Unparen(call.Fun).(*ast.SelectorExpr)
					if !ok {
						return true
					}
					f, _ := info.Uses[sel.Sel].(*types.Func)
					if f == nil {
						return true
					}
					sig := f.Type().(*types.Signature)
					if sig.Recv() == nil || sig.Results().Len() == 0 || !jIsError(sig.Results().At(sig.Results().Len()-1).Type()) {
						return true
					}
					rt := info.TypeOf(sel.X)
					if rt == nil || !(types.Implements(rt, mw) || types.Implements(types.NewPointer(rt), mw)) {
						return true
					}
					ord++
					ob := Obligation{Key: fmt.Sprintf("%s#%d", name, ord), Pos: c.Position(call.Pos()), Status: OK,
						Detail: fmt.Sprintf("the error of %s is bound or returned", srcText(c.Fset, call))}
					if len(stack) >= 2 {
						switch par := stack[len(stack)-2].(type) {
						case *ast.ExprStmt:
							ob.Status = Violation
							ob.Detail = fmt.Sprintf("%s is called as a statement inside an emit callback: a feature that arrives before the features it refers to is rejected and the rejection is dropped, so the world that is built depends on the order in which the goroutines deliver", srcText(c.Fset, call))
						case *ast.AssignStmt:
							if id, ok := par.Lhs[len(par.Lhs)-1].(*ast.Ident); ok && id.Name == "_" {
								ob.Status = Violation
								ob.Detail = fmt.Sprintf("the error of %s is assigned to _ inside an emit callback: rejections of features that arrive early are dropped", srcText(c.Fset, call))
							}
						}
					}
					if demote {
						if ob.Status == Violation {
							ob.Detail = "verdict violation (the source is read by one goroutine here, so the order is the source's): " + ob.Detail
						}
						ob.Status = Info
					}
					out = append(out, ob)
					return true
				})
			}
			if obj, _ := info.Defs[fd.Name].(*types.Func); obj != nil && types.Identical(obj.Type().(*types.Signature).Underlying(), emitSig) && fd.Recv == nil {
				check(fd.Body)
			}
			ast.Inspect(fd.Body, func(n ast.Node) bool {
				if fl, ok := n.(*ast.FuncLit); ok {
					if sig, ok := info.TypeOf(fl).(*types.Signature); ok && types.Identical(sig, emitSig) {
						demote = serial(fl)
						check(fl.Body)
						demote = false
						return false
					}
				}
				return true
			})
		}
	}
	return out
}
