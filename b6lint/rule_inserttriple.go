package main

import (
	"fmt"
	"go/ast"
	"go/token"
	"go/types"
	"sort"

	"golang.org/x/tools/go/cfg"
	"golang.org/x/tools/go/packages"
)

// INSERT-TRIPLE (C16, C37, C03, C12): a mutable world keeps three structures in step: the feature
// map, the reverse references (who refers to a feature) and the search index. A method that puts
// a feature value into the feature map - in particular the overlay copy of a base feature made by
// AddTag / RemoveTag, which from then on shadows the base version - has to register the same
// value in the other two: in the references, or the copy is not found as a referrer of its points
// and is never revalidated when they move; and in the search index under its FULL token set, or
// the copy shadows the base version while being searchable by a fraction of its tags.
//
// Instances: for every type implementing ingest.MutableWorld, in every method declared on it
// except the interface's AddFeature (whose insertion runs through ModifiedFeatures.Update and is
// the subject of VALIDATE-GATE / RESTORE; listed as info): each
//
//	recv.<features field>.AddFeature(f)      (callee: AddFeature of the feature map type, the named
//	                                          map type with element ingest.Feature)
//	(*recv.<features field>)[k] = f          (direct store into that map)
//
// with f a variable. One obligation per insertion, ordinal in source order within the method.
//
// Obligation (go/cfg): each of the two companions
//
//	recv.<field>.AddFeature(f)               on a field whose type is not the feature map (the
//	                                          reverse references), same variable f
//	recv.<field>.Add(f, T)                   T = TokensForFeature(e) with e mentioning f (WrapFeature(f, m)),
//	                                          or a variable bound once to such a call
//
// lies on every path from the insertion to a normal exit of the method, or on every path from the
// entry to the insertion (either order of the three statements is fine). An index call with any
// other token list (`[]string{tokenAfter}`) does not count.
//
// Not covered: insertions performed by callees; whether TokensForFeature is complete.
func init() {
	register(&Rule{
		Name:  "INSERT-TRIPLE",
		IR:    "cfg",
		Props: []string{"C16", "C37", "C03", "C12", "C15"}, // C15: a copy missing from the reverse references is a referrer the reference queries no longer return
		Floor: 2,                                           // MutableOverlayWorld.AddTag, MutableOverlayWorld.RemoveTag (base-only branches)
		Doc: "in the methods of every ingest.MutableWorld implementation (AddFeature's Update path apart), a feature value inserted into the world's feature map is, on every path, also added to the " +
			"world's reverse references and to its search index with the full token set TokensForFeature(<that feature>)",
		Run: runInsertTriple,
	})
}

type hTripleCtx struct {
	c      *Ctx
	p      *packages.Package
	info   *types.Info
	fd     *ast.FuncDecl
	recv   types.Object
	mapTyp *types.Named
}

// recvFieldCall: call is recv.<field>.<method>(...); returns the field selection's type.
func (t *hTripleCtx) recvFieldCall(call *ast.CallExpr, method string) (types.Type, bool) {
	sel, ok := ast.Unparen(call.Fun).(*ast.SelectorExpr)
	if !ok || sel.Sel.Name != method {
		return nil, false
	}
	fld, ok := ast.Unparen(sel.X).(*ast.SelectorExpr)
	if !ok {
		return nil, false
	}
	r, ok := ast.Unparen(fld.X).(*ast.Ident)
	if !ok || t.info.ObjectOf(r) != t.recv {
		return nil, false
	}
	s := t.info.Selections[fld]
	if s == nil || s.Kind() != types.FieldVal {
		return nil, false
	}
	return s.Type(), true
}

func (t *hTripleCtx) isMapType(ty types.Type) bool {
	n := namedOf(ty)
	return n != nil && n.Obj() == t.mapTyp.Obj()
}

func hIdentObj(info *types.Info, e ast.Expr) types.Object {
	if id, ok := ast.Unparen(e).(*ast.Ident); ok && id.Name != "_" {
		return info.ObjectOf(id)
	}
	return nil
}

// fullTokens: e is TokensForFeature(x) with x mentioning f, or a variable bound once to that.
func (t *hTripleCtx) fullTokens(e ast.Expr, f types.Object) bool {
	isCall := func(e ast.Expr) bool {
		call, ok := ast.Unparen(e).(*ast.CallExpr)
		if !ok || len(call.Args) != 1 {
			return false
		}
		fn := calleeFunc(t.info, call)
		if fn == nil || fn.Name() != "TokensForFeature" || fn.Pkg() == nil || fn.Pkg().Path() != ModulePath+"/ingest" {
			return false
		}
		return hMentions(t.info, call.Args[0], map[types.Object]bool{f: true})
	}
	if isCall(e) {
		return true
	}
	if v := hIdentObj(t.info, e); v != nil {
		var bound []ast.Expr
		ast.Inspect(t.fd.Body, func(n ast.Node) bool {
			if as, ok := n.(*ast.AssignStmt); ok && len(as.Lhs) == len(as.Rhs) {
				for i, l := range as.Lhs {
					if hIdentObj(t.info, l) == v {
						bound = append(bound, as.Rhs[i])
					}
				}
			}
			return true
		})
		return len(bound) == 1 && isCall(bound[0])
	}
	return false
}

func runInsertTriple(c *Ctx) []Obligation {
	in := c.Pkg("ingest")
	if in == nil {
		return []Obligation{{Key: "ingest#anchor", Status: Undecided, Detail: "package ingest not loaded"}}
	}
	tn, _ := in.Types.Scope().Lookup("MutableWorld").(*types.TypeName)
	ftn, _ := in.Types.Scope().Lookup("Feature").(*types.TypeName)
	if tn == nil || ftn == nil {
		return []Obligation{{Key: "ingest#anchor", Status: Undecided, Detail: "ingest.MutableWorld / ingest.Feature not found"}}
	}
	iface, _ := tn.Type().Underlying().(*types.Interface)
	feat, _ := ftn.Type().Underlying().(*types.Interface)
	if iface == nil || feat == nil {
		return []Obligation{{Key: "ingest#anchor", Status: Undecided, Detail: "ingest.MutableWorld / ingest.Feature is not an interface"}}
	}
	var mapTyp *types.Named
	for _, n := range in.Types.Scope().Names() {
		if t, ok := in.Types.Scope().Lookup(n).(*types.TypeName); ok {
			if mt, ok := t.Type().Underlying().(*types.Map); ok {
				if it, ok := mt.Elem().Underlying().(*types.Interface); ok && types.Identical(it, feat) {
					mapTyp = t.Type().(*types.Named)
				}
			}
		}
	}
	if mapTyp == nil {
		return []Obligation{{Key: "ingest#anchor", Status: Undecided, Detail: "no named map type with element ingest.Feature"}}
	}
	var out []Obligation
	for _, p := range c.SortedPkgs() {
		sc := p.Types.Scope()
		names := sc.Names()
		sort.Strings(names)
		for _, n := range names {
			t, ok := sc.Lookup(n).(*types.TypeName)
			if !ok {
				continue
			}
			if _, isIface := t.Type().Underlying().(*types.Interface); isIface {
				continue
			}
			if !types.Implements(t.Type(), iface) && !types.Implements(types.NewPointer(t.Type()), iface) {
				continue
			}
			for _, fd := range c.FuncDecls(p) {
				if fd.Recv == nil || len(fd.Recv.List) != 1 || len(fd.Recv.List[0].Names) != 1 {
					continue
				}
				if rn := namedOf(p.TypesInfo.TypeOf(fd.Recv.List[0].Type)); rn == nil || rn.Obj() != t {
					continue
				}
				out = append(out, hInsertTripleMethod(c, p, fd, mapTyp)...)
			}
		}
	}
	return out
}

func hInsertTripleMethod(c *Ctx, p *packages.Package, fd *ast.FuncDecl, mapTyp *types.Named) []Obligation {
	t := &hTripleCtx{c: c, p: p, info: p.TypesInfo, fd: fd, mapTyp: mapTyp}
	t.recv = t.info.ObjectOf(fd.Recv.List[0].Names[0])
	name := c.FuncName(p, fd)
	type insertion struct {
		node ast.Node
		f    types.Object
		text string
	}
	var ins []insertion
	ast.Inspect(fd.Body, func(n ast.Node) bool {
		switch x := n.(type) {
		case *ast.FuncLit:
			return false
		case *ast.CallExpr:
			if ft, ok := t.recvFieldCall(x, "AddFeature"); ok && t.isMapType(ft) && len(x.Args) == 1 {
				if f := hIdentObj(t.info, x.Args[0]); f != nil {
					ins = append(ins, insertion{x, f, types.ExprString(x)})
				}
			}
		case *ast.AssignStmt:
			if x.Tok != token.ASSIGN || len(x.Lhs) != 1 || len(x.Rhs) != 1 {
				return true
			}
			ix, ok := ast.Unparen(x.Lhs[0]).(*ast.IndexExpr)
			if !ok || !t.isMapType(t.info.TypeOf(ix.X)) {
				return true
			}
			// the map of the receiver: (*recv.field)[k] or recv.field[k]
			root := hRootIdent(ix.X)
			if root == nil || t.info.ObjectOf(root) != t.recv {
				return true
			}
			if f := hIdentObj(t.info, x.Rhs[0]); f != nil {
				ins = append(ins, insertion{x, f, nodeText(c.Fset, x)})
			}
		}
		return true
	})
	if len(ins) == 0 {
		return nil
	}
	var out []Obligation
	if fd.Name.Name == "AddFeature" {
		return []Obligation{{Key: name + "#update", Pos: c.Position(ins[0].node.Pos()), Status: Info,
			Detail: fmt.Sprintf("%d store(s) into the feature map inside AddFeature: temporary replacements paired with their restore (RESTORE) before ModifiedFeatures.Update inserts, references and indexes the feature; outside the slot of INSERT-TRIPLE", len(ins))}}
	}
	g := newCFG(t.info, fd.Body)
	for i, in := range ins {
		ob := Obligation{Key: fmt.Sprintf("%s#%d", name, i+1), Pos: c.Position(in.node.Pos())}
		loc, ok := findNode(g, in.node)
		if !ok {
			ob.Status, ob.Detail = Undecided, "insertion not found in the control-flow graph"
			out = append(out, ob)
			continue
		}
		contains := func(n ast.Node, pred func(*ast.CallExpr) bool) bool {
			found := false
			ast.Inspect(n, func(x ast.Node) bool {
				if _, isLit := x.(*ast.FuncLit); isLit {
					return false
				}
				if call, ok := x.(*ast.CallExpr); ok && pred(call) {
					found = true
				}
				return !found
			})
			return found
		}
		isRefs := func(call *ast.CallExpr) bool {
			ft, ok := t.recvFieldCall(call, "AddFeature")
			return ok && !t.isMapType(ft) && len(call.Args) == 1 && hIdentObj(t.info, call.Args[0]) == in.f
		}
		isIndex := func(call *ast.CallExpr) bool {
			_, ok := t.recvFieldCall(call, "Add")
			return ok && len(call.Args) == 2 && hIdentObj(t.info, call.Args[0]) == in.f && t.fullTokens(call.Args[1], in.f)
		}
		var missing []string
		var path []string
		for _, comp := range []struct {
			what string
			pred func(*ast.CallExpr) bool
		}{
			{"the reverse references (recv.<references>.AddFeature(" + in.f.Name() + "))", isRefs},
			{"the search index under its full token set (recv.<index>.Add(" + in.f.Name() + ", TokensForFeature(..." + in.f.Name() + "...)))", isIndex},
		} {
			pred := comp.pred
			stop := func(n ast.Node) bool { return contains(n, pred) }
			// after the insertion on every path to a normal exit ...
			after := (&pathSearch{c: c, info: t.info, stop: stop, exitIsBad: true}).run(loc)
			if after == nil {
				continue
			}
			// ... or before it on every path from the entry
			before := hReachesWithout(g, loc, stop)
			if !before {
				continue
			}
			missing = append(missing, comp.what)
			path = append(path, "without "+comp.what+":")
			path = append(path, after...)
		}
		if len(missing) > 0 {
			ob.Status = Violation
			ob.Detail = fmt.Sprintf("%s puts %s into the world's feature map (%s) but a path to the method's exit does not add it to %s; the value then shadows or replaces the previous version without being fully registered",
				name, in.f.Name(), in.text, missing[0])
			if len(missing) > 1 {
				ob.Detail += " nor to " + missing[1]
			}
			ob.Path = path
		} else {
			ob.Status = OK
			ob.Detail = fmt.Sprintf("%s: %s is accompanied on every path by the references insertion and by an index Add with TokensForFeature of the same value", name, in.text)
		}
		out = append(out, ob)
	}
	return out
}

// hReachesWithout: the node at target can be reached from the function entry without passing a
// node accepted by stop.
func hReachesWithout(g *cfg.CFG, target nodeLoc, stop func(ast.Node) bool) bool {
	if len(g.Blocks) == 0 {
		return true
	}
	seen := map[*cfg.Block]bool{g.Blocks[0]: true}
	work := []*cfg.Block{g.Blocks[0]}
	for len(work) > 0 {
		b := work[0]
		work = work[1:]
		stopped := false
		for i, n := range b.Nodes {
			if b == target.b && i == target.i {
				return true
			}
			if stop(n) {
				stopped = true
				break
			}
		}
		if stopped {
			continue
		}
		for _, s := range b.Succs {
			if !seen[s] {
				seen[s] = true
				work = append(work, s)
			}
		}
	}
	return false
}
