package main

import (
	"fmt"
	"go/ast"
	"go/constant"
	"go/token"
	"go/types"
	"sort"
	"strings"
)

// UNSAT-GUARD (C20): a guard must be satisfiable. Instances are found by shape in every
// non-generated function of package api: a maximal boolean formula (a tree of &&, ||, ! and
// parentheses that is not itself an operand of such an operator) in which one operand
// (structurally the same, call-free numeric expression, e.g. `v[0]`) is compared at least twice
// with constants by <, <=, >, >=, == or !=. One instance per formula and operand.
//
// Decision (exact for this fragment, no solver): every comparison atom of the operand denotes a
// set of intervals (integers as integers, within the value range of the operand's type); all
// other atoms are unknown (may be true or false); &&, || and ! are intersection, union and
// complement. For every sub-formula that contains at least two comparison atoms of the operand,
// the set of operand values for which it can be true must be non-empty. An empty set means the
// sub-formula is constantly false and what it guards never happens; this is what a conjunction
// of comparisons with an empty interval intersection is. Because unknown atoms are
// over-approximated, a report is always a certain emptiness; the rule does not look for
// constantly-true formulas or for contradictions that need two different operands.
//
// Scope of the property: the functions reachable by static calls inside package api from
// UnparseExpression (the entry C20 anchors), which is where tag keys and values are quoted for
// printing (EscapeTagKey, EscapeTagValue, isValidSymbolRune). Formulas elsewhere in the package
// are reported as info only.
func init() {
	register(&Rule{
		Name:  "UNSAT-GUARD",
		IR:    "ast",
		Props: []string{"C20"},
		Floor: 3, // EscapeTagKey#1, EscapeTagValue#1, isValidSymbolRune#1
		Doc: "in the functions of package api reachable from UnparseExpression, every boolean sub-formula that compares one operand with constants at least twice " +
			"is satisfiable for some value of that operand (an empty solution set makes the guard constantly false)",
		Run: runUnsatGuard,
	})
}

// ---- interval sets -------------------------------------------------------------------------

type jB struct {
	v      constant.Value // nil: infinite
	closed bool
}

type jIv struct{ lo, hi jB } // lo.v == nil: -inf, hi.v == nil: +inf

type jSet []jIv // sorted, disjoint, non-empty

func jUniverse() jSet { return jSet{{}} }

func (iv jIv) empty() bool {
	if iv.lo.v == nil || iv.hi.v == nil {
		return false
	}
	if constant.Compare(iv.lo.v, token.GTR, iv.hi.v) {
		return true
	}
	return constant.Compare(iv.lo.v, token.EQL, iv.hi.v) && !(iv.lo.closed && iv.hi.closed)
}

// lower bound a is below lower bound b
func jLoLess(a, b jB) bool {
	if a.v == nil {
		return b.v != nil
	}
	if b.v == nil {
		return false
	}
	if constant.Compare(a.v, token.EQL, b.v) {
		return a.closed && !b.closed
	}
	return constant.Compare(a.v, token.LSS, b.v)
}

// upper bound a is below upper bound b
func jHiLess(a, b jB) bool {
	if b.v == nil {
		return a.v != nil
	}
	if a.v == nil {
		return false
	}
	if constant.Compare(a.v, token.EQL, b.v) {
		return !a.closed && b.closed
	}
	return constant.Compare(a.v, token.LSS, b.v)
}

func jIntersect(a, b jSet) jSet {
	var out jSet
	for _, x := range a {
		for _, y := range b {
			iv := x
			if jLoLess(iv.lo, y.lo) {
				iv.lo = y.lo
			}
			if jHiLess(y.hi, iv.hi) {
				iv.hi = y.hi
			}
			if !iv.empty() {
				out = append(out, iv)
			}
		}
	}
	return jNormalise(out)
}

func jNormalise(s jSet) jSet {
	sort.SliceStable(s, func(i, j int) bool { return jLoLess(s[i].lo, s[j].lo) })
	var out jSet
	for _, iv := range s {
		if iv.empty() {
			continue
		}
		if n := len(out); n > 0 {
			last := &out[n-1]
			// overlap or touch: iv.lo <= last.hi
			touch := last.hi.v == nil || iv.lo.v == nil || constant.Compare(iv.lo.v, token.LSS, last.hi.v) ||
				(constant.Compare(iv.lo.v, token.EQL, last.hi.v) && (iv.lo.closed || last.hi.closed))
			if touch {
				if jHiLess(last.hi, iv.hi) {
					last.hi = iv.hi
				}
				continue
			}
		}
		out = append(out, iv)
	}
	return out
}

func jUnion(a, b jSet) jSet { return jNormalise(append(append(jSet(nil), a...), b...)) }

func jComplement(s jSet, integer bool) jSet {
	s = jNormalise(append(jSet(nil), s...))
	var out jSet
	cur := jB{} // lower bound of the next gap: -inf
	open := true
	for _, iv := range s {
		if iv.lo.v != nil {
			out = append(out, jIv{cur, jB{iv.lo.v, !iv.lo.closed}})
		}
		if iv.hi.v == nil {
			open = false
			break
		}
		cur = jB{iv.hi.v, !iv.hi.closed}
	}
	if open {
		out = append(out, jIv{cur, jB{}})
	}
	if integer {
		out = jIntegerise(out)
	}
	return jNormalise(out)
}

// jIntegerise turns open integral bounds into closed ones (x > 3 is x >= 4 over the integers).
func jIntegerise(s jSet) jSet {
	one := constant.MakeInt64(1)
	for i := range s {
		if s[i].lo.v != nil && !s[i].lo.closed && s[i].lo.v.Kind() == constant.Int {
			s[i].lo = jB{constant.BinaryOp(s[i].lo.v, token.ADD, one), true}
		}
		if s[i].hi.v != nil && !s[i].hi.closed && s[i].hi.v.Kind() == constant.Int {
			s[i].hi = jB{constant.BinaryOp(s[i].hi.v, token.SUB, one), true}
		}
	}
	return s
}

func (s jSet) String() string {
	if len(s) == 0 {
		return "{}"
	}
	var parts []string
	for _, iv := range s {
		l, h, lb, hb := "-inf", "+inf", "(", ")"
		if iv.lo.v != nil {
			l = iv.lo.v.ExactString()
			if iv.lo.closed {
				lb = "["
			}
		}
		if iv.hi.v != nil {
			h = iv.hi.v.ExactString()
			if iv.hi.closed {
				hb = "]"
			}
		}
		parts = append(parts, lb+l+", "+h+hb)
	}
	return strings.Join(parts, " u ")
}

// ---- formulas ------------------------------------------------------------------------------

// jAtom is a comparison `operand op constant` (normalised so that the operand is on the left).
type jAtom struct {
	operand ast.Expr
	op      token.Token
	k       constant.Value
	text    string
}

func jAtomOf(info *types.Info, e ast.Expr) (*jAtom, bool) {
	b, ok := ast.Unparen(e).(*ast.BinaryExpr)
	if !ok {
		return nil, false
	}
	op := b.Op
	switch op {
	case token.LSS, token.LEQ, token.GTR, token.GEQ, token.EQL, token.NEQ:
	default:
		return nil, false
	}
	x, y := ast.Unparen(b.X), ast.Unparen(b.Y)
	cx, cy := jConst(info, x), jConst(info, y)
	var operand ast.Expr
	var k constant.Value
	switch {
	case cx == nil && cy != nil:
		operand, k = x, cy
	case cx != nil && cy == nil:
		operand, k = y, cx
		switch op { // c < x  ==  x > c
		case token.LSS:
			op = token.GTR
		case token.LEQ:
			op = token.GEQ
		case token.GTR:
			op = token.LSS
		case token.GEQ:
			op = token.LEQ
		}
	default:
		return nil, false
	}
	if k.Kind() != constant.Int && k.Kind() != constant.Float {
		return nil, false
	}
	bt, ok := info.TypeOf(operand).Underlying().(*types.Basic)
	if !ok || bt.Info()&types.IsNumeric == 0 || bt.Info()&types.IsComplex != 0 || !jPure(info, operand) {
		return nil, false
	}
	return &jAtom{operand, op, k, fmt.Sprintf("%s %s %s", types.ExprString(operand), op, jConstText(info, b, k))}, true
}

func (a *jAtom) set(integer bool) jSet {
	var s jSet
	switch a.op {
	case token.LSS:
		s = jSet{{jB{}, jB{a.k, false}}}
	case token.LEQ:
		s = jSet{{jB{}, jB{a.k, true}}}
	case token.GTR:
		s = jSet{{jB{a.k, false}, jB{}}}
	case token.GEQ:
		s = jSet{{jB{a.k, true}, jB{}}}
	case token.EQL:
		s = jSet{{jB{a.k, true}, jB{a.k, true}}}
	case token.NEQ:
		return jComplement(jSet{{jB{a.k, true}, jB{a.k, true}}}, integer)
	}
	if integer {
		s = jIntegerise(s)
	}
	return jNormalise(s)
}

// jIsBool: &&, || or ! node.
func jIsBool(e ast.Expr) bool {
	switch x := ast.Unparen(e).(type) {
	case *ast.BinaryExpr:
		return x.Op == token.LAND || x.Op == token.LOR
	case *ast.UnaryExpr:
		return x.Op == token.NOT
	}
	return false
}

// jFormulaLeaves calls f on every leaf (non-&&/||/! operand) of a boolean formula, left to right.
func jFormulaLeaves(info *types.Info, e ast.Expr, f func(ast.Expr)) {
	e = ast.Unparen(e)
	switch x := e.(type) {
	case *ast.BinaryExpr:
		if x.Op == token.LAND || x.Op == token.LOR {
			jFormulaLeaves(info, x.X, f)
			jFormulaLeaves(info, x.Y, f)
			return
		}
	case *ast.UnaryExpr:
		if x.Op == token.NOT {
			jFormulaLeaves(info, x.X, f)
			return
		}
	}
	f(e)
}

type jFormulaCheck struct {
	info     *types.Info
	operand  ast.Expr
	integer  bool
	universe jSet
	dead     []string // sub-formulas with an empty solution set, innermost first
}

// eval returns (the set where e may be true, the set where e may be false, number of atoms of
// the operand inside e).
func (f *jFormulaCheck) eval(e ast.Expr) (jSet, jSet, int) {
	e = ast.Unparen(e)
	switch x := e.(type) {
	case *ast.BinaryExpr:
		if x.Op == token.LAND || x.Op == token.LOR {
			at, af, an := f.eval(x.X)
			bt, bf, bn := f.eval(x.Y)
			var t, fl jSet
			if x.Op == token.LAND {
				t, fl = jIntersect(at, bt), jUnion(af, bf)
			} else {
				t, fl = jUnion(at, bt), jIntersect(af, bf)
			}
			n := an + bn
			if n >= 2 && len(t) == 0 && (an < 2 || len(at) > 0) && (bn < 2 || len(bt) > 0) {
				f.dead = append(f.dead, jShort(types.ExprString(e)))
			}
			return t, fl, n
		}
		if a, ok := jAtomOf(f.info, e); ok && sameExpr(f.info, a.operand, f.operand) {
			s := jIntersect(a.set(f.integer), f.universe)
			return s, jIntersect(jComplement(s, f.integer), f.universe), 1
		}
	case *ast.UnaryExpr:
		if x.Op == token.NOT {
			t, fl, n := f.eval(x.X)
			return fl, t, n
		}
	}
	return f.universe, f.universe, 0
}

func runUnsatGuard(c *Ctx) []Obligation {
	p := c.Pkg("api")
	if p == nil {
		return nil
	}
	info := p.TypesInfo
	decls := c.FuncDecls(p)

	// scope: functions reachable from UnparseExpression by static calls within the package
	inScope := map[*types.Func]bool{}
	if entry, _ := p.Types.Scope().Lookup("UnparseExpression").(*types.Func); entry != nil {
		work := []*types.Func{entry}
		inScope[entry] = true
		for len(work) > 0 {
			f := work[0]
			work = work[1:]
			fd, fp := c.Decl(f)
			if fd == nil || fd.Body == nil || fp != p {
				continue
			}
			ast.Inspect(fd.Body, func(n ast.Node) bool {
				if call, ok := n.(*ast.CallExpr); ok {
					if g := calleeFunc(info, call); g != nil && g.Pkg() == p.Types && !inScope[g.Origin()] {
						inScope[g.Origin()] = true
						work = append(work, g.Origin())
					}
				}
				return true
			})
		}
	}

	var out []Obligation
	for _, fd := range decls {
		if jGenerated(c, fd.Pos()) {
			continue
		}
		fn, _ := info.Defs[fd.Name].(*types.Func)
		scope := fn != nil && inScope[fn]
		name := c.FuncName(p, fd)
		ord := 0
		// maximal boolean formulas
		var roots []ast.Expr
		var visit func(n ast.Node)
		visit = func(n ast.Node) {
			ast.Inspect(n, func(x ast.Node) bool {
				e, ok := x.(ast.Expr)
				if !ok || !jIsBool(e) {
					return true
				}
				roots = append(roots, e)
				// a non-boolean leaf may contain further formulas (call arguments, literals)
				jFormulaLeaves(info, e, func(leaf ast.Expr) { visit(leaf) })
				return false
			})
		}
		visit(fd.Body)
		sort.SliceStable(roots, func(i, j int) bool { return roots[i].Pos() < roots[j].Pos() })
		for _, root := range roots {
			var atoms []*jAtom
			jFormulaLeaves(info, root, func(leaf ast.Expr) {
				if a, ok := jAtomOf(info, leaf); ok {
					atoms = append(atoms, a)
				}
			})
			// group by operand, in order of first occurrence
			var operands []ast.Expr
			count := map[int]int{}
			texts := map[int][]string{}
			for _, a := range atoms {
				idx := -1
				for i, o := range operands {
					if sameExpr(info, o, a.operand) {
						idx = i
					}
				}
				if idx < 0 {
					operands = append(operands, a.operand)
					idx = len(operands) - 1
				}
				count[idx]++
				texts[idx] = append(texts[idx], a.text)
			}
			for i, operand := range operands {
				if count[i] < 2 {
					continue
				}
				ord++
				ob := Obligation{Key: fmt.Sprintf("%s#%d", name, ord), Pos: c.Position(root.Pos())}
				bt := info.TypeOf(operand).Underlying().(*types.Basic)
				fc := &jFormulaCheck{info: info, operand: operand, integer: bt.Info()&types.IsInteger != 0, universe: jUniverse()}
				if fc.integer {
					if min, max, ok := jIntRange(bt.Kind()); ok {
						fc.universe = jSet{{jB{min, true}, jB{max, true}}}
					}
				}
				t, _, _ := fc.eval(root)
				desc := fmt.Sprintf("%s compared in %s (atoms: %s)", types.ExprString(operand), jShort(types.ExprString(root)), strings.Join(texts[i], "; "))
				switch {
				case len(fc.dead) > 0 && scope:
					ob.Status = Violation
					ob.Detail = fmt.Sprintf("%s: no value of %s satisfies %s; that sub-formula is constantly false, so what it guards never happens (the whole formula can be true for %s in %s)",
						desc, types.ExprString(operand), fc.dead[0], types.ExprString(operand), t)
				case len(fc.dead) > 0:
					ob.Status = Info
					ob.Detail = fmt.Sprintf("(outside the printing functions) %s: no value of %s satisfies %s", desc, types.ExprString(operand), fc.dead[0])
				case scope:
					ob.Status = OK
					ob.Detail = fmt.Sprintf("%s: every sub-formula is satisfiable; the formula can be true for %s in %s", desc, types.ExprString(operand), t)
				default:
					ob.Status = Info
					ob.Detail = fmt.Sprintf("(outside the printing functions) %s: satisfiable for %s in %s", desc, types.ExprString(operand), t)
				}
				out = append(out, ob)
			}
		}
	}
	return out
}

func jShort(s string) string {
	if len(s) > 120 {
		return s[:117] + "..."
	}
	return s
}

// jPure: an operand whose two occurrences denote the same value: no calls except len/cap and
// conversions, no receives.
func jPure(info *types.Info, e ast.Expr) bool {
	pure := true
	ast.Inspect(e, func(n ast.Node) bool {
		switch x := n.(type) {
		case *ast.CallExpr:
			if tv, ok := info.Types[x.Fun]; ok && tv.IsType() {
				return true
			}
			if isBuiltin(info, x, "len") || isBuiltin(info, x, "cap") {
				return true
			}
			pure = false
		case *ast.UnaryExpr:
			if x.Op == token.ARROW {
				pure = false
			}
		case *ast.FuncLit:
			pure = false
		}
		return pure
	})
	return pure
}

// jConstText renders the constant as written in the source when it is a literal.
func jConstText(info *types.Info, b *ast.BinaryExpr, k constant.Value) string {
	for _, e := range []ast.Expr{ast.Unparen(b.X), ast.Unparen(b.Y)} {
		if lit, ok := e.(*ast.BasicLit); ok && jConst(info, e) != nil {
			if lit.Kind == token.CHAR {
				return fmt.Sprintf("%s (%s)", lit.Value, k.ExactString())
			}
			return lit.Value
		}
	}
	return k.ExactString()
}

func jIntRange(k types.BasicKind) (constant.Value, constant.Value, bool) {
	mk := func(bits uint, signed bool) (constant.Value, constant.Value, bool) {
		one := constant.MakeInt64(1)
		if signed {
			p := constant.Shift(one, token.SHL, bits-1)
			return constant.UnaryOp(token.SUB, p, 0), constant.BinaryOp(p, token.SUB, one), true
		}
		return constant.MakeInt64(0), constant.BinaryOp(constant.Shift(one, token.SHL, bits), token.SUB, one), true
	}
	switch k {
	case types.Int8:
		return mk(8, true)
	case types.Int16:
		return mk(16, true)
	case types.Int32:
		return mk(32, true)
	case types.Int64, types.Int:
		return mk(64, true)
	case types.Uint8:
		return mk(8, false)
	case types.Uint16:
		return mk(16, false)
	case types.Uint32:
		return mk(32, false)
	case types.Uint64, types.Uint, types.Uintptr:
		return mk(64, false)
	}
	return nil, nil, false
}
