package main

import (
	"fmt"
	"go/ast"
	"go/token"
	"go/types"
	"strings"

	"golang.org/x/tools/go/packages"
)

// LAYOUT (C01, C09, C10): the bucket header of encoding.Uint64Map stores
// `(id >> BucketBits) << TagBits | tag` in 64 bits, which keeps every bit of the id only when
// BucketBits >= TagBits. The rule has four kinds of instance, all discovered through the types
// (the layout struct and its two fields are looked up once; everything else follows from them):
//
//  1. creation: every composite literal of the layout type. Its BucketBits/TagBits operands are
//     constants that satisfy B >= T, or a guard on those same operands dominates the literal in
//     the enclosing function. Accepted guards: the clamp `if b < t { b = t }` (also written
//     `if t > b`, with <=/>=, as `if t > b { t = b }`, or `b = max(b, t)`), and the rejecting
//     `if b < t { panic(…) / log.Fatal(…) / return … }` (the comparison may be one operand of ||).
//     Between guard and literal the two operands must not be assigned.
//  2. callers: when the operands are parameters of the creating function, every static call of it
//     in the module: discharged by the callee's guard, by constant arguments with B >= T, or by
//     the same guards on the argument expressions at the call site.
//  3. writers: every assignment to (or address of) one of the two fields; only the layout's own
//     Unmarshal (the reader of a stored header) may write them.
//  4. mirror: the header Marshal is `(ID >> X) << Y | tag` with X = BucketBits and Y = TagBits; the
//     header Unmarshal reads the tag with the mask (1<<Y)-1 and rebuilds the id as `(v >> Y) << X`;
//     the bucket selector masks the id with (1<<X)-1 (those are the bits Marshal drops).
func init() {
	register(&Rule{
		Name:  "LAYOUT",
		IR:    "cfg",
		Props: []string{"C01", "C09", "C10"},
		Floor: 8, // 1 literal, 1 caller, 2 field writers, 4 mirror obligations
		// the caller obligation speaks about the layouts the index builder creates (C01, C10), not
		// about the container API (C09)
		FloorBy: map[string]int{"C09": 7},
		Doc: "wherever an encoding.Uint64MapLayout is created for writing, a guard establishing BucketBits >= TagBits dominates its use " +
			"(clamp, rejecting panic/return, or constant operands that satisfy it), at the creating function or at each of its call sites; " +
			"no code but the layout's Unmarshal writes the two fields; the bucket header Marshal/Unmarshal and the bucket selector use the same two shift amounts in mirrored order",
		Run: runLayout,
	})
}

type cLayout struct {
	c      *Ctx
	keys   *cKeys
	out    []Obligation
	named  *types.Named
	bucket *types.Var
	tag    *types.Var
}

func (l *cLayout) add(fn string, pos token.Pos, status, detail string, props []string, path ...string) {
	l.out = append(l.out, Obligation{Key: l.keys.next(fn), Pos: l.c.Position(pos), Status: status, Detail: detail, Path: path, Props: props})
}

func runLayout(c *Ctx) []Obligation {
	l := &cLayout{c: c, keys: cNewKeys()}
	ep := c.Pkg("encoding")
	if ep == nil {
		return []Obligation{{Key: "encoding#1", Pos: "-", Status: Undecided, Detail: "package encoding not loaded"}}
	}
	tn, _ := ep.Types.Scope().Lookup("Uint64MapLayout").(*types.TypeName)
	if tn != nil {
		l.named, _ = tn.Type().(*types.Named)
	}
	if l.named != nil {
		if st, ok := l.named.Underlying().(*types.Struct); ok {
			for i := 0; i < st.NumFields(); i++ {
				switch st.Field(i).Name() {
				case "BucketBits":
					l.bucket = st.Field(i)
				case "TagBits":
					l.tag = st.Field(i)
				}
			}
		}
	}
	if l.bucket == nil || l.tag == nil {
		return []Obligation{{Key: "encoding.Uint64MapLayout#1", Pos: "-", Status: Undecided, Detail: "struct encoding.Uint64MapLayout with fields BucketBits and TagBits not found"}}
	}
	l.creations()
	l.writers()
	l.mirror(ep)
	return l.out
}

// ---------------------------------------------------------------------------------------------
// 1 + 2: creation sites and their callers

func (l *cLayout) creations() {
	for _, p := range l.c.SortedPkgs() {
		info := p.TypesInfo
		for _, u := range l.c.units(p, true) {
			var lits []*ast.CompositeLit
			inspectShallow(u.body, func(n ast.Node) bool {
				if cl, ok := n.(*ast.CompositeLit); ok {
					if t := info.TypeOf(cl); t != nil && types.Identical(t, l.named) {
						lits = append(lits, cl)
					}
				}
				return true
			})
			for _, cl := range lits {
				l.creation(p, u, cl)
			}
		}
	}
}

// operands returns the BucketBits and TagBits operands of a literal (nil: zero value).
func (l *cLayout) operands(info *types.Info, cl *ast.CompositeLit) (b, t ast.Expr) {
	st := l.named.Underlying().(*types.Struct)
	for i, el := range cl.Elts {
		if kv, ok := el.(*ast.KeyValueExpr); ok {
			if id, ok := kv.Key.(*ast.Ident); ok {
				switch info.ObjectOf(id) {
				case types.Object(l.bucket):
					b = kv.Value
				case types.Object(l.tag):
					t = kv.Value
				}
			}
			continue
		}
		if i < st.NumFields() {
			switch st.Field(i) {
			case l.bucket:
				b = el
			case l.tag:
				t = el
			}
		}
	}
	return b, t
}

func cConstOrZero(info *types.Info, e ast.Expr) (int64, bool) {
	if e == nil {
		return 0, true
	}
	return cConstI64(info, e)
}

func cExprOrZero(e ast.Expr) string {
	if e == nil {
		return "0"
	}
	return types.ExprString(e)
}

func (l *cLayout) creation(p *packages.Package, u funcUnit, cl *ast.CompositeLit) {
	info := p.TypesInfo
	all := []string{"C01", "C09", "C10"}
	b, t := l.operands(info, cl)
	what := fmt.Sprintf("layout literal {BucketBits: %s, TagBits: %s}", cExprOrZero(b), cExprOrZero(t))
	bv, bok := cConstOrZero(info, b)
	tv, tok := cConstOrZero(info, t)
	if bok && tok {
		if bv >= tv {
			l.add(u.name, cl.Pos(), OK, fmt.Sprintf("%s: constants, %d >= %d", what, bv, tv), all)
		} else {
			l.add(u.name, cl.Pos(), Violation, fmt.Sprintf("%s: constant BucketBits %d < TagBits %d: the header drops the top %d bits of every id", what, bv, tv, tv-bv), all)
		}
		return
	}
	guard, why := l.guarded(info, u.body, cl, b, t)
	guardedHere := guard != ""
	// callers, when the operands come from parameters of a declared function
	type siteResult struct {
		cs             cCallSite
		status, detail string
	}
	var sites []siteResult
	if u.lit == nil {
		fn := cFuncObj(p, u.decl)
		bi, ti := -1, -1
		if id, ok := cStripConvOrNil(info, b).(*ast.Ident); ok {
			bi = cParamIndex(fn, info.ObjectOf(id))
		}
		if id, ok := cStripConvOrNil(info, t).(*ast.Ident); ok {
			ti = cParamIndex(fn, info.ObjectOf(id))
		}
		if bi >= 0 || ti >= 0 {
			for _, cs := range cCallSites(l.c, fn) {
				cinfo := cs.pkg.TypesInfo
				var ab, at ast.Expr
				if bi >= 0 && bi < len(cs.call.Args) {
					ab = cs.call.Args[bi]
				}
				if ti >= 0 && ti < len(cs.call.Args) {
					at = cs.call.Args[ti]
				}
				head := fmt.Sprintf("call %s(%s, %s)", u.name, cExprOrZero(ab), cExprOrZero(at))
				r := siteResult{cs: cs}
				av, aok := cConstOrZero(cinfo, ab)
				tv2, tok2 := cConstOrZero(cinfo, at)
				switch {
				case guardedHere:
					r.status, r.detail = OK, head+": the callee establishes BucketBits >= TagBits itself"
				case bi < 0 || ti < 0:
					r.status, r.detail = Undecided, head+": only one of the two layout operands is a parameter of the callee"
				case aok && tok2 && av >= tv2:
					r.status, r.detail = OK, fmt.Sprintf("%s: constant arguments, %d >= %d", head, av, tv2)
				case aok && tok2:
					r.status, r.detail = Violation, fmt.Sprintf("%s: constant BucketBits %d < TagBits %d", head, av, tv2)
				default:
					if g, why := l.guarded(cinfo, cs.decl.Body, cs.call, ab, at); g != "" {
						r.status, r.detail = OK, fmt.Sprintf("%s: dominated by %s", head, g)
					} else {
						r.status, r.detail = Violation, fmt.Sprintf("%s: the arguments are not constants and neither the callee nor the caller establishes BucketBits >= TagBits (%s)", head, why)
					}
				}
				sites = append(sites, r)
			}
		}
	}
	switch {
	case guardedHere:
		l.add(u.name, cl.Pos(), OK, fmt.Sprintf("%s: dominated by %s", what, guard), all)
	default:
		// Without a guard of its own the creating function accepts layouts that lose id bits: that
		// is C09 (any layout the API accepts). C01/C10 speak about the layouts the index builder
		// creates, so they are discharged when every call site is.
		props, extra := all, ""
		allSites := len(sites) > 0
		for _, r := range sites {
			allSites = allSites && r.status == OK
		}
		if allSites {
			props, extra = []string{"C09"}, fmt.Sprintf("; all %d call sites in the module are guarded, so only the API-level clause (C09) is affected", len(sites))
		}
		l.add(u.name, cl.Pos(), Violation, fmt.Sprintf("%s: no guard in %s establishes BucketBits >= TagBits before the layout is created (%s); with BucketBits < TagBits the header `(id>>BucketBits)<<TagBits` drops the top bits of the id%s", what, u.name, why, extra), props)
		if allSites {
			l.add(u.name, cl.Pos(), OK, fmt.Sprintf("%s: unguarded here, but each of the %d call sites in the module establishes BucketBits >= TagBits", what, len(sites)), []string{"C01", "C10"})
		}
	}
	for _, r := range sites {
		l.add(r.cs.fn, r.cs.call.Pos(), r.status, r.detail, []string{"C01", "C10"})
	}
}

func cStripConvOrNil(info *types.Info, e ast.Expr) ast.Expr {
	if e == nil {
		return nil
	}
	return cStripConv(info, e)
}

// guarded looks in body for a guard on (b, t) that dominates `use`. It returns a description of
// the guard, or "" and the reason.
func (l *cLayout) guarded(info *types.Info, body *ast.BlockStmt, use ast.Node, b, t ast.Expr) (string, string) {
	if b == nil || t == nil {
		return "", "an operand is left at its zero value while the other is not constant"
	}
	b, t = cStripConv(info, b), cStripConv(info, t)
	type cand struct {
		node ast.Node // node to find in the CFG
		end  token.Pos
		own  ast.Node // the guard's own assignment, exempt from the no-assignment check
		text string
	}
	var cands []cand
	// less reports whether e is (a disjunct that is) `b < t` in one of its spellings
	var less func(e ast.Expr) bool
	less = func(e ast.Expr) bool {
		be, ok := ast.Unparen(e).(*ast.BinaryExpr)
		if !ok {
			return false
		}
		if be.Op == token.LOR {
			return less(be.X) || less(be.Y)
		}
		x, y := cStripConv(info, be.X), cStripConv(info, be.Y)
		switch be.Op {
		case token.LSS, token.LEQ:
			return sameExpr(info, x, b) && sameExpr(info, y, t)
		case token.GTR, token.GEQ:
			return sameExpr(info, x, t) && sameExpr(info, y, b)
		}
		return false
	}
	inspectShallow(body, func(n ast.Node) bool {
		switch s := n.(type) {
		case *ast.IfStmt:
			if !less(s.Cond) || len(s.Body.List) == 0 {
				return true
			}
			last := s.Body.List[len(s.Body.List)-1]
			rejecting := false
			switch x := last.(type) {
			case *ast.ReturnStmt:
				rejecting = true
			case *ast.ExprStmt:
				if call, ok := x.X.(*ast.CallExpr); ok && noReturn(info, call) {
					rejecting = true
				}
			}
			if rejecting {
				cands = append(cands, cand{node: s.Cond, end: s.End(), text: fmt.Sprintf("the rejecting guard `if %s` at %s", types.ExprString(s.Cond), l.c.Position(s.Pos()))})
				return true
			}
			if s.Else == nil && len(s.Body.List) == 1 {
				if as, ok := last.(*ast.AssignStmt); ok && as.Tok == token.ASSIGN && len(as.Lhs) == 1 && len(as.Rhs) == 1 {
					lhs, rhs := ast.Unparen(as.Lhs[0]), cStripConv(info, as.Rhs[0])
					if (sameExpr(info, lhs, b) && sameExpr(info, rhs, t)) || (sameExpr(info, lhs, t) && sameExpr(info, rhs, b)) {
						cands = append(cands, cand{node: s.Cond, end: s.End(), own: as, text: fmt.Sprintf("the clamp `if %s { %s }` at %s", types.ExprString(s.Cond), nodeText(l.c.Fset, as), l.c.Position(s.Pos()))})
					}
				}
			}
		case *ast.AssignStmt:
			// b = max(b, t)
			if s.Tok != token.ASSIGN || len(s.Lhs) != 1 || len(s.Rhs) != 1 || !sameExpr(info, ast.Unparen(s.Lhs[0]), b) {
				return true
			}
			call, ok := cStripConv(info, s.Rhs[0]).(*ast.CallExpr)
			if !ok || !isBuiltin(info, call, "max") {
				return true
			}
			hasB, hasT := false, false
			for _, a := range call.Args {
				a = cStripConv(info, a)
				hasB = hasB || sameExpr(info, a, b)
				hasT = hasT || sameExpr(info, a, t)
			}
			if hasB && hasT {
				cands = append(cands, cand{node: s, end: s.End(), own: s, text: fmt.Sprintf("the clamp `%s` at %s", nodeText(l.c.Fset, s), l.c.Position(s.Pos()))})
			}
		}
		return true
	})
	if len(cands) == 0 {
		return "", "no clamp or rejecting test of " + types.ExprString(b) + " against " + types.ExprString(t)
	}
	g := newCFG(info, body)
	why := ""
	for _, cd := range cands {
		if cd.end > use.Pos() {
			why = "the guard comes after the use"
			continue
		}
		// dominance: no path from the entry reaches the use without passing the guard
		ps := &pathSearch{c: l.c, info: info,
			stop: func(n ast.Node) bool { return n.Pos() <= cd.node.Pos() && cd.node.End() <= n.End() },
			bad:  func(n ast.Node) bool { return n.Pos() <= use.Pos() && use.End() <= n.End() },
		}
		if len(g.Blocks) == 0 {
			continue
		}
		if w := ps.run(nodeLoc{g.Blocks[0], -1}); w != nil {
			why = "a path reaches the use without passing " + cd.text
			continue
		}
		// stability: the operands are not assigned between guard and use
		changed := ""
		inspectShallow(body, func(n ast.Node) bool {
			var lhs []ast.Expr
			switch s := n.(type) {
			case *ast.AssignStmt:
				if ast.Node(s) == cd.own {
					return true
				}
				lhs = s.Lhs
			case *ast.IncDecStmt:
				lhs = []ast.Expr{s.X}
			default:
				return true
			}
			if n.Pos() < cd.node.Pos() || n.Pos() > use.Pos() {
				return true
			}
			for _, e := range lhs {
				if sameExpr(info, ast.Unparen(e), b) || sameExpr(info, ast.Unparen(e), t) || cSharesRoot(info, e, b) || cSharesRoot(info, e, t) {
					changed = nodeText(l.c.Fset, n) + " at " + l.c.Position(n.Pos())
				}
			}
			return true
		})
		if changed != "" {
			why = "an operand is assigned between the guard and the use: " + changed
			continue
		}
		return cd.text, ""
	}
	return "", why
}

// cSharesRoot: an assignment to variable v invalidates facts about expressions built on v
// (e.g. `t = …` invalidates `tagBits[t]`).
func cSharesRoot(info *types.Info, assigned, operand ast.Expr) bool {
	id, ok := ast.Unparen(assigned).(*ast.Ident)
	if !ok {
		return false
	}
	obj := info.ObjectOf(id)
	if obj == nil {
		return false
	}
	found := false
	ast.Inspect(operand, func(n ast.Node) bool {
		if x, ok := n.(*ast.Ident); ok && info.ObjectOf(x) == obj {
			found = true
		}
		return true
	})
	return found
}

// ---------------------------------------------------------------------------------------------
// 3: writers of the two fields

func (l *cLayout) writers() {
	for _, p := range l.c.SortedPkgs() {
		info := p.TypesInfo
		for _, fd := range l.c.FuncDecls(p) {
			name := l.c.FuncName(p, fd)
			allowed := false
			if fd.Recv != nil && len(fd.Recv.List) == 1 && fd.Name.Name == "Unmarshal" {
				if n := namedOf(info.TypeOf(fd.Recv.List[0].Type)); n != nil && n.Obj() == l.named.Obj() {
					allowed = true
				}
			}
			report := func(e ast.Expr, how string) {
				f := cFieldObj(info, e)
				if f != l.bucket && f != l.tag {
					return
				}
				if allowed {
					l.add(name, e.Pos(), OK, fmt.Sprintf("%s %s in the layout's own Unmarshal (reads a stored header)", how, types.ExprString(e)), nil)
				} else {
					l.add(name, e.Pos(), Violation, fmt.Sprintf("%s %s outside (*Uint64MapLayout).Unmarshal: the layout can change without passing the BucketBits >= TagBits guard", how, types.ExprString(e)), nil)
				}
			}
			ast.Inspect(fd.Body, func(n ast.Node) bool {
				switch s := n.(type) {
				case *ast.AssignStmt:
					for _, e := range s.Lhs {
						report(e, "assignment to")
					}
				case *ast.IncDecStmt:
					report(s.X, "update of")
				case *ast.UnaryExpr:
					if s.Op == token.AND {
						report(s.X, "address taken of")
					}
				}
				return true
			})
		}
	}
}

// ---------------------------------------------------------------------------------------------
// 4: mirror of the header codec

func (l *cLayout) hasLayoutParam(info *types.Info, fd *ast.FuncDecl) bool {
	if fd.Type.Params == nil {
		return false
	}
	for _, f := range fd.Type.Params.List {
		if n := namedOf(info.TypeOf(f.Type)); n != nil && n.Obj() == l.named.Obj() {
			return true
		}
	}
	return false
}

func (l *cLayout) fieldName(a cAmt) string {
	switch a.obj {
	case types.Object(l.bucket):
		return "BucketBits"
	case types.Object(l.tag):
		return "TagBits"
	}
	return a.String()
}

func (l *cLayout) mirror(ep *packages.Package) {
	info := ep.TypesInfo
	// header types: methods Marshal and Unmarshal that take the layout
	type pair struct{ marshal, unmarshal *ast.FuncDecl }
	pairs := map[string]*pair{}
	var order []string
	var selectors []*ast.FuncDecl
	for _, fd := range l.c.FuncDecls(ep) {
		if fd.Recv == nil || len(fd.Recv.List) != 1 {
			continue
		}
		rn := namedOf(info.TypeOf(fd.Recv.List[0].Type))
		if rn == nil {
			continue
		}
		if rn.Obj() == l.named.Obj() {
			selectors = append(selectors, fd)
			continue
		}
		if !l.hasLayoutParam(info, fd) || (fd.Name.Name != "Marshal" && fd.Name.Name != "Unmarshal") {
			continue
		}
		k := rn.Obj().Name()
		if pairs[k] == nil {
			pairs[k] = &pair{}
			order = append(order, k)
		}
		if fd.Name.Name == "Marshal" {
			pairs[k].marshal = fd
		} else {
			pairs[k].unmarshal = fd
		}
	}
	var X *cAmt // Marshal's right shift amount
	for _, k := range order {
		pr := pairs[k]
		if pr.marshal == nil || pr.unmarshal == nil {
			continue
		}
		mname := l.c.FuncName(ep, pr.marshal)
		w := cWalkFunc(l.c, ep, pr.marshal, false)
		var idChains, plain []cChain
		for _, s := range w.sinks {
			if !strings.Contains(s.what, "PutUvarint") {
				continue
			}
			var ids, pl []cChain
			for _, ch := range s.chains {
				if ch.isConst {
					continue
				}
				sh := ch.shape()
				switch {
				case len(sh) == 2 && sh[0].kind == "shr" && sh[1].kind == "shl":
					ids = append(ids, ch)
				case len(sh) == 0:
					pl = append(pl, ch)
				default:
					ids = append(ids, ch) // reported below as an unexpected shape
				}
			}
			if len(ids) > 0 {
				idChains, plain = append(idChains, ids...), append(plain, pl...)
			}
		}
		if len(idChains) != 1 {
			l.add(mname, pr.marshal.Pos(), Undecided, fmt.Sprintf("header Marshal: expected exactly one operand of the form (id >> X) << Y written with PutUvarint, found %d", len(idChains)), nil)
			continue
		}
		sh := idChains[0].shape()
		if len(sh) != 2 || sh[0].kind != "shr" || sh[1].kind != "shl" {
			l.add(mname, idChains[0].pos, Undecided, "header Marshal: the id operand is packed as "+cShapeString(sh)+", expected [shr X, shl Y]", nil)
			continue
		}
		x, y := sh[0].amt, sh[1].amt
		X = &x
		switch {
		case x.obj != types.Object(l.bucket) || y.obj != types.Object(l.tag):
			l.add(mname, idChains[0].pos, Violation, fmt.Sprintf("header Marshal packs (%s >> %s) << %s; the layout guard BucketBits >= TagBits protects (id >> BucketBits) << TagBits only", types.ExprString(idChains[0].leaf), l.fieldName(x), l.fieldName(y)), nil)
		case len(plain) != 1:
			l.add(mname, idChains[0].pos, Undecided, fmt.Sprintf("header Marshal: expected exactly one unshifted tag operand next to the id, found %d", len(plain)), nil)
		default:
			l.add(mname, idChains[0].pos, OK, fmt.Sprintf("header Marshal packs (%s >> BucketBits) << TagBits | %s", types.ExprString(idChains[0].leaf), types.ExprString(plain[0].leaf)), nil)
		}

		uname := l.c.FuncName(ep, pr.unmarshal)
		uw := cWalkFunc(l.c, ep, pr.unmarshal, true)
		var tags, ids []cExtract
		for _, ch := range uw.extracts {
			ex := cExtractOf(uw, ch)
			switch {
			case ex.shlAfter != nil:
				ids = append(ids, ex)
			case ex.hasMask && !ex.width.isConst():
				tags = append(tags, ex)
			}
		}
		if len(tags) != 1 {
			l.add(uname, pr.unmarshal.Pos(), Undecided, fmt.Sprintf("header Unmarshal: expected exactly one tag extraction `v & ((1<<w)-1)` with a layout field as width, found %d", len(tags)), nil)
		} else {
			t := tags[0]
			switch {
			case t.bad != "":
				l.add(uname, t.pos, Undecided, "header Unmarshal: "+t.text+": "+t.bad, nil)
			case !t.shift.isConst() || t.shift.k != 0:
				l.add(uname, t.pos, Violation, fmt.Sprintf("header Unmarshal reads the tag at shift %s; Marshal stores it unshifted", t.shift), nil)
			case !t.width.eq(y):
				l.add(uname, t.pos, Violation, fmt.Sprintf("header Unmarshal masks the tag with (1<<%s)-1 but Marshal shifts the id left by %s", l.fieldName(t.width), l.fieldName(y)), nil)
			default:
				l.add(uname, t.pos, OK, fmt.Sprintf("header Unmarshal reads the tag as %s: the low %s bits, the amount Marshal shifts the id left by", t.text, l.fieldName(y)), nil)
			}
		}
		if len(ids) != 1 {
			l.add(uname, pr.unmarshal.Pos(), Undecided, fmt.Sprintf("header Unmarshal: expected exactly one id reconstruction `(v >> a) << b`, found %d", len(ids)), nil)
		} else {
			d := ids[0]
			switch {
			case d.bad != "":
				l.add(uname, d.pos, Undecided, "header Unmarshal: "+d.text+": "+d.bad, nil)
			case d.hasMask:
				l.add(uname, d.pos, Undecided, "header Unmarshal: "+d.text+": unexpected mask in the id reconstruction", nil)
			case !d.shift.eq(y) || !d.shlAfter.eq(x):
				l.add(uname, d.pos, Violation, fmt.Sprintf("header Unmarshal rebuilds the id as (v >> %s) << %s but Marshal wrote (id >> %s) << %s: the shifts are not mirrored", l.fieldName(d.shift), l.fieldName(*d.shlAfter), l.fieldName(x), l.fieldName(y)), nil)
			case len(tags) == 1 && !sameExpr(info, d.leaf, tags[0].leaf):
				l.add(uname, d.pos, Undecided, "header Unmarshal: tag and id are extracted from different values", nil)
			default:
				l.add(uname, d.pos, OK, fmt.Sprintf("header Unmarshal rebuilds the id as (v >> %s) << %s, mirroring Marshal", l.fieldName(d.shift), l.fieldName(*d.shlAfter)), nil)
			}
		}
	}
	if X == nil {
		l.add("encoding.uint64MapBucketHeader", token.NoPos, Undecided, "no header type with Marshal and Unmarshal methods taking a *Uint64MapLayout found in package encoding", nil)
		return
	}
	// bucket selector: a method of the layout that masks its argument with (1<<field)-1
	n := 0
	for _, fd := range selectors {
		w := cWalkFunc(l.c, ep, fd, true)
		for _, ch := range w.extracts {
			ex := cExtractOf(w, ch)
			if !ex.hasMask || ex.width.isConst() || (ex.width.obj != types.Object(l.bucket) && ex.width.obj != types.Object(l.tag)) {
				continue
			}
			n++
			name := l.c.FuncName(ep, fd)
			switch {
			case ex.bad != "":
				l.add(name, ex.pos, Undecided, "bucket selector: "+ex.text+": "+ex.bad, nil)
			case !ex.shift.isConst() || ex.shift.k != 0 || !ex.width.eq(*X):
				l.add(name, ex.pos, Violation, fmt.Sprintf("bucket selector %s keeps the %s bits at shift %s, but the header Marshal drops the low %s bits of the id: the bucket number does not restore them", ex.text, l.fieldName(ex.width), ex.shift, l.fieldName(*X)), nil)
			default:
				l.add(name, ex.pos, OK, fmt.Sprintf("bucket selector %s keeps exactly the low %s bits that the header Marshal drops", ex.text, l.fieldName(*X)), nil)
			}
		}
	}
	if n == 0 {
		l.add("encoding.(*Uint64MapLayout).BucketForID", token.NoPos, Undecided, "no method of the layout masks an id with (1<<BucketBits)-1 (the bucket selector)", nil)
	}
}
