package main

import (
	"fmt"
	"go/ast"
	"go/types"
	"strings"
)

// COPY-THEN-APPEND (C39): the merge idiom `i := copy(D, S); if i < len(S) { D = append(D,
// S[i:]...) }` overwrites D with as much of S as fits and appends the rest. It is right only if the
// rest is appended to the slice the copy filled: when i < len(S) the copy filled D completely, so
// len(D) == i and the append continues exactly where the copy stopped. Appending to a different
// slice (one of another length over the same array — `s := D[:cap(D)]; i := copy(s, S); D =
// append(D, S[i:]...)`) writes the rest at the wrong offset: elements S[len(D):i] are lost.
//
// Subjects, by shape (whole module): an assignment `i := copy(D, S)` and, in the same function, a
// call `append(B, S[i:]...)` with the same S and i. Obligation: B is the same expression as D.
func init() {
	register(&Rule{
		Name:  "COPY-THEN-APPEND",
		IR:    "ast",
		Props: []string{"C39"},
		Floor: 1,
		// the tag list's merge carries C39; the same idiom in the feature types of package ingest is
		// reported as information (no property states what a merged member list must contain)
		Narrow: func(o *Obligation) {
			if !strings.HasPrefix(strings.TrimPrefix(o.Key, "COPY-THEN-APPEND/"), "b6.") {
				if o.Status == Violation {
					o.Detail = "verdict violation (outside the anchored type): " + o.Detail
				}
				o.Status = Info
			}
		},
		Doc: "where a merge copies as much of the source as fits (i := copy(D, S)) and appends the rest (append(B, S[i:]...)), the rest is appended to the slice the copy filled (B is D): only then does the append continue where the copy stopped",
		Run: runCopyThenAppend,
	})
}

func runCopyThenAppend(c *Ctx) []Obligation {
	var out []Obligation
	for _, p := range c.SortedPkgs() {
		info := p.TypesInfo
		for _, fd := range c.FuncDecls(p) {
			if fd.Body == nil {
				continue
			}
			name := c.FuncName(p, fd)
			ord := 0
			ast.Inspect(fd.Body, func(n ast.Node) bool {
				as, ok := n.(*ast.AssignStmt)
				if !ok || len(as.Lhs) != 1 || len(as.Rhs) != 1 {
					return true
				}
				cp, ok := ast.Unparen(as.Rhs[0]).(*ast.CallExpr)
				if !ok || !isBuiltin(info, cp, "copy") || len(cp.Args) != 2 {
					return true
				}
				iid, ok := as.Lhs[0].(*ast.Ident)
				if !ok {
					return true
				}
				iv := info.Defs[iid]
				if iv == nil {
					iv = info.Uses[iid]
				}
				if iv == nil {
					return true
				}
				d, s := ast.Unparen(cp.Args[0]), ast.Unparen(cp.Args[1])
				// the enclosing block's later appends of S[i:]
				var scope ast.Node = fd.Body
				if anc := enclosing(fd.Body, as); len(anc) > 0 {
					for i := len(anc) - 1; i >= 0; i-- {
						if b, ok := anc[i].(*ast.BlockStmt); ok {
							scope = b
							break
						}
					}
				}
				ast.Inspect(scope, func(m ast.Node) bool {
					ap, ok := m.(*ast.CallExpr)
					if !ok || !isBuiltin(info, ap, "append") || len(ap.Args) != 2 || !ap.Ellipsis.IsValid() || ap.Pos() < as.End() {
						return true
					}
					se, ok := ast.Unparen(ap.Args[1]).(*ast.SliceExpr)
					if !ok || se.Low == nil || se.High != nil {
						return true
					}
					lid, ok := ast.Unparen(se.Low).(*ast.Ident)
					if !ok || info.Uses[lid] != types.Object(iv) || !sameExpr(info, ast.Unparen(se.X), s) {
						return true
					}
					ord++
					ob := Obligation{Key: fmt.Sprintf("%s#%d", name, ord), Pos: c.Position(ap.Pos()), Status: OK}
					b := ast.Unparen(ap.Args[0])
					if sameExpr(info, b, d) {
						ob.Detail = fmt.Sprintf("%s appends the rest of %s to %s, the slice that %s filled", srcText(c.Fset, ap), srcText(c.Fset, s), srcText(c.Fset, d), srcText(c.Fset, cp))
					} else {
						ob.Status = Violation
						ob.Detail = fmt.Sprintf("%s filled %s, but the rest of %s is appended to %s: the append does not continue where the copy stopped unless the two have the same length, and the elements in between are lost", srcText(c.Fset, cp), srcText(c.Fset, d), srcText(c.Fset, s), srcText(c.Fset, b))
					}
					out = append(out, ob)
					return true
				})
				return true
			})
		}
	}
	return out
}
