package main

// Helpers shared by the group-B rules (CODEC-SYM, BYTECOUNT, VALUE-KIND, APPEND-ONCE, TWOPASS).
// Every identifier here carries the prefix B/b to avoid clashes with other rule authors.

import (
	"go/ast"
	"go/token"
	"go/types"
	"sort"
	"strings"
	"unicode"
	"unicode/utf8"

	"golang.org/x/tools/go/packages"
	"golang.org/x/tools/go/ssa"
	"golang.org/x/tools/go/ssa/ssautil"
)

const (
	bCompactRel  = "ingest/compact"
	bEncodingRel = "encoding"
)

// bCodecPkgs returns the two packages that hold the binary codecs.
func bCodecPkgs(c *Ctx) []*packages.Package {
	var out []*packages.Package
	for _, rel := range []string{bEncodingRel, bCompactRel} {
		if p := c.Pkg(rel); p != nil {
			out = append(out, p)
		}
	}
	return out
}

// bInCodecPkg reports whether the object is declared in ingest/compact or encoding.
func bInCodecPkg(obj types.Object) bool {
	if obj == nil || obj.Pkg() == nil {
		return false
	}
	p := obj.Pkg().Path()
	return p == ModulePath+"/"+bCompactRel || p == ModulePath+"/"+bEncodingRel
}

// bProperPrefix: name is prefix alone or prefix followed by an upper-case letter
// ("Marshal", "MarshalWithoutLength"; not "MarshalledSize").
func bProperPrefix(name, prefix string) bool {
	if !strings.HasPrefix(name, prefix) {
		return false
	}
	rest := name[len(prefix):]
	if rest == "" {
		return true
	}
	r, _ := utf8.DecodeRuneInString(rest)
	return unicode.IsUpper(r)
}

func bIsByteSlice(t types.Type) bool {
	if t == nil {
		return false
	}
	s, ok := t.Underlying().(*types.Slice)
	if !ok {
		return false
	}
	b, ok := s.Elem().Underlying().(*types.Basic)
	return ok && b.Kind() == types.Byte
}

// bIsPlainByteSlice: the unnamed type []byte (a buffer parameter, not e.g. MarshalledArea).
func bIsPlainByteSlice(t types.Type) bool {
	if _, named := types.Unalias(t).(*types.Named); named {
		return false
	}
	return bIsByteSlice(t)
}

func bHasBufferParam(sig *types.Signature) bool {
	for i := 0; i < sig.Params().Len(); i++ {
		if bIsPlainByteSlice(sig.Params().At(i).Type()) {
			return true
		}
	}
	return false
}

func bIsInt(t types.Type) bool {
	b, ok := types.Unalias(t).(*types.Basic)
	return ok && b.Kind() == types.Int
}

// bUnnamedInteger: a predeclared integer type (int, uint64, ...), not a defined type over one.
func bUnnamedInteger(t types.Type) bool {
	b, ok := types.Unalias(t).(*types.Basic)
	return ok && b.Info()&types.IsInteger != 0
}

func bRecvObj(info *types.Info, fd *ast.FuncDecl) types.Object {
	if fd.Recv == nil || len(fd.Recv.List) == 0 || len(fd.Recv.List[0].Names) == 0 {
		return nil
	}
	return info.Defs[fd.Recv.List[0].Names[0]]
}

// bStripConv removes parentheses and type conversions around an expression.
func bStripConv(info *types.Info, e ast.Expr) ast.Expr {
	for {
		e = ast.Unparen(e)
		call, ok := e.(*ast.CallExpr)
		if !ok || len(call.Args) != 1 {
			return e
		}
		if tv, ok := info.Types[call.Fun]; !ok || !tv.IsType() {
			return e
		}
		e = call.Args[0]
	}
}

// ---------------------------------------------------------------------------------------------
// Value types: the concrete types that are converted to the interface compact.Value somewhere in
// the module (SSA MakeInterface). "Implements compact.Value" alone is too wide: the interface is
// structural and Tag, Tags, Members, the area geometries ... happen to have the same two methods.

func bValueIface(c *Ctx) *types.Named {
	p := c.Pkg(bCompactRel)
	if p == nil {
		return nil
	}
	tn, _ := p.Types.Scope().Lookup("Value").(*types.TypeName)
	if tn == nil {
		return nil
	}
	n, _ := tn.Type().(*types.Named)
	if n == nil {
		return nil
	}
	if _, ok := n.Underlying().(*types.Interface); !ok {
		return nil
	}
	return n
}

// bValueTypes returns the named types T (declared in ingest/compact) such that T or *T is
// converted to compact.Value, with the position of one such conversion each.
func bValueTypes(c *Ctx) map[*types.Named]token.Pos {
	out := map[*types.Named]token.Pos{}
	iface := bValueIface(c)
	if iface == nil {
		return out
	}
	c.BuildSSA()
	for fn := range ssautil.AllFunctions(c.Prog) {
		if fn.Pkg == nil || fn.Pkg.Pkg == nil || !strings.HasPrefix(fn.Pkg.Pkg.Path(), ModulePath) {
			continue
		}
		for _, b := range fn.Blocks {
			for _, ins := range b.Instrs {
				mi, ok := ins.(*ssa.MakeInterface)
				if !ok || !types.Identical(mi.Type(), iface) {
					continue
				}
				n := namedOf(mi.X.Type())
				if n == nil || !bInCodecPkg(n.Obj()) {
					continue
				}
				pos := mi.Pos()
				if !pos.IsValid() {
					pos = mi.X.Pos()
				}
				if !pos.IsValid() {
					pos = fn.Pos()
				}
				if old, seen := out[n]; !seen || (pos.IsValid() && (!old.IsValid() || pos < old)) {
					out[n] = pos
				}
			}
		}
	}
	return out
}

func bSortedNamed(m map[*types.Named]token.Pos) []*types.Named {
	var ns []*types.Named
	for n := range m {
		ns = append(ns, n)
	}
	sort.Slice(ns, func(i, j int) bool { return ns[i].Obj().Name() < ns[j].Obj().Name() })
	return ns
}

// bMethodDecl finds the declaration of method name on named type n (value or pointer receiver).
func bMethodDecl(c *Ctx, n *types.Named, name string) (*ast.FuncDecl, *packages.Package) {
	for i := 0; i < n.NumMethods(); i++ {
		if m := n.Method(i); m.Name() == name {
			return c.Decl(m)
		}
	}
	return nil, nil
}

// ---------------------------------------------------------------------------------------------
// Alpha-equivalence of two syntax trees of the same package: identical shape, identifiers
// resolve to the same object or to objects put in correspondence (by the caller, or because
// both trees define them at corresponding places). Constants compare by value.

type bAlpha struct {
	info *types.Info
	m    map[types.Object]types.Object
}

func newBAlpha(info *types.Info) *bAlpha {
	return &bAlpha{info: info, m: map[types.Object]types.Object{}}
}

func (a *bAlpha) bind(x, y *ast.Ident) bool {
	if x == nil || y == nil {
		return x == nil && y == nil
	}
	ox, oy := a.info.Defs[x], a.info.Defs[y]
	if ox == nil || oy == nil {
		return a.expr(x, y)
	}
	a.m[ox] = oy
	return true
}

func (a *bAlpha) exprs(xs, ys []ast.Expr) bool {
	if len(xs) != len(ys) {
		return false
	}
	for i := range xs {
		if !a.expr(xs[i], ys[i]) {
			return false
		}
	}
	return true
}

func (a *bAlpha) expr(x, y ast.Expr) bool {
	if x == nil || y == nil {
		return x == nil && y == nil
	}
	x, y = ast.Unparen(x), ast.Unparen(y)
	if tx, ok := a.info.Types[x]; ok && tx.Value != nil {
		ty, ok := a.info.Types[y]
		return ok && ty.Value != nil && tx.Value.ExactString() == ty.Value.ExactString() && types.Identical(tx.Type, ty.Type)
	}
	switch x := x.(type) {
	case *ast.Ident:
		y, ok := y.(*ast.Ident)
		if !ok {
			return false
		}
		ox, oy := a.info.ObjectOf(x), a.info.ObjectOf(y)
		if ox == nil || oy == nil {
			return ox == oy && x.Name == y.Name
		}
		if mapped, ok := a.m[ox]; ok {
			return mapped == oy
		}
		return ox == oy
	case *ast.BasicLit:
		y, ok := y.(*ast.BasicLit)
		return ok && x.Kind == y.Kind && x.Value == y.Value
	case *ast.SelectorExpr:
		y, ok := y.(*ast.SelectorExpr)
		return ok && x.Sel.Name == y.Sel.Name && a.info.ObjectOf(x.Sel) == a.info.ObjectOf(y.Sel) && a.expr(x.X, y.X)
	case *ast.StarExpr:
		y, ok := y.(*ast.StarExpr)
		return ok && a.expr(x.X, y.X)
	case *ast.UnaryExpr:
		y, ok := y.(*ast.UnaryExpr)
		return ok && x.Op == y.Op && a.expr(x.X, y.X)
	case *ast.BinaryExpr:
		y, ok := y.(*ast.BinaryExpr)
		return ok && x.Op == y.Op && a.expr(x.X, y.X) && a.expr(x.Y, y.Y)
	case *ast.IndexExpr:
		y, ok := y.(*ast.IndexExpr)
		return ok && a.expr(x.X, y.X) && a.expr(x.Index, y.Index)
	case *ast.SliceExpr:
		y, ok := y.(*ast.SliceExpr)
		return ok && a.expr(x.X, y.X) && a.expr(x.Low, y.Low) && a.expr(x.High, y.High) && a.expr(x.Max, y.Max)
	case *ast.CallExpr:
		y, ok := y.(*ast.CallExpr)
		return ok && x.Ellipsis.IsValid() == y.Ellipsis.IsValid() && a.expr(x.Fun, y.Fun) && a.exprs(x.Args, y.Args)
	case *ast.KeyValueExpr:
		y, ok := y.(*ast.KeyValueExpr)
		return ok && a.expr(x.Key, y.Key) && a.expr(x.Value, y.Value)
	case *ast.CompositeLit:
		y, ok := y.(*ast.CompositeLit)
		if !ok || !a.exprs(x.Elts, y.Elts) {
			return false
		}
		tx, ty := a.info.TypeOf(x), a.info.TypeOf(y)
		return tx != nil && ty != nil && types.Identical(tx, ty)
	case *ast.TypeAssertExpr:
		y, ok := y.(*ast.TypeAssertExpr)
		if !ok || !a.expr(x.X, y.X) {
			return false
		}
		if x.Type == nil || y.Type == nil {
			return x.Type == nil && y.Type == nil
		}
		return types.Identical(a.info.TypeOf(x.Type), a.info.TypeOf(y.Type))
	case *ast.ArrayType, *ast.MapType, *ast.FuncType, *ast.StructType, *ast.InterfaceType, *ast.ChanType:
		tx, ty := a.info.TypeOf(x), a.info.TypeOf(y)
		return tx != nil && ty != nil && types.Identical(tx, ty)
	}
	return false
}

func (a *bAlpha) stmts(xs, ys []ast.Stmt) bool {
	if len(xs) != len(ys) {
		return false
	}
	for i := range xs {
		if !a.stmt(xs[i], ys[i]) {
			return false
		}
	}
	return true
}

func (a *bAlpha) stmt(x, y ast.Stmt) bool {
	if x == nil || y == nil {
		return x == nil && y == nil
	}
	switch x := x.(type) {
	case *ast.ExprStmt:
		y, ok := y.(*ast.ExprStmt)
		return ok && a.expr(x.X, y.X)
	case *ast.AssignStmt:
		y, ok := y.(*ast.AssignStmt)
		if !ok || x.Tok != y.Tok || len(x.Lhs) != len(y.Lhs) || !a.exprs(x.Rhs, y.Rhs) {
			return false
		}
		for i := range x.Lhs {
			xi, okx := x.Lhs[i].(*ast.Ident)
			yi, oky := y.Lhs[i].(*ast.Ident)
			if okx && oky && x.Tok == token.DEFINE {
				if !a.bind(xi, yi) {
					return false
				}
			} else if !a.expr(x.Lhs[i], y.Lhs[i]) {
				return false
			}
		}
		return true
	case *ast.IncDecStmt:
		y, ok := y.(*ast.IncDecStmt)
		return ok && x.Tok == y.Tok && a.expr(x.X, y.X)
	case *ast.ReturnStmt:
		y, ok := y.(*ast.ReturnStmt)
		return ok && a.exprs(x.Results, y.Results)
	case *ast.BlockStmt:
		y, ok := y.(*ast.BlockStmt)
		return ok && a.stmts(x.List, y.List)
	case *ast.IfStmt:
		y, ok := y.(*ast.IfStmt)
		return ok && a.stmt(x.Init, y.Init) && a.expr(x.Cond, y.Cond) && a.stmt(x.Body, y.Body) && a.stmt(x.Else, y.Else)
	case *ast.ForStmt:
		y, ok := y.(*ast.ForStmt)
		return ok && a.stmt(x.Init, y.Init) && a.expr(x.Cond, y.Cond) && a.stmt(x.Post, y.Post) && a.stmt(x.Body, y.Body)
	case *ast.RangeStmt:
		y, ok := y.(*ast.RangeStmt)
		if !ok || x.Tok != y.Tok || !a.expr(x.X, y.X) {
			return false
		}
		for _, kv := range [][2]ast.Expr{{x.Key, y.Key}, {x.Value, y.Value}} {
			if kv[0] == nil || kv[1] == nil {
				if kv[0] != nil || kv[1] != nil {
					return false
				}
				continue
			}
			xi, okx := kv[0].(*ast.Ident)
			yi, oky := kv[1].(*ast.Ident)
			if okx && oky && x.Tok == token.DEFINE {
				if !a.bind(xi, yi) {
					return false
				}
			} else if !a.expr(kv[0], kv[1]) {
				return false
			}
		}
		return a.stmt(x.Body, y.Body)
	case *ast.BranchStmt:
		y, ok := y.(*ast.BranchStmt)
		return ok && x.Tok == y.Tok && (x.Label == nil) == (y.Label == nil) && (x.Label == nil || x.Label.Name == y.Label.Name)
	case *ast.EmptyStmt:
		_, ok := y.(*ast.EmptyStmt)
		return ok
	case *ast.DeclStmt:
		y, ok := y.(*ast.DeclStmt)
		if !ok {
			return false
		}
		gx, okx := x.Decl.(*ast.GenDecl)
		gy, oky := y.Decl.(*ast.GenDecl)
		if !okx || !oky || gx.Tok != gy.Tok || gx.Tok != token.VAR || len(gx.Specs) != len(gy.Specs) {
			return false
		}
		for i := range gx.Specs {
			sx, sy := gx.Specs[i].(*ast.ValueSpec), gy.Specs[i].(*ast.ValueSpec)
			if len(sx.Names) != len(sy.Names) || !a.exprs(sx.Values, sy.Values) {
				return false
			}
			for j := range sx.Names {
				ox, oy := a.info.Defs[sx.Names[j]], a.info.Defs[sy.Names[j]]
				if ox == nil || oy == nil || !types.Identical(ox.Type(), oy.Type()) {
					return false
				}
				a.m[ox] = oy
			}
		}
		return true
	}
	return false
}
