package main

import (
	"fmt"
	"go/ast"
	"go/constant"
	"go/token"
	"go/types"
)

// VARINT-WRAP (C09, C11): every variable-length integer in the binary containers is written by
// encoding/binary (PutUvarint / AppendUvarint / PutVarint) and must be read back by the matching
// decoder. A module function that wraps the standard decoder with a shortcut of its own (a
// "single byte fast path") reads the format by hand on that path, and the format leaves exactly
// one choice: a byte is a complete varint iff its top bit is clear (b < 0x80). A shortcut taken
// for b <= 0x80 returns 128 for the first byte of every value 128+128k and consumes one byte
// instead of two.
//
// Slots (by shape): a wrapper is a module function with a []byte parameter and results
// (integer, int) that returns binary.Uvarint(…)/binary.Varint(…) of (a re-slice of) that parameter
// on some path. Obligation per wrapper: every other return is nested in if-statements one of
// whose conditions, on the branch taken, establishes that the byte returned is below 0x80
// (B[k] < 0x80, B[k] <= 0x7f, 0x80 > B[k], B[k]&0x80 == 0, constants evaluated by the type
// checker), returns that byte converted and a consumed count of 1. A shortcut for Varint (zigzag)
// is never accepted. Any other shape of return is undecided.
// A summary obligation counts the direct callers of the standard decoders so that the rule is not
// vacuous on a tree without wrappers (today's).
func init() {
	register(&Rule{
		Name:  "VARINT-WRAP",
		IR:    "ast",
		Props: []string{"C09", "C11"},
		Floor: 1,
		Doc: "a module function that wraps binary.Uvarint/Varint with a shortcut of its own takes the shortcut only for a first byte below 0x80 and returns (that byte, 1); " +
			"(instances: a summary of the direct callers of the standard decoders, plus one obligation per wrapper)",
		Run: runVarintWrap,
	})
}

func runVarintWrap(c *Ctx) []Obligation {
	var out []Obligation
	callers, calls := 0, 0
	for _, p := range c.SortedPkgs() {
		info := p.TypesInfo
		for _, fd := range c.FuncDecls(p) {
			isStd := func(call *ast.CallExpr) string {
				fn := calleeFunc(info, call)
				if fn == nil || fn.Pkg() == nil || fn.Pkg().Path() != "encoding/binary" {
					return ""
				}
				if fn.Name() == "Uvarint" || fn.Name() == "Varint" {
					return fn.Name()
				}
				return ""
			}
			n := 0
			ast.Inspect(fd.Body, func(x ast.Node) bool {
				if call, ok := x.(*ast.CallExpr); ok && isStd(call) != "" {
					n++
				}
				return true
			})
			if n == 0 {
				continue
			}
			callers++
			calls += n
			obj, _ := info.Defs[fd.Name].(*types.Func)
			if obj == nil {
				continue
			}
			sig := obj.Type().(*types.Signature)
			if sig.Results().Len() != 2 {
				continue
			}
			if b, ok := sig.Results().At(0).Type().Underlying().(*types.Basic); !ok || b.Info()&types.IsInteger == 0 {
				continue
			}
			if b, ok := sig.Results().At(1).Type().Underlying().(*types.Basic); !ok || b.Kind() != types.Int {
				continue
			}
			var param *types.Var
			for i := 0; i < sig.Params().Len(); i++ {
				if sl, ok := sig.Params().At(i).Type().Underlying().(*types.Slice); ok {
					if b, ok := sl.Elem().Underlying().(*types.Basic); ok && b.Kind() == types.Byte {
						param = sig.Params().At(i)
					}
				}
			}
			if param == nil {
				continue
			}
			onParam := func(e ast.Expr) bool {
				for {
					switch x := ast.Unparen(e).(type) {
					case *ast.SliceExpr:
						e = x.X
					case *ast.Ident:
						return info.Uses[x] == param
					default:
						return false
					}
				}
			}
			// returns
			var rets []*ast.ReturnStmt
			inspectShallow(fd.Body, func(x ast.Node) bool {
				if r, ok := x.(*ast.ReturnStmt); ok {
					rets = append(rets, r)
				}
				return true
			})
			std := ""
			var others []*ast.ReturnStmt
			for _, r := range rets {
				if len(r.Results) == 1 {
					if call, ok := ast.Unparen(r.Results[0]).(*ast.CallExpr); ok && isStd(call) != "" && len(call.Args) == 1 && onParam(call.Args[0]) {
						std = isStd(call)
						continue
					}
				}
				others = append(others, r)
			}
			if std == "" {
				continue
			}
			ob := Obligation{Key: c.FuncName(p, fd), Pos: c.Position(fd.Pos()), Status: OK,
				Detail: fmt.Sprintf("wraps binary.%s with no path of its own", std)}
			for _, r := range others {
				verdict, why := fastPathOK(c, info, fd, r, onParam, std)
				if verdict != OK {
					ob.Status, ob.Pos = verdict, c.Position(r.Pos())
					ob.Detail = fmt.Sprintf("%s wraps binary.%s but its own return at %s %s", obj.Name(), std, c.Position(r.Pos()), why)
					break
				}
				ob.Detail = fmt.Sprintf("wraps binary.%s; shortcut at %s %s", std, c.Position(r.Pos()), why)
			}
			out = append(out, ob)
		}
	}
	st := OK
	if callers == 0 {
		st = Undecided
	}
	out = append(out, Obligation{Key: "summary", Pos: "encoding/ints.go:1", Status: st,
		Detail: fmt.Sprintf("%d module functions call binary.Uvarint/Varint directly (%d call sites); %d wrap it", callers, calls, len(out))})
	return out
}

func fastPathOK(c *Ctx, info *types.Info, fd *ast.FuncDecl, r *ast.ReturnStmt, onParam func(ast.Expr) bool, std string) (string, string) {
	if std == "Varint" {
		return Violation, "shortcuts a zigzag coded value, which no single comparison decodes"
	}
	if len(r.Results) != 2 {
		return Undecided, "has an unrecognised shape"
	}
	// value: conversion(s) of B[k]
	v := ast.Unparen(r.Results[0])
	for {
		call, ok := v.(*ast.CallExpr)
		if !ok || len(call.Args) != 1 {
			break
		}
		if tv, ok := info.Types[call.Fun]; !ok || !tv.IsType() {
			break
		}
		v = ast.Unparen(call.Args[0])
	}
	ix, ok := v.(*ast.IndexExpr)
	if !ok || !onParam(ix.X) {
		return Undecided, "returns " + nodeText(c.Fset, r.Results[0]) + ", not a byte of the buffer"
	}
	if tv := info.Types[r.Results[1]]; tv.Value == nil || tv.Value.Kind() != constant.Int || constant.Compare(tv.Value, token.NEQ, constant.MakeInt64(1)) {
		return Violation, "does not report exactly one byte consumed (" + nodeText(c.Fset, r.Results[1]) + ")"
	}
	// enclosing if conditions on the then-branch
	path := enclosing(fd.Body, r)
	established := false
	var seen []string
	for i, n := range path {
		is, ok := n.(*ast.IfStmt)
		if !ok || i+1 >= len(path) || path[i+1] != ast.Node(is.Body) {
			continue
		}
		for _, cj := range conjuncts(is.Cond) {
			seen = append(seen, nodeText(c.Fset, cj))
			if byteBelow0x80(info, cj, ix) {
				established = true
			}
		}
	}
	if !established {
		return Violation, fmt.Sprintf("is guarded by %v, which does not establish %s < 0x80: a byte with the top bit set is the first of a longer varint", seen, nodeText(c.Fset, ix))
	}
	return OK, "is taken only when " + nodeText(c.Fset, ix) + " < 0x80"
}

func conjuncts(e ast.Expr) []ast.Expr {
	e = ast.Unparen(e)
	if b, ok := e.(*ast.BinaryExpr); ok && b.Op == token.LAND {
		return append(conjuncts(b.X), conjuncts(b.Y)...)
	}
	return []ast.Expr{e}
}

func byteBelow0x80(info *types.Info, cond ast.Expr, ix *ast.IndexExpr) bool {
	b, ok := ast.Unparen(cond).(*ast.BinaryExpr)
	if !ok {
		return false
	}
	constOf := func(e ast.Expr) (int64, bool) {
		tv := info.Types[e]
		if tv.Value == nil || tv.Value.Kind() != constant.Int {
			return 0, false
		}
		return constant.Int64Val(tv.Value)
	}
	isByte := func(e ast.Expr) bool { return sameExpr(info, ast.Unparen(e), ix) }
	x, y, op := b.X, b.Y, b.Op
	if _, ok := constOf(x); ok {
		// constant on the left: mirror
		x, y = y, x
		switch op {
		case token.LSS:
			op = token.GTR
		case token.LEQ:
			op = token.GEQ
		case token.GTR:
			op = token.LSS
		case token.GEQ:
			op = token.LEQ
		}
	}
	k, ok := constOf(y)
	if !ok {
		return false
	}
	if isByte(x) {
		switch op {
		case token.LSS:
			return k <= 0x80
		case token.LEQ:
			return k <= 0x7f
		case token.EQL:
			return k >= 0 && k < 0x80
		}
		return false
	}
	// B[k] & 0x80 == 0
	if m, ok := ast.Unparen(x).(*ast.BinaryExpr); ok && m.Op == token.AND && op == token.EQL && k == 0 {
		if mk, ok := constOf(m.Y); ok && isByte(m.X) && mk&0x80 != 0 {
			return true
		}
		if mk, ok := constOf(m.X); ok && isByte(m.Y) && mk&0x80 != 0 {
			return true
		}
	}
	return false
}
