package main

import (
	"fmt"
	"go/ast"
	"go/token"
	"go/types"
	"sort"
	"strings"

	"golang.org/x/tools/go/cfg"
	"golang.org/x/tools/go/packages"
)

// CHECK-THEN-ACT, clause #stale (C40 for the request-serving packages, C36 and C35 for
// ingest/compact): a decision taken from guarded state is acted on in the critical section in
// which it was taken.
//
// Slot (by type, every package of the module): struct types that own a sync.Mutex/RWMutex field
// (by value) and at least one map field — ingest.MutableWorlds, ingest/compact.Validator,
// ingest/compact.NamespacedCounts, … Instances: the functions that, on one base expression b,
// take or release b's lock, read a guarded map and change the owner's state; key
// pkg.(Recv).Func#stale.
//
//   - read: an index, comma-ok lookup, len or range of a guarded map field of b, or a call b.m(…)
//     of a method of the owner type that (transitively through the owner's methods) reads one
//     (`v.validateArea(a)`). A variable depends on a read when it is assigned from an expression
//     containing the read or a dependent variable, or is assigned inside a branch whose
//     condition/tag contains one (`if _, ok := v.paths[id]; ok { validateQueue = true }`).
//   - action: a store to, delete from or assignment of a field of b (map store, `b.queue =
//     append(…)`, `b.n++`), or a call b.m(…) of an owner method that (transitively) does one — a
//     drain such as `v.validateQueue(fs)`.
//   - an action is decided by a read when it is nested in (or, for if statements with an early
//     exit, dominated by one outcome of) a condition or switch tag that contains the read or a
//     variable that depends on it.
//
// Obligation: if an action is decided by a read and the lock is released between them — an
// Unlock/RUnlock of b's lock (not deferred) is reachable from the read and reaches the action —
// then the action must also be decided by a fresh read of the same map (same key expression for
// lookups) made after that release, i.e. with no release between the fresh read and the action.
// Otherwise another goroutine can change the map in the gap and the action is taken, or skipped,
// on a stale answer. The report names the read, the unlock and the dependent action.
//
// Accepted idioms: read and action in one critical section (Validator.ValidatePath and
// ValidateArea, MutableWorlds.FindOrCreateWorld); double-checked locking, where the second lookup
// in the write section decides the store (NamespacedCounts.Namespace). Limits: dependence is
// syntactic (assignments and branch nesting, flow-insensitive per variable); staleness across a
// call boundary (a caller that unlocks between two calls of locked methods) is not seen; helper
// methods that never touch the lock themselves have no critical-section boundary and are judged
// where they are called.

// Clause #order (C01, C36, C35 in ingest/compact; C40 elsewhere): inside one critical section,
// when a function stores into a guarded map M at key k (`v.paths[id] = state`) and calls an
// owner method that (transitively) reads M (`v.validateQueue(fs)` → validateArea reads v.paths),
// and that call is decided by a lookup of M at the same key k made in the function
// (`if _, ok := v.paths[id]; ok { validateQueue = true }` … `if validateQueue { drain }`), the
// drain is triggered by the arrival of k and has to see k's new state: a store M[k] = … must
// precede the call on every path to it (the store's node dominates the call's, no release of the
// lock between them). Key pkg.(Recv).Func#order, reported with the lookup, the store and the
// call. Instance today: ingest/compact.(*Validator).ValidatePath (store first, then drain).
// Functions without such a triple (ValidateArea stores through a helper, not directly) are not
// instances. Not covered: a store made inside the called method itself.

type iOwnerMethods struct {
	reads   map[*types.Func]bool                // the method (transitively) reads a guarded map of its receiver
	readsOf map[*types.Func]map[*types.Var]bool // … and which ones
	writes  map[*types.Func]bool                // the method (transitively) changes a field of its receiver
}

// iCTAOwnerMethods computes, for the methods of a guarded type, whether they read its guarded
// maps and whether they change its fields, through calls of other methods on the same receiver.
func iCTAOwnerMethods(c *Ctx, gt *iGuardedType, fields map[*types.Var]bool) *iOwnerMethods {
	om := &iOwnerMethods{reads: map[*types.Func]bool{}, readsOf: map[*types.Func]map[*types.Var]bool{}, writes: map[*types.Func]bool{}}
	type mdecl struct {
		fn   *types.Func
		fd   *ast.FuncDecl
		p    *packages.Package
		recv types.Object
	}
	var ms []mdecl
	for i := 0; i < gt.named.NumMethods(); i++ {
		m := gt.named.Method(i)
		fd, p := c.Decl(m)
		if fd == nil || fd.Body == nil || fd.Recv == nil || len(fd.Recv.List) == 0 || len(fd.Recv.List[0].Names) == 0 {
			continue
		}
		ms = append(ms, mdecl{m, fd, p, p.TypesInfo.ObjectOf(fd.Recv.List[0].Names[0])})
	}
	calls := map[*types.Func][]*types.Func{}
	for _, m := range ms {
		info := m.p.TypesInfo
		onRecv := func(e ast.Expr) bool {
			id, ok := ast.Unparen(e).(*ast.Ident)
			return ok && info.ObjectOf(id) == m.recv
		}
		ast.Inspect(m.fd.Body, func(n ast.Node) bool {
			switch x := n.(type) {
			case *ast.SelectorExpr:
				if s := info.Selections[x]; s != nil && s.Kind() == types.FieldVal && onRecv(x.X) {
					if v, ok := s.Obj().(*types.Var); ok && gt.maps[v] {
						om.reads[m.fn] = true
						if om.readsOf[m.fn] == nil {
							om.readsOf[m.fn] = map[*types.Var]bool{}
						}
						om.readsOf[m.fn][v] = true
					}
				}
			case *ast.AssignStmt:
				for _, l := range x.Lhs {
					if iCTAFieldRoot(info, l, onRecv, fields) != nil {
						om.writes[m.fn] = true
					}
				}
			case *ast.IncDecStmt:
				if iCTAFieldRoot(info, x.X, onRecv, fields) != nil {
					om.writes[m.fn] = true
				}
			case *ast.CallExpr:
				if (isBuiltin(info, x, "delete") || isBuiltin(info, x, "clear")) && len(x.Args) > 0 && iCTAFieldRoot(info, x.Args[0], onRecv, fields) != nil {
					om.writes[m.fn] = true
				}
				if sel, ok := ast.Unparen(x.Fun).(*ast.SelectorExpr); ok && onRecv(sel.X) {
					if f := calleeFunc(info, x); f != nil {
						calls[m.fn] = append(calls[m.fn], f.Origin())
					}
				}
			}
			return true
		})
	}
	for changed := true; changed; {
		changed = false
		for _, m := range ms {
			for _, callee := range calls[m.fn] {
				if om.reads[callee] && !om.reads[m.fn] {
					om.reads[m.fn], changed = true, true
				}
				for v := range om.readsOf[callee] {
					if om.readsOf[m.fn] == nil {
						om.readsOf[m.fn] = map[*types.Var]bool{}
					}
					if !om.readsOf[m.fn][v] {
						om.readsOf[m.fn][v], changed = true, true
					}
				}
				if om.writes[callee] && !om.writes[m.fn] {
					om.writes[m.fn], changed = true, true
				}
			}
		}
	}
	return om
}

// iCTAFieldRoot: e is a store target inside a field of the base (b.F, b.F[k], b.F.x, *b.F …);
// returns the field.
func iCTAFieldRoot(info *types.Info, e ast.Expr, isBase func(ast.Expr) bool, fields map[*types.Var]bool) *types.Var {
	for {
		switch x := ast.Unparen(e).(type) {
		case *ast.SelectorExpr:
			if s := info.Selections[x]; s != nil && s.Kind() == types.FieldVal && isBase(x.X) {
				if v, ok := s.Obj().(*types.Var); ok && fields[v] {
					return v
				}
			}
			e = x.X
		case *ast.IndexExpr:
			e = x.X
		case *ast.StarExpr:
			e = x.X
		case *ast.SliceExpr:
			e = x.X
		default:
			return nil
		}
	}
}

type iStaleRead struct {
	node ast.Node // CFG-findable node of the read
	text string
	m    ast.Expr // the map selector (nil for reads through a method)
	key  ast.Expr // for lookups
}

type iStaleAction struct {
	node ast.Node
	text string
}

// iCTAStaleFunc decides clause #stale for one function.
func iCTAStaleFunc(c *Ctx, p *packages.Package, fd *ast.FuncDecl, mapOwner, lockOwner map[*types.Var]*iGuardedType, methods func(*iGuardedType) *iOwnerMethods, ownerFields func(*iGuardedType) map[*types.Var]bool) []Obligation {
	info := p.TypesInfo
	fieldOf := func(sel *ast.SelectorExpr) *types.Var {
		if s := info.Selections[sel]; s != nil && s.Kind() == types.FieldVal {
			v, _ := s.Obj().(*types.Var)
			return v
		}
		return nil
	}
	// the owner and base: taken from the lock operations of the function
	var owner *iGuardedType
	var base ast.Expr
	mixed := false
	type lockEv struct {
		op       string
		deferred bool
		call     *ast.CallExpr
	}
	lockCall := func(call *ast.CallExpr) (string, bool) {
		sel, ok := ast.Unparen(call.Fun).(*ast.SelectorExpr)
		if !ok {
			return "", false
		}
		lsel, ok := ast.Unparen(sel.X).(*ast.SelectorExpr)
		if !ok {
			return "", false
		}
		lf := fieldOf(lsel)
		if lf == nil || lockOwner[lf] == nil {
			return "", false
		}
		switch sel.Sel.Name {
		case "Lock", "Unlock", "RLock", "RUnlock":
		default:
			return "", false
		}
		if owner == nil {
			owner, base = lockOwner[lf], lsel.X
		} else if lockOwner[lf] != owner || !sameExpr(info, base, lsel.X) {
			mixed = true
			return "", false
		}
		return sel.Sel.Name, true
	}
	hasLock := false
	inspectShallow(fd.Body, func(n ast.Node) bool {
		if call, ok := n.(*ast.CallExpr); ok {
			if _, ok := lockCall(call); ok {
				hasLock = true
			}
		}
		return true
	})
	if !hasLock || owner == nil {
		return nil
	}
	fields := ownerFields(owner)
	om := methods(owner)
	isBase := func(e ast.Expr) bool { return sameExpr(info, e, base) }
	lockEvents := func(n ast.Node) []lockEv {
		var evs []lockEv
		_, isDefer := n.(*ast.DeferStmt)
		inspectShallow(n, func(x ast.Node) bool {
			if call, ok := x.(*ast.CallExpr); ok {
				if op, ok := lockCall(call); ok {
					evs = append(evs, lockEv{op, isDefer, call})
				}
			}
			return true
		})
		return evs
	}

	// containsRead: the expression reads guarded state directly
	type readHit struct {
		m, key ast.Expr
		text   string
	}
	readsIn := func(n ast.Node) []readHit {
		var hits []readHit
		if n == nil {
			return nil
		}
		inspectShallow(n, func(x ast.Node) bool {
			switch y := x.(type) {
			case *ast.IndexExpr:
				if sel, ok := ast.Unparen(y.X).(*ast.SelectorExpr); ok && isBase(sel.X) {
					if f := fieldOf(sel); f != nil && owner.maps[f] {
						hits = append(hits, readHit{sel, y.Index, types.ExprString(y)})
						return false
					}
				}
			case *ast.SelectorExpr:
				if isBase(y.X) {
					if f := fieldOf(y); f != nil && owner.maps[f] {
						hits = append(hits, readHit{y, nil, types.ExprString(y)})
					}
				}
			case *ast.CallExpr:
				if sel, ok := ast.Unparen(y.Fun).(*ast.SelectorExpr); ok && isBase(sel.X) {
					if f := calleeFunc(info, y); f != nil && om.reads[f.Origin()] {
						hits = append(hits, readHit{nil, nil, types.ExprString(y)})
					}
				}
			}
			return true
		})
		return hits
	}

	// dependence: variable → reads it depends on
	var reads []*iStaleRead
	readAt := map[ast.Node][]*iStaleRead{} // statement/expression → the reads made in it
	mkReads := func(at ast.Node, in ast.Node) []*iStaleRead {
		if rs, ok := readAt[at]; ok {
			return rs
		}
		var rs []*iStaleRead
		for _, h := range readsIn(in) {
			r := &iStaleRead{node: at, text: h.text, m: h.m, key: h.key}
			rs = append(rs, r)
			reads = append(reads, r)
		}
		readAt[at] = rs
		return rs
	}
	dep := map[types.Object]map[*iStaleRead]bool{}
	addDep := func(o types.Object, rs map[*iStaleRead]bool) bool {
		if o == nil || len(rs) == 0 {
			return false
		}
		if dep[o] == nil {
			dep[o] = map[*iStaleRead]bool{}
		}
		grew := false
		for r := range rs {
			if !dep[o][r] {
				dep[o][r] = true
				grew = true
			}
		}
		return grew
	}
	// origins of an expression used at statement `at`: direct reads plus those of mentioned variables
	origins := func(at ast.Node, e ast.Node) map[*iStaleRead]bool {
		out := map[*iStaleRead]bool{}
		if e == nil {
			return out
		}
		for _, r := range mkReads(at, e) {
			out[r] = true
		}
		inspectShallow(e, func(x ast.Node) bool {
			if id, ok := x.(*ast.Ident); ok {
				for r := range dep[info.ObjectOf(id)] {
					out[r] = true
				}
			}
			return true
		})
		return out
	}
	// controlling conditions by syntactic nesting
	type ctrl struct {
		at   ast.Node // CFG-findable node of the condition/tag (for reads made in it)
		expr ast.Node
	}
	var walk func(n ast.Node, ctrls []ctrl, visit func(n ast.Node, ctrls []ctrl))
	walk = func(n ast.Node, ctrls []ctrl, visit func(n ast.Node, ctrls []ctrl)) {
		if n == nil {
			return
		}
		switch x := n.(type) {
		case *ast.BlockStmt:
			for _, s := range x.List {
				walk(s, ctrls, visit)
			}
		case *ast.IfStmt:
			if x.Init != nil {
				walk(x.Init, ctrls, visit)
			}
			inner := append(append([]ctrl(nil), ctrls...), ctrl{x.Cond, x.Cond})
			walk(x.Body, inner, visit)
			if x.Else != nil {
				walk(x.Else, inner, visit)
			}
		case *ast.SwitchStmt:
			if x.Init != nil {
				walk(x.Init, ctrls, visit)
			}
			inner := ctrls
			if x.Tag != nil {
				inner = append(append([]ctrl(nil), ctrls...), ctrl{x.Tag, x.Tag})
			}
			for _, cc := range x.Body.List {
				cl := cc.(*ast.CaseClause)
				in2 := inner
				for _, e := range cl.List {
					in2 = append(append([]ctrl(nil), in2...), ctrl{e, e})
				}
				for _, s := range cl.Body {
					walk(s, in2, visit)
				}
			}
		case *ast.TypeSwitchStmt:
			inner := append(append([]ctrl(nil), ctrls...), ctrl{x.Assign, x.Assign})
			for _, cc := range x.Body.List {
				for _, s := range cc.(*ast.CaseClause).Body {
					walk(s, inner, visit)
				}
			}
		case *ast.ForStmt:
			if x.Init != nil {
				walk(x.Init, ctrls, visit)
			}
			inner := ctrls
			if x.Cond != nil {
				inner = append(append([]ctrl(nil), ctrls...), ctrl{x.Cond, x.Cond})
			}
			walk(x.Body, inner, visit)
			if x.Post != nil {
				walk(x.Post, inner, visit)
			}
		case *ast.RangeStmt:
			inner := append(append([]ctrl(nil), ctrls...), ctrl{x.X, x.X})
			visit(x, ctrls)
			walk(x.Body, inner, visit)
		case *ast.LabeledStmt:
			walk(x.Stmt, ctrls, visit)
		case *ast.SelectStmt:
			for _, cc := range x.Body.List {
				for _, s := range cc.(*ast.CommClause).Body {
					walk(s, ctrls, visit)
				}
			}
		default:
			visit(n, ctrls)
		}
	}
	ctrlOrigins := func(ctrls []ctrl) map[*iStaleRead]bool {
		out := map[*iStaleRead]bool{}
		for _, ct := range ctrls {
			for r := range origins(ct.at, ct.expr) {
				out[r] = true
			}
		}
		return out
	}
	for changed := true; changed; {
		changed = false
		walk(fd.Body, nil, func(n ast.Node, ctrls []ctrl) {
			co := ctrlOrigins(ctrls)
			switch s := n.(type) {
			case *ast.AssignStmt:
				for i, l := range s.Lhs {
					id, ok := ast.Unparen(l).(*ast.Ident)
					if !ok || id.Name == "_" {
						continue
					}
					var rhs ast.Node
					if len(s.Lhs) == len(s.Rhs) {
						rhs = s.Rhs[i]
					} else if len(s.Rhs) == 1 {
						rhs = s.Rhs[0]
					}
					o := origins(s, rhs)
					for r := range co {
						o[r] = true
					}
					if addDep(info.ObjectOf(id), o) {
						changed = true
					}
				}
			case *ast.DeclStmt:
				if gd, ok := s.Decl.(*ast.GenDecl); ok {
					for _, sp := range gd.Specs {
						if vs, ok := sp.(*ast.ValueSpec); ok {
							for i, id := range vs.Names {
								var rhs ast.Node
								if i < len(vs.Values) {
									rhs = vs.Values[i]
								} else if len(vs.Values) == 1 {
									rhs = vs.Values[0]
								}
								o := origins(s, rhs)
								for r := range co {
									o[r] = true
								}
								if addDep(info.ObjectOf(id), o) {
									changed = true
								}
							}
						}
					}
				}
			case *ast.RangeStmt:
				o := origins(s.X, s.X)
				for _, e := range []ast.Expr{s.Key, s.Value} {
					if id, ok := e.(*ast.Ident); ok && id.Name != "_" {
						if addDep(info.ObjectOf(id), o) {
							changed = true
						}
					}
				}
			}
		})
	}

	// actions and what decides them (syntactic nesting)
	type decided struct {
		act  iStaleAction
		by   map[*iStaleRead]bool
		stmt ast.Node
	}
	var acts []*decided
	isAction := func(n ast.Node) (string, bool) {
		found := ""
		inspectShallow(n, func(x ast.Node) bool {
			if found != "" {
				return false
			}
			switch y := x.(type) {
			case *ast.AssignStmt:
				for _, l := range y.Lhs {
					if f := iCTAFieldRoot(info, l, isBase, fields); f != nil {
						found = "store " + nodeText(c.Fset, y)
					}
				}
			case *ast.IncDecStmt:
				if iCTAFieldRoot(info, y.X, isBase, fields) != nil {
					found = "update " + types.ExprString(y.X)
				}
			case *ast.CallExpr:
				if (isBuiltin(info, y, "delete") || isBuiltin(info, y, "clear")) && len(y.Args) > 0 && iCTAFieldRoot(info, y.Args[0], isBase, fields) != nil {
					found = nodeText(c.Fset, y)
				} else if sel, ok := ast.Unparen(y.Fun).(*ast.SelectorExpr); ok && isBase(sel.X) {
					if f := calleeFunc(info, y); f != nil && om.writes[f.Origin()] {
						found = "call " + nodeText(c.Fset, y) + " (changes " + types.ExprString(base) + "'s state)"
					}
				}
			}
			return true
		})
		return found, found != ""
	}
	walk(fd.Body, nil, func(n ast.Node, ctrls []ctrl) {
		if _, isRange := n.(*ast.RangeStmt); isRange {
			return
		}
		if text, ok := isAction(n); ok {
			acts = append(acts, &decided{act: iStaleAction{n, text}, by: ctrlOrigins(ctrls), stmt: n})
		}
	})
	if len(reads) == 0 || len(acts) == 0 {
		return nil
	}

	// control dependence through early exits: an if condition one of whose outcomes dominates the action
	g := newCFG(info, fd.Body)
	dom, preds := iDominators(g)
	for _, b := range g.Blocks {
		if !b.Live || len(b.Succs) != 2 || len(b.Nodes) == 0 {
			continue
		}
		cond, ok := b.Nodes[len(b.Nodes)-1].(ast.Expr)
		if !ok {
			continue
		}
		o := origins(cond, cond)
		if len(o) == 0 {
			continue
		}
		for _, s := range b.Succs {
			if len(preds[s]) != 1 {
				continue
			}
			for _, a := range acts {
				if loc, ok := findNode(g, a.stmt); ok && dom[loc.b][s] {
					for r := range o {
						a.by[r] = true
					}
				}
			}
		}
	}

	// reachability between CFG positions
	type pos struct {
		b *cfg.Block
		i int
	}
	reach := func(from nodeLoc) map[pos]bool {
		seen := map[pos]bool{}
		seenB := map[*cfg.Block]bool{}
		for i := from.i + 1; i < len(from.b.Nodes); i++ {
			seen[pos{from.b, i}] = true
		}
		work := append([]*cfg.Block(nil), from.b.Succs...)
		for len(work) > 0 {
			b := work[0]
			work = work[1:]
			if seenB[b] {
				continue
			}
			seenB[b] = true
			for i := range b.Nodes {
				seen[pos{b, i}] = true
			}
			work = append(work, b.Succs...)
		}
		return seen
	}
	// releaseBetween returns a release that lies on a path from r to a (or nil)
	releaseBetween := func(rloc, aloc nodeLoc) *ast.CallExpr {
		fromR := reach(rloc)
		if !fromR[pos{aloc.b, aloc.i}] {
			return nil
		}
		for _, bb := range g.Blocks {
			for i, n := range bb.Nodes {
				if !fromR[pos{bb, i}] {
					continue
				}
				for _, ev := range lockEvents(n) {
					if ev.deferred || (ev.op != "Unlock" && ev.op != "RUnlock") {
						continue
					}
					if reach(nodeLoc{bb, i})[pos{aloc.b, aloc.i}] {
						return ev.call
					}
				}
			}
		}
		return nil
	}

	name := c.FuncName(p, fd)
	if mixed {
		return []Obligation{{Key: name + "#stale", Pos: c.Position(fd.Pos()), Status: Undecided,
			Detail: "the function locks several instances of guarded types: the critical sections cannot be told apart"}}
	}
	sort.SliceStable(acts, func(i, j int) bool { return acts[i].stmt.Pos() < acts[j].stmt.Pos() })
	stale := func() Obligation {
		ob := Obligation{Key: name + "#stale", Pos: c.Position(fd.Pos())}
		var okNotes []string
		for _, a := range acts {
			aloc, ok := findNode(g, a.stmt)
			if !ok {
				continue
			}
			var rs []*iStaleRead
			for r := range a.by {
				rs = append(rs, r)
			}
			sort.SliceStable(rs, func(i, j int) bool { return rs[i].node.Pos() < rs[j].node.Pos() })
			for _, r := range rs {
				rloc, ok := findNode(g, r.node)
				if !ok {
					continue
				}
				rel := releaseBetween(rloc, aloc)
				if rel == nil {
					continue
				}
				// a fresh read of the same map (and key) that also decides the action
				fresh := false
				for _, r2 := range rs {
					if r2 == r {
						continue
					}
					sameMap := (r.m == nil && r2.m == nil && r.text == r2.text) || (r.m != nil && r2.m != nil && sameExpr(info, r.m, r2.m))
					sameKey := (r.key == nil && r2.key == nil) || (r.key != nil && r2.key != nil && sameExpr(info, r.key, r2.key))
					if !sameMap || !sameKey {
						continue
					}
					r2loc, ok := findNode(g, r2.node)
					if !ok {
						continue
					}
					if reach(r2loc)[pos{aloc.b, aloc.i}] && releaseBetween(r2loc, aloc) == nil {
						fresh = true
					}
				}
				if fresh {
					okNotes = append(okNotes, fmt.Sprintf("%s at %s is decided again by a fresh read of %s in its own critical section", a.act.text, c.Position(a.stmt.Pos()), r.text))
					continue
				}
				ob.Status = Violation
				ob.Pos = c.Position(a.stmt.Pos())
				ob.Detail = fmt.Sprintf("%s at %s is decided by the read of %s at %s, but %s at %s releases the lock in between and nothing reads it again before the action: "+
					"another goroutine can change %s in the gap and the action is taken or skipped on a stale answer",
					a.act.text, c.Position(a.stmt.Pos()), r.text, c.Position(r.node.Pos()), nodeText(c.Fset, rel), c.Position(rel.Pos()), strings.TrimSuffix(r.text, "()"))
				ob.Path = []string{
					"read:   " + c.Position(r.node.Pos()) + " " + r.text,
					"unlock: " + c.Position(rel.Pos()) + " " + nodeText(c.Fset, rel),
					"action: " + c.Position(a.stmt.Pos()) + " " + a.act.text,
				}
				return ob
			}
		}
		ob.Status = OK
		nDecided := 0
		for _, a := range acts {
			if len(a.by) > 0 {
				nDecided++
			}
		}
		ob.Detail = fmt.Sprintf("%d reads of guarded state, %d actions on %s's state, %d of them decided by a read: none is separated from its deciding read by a release of the lock", len(reads), len(acts), types.ExprString(base), nDecided)
		if len(okNotes) > 0 {
			ob.Detail += " (" + strings.Join(iUniqueStrings(okNotes), "; ") + ")"
		}
		return ob
	}

	// clause #order: a drain that is triggered by the arrival of key k must see k's new state
	order := func() []Obligation {
		type mapStore struct {
			stmt  *ast.AssignStmt
			field *types.Var
			key   ast.Expr
		}
		var stores []mapStore
		inspectShallow(fd.Body, func(n ast.Node) bool {
			as, ok := n.(*ast.AssignStmt)
			if !ok || as.Tok != token.ASSIGN {
				return true
			}
			for _, l := range as.Lhs {
				ix, ok := ast.Unparen(l).(*ast.IndexExpr)
				if !ok {
					continue
				}
				sel, ok := ast.Unparen(ix.X).(*ast.SelectorExpr)
				if !ok || !isBase(sel.X) {
					continue
				}
				if f := fieldOf(sel); f != nil && owner.maps[f] {
					stores = append(stores, mapStore{as, f, ix.Index})
				}
			}
			return true
		})
		if len(stores) == 0 {
			return nil
		}
		precedes := func(sloc, aloc nodeLoc) bool {
			if sloc.b == aloc.b {
				return sloc.i < aloc.i
			}
			return dom[aloc.b][sloc.b]
		}
		ob := Obligation{Key: name + "#order", Pos: c.Position(fd.Pos())}
		var okNotes []string
		for _, a := range acts {
			aloc, ok := findNode(g, a.stmt)
			if !ok {
				continue
			}
			// the owner methods called by the action and the guarded maps they read
			type drain struct {
				call *ast.CallExpr
				fn   *types.Func
			}
			var drains []drain
			inspectShallow(a.stmt, func(x ast.Node) bool {
				if call, ok := x.(*ast.CallExpr); ok {
					if sel, ok := ast.Unparen(call.Fun).(*ast.SelectorExpr); ok && isBase(sel.X) {
						if f := calleeFunc(info, call); f != nil && len(om.readsOf[f.Origin()]) > 0 {
							drains = append(drains, drain{call, f.Origin()})
						}
					}
				}
				return true
			})
			if len(drains) == 0 {
				continue
			}
			var rs []*iStaleRead
			for r := range a.by {
				rs = append(rs, r)
			}
			sort.SliceStable(rs, func(i, j int) bool { return rs[i].node.Pos() < rs[j].node.Pos() })
			for _, d := range drains {
				for _, r := range rs {
					if r.m == nil || r.key == nil {
						continue
					}
					rsel, _ := ast.Unparen(r.m).(*ast.SelectorExpr)
					if rsel == nil {
						continue
					}
					field := fieldOf(rsel)
					if field == nil || !om.readsOf[d.fn][field] {
						continue
					}
					rloc, ok := findNode(g, r.node)
					if !ok || releaseBetween(rloc, aloc) != nil {
						continue // another critical section: clause #stale
					}
					var same []mapStore
					for _, st := range stores {
						if st.field == field && sameExpr(info, st.key, r.key) {
							same = append(same, st)
						}
					}
					if len(same) == 0 {
						continue
					}
					// an instance: lookup of M[k] decides the call of a reader of M, and M[k] is stored
					good := false
					for _, st := range same {
						sloc, ok := findNode(g, st.stmt)
						if ok && precedes(sloc, aloc) && releaseBetween(sloc, aloc) == nil {
							good = true
							okNotes = append(okNotes, fmt.Sprintf("%s at %s is triggered by the lookup %s at %s and runs after the store %s at %s",
								nodeText(c.Fset, d.call), c.Position(d.call.Pos()), r.text, c.Position(r.node.Pos()), nodeText(c.Fset, st.stmt), c.Position(st.stmt.Pos())))
						}
					}
					if good {
						continue
					}
					st := same[0]
					ob.Status = Violation
					ob.Pos = c.Position(d.call.Pos())
					ob.Detail = fmt.Sprintf("%s at %s reads %s.%s and is triggered by the lookup of %s at %s (the arrival of that key), but the store %s at %s does not precede it on every path: "+
						"the call still sees the key's old state, so whatever was waiting for exactly this key is not released by this pass",
						nodeText(c.Fset, d.call), c.Position(d.call.Pos()), types.ExprString(base), field.Name(), r.text, c.Position(r.node.Pos()), nodeText(c.Fset, st.stmt), c.Position(st.stmt.Pos()))
					ob.Path = []string{
						"lookup: " + c.Position(r.node.Pos()) + " " + r.text,
						"store:  " + c.Position(st.stmt.Pos()) + " " + nodeText(c.Fset, st.stmt),
						"call:   " + c.Position(d.call.Pos()) + " " + nodeText(c.Fset, d.call) + " (reads " + types.ExprString(base) + "." + field.Name() + ")",
					}
					return []Obligation{ob}
				}
			}
		}
		if len(okNotes) == 0 {
			return nil
		}
		ob.Status = OK
		ob.Detail = strings.Join(iUniqueStrings(okNotes), "; ")
		return []Obligation{ob}
	}
	return append([]Obligation{stale()}, order()...)
}

var _ = token.NoPos
