package main

import (
	"fmt"
	"go/ast"
	"go/constant"
	"go/token"
	"go/types"

	"golang.org/x/tools/go/cfg"
	"golang.org/x/tools/go/packages"
)

// TOMBSTONE (C12): the side table of plain-tag modifications of an overlay must record the removal
// of a tag as a deletion marker, never by forgetting the entry: the table cannot know whether the
// base feature carries the key, and a forgotten entry lets the base value resurface.
//
// The table is discovered by type: a named type L with the sanitiser method
// WrapFeature(b6.Feature) b6.Feature (the "tag layer" of RAWBASE/SHADOW-FILTER) whose underlying
// type is map[K1]map[K2]E with E a struct that has exactly one bool field, the deletion flag
// (today ModifiedTags = map[b6.FeatureID]map[string]modifiedTag, flag `deleted`). Every function
// of the module that writes to or reads from a per-feature map (an expression of type map[K2]E)
// is a subject; nothing is matched by name.
//
// Writers. A function that stores an entry with a non-flag field set (modifiedTag{value: ..})
// records a value; all such stores must agree on the flag they write (false or absent today):
// the opposite value is the deletion marker (one obligation on the type, `pkg.L#1`). A function
// that stores into or deletes from a per-feature map without ever setting a non-flag field has
// no value to record: it is a removal function (today ModifiedTags.RemoveTag). For it:
//
//	#1 every path from entry to a normal exit passes a store `inner[key] = E{flag: marker}` where
//	   key is a parameter of type K2, the literal (directly or through a single-definition local)
//	   sets only the flag, and inner is the feature's map: `outer[id]` for a parameter id of type K1,
//	   or a local only ever assigned from `outer[id]` or from make/a literal that is then attached
//	   by `outer[id] = local` on every path (must-pass-through on go/cfg);
//	#2 the function contains no delete(...) on a per-feature map or on the table itself.
//
// Readers. For every read of an entry (`e, ok := inner[k]`, `e := inner[k]`, `for k, e := range
// inner`), assume the entry is present and is a deletion marker (ok = true, e.flag = marker;
// conditions are evaluated in three-valued logic through !, && and ||) and follow the control
// flow up to the next iteration of an enclosing loop: no statement on such a path may use a
// non-flag field of e (unless the same statement also copies e.flag, as EachModifiedTag does when
// it exports the entry), and, in a function that has a parameter implementing b6.Taggable (the
// base feature), none may mention that parameter or a local derived from it (the base value
// would be returned or appended although the tag is deleted). One obligation per read.
func init() {
	register(&Rule{
		Name:  "TOMBSTONE",
		IR:    "cfg",
		Props: []string{"C12"},
		Floor: 7, // ModifiedTags#1, RemoveTag#1-2, modifyTags#1-2, modifyTag#1, EachModifiedTag#1
		Doc: "the table of plain-tag modifications records a removal as a deletion marker on every path of its removal functions and never deletes an entry there; " +
			"every reader of an entry consults the deletion flag before using the entry's value or falling back to the base feature's value",
		Run: runTombstone,
	})
}

type eTombLayer struct {
	pkg    *packages.Package
	named  *types.Named
	k1, k2 types.Type
	inner  types.Type // map[K2]E
	entry  types.Type // E
	est    *types.Struct
	flag   *types.Var
	marker bool // value of the flag that means "deleted"
}

func runTombstone(c *Ctx) []Obligation {
	ifs := eLoadIfaces(c)
	if !ifs.ok() {
		return []Obligation{{Key: "b6.World#1", Pos: "-", Status: Undecided, Detail: "interfaces of package b6 not found"}}
	}
	var out []Obligation
	for _, p := range c.SortedPkgs() {
		scope := p.Types.Scope()
		for _, name := range scope.Names() {
			tn, ok := scope.Lookup(name).(*types.TypeName)
			if !ok || tn.IsAlias() {
				continue
			}
			named, ok := tn.Type().(*types.Named)
			if !ok || named.TypeParams().Len() > 0 || eHasWrapFeature(named, ifs) == nil {
				continue
			}
			om, ok := named.Underlying().(*types.Map)
			if !ok {
				continue
			}
			im, ok := om.Elem().Underlying().(*types.Map)
			if !ok {
				continue
			}
			est, ok := im.Elem().Underlying().(*types.Struct)
			if !ok {
				continue
			}
			var flags []*types.Var
			for i := 0; i < est.NumFields(); i++ {
				if types.Identical(est.Field(i).Type().Underlying(), types.Typ[types.Bool]) {
					flags = append(flags, est.Field(i))
				}
			}
			key := relPkg(p) + "." + name + "#1"
			if len(flags) == 0 {
				continue // entries carry no deletion flag: not a table with deletion markers
			}
			if len(flags) > 1 {
				out = append(out, Obligation{Key: key, Pos: c.Position(tn.Pos()), Status: Undecided,
					Detail: fmt.Sprintf("entries of %s have %d bool fields: cannot tell which one is the deletion flag", name, len(flags))})
				continue
			}
			l := &eTombLayer{pkg: p, named: named, k1: om.Key(), k2: im.Key(), inner: om.Elem(), entry: im.Elem(), est: est, flag: flags[0]}
			out = append(out, eTombstoneLayer(c, ifs, l, key, tn.Pos())...)
		}
	}
	return out
}

type eTombStore struct {
	stmt        *ast.AssignStmt
	x, key, rhs ast.Expr
	lit         *ast.CompositeLit // resolved right-hand side, nil when not a literal of E
	flagVal     *bool             // constant written to the flag (nil: not a constant); absent = false
	setsValue   bool              // a non-flag field is set
}

type eTombRead struct {
	node  ast.Node // *ast.AssignStmt or *ast.RangeStmt
	entry types.Object
	ok    types.Object
}

type eTombFunc struct {
	p       *packages.Package
	fd      *ast.FuncDecl
	stores  []eTombStore
	deletes []*ast.CallExpr // delete on a per-feature map or on the table
	innerDe int             // how many of them are on a per-feature map
	reads   []eTombRead
	direct  []ast.Node // entry reads not bound to a variable
}

func (l *eTombLayer) isInner(info *types.Info, e ast.Expr) bool {
	t := info.TypeOf(e)
	return t != nil && types.Identical(t, l.inner)
}

func (l *eTombLayer) isOuter(info *types.Info, e ast.Expr) bool {
	t := info.TypeOf(e)
	return t != nil && (types.Identical(t, l.named) || types.Identical(t, l.named.Underlying()))
}

// literal analyses a composite literal of the entry type.
func (l *eTombLayer) literal(info *types.Info, cl *ast.CompositeLit) (flagVal *bool, setsValue bool) {
	f := false
	flagVal = &f // absent: zero value
	for i, el := range cl.Elts {
		var field *types.Var
		val := el
		if kv, ok := el.(*ast.KeyValueExpr); ok {
			val = kv.Value
			if k, ok := kv.Key.(*ast.Ident); ok {
				for j := 0; j < l.est.NumFields(); j++ {
					if l.est.Field(j).Name() == k.Name {
						field = l.est.Field(j)
					}
				}
			}
		} else if i < l.est.NumFields() {
			field = l.est.Field(i)
		}
		if field == l.flag {
			flagVal = nil
			if tv, ok := info.Types[val]; ok && tv.Value != nil && tv.Value.Kind() == constant.Bool {
				b := constant.BoolVal(tv.Value)
				flagVal = &b
			}
		} else {
			setsValue = true
		}
	}
	return
}

func eTombstoneLayer(c *Ctx, ifs *eIfaces, l *eTombLayer, typeKey string, typePos token.Pos) []Obligation {
	// collect the functions that touch per-feature maps
	var funcs []*eTombFunc
	for _, p := range c.SortedPkgs() {
		info := p.TypesInfo
		for _, fd := range c.FuncDecls(p) {
			tf := &eTombFunc{p: p, fd: fd}
			lhs := map[ast.Expr]bool{}
			bound := map[ast.Expr]bool{}
			ast.Inspect(fd.Body, func(n ast.Node) bool {
				switch x := n.(type) {
				case *ast.AssignStmt:
					for i, le := range x.Lhs {
						ix, ok := ast.Unparen(le).(*ast.IndexExpr)
						if !ok || !l.isInner(info, ix.X) {
							continue
						}
						lhs[ix] = true
						st := eTombStore{stmt: x, x: ix.X, key: ix.Index}
						if len(x.Rhs) == len(x.Lhs) {
							st.rhs = x.Rhs[i]
							r := eResolve(info, fd.Body, st.rhs)
							if cl, ok := ast.Unparen(r).(*ast.CompositeLit); ok && types.Identical(info.TypeOf(cl), l.entry) {
								st.lit = cl
								st.flagVal, st.setsValue = l.literal(info, cl)
							}
						}
						tf.stores = append(tf.stores, st)
					}
					if len(x.Rhs) == 1 {
						if ix, ok := ast.Unparen(x.Rhs[0]).(*ast.IndexExpr); ok && l.isInner(info, ix.X) {
							if id, ok := x.Lhs[0].(*ast.Ident); ok {
								bound[ix] = true
								r := eTombRead{node: x}
								if id.Name != "_" {
									r.entry = info.ObjectOf(id)
								}
								if len(x.Lhs) == 2 {
									if okid, ok := x.Lhs[1].(*ast.Ident); ok && okid.Name != "_" {
										r.ok = info.ObjectOf(okid)
									}
								}
								tf.reads = append(tf.reads, r)
							}
						}
					}
				case *ast.RangeStmt:
					if l.isInner(info, x.X) {
						r := eTombRead{node: x}
						if id, ok := x.Value.(*ast.Ident); ok && id.Name != "_" {
							r.entry = info.ObjectOf(id)
						}
						if r.entry != nil {
							tf.reads = append(tf.reads, r)
						}
					}
				case *ast.CallExpr:
					if isBuiltin(info, x, "delete") && len(x.Args) == 2 {
						if l.isInner(info, x.Args[0]) {
							tf.deletes = append(tf.deletes, x)
							tf.innerDe++
						} else if l.isOuter(info, x.Args[0]) {
							tf.deletes = append(tf.deletes, x)
						}
					}
				}
				return true
			})
			ast.Inspect(fd.Body, func(n ast.Node) bool {
				if ix, ok := n.(*ast.IndexExpr); ok && l.isInner(info, ix.X) && !lhs[ix] && !bound[ix] {
					tf.direct = append(tf.direct, ix)
				}
				return true
			})
			if len(tf.stores)+tf.innerDe+len(tf.reads)+len(tf.direct) > 0 {
				funcs = append(funcs, tf)
			}
		}
	}
	var out []Obligation
	// polarity of the flag, from the stores that record a value
	ob := Obligation{Key: typeKey, Pos: c.Position(typePos)}
	var polarity *bool
	consistent, nvalue := true, 0
	where := ""
	for _, tf := range funcs {
		for _, st := range tf.stores {
			if !st.setsValue {
				continue
			}
			nvalue++
			if st.flagVal == nil {
				consistent = false
				where = c.Position(st.stmt.Pos())
				continue
			}
			if polarity == nil {
				polarity = st.flagVal
			} else if *polarity != *st.flagVal {
				consistent = false
				where = c.Position(st.stmt.Pos())
			}
		}
	}
	flagName := l.entry.String()
	if n := namedOf(l.entry); n != nil {
		flagName = n.Obj().Name()
	}
	flagName += "." + l.flag.Name()
	switch {
	case nvalue == 0:
		ob.Status, ob.Detail = Undecided, fmt.Sprintf("no function stores an entry of %s with a value: the meaning of %s cannot be derived", l.named.Obj().Name(), flagName)
	case !consistent:
		ob.Status, ob.Detail = Undecided, fmt.Sprintf("the stores that record a tag value do not agree on %s (see %s): a value would be recorded as a deletion marker, or the flag is not a constant", flagName, where)
	default:
		l.marker = !*polarity
		ob.Status, ob.Detail = OK, fmt.Sprintf("all %d stores that record a tag value in %s write %s = %v; %s = %v is the deletion marker", nvalue, l.named.Obj().Name(), flagName, *polarity, flagName, l.marker)
	}
	out = append(out, ob)
	if ob.Status != OK {
		return out
	}
	for _, tf := range funcs {
		name := c.FuncName(tf.p, tf.fd)
		ord := 0
		valueWriter := false
		for _, st := range tf.stores {
			if st.setsValue {
				valueWriter = true
			}
		}
		if len(tf.stores)+tf.innerDe > 0 && !valueWriter {
			ord++
			o1 := Obligation{Key: fmt.Sprintf("%s#%d", name, ord), Pos: c.Position(tf.fd.Pos())}
			o1.Status, o1.Detail, o1.Path = eTombMarker(c, l, tf, flagName)
			out = append(out, o1)
			ord++
			o2 := Obligation{Key: fmt.Sprintf("%s#%d", name, ord), Pos: c.Position(tf.fd.Pos())}
			if len(tf.deletes) > 0 {
				o2.Status = Violation
				o2.Pos = c.Position(tf.deletes[0].Pos())
				o2.Detail = fmt.Sprintf("removal function %s forgets modifications with %s instead of recording a deletion marker: if the base feature carries the key its value resurfaces", tf.fd.Name.Name, nodeText(c.Fset, tf.deletes[0]))
			} else {
				o2.Status, o2.Detail = OK, fmt.Sprintf("removal function %s never deletes from a per-feature map or from the table", tf.fd.Name.Name)
			}
			out = append(out, o2)
		}
		for _, r := range tf.reads {
			ord++
			o := Obligation{Key: fmt.Sprintf("%s#%d", name, ord), Pos: c.Position(r.node.Pos())}
			o.Status, o.Detail, o.Path = eTombReader(c, ifs, l, tf, r, flagName)
			out = append(out, o)
		}
		for _, d := range tf.direct {
			ord++
			out = append(out, Obligation{Key: fmt.Sprintf("%s#%d", name, ord), Pos: c.Position(d.Pos()), Status: Undecided,
				Detail: fmt.Sprintf("entry read %s is not bound to a variable: the rule cannot follow whether %s is consulted", nodeText(c.Fset, d), flagName)})
		}
	}
	return out
}

func eTombParams(info *types.Info, fd *ast.FuncDecl, t types.Type) map[types.Object]bool {
	m := map[types.Object]bool{}
	for _, fl := range fd.Type.Params.List {
		for _, nm := range fl.Names {
			if obj := info.Defs[nm]; obj != nil && types.Identical(obj.Type(), t) {
				m[obj] = true
			}
		}
	}
	return m
}

// eTombMarker decides obligation #1 of a removal function.
func eTombMarker(c *Ctx, l *eTombLayer, tf *eTombFunc, flagName string) (string, string, []string) {
	info := tf.p.TypesInfo
	idParams := eTombParams(info, tf.fd, l.k1)
	keyParams := eTombParams(info, tf.fd, l.k2)
	isParam := func(e ast.Expr, set map[types.Object]bool) bool {
		id, ok := ast.Unparen(e).(*ast.Ident)
		return ok && set[info.ObjectOf(id)]
	}
	// outer[id]
	isFeatureMap := func(e ast.Expr) bool {
		ix, ok := ast.Unparen(e).(*ast.IndexExpr)
		return ok && l.isOuter(info, ix.X) && isParam(ix.Index, idParams)
	}
	g := newCFG(info, tf.fd.Body)
	// is x the removed feature's map?
	boundWhy := func(x ast.Expr) (string, string, []string) {
		if isFeatureMap(x) {
			return "", "", nil
		}
		id, ok := ast.Unparen(x).(*ast.Ident)
		if !ok {
			return Undecided, fmt.Sprintf("the per-feature map %s is not the table indexed by the feature id parameter or a local variable", nodeText(c.Fset, x)), nil
		}
		v := info.ObjectOf(id)
		status, detail := "", ""
		var path []string
		check := func(stmt ast.Node, rhs ast.Expr) {
			if status != "" {
				return
			}
			if rhs == nil {
				return // var v map[..]..: nil until assigned
			}
			if isFeatureMap(rhs) {
				return
			}
			fresh := false
			switch r := ast.Unparen(rhs).(type) {
			case *ast.CallExpr:
				fresh = isBuiltin(info, r, "make")
			case *ast.CompositeLit:
				fresh = true
			}
			if !fresh {
				status, detail = Undecided, fmt.Sprintf("the per-feature map %s is assigned %s at %s, which is neither the table's entry for the feature id parameter nor a fresh map", id.Name, nodeText(c.Fset, rhs), c.Position(stmt.Pos()))
				return
			}
			loc, ok := findNode(g, stmt)
			if !ok {
				status, detail = Undecided, "assignment not found in the control-flow graph at "+c.Position(stmt.Pos())
				return
			}
			ps := &pathSearch{c: c, info: info, exitIsBad: true, stop: func(n ast.Node) bool {
				as, ok := n.(*ast.AssignStmt)
				if !ok || len(as.Lhs) != len(as.Rhs) {
					return false
				}
				for i, le := range as.Lhs {
					if rid, ok := ast.Unparen(as.Rhs[i]).(*ast.Ident); ok && info.ObjectOf(rid) == v && isFeatureMap(le) {
						return true
					}
				}
				return false
			}}
			if w := ps.run(loc); w != nil {
				status, detail, path = Violation, fmt.Sprintf("the fresh per-feature map created at %s is not stored in the table under the feature id on every path: the deletion marker written to it is lost", c.Position(stmt.Pos())), w
			}
		}
		ast.Inspect(tf.fd.Body, func(n ast.Node) bool {
			switch s := n.(type) {
			case *ast.AssignStmt:
				for i, le := range s.Lhs {
					lid, ok := le.(*ast.Ident)
					if !ok || info.ObjectOf(lid) != v {
						continue
					}
					if len(s.Rhs) == len(s.Lhs) {
						check(s, s.Rhs[i])
					} else if len(s.Rhs) == 1 && i == 0 {
						check(s, s.Rhs[0])
					} else if status == "" {
						status, detail = Undecided, "the per-feature map is assigned from a tuple position the rule does not know at "+c.Position(s.Pos())
					}
				}
			case *ast.ValueSpec:
				for i, nm := range s.Names {
					if info.Defs[nm] == v && i < len(s.Values) {
						check(s, s.Values[i])
					}
				}
			}
			return true
		})
		return status, detail, path
	}
	isMarker := func(n ast.Node) (bool, ast.Expr) {
		for _, st := range tf.stores {
			if ast.Node(st.stmt) != n {
				continue
			}
			if st.lit != nil && !st.setsValue && st.flagVal != nil && *st.flagVal == l.marker && isParam(st.key, keyParams) {
				return true, st.x
			}
		}
		return false, nil
	}
	// stores this rule does not understand
	for _, st := range tf.stores {
		if ok, _ := isMarker(st.stmt); ok {
			continue
		}
		switch {
		case st.lit == nil:
			return Undecided, fmt.Sprintf("the store %s does not write a literal of the entry type: cannot tell whether it is a deletion marker", nodeText(c.Fset, st.stmt)), nil
		case st.flagVal == nil:
			return Undecided, fmt.Sprintf("the store %s writes a non-constant %s", nodeText(c.Fset, st.stmt), flagName), nil
		case *st.flagVal != l.marker:
			return Violation, fmt.Sprintf("removal function %s stores an entry without a value and with %s = %v at %s: the removed tag reads as present with an empty value instead of deleted", tf.fd.Name.Name, flagName, *st.flagVal, c.Position(st.stmt.Pos())), nil
		default:
			return Undecided, fmt.Sprintf("the deletion marker at %s is not stored under a key parameter of the function", c.Position(st.stmt.Pos())), nil
		}
	}
	if len(g.Blocks) == 0 {
		return Undecided, "empty function", nil
	}
	var markers []ast.Expr
	es := &eEdgeSearch{c: c, info: info, exitIsBad: true}
	es.visit = func(n ast.Node, isCond bool) (bool, eFollow) {
		if ok, x := isMarker(n); ok {
			markers = append(markers, x)
			return false, eNone
		}
		return false, eBoth
	}
	if w := es.run(g.Blocks[0], 0); w != nil {
		return Violation, fmt.Sprintf("removal function %s can return without storing an entry with %s = %v under the removed key: the removal is not recorded and the earlier or the base value of the tag stays visible", tf.fd.Name.Name, flagName, l.marker), w
	}
	for _, x := range markers {
		if st, d, p := boundWhy(x); st != "" {
			return st, d, p
		}
	}
	return OK, fmt.Sprintf("every path through %s stores an entry with only %s = %v under the removed key in the feature's own map", tf.fd.Name.Name, flagName, l.marker), nil
}

// eTombReader decides one entry read.
func eTombReader(c *Ctx, ifs *eIfaces, l *eTombLayer, tf *eTombFunc, r eTombRead, flagName string) (string, string, []string) {
	info := tf.p.TypesInfo
	if r.entry == nil {
		return OK, "the entry itself is discarded (only its presence is read)", nil
	}
	body := eInnermostBody(tf.fd, r.node)
	// the base feature: parameters implementing b6.Taggable, and locals derived from them
	base := map[types.Object]bool{}
	for _, fl := range tf.fd.Type.Params.List {
		for _, nm := range fl.Names {
			if obj := info.Defs[nm]; obj != nil {
				if _, isIface := obj.Type().Underlying().(*types.Interface); isIface && types.Implements(obj.Type(), ifs.taggable) {
					base[obj] = true
				}
			}
		}
	}
	for changed := len(base) > 0; changed; {
		changed = false
		ast.Inspect(tf.fd.Body, func(n ast.Node) bool {
			add := func(le ast.Expr) {
				if id, ok := le.(*ast.Ident); ok && id.Name != "_" {
					if obj := info.ObjectOf(id); obj != nil && !base[obj] {
						base[obj] = true
						changed = true
					}
				}
			}
			switch s := n.(type) {
			case *ast.AssignStmt:
				if len(s.Lhs) == len(s.Rhs) {
					for i, rh := range s.Rhs {
						if id := eRootIdent(rh); id != nil && base[info.ObjectOf(id)] {
							add(s.Lhs[i])
						}
					}
				}
			case *ast.RangeStmt:
				if id := eRootIdent(s.X); id != nil && base[info.ObjectOf(id)] {
					if s.Value != nil {
						add(s.Value)
					}
				}
			}
			return true
		})
	}
	// enclosing loops of the read: their heads start a new iteration
	loops := map[ast.Stmt]bool{}
	for _, n := range enclosing(body, r.node) {
		switch s := n.(type) {
		case *ast.ForStmt:
			loops[s] = true
		case *ast.RangeStmt:
			loops[s] = true
		}
	}
	isFlagSel := func(e ast.Expr) bool {
		sel, ok := ast.Unparen(e).(*ast.SelectorExpr)
		if !ok {
			return false
		}
		id, ok := ast.Unparen(sel.X).(*ast.Ident)
		if !ok || info.ObjectOf(id) != r.entry {
			return false
		}
		s := info.Selections[sel]
		return s != nil && s.Obj() == types.Object(l.flag)
	}
	// what a statement does with the entry and the base
	classify := func(n ast.Node) (usesValue, readsFlag, whole, usesBase bool) {
		ast.Inspect(n, func(x ast.Node) bool {
			switch y := x.(type) {
			case *ast.SelectorExpr:
				if id, ok := ast.Unparen(y.X).(*ast.Ident); ok && info.ObjectOf(id) == r.entry {
					if isFlagSel(y) {
						readsFlag = true
					} else {
						usesValue = true
					}
					return false
				}
			case *ast.Ident:
				obj := info.ObjectOf(y)
				if obj == r.entry && info.Defs[y] == nil {
					whole = true
				}
				if base[obj] && info.Defs[y] == nil {
					usesBase = true
				}
			}
			return true
		})
		return
	}
	g := newCFG(info, body)
	var b0 *cfg.Block
	i0 := 0
	switch s := r.node.(type) {
	case *ast.RangeStmt:
		for _, b := range g.Blocks {
			if b.Kind == cfg.KindRangeBody && b.Stmt == ast.Stmt(s) {
				b0 = b
			}
		}
	default:
		if loc, ok := findNode(g, r.node); ok {
			b0, i0 = loc.b, loc.i+1
		}
	}
	if b0 == nil {
		return Undecided, "entry read not found in the control-flow graph", nil
	}
	why, unknown := "", false
	es := &eEdgeSearch{c: c, info: info}
	es.stopBlock = func(b *cfg.Block) bool {
		switch b.Kind {
		case cfg.KindForLoop, cfg.KindForPost, cfg.KindRangeLoop:
			return loops[b.Stmt]
		}
		return false
	}
	es.visit = func(n ast.Node, isCond bool) (bool, eFollow) {
		if n == r.node {
			return false, eNone // read again
		}
		if isCond {
			v, known := eCondEval(n.(ast.Expr), func(a ast.Expr) (bool, bool) {
				if id, ok := a.(*ast.Ident); ok && r.ok != nil && info.ObjectOf(id) == r.ok {
					return true, true
				}
				if isFlagSel(a) {
					return l.marker, true
				}
				return false, false
			})
			return false, eFollowOf(v, known)
		}
		usesValue, readsFlag, whole, usesBase := classify(n)
		switch {
		case usesValue && !readsFlag:
			why = fmt.Sprintf("a field of the entry other than %s is used although the entry may be a deletion marker", flagName)
			return true, eBoth
		case whole:
			why, unknown = "the whole entry is handed on; the rule cannot follow whether its flag is consulted", true
			return true, eBoth
		case usesBase:
			why = "the base feature's value is used although the entry for the key is a deletion marker"
			return true, eBoth
		}
		return false, eBoth
	}
	if w := es.run(b0, i0); w != nil {
		st := Violation
		if unknown {
			st = Undecided
		}
		return st, fmt.Sprintf("entry %s read at %s: %s", r.entry.Name(), c.Position(r.node.Pos()), why), w
	}
	return OK, fmt.Sprintf("entry %s: when it is a deletion marker (%s = %v) no path uses its value%s", r.entry.Name(), flagName, l.marker,
		map[bool]string{true: " or the base feature's value", false: ""}[len(base) > 0]), nil
}
