package main

import (
	"fmt"
	"go/ast"
	"go/token"
	"go/types"
	"sort"
	"strings"

	"golang.org/x/tools/go/ssa"
)

// CLIENT-SIZED-ALLOC (C23). Entry points: the functions a client can call by name — every
// function stored in a value of type api.FunctionSymbols in package api/functions (the keyed
// composite literal of the table, or an index assignment into it), found through the table's
// type, not through names. Their int/float parameters arrive unvalidated from the request.
//
// Taint: a numeric parameter of an entry point and everything computed from it by arithmetic,
// conversion, negation, phi, min/max, a function of package math, a local variable it is
// stored in (also when captured by a function literal), and — to depth 3 — the matching
// parameter of a module function that is called statically with a tainted argument (and that
// function's result when one of its returns is tainted).
//
// Sinks (instances besides the entry points themselves): a tainted `make` length/capacity
// (slice, map, chan), a tainted bound of a slice expression x[n:], x[:n], x[:n:m], a tainted
// index into a slice, array or string. Obligation: the tainted operand is range-checked on both
// sides before the sink: a lower bound and an upper bound, each established by
//   - a comparison of the operand (or of the value it is derived from) with an untainted value —
//     a constant, len()/cap(), any server-side number — whose passing edge dominates the sink
//     (the failing edge returns an error, panics or skips the allocation), or
//   - a clamp: `if n > k { n = k }` (a phi whose tainted inputs arrive over a checked edge),
//     min(n, k), max(n, 0), or
//   - the type: an unsigned operand needs no lower bound, an 8- or 16-bit one no upper bound.
//
// When the comparison is on the sink operand itself and the lower bound is a constant, the
// constant must exclude negative values (`n >= 0`, `n > -1`). Bounds are followed through
// +, - (a-b is bounded above when a is bounded above and b below), unary minus, %,
// conversions and math.Floor/Ceil/Round/Trunc/Abs; *, /, shifts and other math functions need
// both bounds of every tainted operand. A caller's checks count for the callee's parameter.
// The rule decides that the two-sided check exists; except for the negative-constant case it
// does not compare the bound with the size of the indexed object.
//
// Accepted idioms on today's tree: none needed — no tainted value reaches a sink (take, top,
// s2-grid, tile-paths, … hand the number to iterators, comparisons or the s2 library). Loops
// bounded by a tainted value are not decided (a loop that appends until a tainted count is not a
// panic by itself), nor are values that travel through struct fields (takeCollection.n),
// interface calls or dependencies without source (s2.RegionCoverer{MaxLevel: level}).
// An operand whose bounds depend on a construct the rule does not model (the result of a
// module function, a captured variable with several stores) is reported as undecided.
func init() {
	register(&Rule{
		Name:  "CLIENT-SIZED-ALLOC",
		IR:    "ssa",
		Props: []string{"C23"},
		Floor: 27, // registered functions with an int/float parameter on today's tree
		Doc: "in the functions registered in api.FunctionSymbols (package api/functions) and the module functions they call statically with the value (depth 3), every make size, " +
			"slice bound and index that is data-dependent on an int/float parameter of the registered function is dominated by a lower-bound and an upper-bound check of that value (or is clamped)",
		Run: runClientSizedAlloc,
	})
}

// dRegisteredFunc: a function stored in the api.FunctionSymbols table, with its symbol.
type dRegisteredFunc struct {
	symbol string
	fn     *types.Func
	decl   *ast.FuncDecl
}

func dRegisteredFunctions(c *Ctx) []dRegisteredFunc {
	p := c.Pkg("api/functions")
	if p == nil {
		return nil
	}
	isTable := func(t types.Type) bool { return t != nil && isNamed(t, ModulePath+"/api", "FunctionSymbols") }
	var out []dRegisteredFunc
	seen := map[*types.Func]bool{}
	add := func(key ast.Expr, val ast.Expr) {
		var id *ast.Ident
		switch x := ast.Unparen(val).(type) {
		case *ast.Ident:
			id = x
		case *ast.SelectorExpr:
			id = x.Sel
		case *ast.IndexExpr: // explicit instantiation f[T]
			if i, ok := ast.Unparen(x.X).(*ast.Ident); ok {
				id = i
			}
		}
		if id == nil {
			return
		}
		f, ok := p.TypesInfo.Uses[id].(*types.Func)
		if !ok || seen[f] {
			return
		}
		seen[f] = true
		sym := ""
		if tv, ok := p.TypesInfo.Types[key]; ok && tv.Value != nil {
			sym = strings.Trim(tv.Value.ExactString(), `"`)
		}
		fd, _ := c.Decl(f)
		out = append(out, dRegisteredFunc{sym, f, fd})
	}
	for _, f := range p.Syntax {
		if c.IsGenerated(f) {
			continue
		}
		ast.Inspect(f, func(n ast.Node) bool {
			switch x := n.(type) {
			case *ast.CompositeLit:
				if isTable(p.TypesInfo.TypeOf(x)) {
					for _, e := range x.Elts {
						if kv, ok := e.(*ast.KeyValueExpr); ok {
							add(kv.Key, kv.Value)
						}
					}
				}
			case *ast.AssignStmt:
				for i, l := range x.Lhs {
					if ix, ok := ast.Unparen(l).(*ast.IndexExpr); ok && isTable(p.TypesInfo.TypeOf(ix.X)) && i < len(x.Rhs) {
						add(ix.Index, x.Rhs[i])
					}
				}
			}
			return true
		})
	}
	sort.Slice(out, func(i, j int) bool {
		if out[i].fn.Name() != out[j].fn.Name() {
			return out[i].fn.Name() < out[j].fn.Name()
		}
		return out[i].symbol < out[j].symbol
	})
	return out
}

func dIsNumeric(t types.Type) bool {
	b, ok := t.Underlying().(*types.Basic)
	return ok && b.Info()&(types.IsInteger|types.IsFloat) != 0
}

func dIsUnsigned(t types.Type) bool {
	b, ok := t.Underlying().(*types.Basic)
	return ok && b.Info()&types.IsUnsigned != 0
}

// dFrame: one function on the call chain from an entry point, with what is tainted in it.
type dFrame struct {
	fn      *ssa.Function
	parent  *dFrame
	call    ssa.Instruction         // call (or MakeClosure) in the parent that leads here
	argOf   map[ssa.Value]ssa.Value // tainted parameter -> argument in the parent
	cellOf  map[ssa.Value]ssa.Value // tainted free variable -> cell (alloc) in the parent
	tainted map[ssa.Value]bool
	cells   map[ssa.Value]bool // allocs / free variables that hold a tainted value
	ret     bool
}

type dSink struct {
	fr   *dFrame
	in   ssa.Instruction
	val  ssa.Value
	kind string
}

type dTaint struct {
	c     *Ctx
	sinks []dSink
	seen  map[string]*dFrame
}

func (fr *dFrame) chain() string {
	var names []string
	for f := fr; f != nil; f = f.parent {
		names = append([]string{f.fn.Name()}, names...)
	}
	return strings.Join(names, " > ")
}

// run taints the seeds (values) and cells of fr.fn and records the sinks reached.
func (t *dTaint) run(fr *dFrame, seeds []ssa.Value, cells []ssa.Value, depth int) {
	fr.tainted = map[ssa.Value]bool{}
	fr.cells = map[ssa.Value]bool{}
	var work []ssa.Value
	taint := func(v ssa.Value) {
		if v != nil && !fr.tainted[v] {
			fr.tainted[v] = true
			work = append(work, v)
		}
	}
	var markCell func(a ssa.Value)
	markCell = func(a ssa.Value) {
		if fr.cells[a] {
			return
		}
		fr.cells[a] = true
		if a.Referrers() == nil {
			return
		}
		for _, r := range *a.Referrers() {
			switch x := r.(type) {
			case *ssa.UnOp:
				if x.Op == token.MUL && x.X == a {
					taint(x)
				}
			case *ssa.MakeClosure:
				cf, _ := x.Fn.(*ssa.Function)
				if cf == nil || depth == 0 {
					continue
				}
				for k, b := range x.Bindings {
					if b == a && k < len(cf.FreeVars) {
						key := fmt.Sprintf("%p|closure|%s|%d", fr, cf.String(), k)
						if t.seen[key] != nil {
							continue
						}
						sub := &dFrame{fn: cf, parent: fr, call: x, cellOf: map[ssa.Value]ssa.Value{cf.FreeVars[k]: a}}
						t.seen[key] = sub
						t.run(sub, nil, []ssa.Value{cf.FreeVars[k]}, depth)
					}
				}
			}
		}
	}
	for _, s := range seeds {
		taint(s)
	}
	for _, cl := range cells {
		markCell(cl)
	}
	sink := func(in ssa.Instruction, v ssa.Value, kind string) {
		for _, s := range t.sinks {
			if s.fr == fr && s.in == in && s.kind == kind {
				return // an instruction is listed once per operand among the referrers
			}
		}
		t.sinks = append(t.sinks, dSink{fr, in, v, kind})
	}
	for len(work) > 0 {
		v := work[0]
		work = work[1:]
		if v.Referrers() == nil {
			continue
		}
		for _, r := range *v.Referrers() {
			switch x := r.(type) {
			case *ssa.BinOp:
				switch x.Op {
				case token.ADD, token.SUB, token.MUL, token.QUO, token.REM, token.AND, token.OR, token.XOR, token.SHL, token.SHR, token.AND_NOT:
					if dIsNumeric(x.Type()) {
						taint(x)
					}
				}
			case *ssa.UnOp:
				if (x.Op == token.SUB || x.Op == token.XOR) && dIsNumeric(x.Type()) {
					taint(x)
				}
			case *ssa.Convert:
				if dIsNumeric(x.Type()) {
					taint(x)
				}
			case *ssa.ChangeType:
				if dIsNumeric(x.Type()) {
					taint(x)
				}
			case *ssa.Phi:
				taint(x)
			case *ssa.Store:
				if x.Val == v {
					if a, ok := x.Addr.(*ssa.Alloc); ok {
						markCell(a)
					}
				}
			case *ssa.Return:
				fr.ret = true
			case *ssa.MakeSlice:
				if x.Len == v {
					sink(x, v, "make length")
				}
				if x.Cap == v && x.Cap != x.Len {
					sink(x, v, "make capacity")
				}
			case *ssa.MakeMap:
				if x.Reserve == v {
					sink(x, v, "make(map) size")
				}
			case *ssa.MakeChan:
				if x.Size == v {
					sink(x, v, "make(chan) size")
				}
			case *ssa.Slice:
				if x.Low == v {
					sink(x, v, "slice low bound")
				}
				if x.High == v {
					sink(x, v, "slice high bound")
				}
				if x.Max == v {
					sink(x, v, "slice max bound")
				}
			case *ssa.IndexAddr:
				if x.Index == v {
					sink(x, v, "index")
				}
			case *ssa.Index:
				if x.Index == v {
					sink(x, v, "index")
				}
			case *ssa.Lookup:
				if x.Index == v {
					if _, isMap := x.X.Type().Underlying().(*types.Map); !isMap {
						sink(x, v, "string index")
					}
				}
			case ssa.CallInstruction:
				com := x.Common()
				val, isVal := x.(ssa.Value)
				if b, ok := com.Value.(*ssa.Builtin); ok {
					if (b.Name() == "min" || b.Name() == "max") && isVal {
						taint(val)
					}
					continue
				}
				callee := com.StaticCallee()
				if callee == nil {
					continue
				}
				if len(callee.Blocks) == 0 {
					if callee.Pkg != nil && callee.Pkg.Pkg.Path() == "math" && isVal && dIsNumeric(val.Type()) {
						taint(val)
					}
					continue
				}
				if depth == 0 {
					continue
				}
				argOf := map[ssa.Value]ssa.Value{}
				var ps []ssa.Value
				for k, a := range com.Args {
					if fr.tainted[a] && k < len(callee.Params) && dIsNumeric(callee.Params[k].Type()) {
						ps = append(ps, callee.Params[k])
						argOf[callee.Params[k]] = a
					}
				}
				if len(ps) == 0 {
					continue
				}
				key := fmt.Sprintf("%p|%p|%s", fr, x, callee.String())
				sub := t.seen[key]
				if sub == nil {
					// not recursive chains: a function already on the chain is not entered again
					onChain := false
					for f := fr; f != nil; f = f.parent {
						if f.fn == callee {
							onChain = true
						}
					}
					if onChain {
						continue
					}
					sub = &dFrame{fn: callee, parent: fr, call: x, argOf: argOf}
					t.seen[key] = sub
					t.run(sub, ps, nil, depth-1)
				}
				if sub.ret && isVal && dIsNumeric(val.Type()) {
					taint(val)
				}
			}
		}
	}
}

const (
	dLower = 0
	dUpper = 1
)

// dPoint: the end of block b, or — when to is set — the control-flow edge b -> to (the edge over
// which a phi input arrives).
type dPoint struct {
	b  *ssa.BasicBlock
	to *ssa.BasicBlock
}

// dBound answers: is tainted value v known to be bounded (below/above) at the end of block at?
// The answer is true/false; *unknown is set when it is false because of a construct the rule
// does not model.
type dBound struct {
	unknown string
	sinkVal ssa.Value // the sink operand: constants of lower-bound checks on it are validated
}

func (b *dBound) bounded(fr *dFrame, v ssa.Value, kind int, at dPoint, seen map[string]bool) bool {
	if !fr.tainted[v] {
		return true
	}
	if kind == dLower && dIsUnsigned(v.Type()) {
		return true
	}
	if bt, ok := v.Type().Underlying().(*types.Basic); ok && kind == dUpper {
		switch bt.Kind() {
		case types.Int8, types.Uint8, types.Int16, types.Uint16:
			return true // at most 65535 by type
		}
	}
	key := fmt.Sprintf("%p|%p|%d|%p|%p", fr, v, kind, at.b, at.to)
	if seen[key] {
		return true // a cycle through a loop phi adds no new way in
	}
	seen[key] = true
	if b.checked(fr, v, kind, at) {
		return true
	}
	switch x := v.(type) {
	case *ssa.Parameter:
		if fr.parent != nil && fr.argOf[x] != nil {
			return b.bounded(fr.parent, fr.argOf[x], kind, dPoint{b: fr.call.Block()}, seen)
		}
		return false
	case *ssa.Phi:
		for k, e := range x.Edges {
			if !b.bounded(fr, e, kind, dPoint{x.Block().Preds[k], x.Block()}, seen) {
				return false
			}
		}
		return true
	case *ssa.Convert:
		return b.bounded(fr, x.X, kind, at, seen)
	case *ssa.ChangeType:
		return b.bounded(fr, x.X, kind, at, seen)
	case *ssa.UnOp:
		switch x.Op {
		case token.SUB:
			return b.bounded(fr, x.X, 1-kind, at, seen)
		case token.MUL: // load of a cell
			return b.cellBounded(fr, x, kind, at, seen)
		}
		return b.both(fr, []ssa.Value{x.X}, at, seen)
	case *ssa.BinOp:
		switch x.Op {
		case token.ADD:
			return b.bounded(fr, x.X, kind, at, seen) && b.bounded(fr, x.Y, kind, at, seen)
		case token.SUB:
			return b.bounded(fr, x.X, kind, at, seen) && b.bounded(fr, x.Y, 1-kind, at, seen)
		case token.REM:
			if kind == dUpper {
				return b.bounded(fr, x.Y, dUpper, at, seen) && b.bounded(fr, x.Y, dLower, at, seen)
			}
			return b.bounded(fr, x.X, dLower, at, seen)
		}
		return b.both(fr, []ssa.Value{x.X, x.Y}, at, seen)
	case *ssa.Call:
		com := x.Common()
		if bi, ok := com.Value.(*ssa.Builtin); ok {
			any, all := false, true
			for _, a := range com.Args {
				if b.bounded(fr, a, kind, at, seen) {
					any = true
				} else {
					all = false
				}
			}
			switch {
			case bi.Name() == "min" && kind == dUpper, bi.Name() == "max" && kind == dLower:
				return any
			case bi.Name() == "min" || bi.Name() == "max":
				return all
			}
			return false
		}
		callee := com.StaticCallee()
		if callee != nil && callee.Pkg != nil && callee.Pkg.Pkg.Path() == "math" && len(callee.Blocks) == 0 {
			switch callee.Name() {
			case "Floor", "Ceil", "Round", "Trunc", "RoundToEven":
				return b.bounded(fr, com.Args[0], kind, at, seen)
			case "Abs":
				if kind == dLower {
					return true
				}
				return b.both(fr, com.Args, at, seen)
			}
			return b.both(fr, com.Args, at, seen)
		}
		b.unknown = fmt.Sprintf("the value is the result of %s, which the rule does not evaluate", callee)
		return false
	}
	return false
}

func (b *dBound) both(fr *dFrame, vs []ssa.Value, at dPoint, seen map[string]bool) bool {
	for _, v := range vs {
		if !b.bounded(fr, v, dLower, at, seen) || !b.bounded(fr, v, dUpper, at, seen) {
			return false
		}
	}
	return true
}

// cellBounded: v is a load of a local variable that holds a tainted value.
func (b *dBound) cellBounded(fr *dFrame, ld *ssa.UnOp, kind int, at dPoint, seen map[string]bool) bool {
	cell := ld.X
	if fv, ok := cell.(*ssa.FreeVar); ok {
		// captured variable: the checks that precede the creation of the closure count, when the
		// variable is stored exactly once
		if fr.parent == nil || fr.cellOf[fv] == nil {
			return false
		}
		a, _ := fr.cellOf[fv].(*ssa.Alloc)
		st := dSingleStore(a)
		if st == nil {
			b.unknown = "the value is a captured variable that is assigned more than once"
			return false
		}
		return b.bounded(fr.parent, st.Val, kind, dPoint{b: fr.call.Block()}, seen)
	}
	a, ok := cell.(*ssa.Alloc)
	if !ok {
		return false
	}
	st := dSingleStore(a)
	if st == nil {
		b.unknown = "the value is read from a variable whose address is taken and that is assigned more than once"
		return false
	}
	return b.bounded(fr, st.Val, kind, at, seen)
}

func dSingleStore(a *ssa.Alloc) *ssa.Store {
	if a == nil || a.Referrers() == nil {
		return nil
	}
	var st *ssa.Store
	for _, r := range *a.Referrers() {
		if s, ok := r.(*ssa.Store); ok && s.Addr == ssa.Value(a) {
			if st != nil {
				return nil
			}
			st = s
		}
	}
	return st
}

// dCanon resolves a load of a local variable that is stored exactly once to the stored value
// (SSA does no CSE: every read of a captured or address-taken variable is a new load).
func dCanon(v ssa.Value) ssa.Value {
	for i := 0; i < 8; i++ {
		ld, ok := v.(*ssa.UnOp)
		if !ok || ld.Op != token.MUL {
			return v
		}
		a, ok := ld.X.(*ssa.Alloc)
		if !ok {
			return v
		}
		st := dSingleStore(a)
		if st == nil {
			return v
		}
		v = st.Val
	}
	return v
}

// dSameValue: two SSA values denote the same number: identical after dCanon, or loads of the
// same captured variable inside a function literal.
func dSameValue(x, y ssa.Value) bool {
	x, y = dCanon(x), dCanon(y)
	if x == y {
		return true
	}
	lx, ok1 := x.(*ssa.UnOp)
	ly, ok2 := y.(*ssa.UnOp)
	if !ok1 || !ok2 || lx.Op != token.MUL || ly.Op != token.MUL || lx.X != ly.X {
		return false
	}
	_, isFree := lx.X.(*ssa.FreeVar)
	return isFree // single store verified against the parent by cellBounded
}

// checked: some comparison of v with an untainted value establishes the bound on an edge that
// dominates block at.
func (b *dBound) checked(fr *dFrame, v ssa.Value, kind int, at dPoint) bool {
	for _, blk := range fr.fn.Blocks {
		iff, ok := blk.Instrs[len(blk.Instrs)-1].(*ssa.If)
		if !ok {
			continue
		}
		bo, ok := iff.Cond.(*ssa.BinOp)
		if !ok {
			continue
		}
		op := bo.Op
		var other ssa.Value
		switch {
		case dSameValue(bo.X, v) && !fr.tainted[bo.Y]:
			other = bo.Y
		case dSameValue(bo.Y, v) && !fr.tainted[bo.X]:
			other = bo.X
			switch op { // normalise to v op other
			case token.LSS:
				op = token.GTR
			case token.LEQ:
				op = token.GEQ
			case token.GTR:
				op = token.LSS
			case token.GEQ:
				op = token.LEQ
			}
		default:
			continue
		}
		if !dIsNumeric(other.Type()) {
			continue
		}
		// which successor establishes the bound, and is it strict?
		succ := -1
		strict := false
		switch op {
		case token.EQL:
			succ = 0
		case token.NEQ:
			succ = 1
		case token.GTR, token.GEQ:
			if kind == dLower {
				succ, strict = 0, op == token.GTR
			} else {
				succ, strict = 1, op == token.GEQ // !(v >= o) is v < o
			}
		case token.LSS, token.LEQ:
			if kind == dUpper {
				succ, strict = 0, op == token.LSS
			} else {
				succ, strict = 1, op == token.LEQ // !(v <= o) is v > o
			}
		}
		if succ < 0 || !dEdgeHolds(blk, succ, at) {
			continue
		}
		if kind == dLower && dSameValue(v, b.sinkVal) {
			// a constant lower bound on the operand itself must exclude negative numbers
			if k, ok := other.(*ssa.Const); ok && k.Value != nil {
				if f, ok := dConstFloat(k); ok {
					if (strict && f < -1) || (!strict && f < 0) {
						continue
					}
				}
			}
		}
		return true
	}
	return false
}

func dConstFloat(k *ssa.Const) (float64, bool) {
	b, ok := k.Type().Underlying().(*types.Basic)
	if !ok || b.Info()&(types.IsInteger|types.IsFloat) == 0 {
		return 0, false
	}
	return k.Float64(), true
}

// dEdgeHolds: control reaches the point only over successor succ of the branch that ends blk.
func dEdgeHolds(blk *ssa.BasicBlock, succ int, at dPoint) bool {
	if blk.Succs[0] == blk.Succs[1] {
		return false
	}
	if at.to != nil && at.b == blk && blk.Succs[succ] == at.to {
		return true // the point is that very edge
	}
	return dEdgeDominates(blk, blk.Succs[succ], at.b)
}

func runClientSizedAlloc(c *Ctx) []Obligation {
	c.BuildSSA()
	var out []Obligation
	fnPkg := c.Pkg("api/functions")
	for _, rf := range dRegisteredFunctions(c) {
		fn := c.SSAFunc(rf.fn)
		if fn == nil || len(fn.Blocks) == 0 {
			continue
		}
		var seeds []ssa.Value
		var names []string
		for _, p := range fn.Params {
			if dIsNumeric(p.Type()) {
				seeds = append(seeds, p)
				names = append(names, p.Name())
			}
		}
		if len(seeds) == 0 {
			continue
		}
		name := "api/functions." + fn.Name()
		if rf.decl != nil && fnPkg != nil {
			if _, p := c.Decl(rf.fn); p != nil {
				name = c.FuncName(p, rf.decl)
			}
		}
		t := &dTaint{c: c, seen: map[string]*dFrame{}}
		root := &dFrame{fn: fn}
		t.run(root, seeds, nil, 3)
		// source order: by file and offset (positions of different files have no stable order)
		sort.SliceStable(t.sinks, func(i, j int) bool {
			pi, pj := c.Fset.Position(dInstrPos(t.sinks[i].in)), c.Fset.Position(dInstrPos(t.sinks[j].in))
			if pi.Filename != pj.Filename {
				return pi.Filename < pj.Filename
			}
			return pi.Offset < pj.Offset
		})
		out = append(out, Obligation{Key: name, Pos: c.Position(fn.Pos()), Status: OK,
			Detail: fmt.Sprintf("%q is client-callable with numeric parameter(s) %s: %d make size / slice bound / index site(s) depend on them", rf.symbol, strings.Join(names, ", "), len(t.sinks))})
		for i, s := range t.sinks {
			ob := Obligation{Key: fmt.Sprintf("%s#%d", name, i+1), Pos: c.Position(dInstrPos(s.in)), Status: OK}
			what := fmt.Sprintf("%s at %s (%s) depends on parameter(s) %s of client-callable %q", s.kind, c.Position(dInstrPos(s.in)), s.fr.chain(), strings.Join(names, ", "), rf.symbol)
			var missing []string
			bd := &dBound{sinkVal: s.val}
			if !bd.bounded(s.fr, s.val, dLower, dPoint{b: s.in.Block()}, map[string]bool{}) {
				missing = append(missing, "lower bound (negative values)")
			}
			if !bd.bounded(s.fr, s.val, dUpper, dPoint{b: s.in.Block()}, map[string]bool{}) {
				missing = append(missing, "upper bound (huge values)")
			}
			switch {
			case len(missing) == 0:
				ob.Detail = what + ": range-checked on both sides before use"
			case bd.unknown != "":
				ob.Status = Undecided
				ob.Detail = what + ": no check of the " + strings.Join(missing, " and ") + " found, and " + bd.unknown
			default:
				ob.Status = Violation
				ob.Detail = what + " with no dominating check of its " + strings.Join(missing, " and ") + ": a request can make it panic (makeslice/len out of range, index or slice bounds out of range)"
				ob.Path = []string{"entry point " + name + " (symbol " + rf.symbol + ")", "call chain " + s.fr.chain(), s.kind + " at " + c.Position(dInstrPos(s.in)) + ": " + s.in.String()}
			}
			out = append(out, ob)
		}
	}
	return out
}
