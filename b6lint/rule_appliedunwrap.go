package main

import (
	"fmt"
	"go/ast"
	"go/token"
	"go/types"

	"golang.org/x/tools/go/cfg"
)

// APPLIED-UNWRAP (C26): api.Evaluator's Evaluate* methods return *api.AppliedChange when the
// expression was a change and it has been applied. b6.FromLiteral knows nothing about that
// type, so a handler that passes the result straight on answers "can't make literal from
// *api.AppliedChange" — an error response for a change that WAS applied. Every path from an
// assignment of an Evaluator result to a use of that variable as the argument of
// b6.FromLiteral must pass a type assertion of the variable to *api.AppliedChange (the unwrap:
// `if a, ok := result.(*api.AppliedChange); ok { result = a.Modified }`, or a type switch with
// that case).
//
// REPEATABLE-APPLY (C26, C13): MergedChange.Apply applies every part twice (first to a scratch
// overlay, then to the real world), so an implementation of ingest.Change.Apply must be
// repeatable: it must not consume a one-shot io.Reader held in a field of its receiver
// (the second application would find it exhausted, change nothing and report success).
func init() {
	register(&Rule{
		Name:  "APPLIED-UNWRAP",
		IR:    "cfg",
		Props: []string{"C26"},
		Floor: 2, // ui.(*EvaluateHandler).ServeHTTP: the GET and the POST assignment
		Doc: "every path from an assignment of the result of an api.Evaluator Evaluate* method to a call b6.FromLiteral(result) passes a type assertion of the result to *api.AppliedChange " +
			"(an applied change is unwrapped before it is turned into a literal; otherwise the client gets an error for a change that was applied)",
		Run: runAppliedUnwrap,
	})
	register(&Rule{
		Name:  "REPEATABLE-APPLY",
		IR:    "ast",
		Props: []string{"C26", "C13"},
		Floor: 5, // Apply implementations of ingest.Change examined
		Doc: "no implementation of ingest.Change.Apply reads from an io.Reader (or other one-shot stream) stored in a field of its receiver: a merged change applies each part to a scratch world and then to the real one, " +
			"so Apply must give the same result when called twice",
		Run: runRepeatableApply,
	})
}

func runAppliedUnwrap(c *Ctx) []Obligation {
	var out []Obligation
	apiPkg := c.Pkg("api")
	root := c.Pkg("")
	if apiPkg == nil || root == nil {
		return out
	}
	evaluator, _ := apiPkg.Types.Scope().Lookup("Evaluator").(*types.TypeName)
	applied, _ := apiPkg.Types.Scope().Lookup("AppliedChange").(*types.TypeName)
	fromLiteral, _ := root.Types.Scope().Lookup("FromLiteral").(*types.Func)
	if evaluator == nil || applied == nil || fromLiteral == nil {
		return out
	}
	for _, p := range c.SortedPkgs() {
		info := p.TypesInfo
		for _, u := range c.units(p, true) {
			// variables assigned from an Evaluator method returning (interface{}, error)
			type site struct {
				as  *ast.AssignStmt
				obj types.Object
			}
			var sites []site
			inspectShallow(u.body, func(n ast.Node) bool {
				as, ok := n.(*ast.AssignStmt)
				if !ok || len(as.Rhs) != 1 || len(as.Lhs) < 1 {
					return true
				}
				call, ok := ast.Unparen(as.Rhs[0]).(*ast.CallExpr)
				if !ok {
					return true
				}
				f := calleeFunc(info, call)
				if f == nil {
					return true
				}
				sig := f.Type().(*types.Signature)
				if sig.Recv() == nil {
					return true
				}
				if n := namedOf(sig.Recv().Type()); n == nil || n.Obj() != evaluator {
					return true
				}
				if sig.Results().Len() != 2 {
					return true
				}
				if _, isIface := sig.Results().At(0).Type().Underlying().(*types.Interface); !isIface {
					return true
				}
				if id, ok := as.Lhs[0].(*ast.Ident); ok && id.Name != "_" {
					if obj := info.ObjectOf(id); obj != nil {
						sites = append(sites, site{as, obj})
					}
				}
				return true
			})
			if len(sites) == 0 {
				continue
			}
			usesVar := func(e ast.Expr, obj types.Object) bool {
				id, ok := ast.Unparen(e).(*ast.Ident)
				return ok && info.ObjectOf(id) == obj
			}
			g := newCFG(info, u.body)
			ord := 0
			for _, s := range sites {
				isUnwrap := func(n ast.Node) bool {
					found := false
					ast.Inspect(n, func(x ast.Node) bool {
						if ta, ok := x.(*ast.TypeAssertExpr); ok && usesVar(ta.X, s.obj) {
							if ta.Type == nil {
								return true // x.(type): the case clauses carry the types; a case *api.AppliedChange is a separate node
							}
							if nt := namedOf(info.TypeOf(ta.Type)); nt != nil && nt.Obj() == applied {
								found = true
							}
						}
						return !found
					})
					return found
				}
				isSink := func(n ast.Node) bool {
					found := false
					ast.Inspect(n, func(x ast.Node) bool {
						if call, ok := x.(*ast.CallExpr); ok && calleeFunc(info, call) == fromLiteral && len(call.Args) == 1 && usesVar(call.Args[0], s.obj) {
							found = true
						}
						return !found
					})
					return found
				}
				// is there a FromLiteral(var) at all in this unit?
				any := false
				inspectShallow(u.body, func(n ast.Node) bool {
					if st, ok := n.(ast.Stmt); ok && !any {
						switch st.(type) {
						case *ast.BlockStmt, *ast.IfStmt, *ast.ForStmt, *ast.RangeStmt, *ast.SwitchStmt, *ast.TypeSwitchStmt, *ast.SelectStmt, *ast.CaseClause, *ast.CommClause, *ast.LabeledStmt:
						default:
							if isSink(st) {
								any = true
							}
						}
					}
					return !any
				})
				if !any {
					continue
				}
				ord++
				ob := Obligation{Key: fmt.Sprintf("%s#%d", u.name, ord), Pos: c.Position(s.as.Pos())}
				loc, ok := findNode(g, s.as)
				if !ok {
					ob.Status, ob.Detail = Undecided, "assignment not found in the control-flow graph"
					out = append(out, ob)
					continue
				}
				// the error variable assigned together with the result (second left-hand side)
				var errObj types.Object
				if len(s.as.Lhs) == 2 {
					if id, ok := s.as.Lhs[1].(*ast.Ident); ok && id.Name != "_" {
						errObj = info.ObjectOf(id)
					}
				}
				if w := appliedUnwrapSearch(c, info, loc, isUnwrap, isSink, errObj); w != nil {
					ob.Status = Violation
					ob.Detail = fmt.Sprintf("the result assigned by %s can reach b6.FromLiteral without being tested for *api.AppliedChange: a change that was applied is answered with an error", nodeText(c.Fset, s.as))
					ob.Path = w
				} else {
					ob.Status = OK
					ob.Detail = fmt.Sprintf("every path from %s to b6.FromLiteral passes the *api.AppliedChange unwrap", nodeText(c.Fset, s.as))
				}
				out = append(out, ob)
			}
		}
	}
	return out
}

// appliedUnwrapSearch is pathSearch with one path-sensitive fact: whether the error assigned
// together with the result is known to be nil / non-nil (learnt from `err == nil` / `err != nil`
// branch conditions, forgotten when err is assigned again). It prunes the infeasible path
// "evaluation failed, so the unwrap under `if err == nil` was skipped, yet the later
// `if err == nil { FromLiteral }` was entered".
func appliedUnwrapSearch(c *Ctx, info *types.Info, from nodeLoc, stop, bad func(ast.Node) bool, errObj types.Object) []string {
	const (
		unknown = iota
		isNilFact
		nonNilFact
	)
	type state struct {
		b    *cfg.Block
		fact int
	}
	type item struct {
		b     *cfg.Block
		start int
		fact  int
		trail []string
	}
	assignsErr := func(n ast.Node) bool {
		if errObj == nil {
			return false
		}
		found := false
		ast.Inspect(n, func(x ast.Node) bool {
			if as, ok := x.(*ast.AssignStmt); ok {
				for _, l := range as.Lhs {
					if id, ok := l.(*ast.Ident); ok && info.ObjectOf(id) == errObj {
						found = true
					}
				}
			}
			return !found
		})
		return found
	}
	// condFact: for a block ending in `err == nil` / `err != nil`, the fact on the true edge
	condFact := func(b *cfg.Block) (trueFact int, ok bool) {
		if errObj == nil || len(b.Succs) != 2 || len(b.Nodes) == 0 {
			return 0, false
		}
		be, isBin := ast.Unparen(asExpr(b.Nodes[len(b.Nodes)-1])).(*ast.BinaryExpr)
		if !isBin || (be.Op != token.EQL && be.Op != token.NEQ) {
			return 0, false
		}
		isErr := func(e ast.Expr) bool {
			id, ok := ast.Unparen(e).(*ast.Ident)
			return ok && info.ObjectOf(id) == errObj
		}
		isNilId := func(e ast.Expr) bool {
			id, ok := ast.Unparen(e).(*ast.Ident)
			return ok && id.Name == "nil"
		}
		if !(isErr(be.X) && isNilId(be.Y)) && !(isErr(be.Y) && isNilId(be.X)) {
			return 0, false
		}
		if be.Op == token.EQL {
			return isNilFact, true
		}
		return nonNilFact, true
	}
	seen := map[state]bool{}
	work := []item{{from.b, from.i + 1, unknown, nil}}
	for len(work) > 0 {
		it := work[0]
		work = work[1:]
		fact := it.fact
		stopped := false
		for i := it.start; i < len(it.b.Nodes); i++ {
			n := it.b.Nodes[i]
			if bad(n) {
				return append(append([]string(nil), it.trail...), "reaches "+c.Position(n.Pos())+" "+nodeText(c.Fset, n))
			}
			if stop(n) {
				stopped = true
				break
			}
			if assignsErr(n) {
				fact = unknown
			}
		}
		if stopped {
			continue
		}
		tf, isCond := condFact(it.b)
		for si, sb := range it.b.Succs {
			nf := fact
			if isCond {
				edge := tf
				if si == 1 { // false edge: the opposite fact
					if tf == isNilFact {
						edge = nonNilFact
					} else {
						edge = isNilFact
					}
				}
				if fact != unknown && fact != edge {
					continue // infeasible
				}
				nf = edge
			}
			st := state{sb, nf}
			if seen[st] {
				continue
			}
			seen[st] = true
			t := it.trail
			if len(sb.Nodes) > 0 {
				t = append(append([]string(nil), it.trail...), fmt.Sprintf("%s (%s)", c.Position(sb.Nodes[0].Pos()), sb.Kind))
			}
			work = append(work, item{sb, 0, nf, t})
		}
	}
	return nil
}

func asExpr(n ast.Node) ast.Expr {
	if e, ok := n.(ast.Expr); ok {
		return e
	}
	return &ast.Ident{Name: "_"}
}

func runRepeatableApply(c *Ctx) []Obligation {
	var out []Obligation
	ing := c.Pkg("ingest")
	if ing == nil {
		return out
	}
	changeTN, _ := ing.Types.Scope().Lookup("Change").(*types.TypeName)
	if changeTN == nil {
		return out
	}
	changeIface, _ := changeTN.Type().Underlying().(*types.Interface)
	if changeIface == nil {
		return out
	}
	// one-shot stream interfaces of package io
	isStream := func(t types.Type) bool {
		n := namedOf(t)
		if n == nil || n.Obj().Pkg() == nil || n.Obj().Pkg().Path() != "io" {
			return false
		}
		switch n.Obj().Name() {
		case "Reader", "ReadCloser", "ReadSeeker", "ReadWriter", "ReadWriteCloser":
			return true
		}
		return false
	}
	for _, p := range c.SortedPkgs() {
		info := p.TypesInfo
		for _, fd := range c.FuncDecls(p) {
			if fd.Name.Name != "Apply" || fd.Recv == nil || len(fd.Recv.List) == 0 {
				continue
			}
			obj, _ := info.Defs[fd.Name].(*types.Func)
			if obj == nil {
				continue
			}
			recvT := obj.Type().(*types.Signature).Recv().Type()
			if !types.Implements(recvT, changeIface) && !types.Implements(types.NewPointer(recvT), changeIface) {
				continue
			}
			var recvObj types.Object
			if len(fd.Recv.List[0].Names) > 0 {
				recvObj = info.Defs[fd.Recv.List[0].Names[0]]
			}
			ob := Obligation{Key: c.FuncName(p, fd), Pos: c.Position(fd.Pos()), Status: OK, Detail: "reads no one-shot stream held by its receiver"}
			if recvObj != nil {
				ast.Inspect(fd.Body, func(n ast.Node) bool {
					sel, ok := n.(*ast.SelectorExpr)
					if !ok || ob.Status != OK {
						return true
					}
					id, ok := ast.Unparen(sel.X).(*ast.Ident)
					if !ok || info.ObjectOf(id) != recvObj {
						return true
					}
					s := info.Selections[sel]
					if s == nil || s.Kind() != types.FieldVal {
						return true
					}
					if isStream(s.Obj().Type()) {
						ob.Status = Violation
						ob.Pos = c.Position(sel.Pos())
						ob.Detail = fmt.Sprintf("%s reads the one-shot stream %s (%s): a merged change applies every part to a scratch world first, so the real application finds the stream exhausted, changes nothing and reports success",
							c.FuncName(p, fd), nodeText(c.Fset, sel), s.Obj().Type())
					}
					return true
				})
			}
			out = append(out, ob)
		}
	}
	return out
}
