package main

import (
	"fmt"
	"go/types"
	"sort"
	"strings"
)

// VARIANT (C19): the protobuf `oneof` variants the server accepts and the variants it produces
// agree.
//
// Slots (discovered by shape and type in the root package, nothing by name):
//   - FromProto switches: every type switch whose operand's static type is a protobuf oneof
//     interface (a named interface of diagonal.works/b6/proto with one unexported method) inside a
//     function returning (T, error); nested switches (NodeProto.Node > LiteralNodeProto.Value) give
//     one instance per leaf case, with the chain of wrapper structs that leads to it
//     (today: expressionFromProto 3+14 leaves, NewQueryFromProto 11 leaves).
//   - what a case returns: its return statements, followed through `return F(x)` into converter
//     functions of the module; `return v, e` is a failure when e is fmt.Errorf/errors.New or an
//     error variable under `if e != nil {` / in the else of `if e == nil {`; otherwise the dynamic
//     type of v is the static type of the value (interface result, e.g. Query) or of the element
//     stored in the single interface-typed field of the result struct (Expression{AnyExpression: x}).
//   - producers: every method named ToProto of the root package and the oneof wrappers it builds
//     with composite literals.
//
// Obligations:
//
//	(A) per accepted leaf case: the ToProto method of every dynamic type the case can return
//	    builds every wrapper of the case's chain (what was received can be sent back). A case whose
//	    converter can never return (unconditional panic) or that returns a value without dynamic
//	    type violates (A). A case all of whose returns are failures is a rejecting case: the
//	    variant counts as not accepted.
//	(B) per variant some ToProto builds but no case accepts: it must be in the one-way table below
//	    (reported as info with its reason); otherwise violation.
//
// Accepted idioms: listed above; anything else (a returned identifier of interface type, a
// non-literal carrier value, a callee without body) is `undecided`.
func init() {
	register(&Rule{
		Name:  "VARIANT",
		IR:    "ast",
		Props: []string{"C19"},
		Floor: 28, // expressionFromProto: Symbol, Call, Lambda_ + 14 literal variants; NewQueryFromProto: 11
		Doc: "every protobuf oneof wrapper accepted by a FromProto type switch of the root package is built by the ToProto method of each Go type that case returns; " +
			"every wrapper some ToProto builds is accepted by a case or listed in the one-way table with a reason",
		Run: runVariant,
	})
}

// jOneWay: variants that are produced but deliberately not accepted, by wrapper struct name of
// package proto, with the reason. An entry allows the variant to be one-way; it does not require it.
var jOneWay = map[string]string{
	"LiteralNodeProto_FeatureValue": "features are results only: FeatureExpressionFromProto rejects them (\"Can't import features from protos\"), the code plans to drop Feature from the external API",
	"LiteralNodeProto_GeoJSONValue": "GeoJSON literals are results only: no decoder is implemented; the Python client decodes geoJSONValue and never sends it",
	"QueryProto_Empty":              "Empty is what NewQueryFromProto returns next to an error; no client builds it (outside the client-can-send domain)",
	"QueryProto_IsValid":            "IsValid is an internal query without a compiled form; no client builds it (outside the client-can-send domain)",
	"QueryProto_MightIntersect":     "MightIntersect wraps an arbitrary s2.Region that is sent as its covering only; the region cannot be rebuilt (outside the client-can-send domain)",
	"QueryProto_IntersectsCells":    "IntersectsCells is produced by the server for tiles; no client builds it (outside the client-can-send domain)",
}

func runVariant(c *Ctx) []Obligation {
	var out []Obligation
	p := c.Pkg("")
	if p == nil {
		return nil
	}
	jp := jProtoIndex(c)
	sw := jFromProtoCases(c)

	accepted := map[*types.TypeName]bool{}
	reported := map[*types.TypeName]bool{} // leaf variants whose case already failed obligation (A)
	switched := map[*types.TypeName]bool{} // oneof interfaces that have a FromProto switch
	for _, k := range sw.cases {
		for _, w := range k.chain {
			switched[jp.oneofOf[w.Obj()].Obj()] = true
		}
		ob := Obligation{Key: fmt.Sprintf("%s#%d", k.fname, k.ord), Pos: c.Position(k.clause.Pos())}
		r := k.res
		name := k.chainString()
		switch {
		case len(r.unknown) > 0:
			ob.Status = Undecided
			ob.Detail = fmt.Sprintf("case %s: cannot determine what the case returns: %s", name, strings.Join(r.unknown, "; "))
		case r.noReturn.IsValid():
			ob.Status = Violation
			ob.Detail = fmt.Sprintf("case %s is accepted by the switch but its converter can never return: unconditional %s at %s; a message carrying this variant crashes the conversion instead of being converted or rejected",
				name, "panic", c.Position(r.noReturn))
		case r.rejecting():
			ob.Status = OK
			ob.Detail = fmt.Sprintf("case %s rejects the variant (every return reports an error): counted as not accepted", name)
		case len(r.nilDyn) > 0:
			ob.Status = Violation
			ob.Detail = fmt.Sprintf("case %s returns a value without dynamic type at %s (the interface field is left nil): the received variant cannot be sent back (ToProto on it dereferences nil) and differs from the value whose ToProto builds %s",
				name, c.Position(r.nilDyn[0]), k.leaf().Obj().Name())
		default:
			for _, w := range k.chain {
				accepted[w.Obj()] = true
			}
			var bad []string
			for _, t := range r.dyn {
				_, fd, mp := jMethodDecl(c, t, "ToProto")
				if fd == nil || fd.Body == nil {
					ob.Status = Undecided
					bad = append(bad, fmt.Sprintf("%s has no ToProto method declared in the module", jTypeString(t)))
					continue
				}
				built := map[*types.TypeName]bool{}
				for _, lit := range jConstructedWrappers(jp, mp.TypesInfo, fd.Body) {
					built[namedOf(mp.TypesInfo.TypeOf(lit)).Obj()] = true
				}
				for _, w := range k.chain {
					if !built[w.Obj()] {
						bad = append(bad, fmt.Sprintf("%s.ToProto (%s) does not build %s", jTypeString(t), c.Position(fd.Pos()), w.Obj().Name()))
					}
				}
			}
			if len(bad) > 0 {
				if ob.Status == "" {
					ob.Status = Violation
				}
				ob.Detail = fmt.Sprintf("case %s returns %s: %s", name, jTypeStrings(r.dyn), strings.Join(bad, "; "))
			} else {
				ob.Status = OK
				ob.Detail = fmt.Sprintf("case %s returns %s whose ToProto builds %s", name, jTypeStrings(r.dyn), name)
			}
		}
		if ob.Status == Violation || ob.Status == Undecided {
			reported[k.leaf().Obj()] = true
		}
		out = append(out, ob)
	}

	// (B) produced but not accepted
	for _, fd := range c.FuncDecls(p) {
		if fd.Recv == nil || fd.Name.Name != "ToProto" {
			continue
		}
		ord := 0
		seen := map[*types.TypeName]bool{}
		for _, lit := range jConstructedWrappers(jp, p.TypesInfo, fd.Body) {
			w := namedOf(p.TypesInfo.TypeOf(lit)).Obj()
			if seen[w] || accepted[w] || reported[w] || !switched[jp.oneofOf[w].Obj()] {
				continue
			}
			seen[w] = true
			ord++
			ob := Obligation{Key: fmt.Sprintf("%s#%d", c.FuncName(p, fd), ord), Pos: c.Position(lit.Pos())}
			if why, ok := jOneWay[w.Name()]; ok {
				ob.Status = Info
				ob.Detail = fmt.Sprintf("%s is built here and accepted by no FromProto case: tabled one-way variant (%s)", w.Name(), why)
			} else {
				ob.Status = Violation
				ob.Detail = fmt.Sprintf("%s is built here but no FromProto case accepts it and it is not in the one-way table: the value cannot be received back", w.Name())
			}
			out = append(out, ob)
		}
	}
	sort.SliceStable(out, func(i, j int) bool { return out[i].Key < out[j].Key })
	return out
}
