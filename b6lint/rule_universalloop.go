package main

import (
	"fmt"
	"go/ast"
	"go/types"
	"sort"

	"golang.org/x/tools/go/cfg"
)

// UNIVERSAL-LOOP (C37): validation is universal — "every path of every polygon is a closed
// path of at least three points", "every point of a path resolves". A loop in a validation
// function whose body leaves the function on every path of its first iteration (for example
// `return check(x)` where `if err := check(x); err != nil { return err }` was meant) only ever
// examines the first element, so later elements are never validated.
//
// Subjects: ingest.ValidateFeature and every module function returning error that it reaches
// through static calls (resolved through types). Every for/range statement of those functions
// (function literals excluded) is one instance, numbered in source order. Decision on go/cfg as
// in EXISTENTIAL-LOOP: can the first block of the body reach a block that starts another
// iteration?  yes: ok; no and every way out is a return: violation; no and some way out is a
// break/goto: undecided.
// Second clause (key suffix .success): no return statement inside such a loop reports success (a
// nil error): the function may only succeed after the loop has examined every element.
func init() {
	register(&Rule{
		Name:  "UNIVERSAL-LOOP",
		IR:    "cfg",
		Props: []string{"C37"},
		Floor: 6, // ValidateArea (2 loops), pathPoints; each with its .success clause
		Doc: "in ingest.ValidateFeature and the error-returning module functions it reaches by static calls, no for/range loop leaves the function on every path of its first iteration: " +
			"validation must examine every element (a `return check(x)` inside the loop validates the first element only)",
		Run: runUniversalLoop,
	})
}

func runUniversalLoop(c *Ctx) []Obligation {
	var out []Obligation
	p := c.Pkg("ingest")
	if p == nil {
		return out
	}
	root, _ := p.Types.Scope().Lookup("ValidateFeature").(*types.Func)
	if root == nil {
		return out
	}
	errType := types.Universe.Lookup("error").Type()
	returnsError := func(f *types.Func) bool {
		r := f.Type().(*types.Signature).Results()
		return r.Len() > 0 && types.Identical(r.At(r.Len()-1).Type(), errType)
	}
	seen := map[*types.Func]bool{root: true}
	work := []*types.Func{root}
	var subjects []*types.Func
	for len(work) > 0 {
		f := work[0]
		work = work[1:]
		fd, fp := c.Decl(f)
		if fd == nil || fd.Body == nil {
			continue
		}
		subjects = append(subjects, f)
		ast.Inspect(fd.Body, func(n ast.Node) bool {
			if call, ok := n.(*ast.CallExpr); ok {
				if g := calleeFunc(fp.TypesInfo, call); g != nil && !seen[g.Origin()] && returnsError(g) {
					if d, _ := c.Decl(g); d != nil {
						seen[g.Origin()] = true
						work = append(work, g.Origin())
					}
				}
			}
			return true
		})
	}
	sort.Slice(subjects, func(i, j int) bool { return subjects[i].FullName() < subjects[j].FullName() })
	for _, f := range subjects {
		fd, fp := c.Decl(f)
		name := c.FuncName(fp, fd)
		var loops []ast.Stmt
		inspectShallow(fd.Body, func(n ast.Node) bool {
			switch n.(type) {
			case *ast.ForStmt, *ast.RangeStmt:
				loops = append(loops, n.(ast.Stmt))
			}
			return true
		})
		if len(loops) == 0 {
			continue
		}
		g := newCFG(fp.TypesInfo, fd.Body)
		for i, loop := range loops {
			// second clause: a success return inside the loop declares the whole feature valid although the
			// remaining elements have not been examined (`return nil` where `continue` was meant)
			var lbody *ast.BlockStmt
			switch l := loop.(type) {
			case *ast.ForStmt:
				lbody = l.Body
			case *ast.RangeStmt:
				lbody = l.Body
			}
			sob := Obligation{Key: gNthKey(name, i+1) + ".success", Pos: c.Position(loop.Pos()), Status: OK,
				Detail: "no return inside the loop reports success: the function can only succeed after the loop has examined every element"}
			inspectShallow(lbody, func(n ast.Node) bool {
				r, ok := n.(*ast.ReturnStmt)
				if !ok || len(r.Results) == 0 {
					return true
				}
				if id, ok := ast.Unparen(r.Results[len(r.Results)-1]).(*ast.Ident); ok && id.Name == "nil" && sob.Status == OK {
					sob.Status = Violation
					sob.Pos = c.Position(r.Pos())
					sob.Detail = fmt.Sprintf("`%s` at %s inside the loop at %s ends validation with success as soon as one element takes that branch: the elements after it are never examined (a `continue` was probably meant)",
						nodeText(c.Fset, r), c.Position(r.Pos()), c.Position(loop.Pos()))
				}
				return true
			})
			out = append(out, sob)
			ob := Obligation{Key: gNthKey(name, i+1), Pos: c.Position(loop.Pos())}
			body, iter, _ := gLoopBlocks(g, loop)
			if body == nil {
				ob.Status, ob.Detail = Undecided, "loop body not found in the control-flow graph"
				out = append(out, ob)
				continue
			}
			if !body.Live {
				ob.Status, ob.Detail = OK, "loop is unreachable"
				out = append(out, ob)
				continue
			}
			visited := map[*cfg.Block]bool{body: true}
			q := []*cfg.Block{body}
			iterates := false
			var returns, leaves []string
			for len(q) > 0 {
				b := q[0]
				q = q[1:]
				if len(b.Succs) == 0 {
					if isExitBlock(fp.TypesInfo, b) && len(b.Nodes) > 0 {
						last := b.Nodes[len(b.Nodes)-1]
						returns = append(returns, c.Position(last.Pos())+" "+nodeText(c.Fset, last))
					}
					continue
				}
				for _, s := range b.Succs {
					if iter[s] {
						iterates = true
						continue
					}
					if !gInside(s, loop) {
						leaves = append(leaves, fmt.Sprintf("%s (%s)", c.Position(loop.End()), s.Kind))
						continue
					}
					if !visited[s] {
						visited[s] = true
						q = append(q, s)
					}
				}
			}
			switch {
			case iterates:
				ob.Status, ob.Detail = OK, "the body can reach another iteration"
			case len(leaves) == 0 && len(returns) > 0:
				ob.Status = Violation
				ob.Detail = fmt.Sprintf("loop at %s in %s leaves the function on every path of its first iteration: only the first element is validated", c.Position(loop.Pos()), name)
				for _, r := range returns {
					ob.Path = append(ob.Path, "first iteration ends at "+r)
				}
			case len(leaves) == 0 && len(returns) == 0:
				ob.Status, ob.Detail = OK, "the body never completes normally (panics)"
			default:
				ob.Status = Undecided
				ob.Detail = fmt.Sprintf("loop at %s in %s never starts a second iteration and leaves by break/goto on some path", c.Position(loop.Pos()), name)
				ob.Path = append(ob.Path, leaves...)
			}
			out = append(out, ob)
		}
	}
	return out
}
