package main

import (
	"fmt"
	"go/ast"
	"go/token"
	"go/types"
	"sort"

	"golang.org/x/tools/go/packages"
)

// ERR-BEFORE-CLOSE (C25, C28): an error that consumers pick up after they saw a channel close
// is published before the close.
//
// Closing a channel is what releases a consumer that is blocked on it; everything the closing
// goroutine wrote before the close is visible to the consumer after it, nothing written later
// is. CLOSE-ALL decides that the closes exist and come after Wait(); this rule decides that the
// pool's error is in its shared location before any of them.
//
// Slots (by shape and type, per package):
//   - consumer side: a function body that receives from a channel family C on the close edge -
//     `v, ok := <-C` / `v, ok = <-C` (also as the init of an if or a select case), or
//     `for v := range C` - and afterwards reads an error-typed struct field, or an error
//     variable shared with another function body, E; the read is not under the `ok` branch (for
//     range: it follows the loop). mapParallelCollection.Next: `if m.current, ok = <-m.out[..];
//     ok { return true, nil }; return false, m.err` gives the pair (out, err).
//   - owner side: a function declaration that closes channels of C (families are resolved as in
//     PRODUCER: x[i], x.f, local aliases, parameters).
//
// Obligation per owner and pair (C, E), in the body that holds the closes:
//   - every close of C is preceded on every path by a store to E: for a store `E = <expr>` the
//     store dominates the close; for a store `E = v` of a local v, the assignment that defines v
//     (`v := g.Wait()`) dominates every close and, from that assignment with v != nil, every path
//     to a close passes the store (so `if err := g.Wait(); err != nil { m.err = err }` before
//     the closes is accepted);
//   - no store to E is reachable after a close of C;
//   - closes in a `defer func() { .. }()` run at exit: every path to the exit passes a store;
//   - E stored only by goroutine bodies of the pool (`cause = err` in a worker): every close
//     is dominated by a Wait() (sync.WaitGroup / errgroup) in the closing body;
//   - a consumer pair whose E nobody in the package stores is a violation (never published);
//     stores the rule cannot place (other declarations, non-goroutine closures) are undecided.
//
// Every other close of a channel family in the packages of PRODUCER's scope (encoding, ingest,
// ingest/compact, osm, api/functions) whose consumers do not read a shared error after the
// close edge is listed as info: those pools hand their error over by Wait()/return, not by close.
func init() {
	register(&Rule{
		Name:  "ERR-BEFORE-CLOSE",
		IR:    "cfg",
		Props: []string{"C25", "C28"}, // every obligation names its own property
		Floor: 1,                      // api/functions.(*mapParallelCollection).run#2 (out / err, read by Next)
		// no pool of the C28 packages publishes its error through a close today (all use Wait()/return)
		FloorBy: map[string]int{"C25": 1, "C28": 0},
		Doc: "where a consumer reads a shared error field or variable after it saw a channel of a family closed (v, ok := <-c with !ok, or the end of range c), " +
			"the function that closes the family stores the error before every close (the store dominates the close) and never after one",
		Run: runErrBeforeClose,
	})
}

type aEbcPair struct {
	c, e  types.Object
	where string // consumer position, for the report
	by    string // consumer function
}

type aEbcClose struct {
	unit *aUnit
	node *ast.ExprStmt
	c    types.Object
}

type aEbcStore struct {
	unit *aUnit
	node *ast.AssignStmt
	e    types.Object
	rhs  ast.Expr
}

// aErrLoc: the expression denotes an error-typed struct field or variable; returns its object.
func aErrLoc(info *types.Info, e ast.Expr) types.Object {
	switch x := ast.Unparen(e).(type) {
	case *ast.SelectorExpr:
		if v, ok := info.ObjectOf(x.Sel).(*types.Var); ok && v.IsField() && aIsError(v.Type()) {
			return v
		}
	case *ast.Ident:
		if v, ok := info.ObjectOf(x).(*types.Var); ok && !v.IsField() && aIsError(v.Type()) {
			return v
		}
	}
	return nil
}

func runErrBeforeClose(c *Ctx) []Obligation {
	var out []Obligation
	for _, p := range c.SortedPkgs() {
		out = append(out, aErrBeforeClosePkg(c, p)...)
	}
	return out
}

func aErrBeforeClosePkg(c *Ctx, p *packages.Package) []Obligation {
	info := p.TypesInfo
	rel := relPkg(p)
	inScope := aC28Packages[rel] || rel == "api/functions"

	// declarations that close a channel or receive on a close edge
	type declInfo struct {
		fd   *ast.FuncDecl
		pool *aPool
	}
	var decls []*declInfo
	for _, fd := range c.FuncDecls(p) {
		interesting := false
		ast.Inspect(fd.Body, func(n ast.Node) bool {
			switch s := n.(type) {
			case *ast.CallExpr:
				if isBuiltin(info, s, "close") && len(s.Args) == 1 && aChanType(info.TypeOf(s.Args[0])) != nil {
					interesting = true
				}
			case *ast.RangeStmt:
				if aChanType(info.TypeOf(s.X)) != nil {
					interesting = true
				}
			case *ast.AssignStmt:
				if len(s.Lhs) == 2 && len(s.Rhs) == 1 {
					if u, ok := ast.Unparen(s.Rhs[0]).(*ast.UnaryExpr); ok && u.Op == token.ARROW {
						interesting = true
					}
				}
			}
			return !interesting
		})
		if interesting {
			a, _, _ := aPoolOps(c, p, fd)
			// `for _, ch := range F { close(ch) }`: the value variable belongs to the family F
			for _, u := range a.own {
				aShallow(u.body, func(n ast.Node) bool {
					if rs, ok := n.(*ast.RangeStmt); ok && rs.Value != nil && aChanType(info.TypeOf(rs.X)) == nil && aChanFamily(info.TypeOf(rs.X)) != nil {
						a.union(aObjOf(info, rs.Value), aRootObj(info, rs.X))
					}
					return true
				})
			}
			decls = append(decls, &declInfo{fd, a})
		}
	}
	if len(decls) == 0 {
		return nil
	}

	// stores to error locations, per declaration of the package (all declarations: a store may
	// live in a function that neither closes nor receives)
	storesOf := map[types.Object][]aEbcStore{}
	storeUnits := map[types.Object]map[*ast.FuncDecl]bool{}
	for _, fd := range c.FuncDecls(p) {
		for _, u := range aUnitsOfDecl(p, fd) {
			u := u
			aShallow(u.body, func(n ast.Node) bool {
				as, ok := n.(*ast.AssignStmt)
				if !ok {
					return true
				}
				for i, l := range as.Lhs {
					if e := aErrLoc(info, l); e != nil {
						var rhs ast.Expr
						if len(as.Lhs) == len(as.Rhs) {
							rhs = as.Rhs[i]
						}
						storesOf[e] = append(storesOf[e], aEbcStore{u, as, e, rhs})
						if storeUnits[e] == nil {
							storeUnits[e] = map[*ast.FuncDecl]bool{}
						}
						storeUnits[e][fd] = true
					}
				}
				return true
			})
		}
	}

	// consumer pairs
	var pairs []aEbcPair
	seenPair := map[[2]types.Object]bool{}
	for _, d := range decls {
		for _, u := range d.pool.own {
			u := u
			type recv struct {
				c     types.Object
				ok    types.Object
				after token.Pos
			}
			var recvs []recv
			aShallow(u.body, func(n ast.Node) bool {
				switch s := n.(type) {
				case *ast.AssignStmt:
					if len(s.Lhs) == 2 && len(s.Rhs) == 1 {
						if ue, ok := ast.Unparen(s.Rhs[0]).(*ast.UnaryExpr); ok && ue.Op == token.ARROW && aChanType(info.TypeOf(ue.X)) != nil {
							if root := d.pool.find(aRootObj(info, ue.X)); root != nil {
								recvs = append(recvs, recv{root, aObjOf(info, s.Lhs[1]), s.End()})
							}
						}
					}
				case *ast.RangeStmt:
					if aChanType(info.TypeOf(s.X)) != nil {
						if root := d.pool.find(aRootObj(info, s.X)); root != nil {
							recvs = append(recvs, recv{root, nil, s.End()})
						}
					}
				}
				return true
			})
			if len(recvs) == 0 {
				continue
			}
			// reads of error locations in this body
			lhs := map[ast.Expr]bool{}
			aShallow(u.body, func(n ast.Node) bool {
				if as, ok := n.(*ast.AssignStmt); ok {
					for _, l := range as.Lhs {
						lhs[ast.Unparen(l)] = true
					}
				}
				return true
			})
			aShallow(u.body, func(n ast.Node) bool {
				ex, ok := n.(ast.Expr)
				if !ok || lhs[ex] {
					return true
				}
				e := aErrLoc(info, ex)
				if e == nil {
					return true
				}
				if v := e.(*types.Var); !v.IsField() {
					// a variable counts only if another function body stores it (shared), or it is
					// declared outside this body
					shared := !(u.body.Pos() <= v.Pos() && v.Pos() < u.body.End())
					for _, st := range storesOf[e] {
						if st.unit.body != u.body {
							shared = true
						}
					}
					if !shared {
						return true
					}
				}
				chain := aChain(u.body, ex)
				for _, r := range recvs {
					if ex.Pos() < r.after {
						continue
					}
					underOK := false
					if r.ok != nil {
						for i := 0; i+1 < len(chain); i++ {
							is, isIf := chain[i].(*ast.IfStmt)
							if !isIf {
								continue
							}
							cond := ast.Unparen(is.Cond)
							if aObjOf(info, cond) == r.ok && chain[i+1] == ast.Node(is.Body) {
								underOK = true
							}
							if ue, isNot := cond.(*ast.UnaryExpr); isNot && ue.Op == token.NOT && aObjOf(info, ue.X) == r.ok && is.Else != nil && chain[i+1] == is.Else {
								underOK = true
							}
						}
					}
					if underOK {
						continue
					}
					key := [2]types.Object{r.c, e}
					if !seenPair[key] {
						seenPair[key] = true
						pairs = append(pairs, aEbcPair{r.c, e, c.Position(ex.Pos()), c.FuncName(p, d.fd)})
					}
				}
				return false
			})
		}
	}

	// owners
	var out []Obligation
	for _, d := range decls {
		a := d.pool
		name := c.FuncName(p, d.fd)
		var closes []aEbcClose
		for _, u := range a.own {
			u := u
			aShallow(u.body, func(n ast.Node) bool {
				es, ok := n.(*ast.ExprStmt)
				if !ok {
					return true
				}
				call, ok := es.X.(*ast.CallExpr)
				if !ok || !isBuiltin(info, call, "close") || len(call.Args) != 1 || aChanType(info.TypeOf(call.Args[0])) == nil {
					return true
				}
				if root := a.find(aRootObj(info, call.Args[0])); root != nil {
					closes = append(closes, aEbcClose{u, es, root})
				}
				return true
			})
		}
		if len(closes) == 0 {
			continue
		}
		sort.SliceStable(closes, func(i, j int) bool { return closes[i].node.Pos() < closes[j].node.Pos() })
		var props []string
		anchored := false
		switch {
		case aC28Packages[rel]:
			anchored, props = true, []string{"C28"}
		case aIsMapParallelRun(p, d.fd):
			anchored, props = true, []string{"C25"}
		}
		// families in order of their first close
		var fams []types.Object
		seenFam := map[types.Object]bool{}
		for _, cl := range closes {
			if !seenFam[cl.c] {
				seenFam[cl.c] = true
				fams = append(fams, cl.c)
			}
		}
		ord := 0
		for _, fam := range fams {
			var mine []aEbcPair
			for _, pr := range pairs {
				if pr.c == fam {
					mine = append(mine, pr)
				}
			}
			var first aEbcClose
			for _, cl := range closes {
				if cl.c == fam {
					first = cl
					break
				}
			}
			if len(mine) == 0 {
				if inScope {
					ord++
					out = append(out, Obligation{Key: fmt.Sprintf("%s#%d", name, ord), Pos: c.Position(first.node.Pos()), Status: Info, Props: []string{"C28"},
						Detail: fmt.Sprintf("%s closes %s; no consumer in the package reads a shared error after the close edge of %s, so no error is published through this close", name, fam.Name(), fam.Name())})
				}
				continue
			}
			for _, pr := range mine {
				ord++
				ob := Obligation{Key: fmt.Sprintf("%s#%d", name, ord), Pos: c.Position(first.node.Pos()), Props: props}
				head := fmt.Sprintf("%s closes %s, and %s reads %s after the close edge (%s)", name, fam.Name(), pr.by, pr.e.Name(), pr.where)
				emit := func(status, detail string, path []string) {
					ob.Status, ob.Detail, ob.Path = status, head+": "+detail, path
					if !anchored && status != Info {
						ob.Status = Info
						ob.Detail = "pool outside the anchors of C25/C28, not an obligation; the analysis says " + status + ": " + ob.Detail
					}
					if len(ob.Props) == 0 {
						ob.Props = []string{"C28"}
					}
					out = append(out, ob)
				}
				status, detail, path := aEbcCheck(c, a, d.fd, fam, pr.e, closes, storesOf[pr.e], len(storeUnits[pr.e]))
				emit(status, detail, path)
			}
		}
	}
	return out
}

// aEbcCheck decides one (family, error location) pair for one closing declaration.
func aEbcCheck(c *Ctx, a *aPool, fd *ast.FuncDecl, fam, e types.Object, allCloses []aEbcClose, allStores []aEbcStore, storingDecls int) (string, string, []string) {
	var closes []aEbcClose
	for _, cl := range allCloses {
		if cl.c == fam {
			closes = append(closes, cl)
		}
	}
	var stores []aEbcStore
	for _, st := range allStores {
		if st.unit.decl == fd {
			// the stores were collected on their own unit objects; use the pool's
			for _, x := range a.own {
				if x.body == st.unit.body {
					st.unit = x
				}
			}
			stores = append(stores, st)
		}
	}
	if len(stores) == 0 {
		if storingDecls == 0 {
			return Violation, fmt.Sprintf("nothing in the package ever stores %s: the pool's error is never published", e.Name()), nil
		}
		return Undecided, fmt.Sprintf("%s is stored only by other functions; their order relative to the closes is not decided", e.Name()), nil
	}
	// group closes by body
	byUnit := map[*aUnit][]aEbcClose{}
	var units []*aUnit
	for _, cl := range closes {
		if byUnit[cl.unit] == nil {
			units = append(units, cl.unit)
		}
		byUnit[cl.unit] = append(byUnit[cl.unit], cl)
	}
	var notes []string
	for _, u := range units {
		info := u.info()
		isClose := func(n ast.Node) bool {
			for _, cl := range byUnit[u] {
				if n == ast.Node(cl.node) {
					return true
				}
			}
			return false
		}
		badClose := func(n ast.Node) string {
			if isClose(n) {
				return "closes " + fam.Name() + " before " + e.Name() + " is stored"
			}
			return ""
		}
		// deferred closes: the body that defers them is the one that must have stored
		body := u
		deferred := false
		if u.lit != nil && u.parent != nil {
			aShallow(u.parent.body, func(n ast.Node) bool {
				if ds, ok := n.(*ast.DeferStmt); ok && ds.Call.Fun == ast.Expr(u.lit) {
					deferred = true
				}
				return true
			})
			if deferred {
				body = u.parent
			}
		}
		var here, elsewhere []aEbcStore
		for _, st := range stores {
			if st.unit == body {
				here = append(here, st)
			} else {
				elsewhere = append(elsewhere, st)
			}
		}
		isStore := func(n ast.Node) bool {
			for _, st := range here {
				if n == ast.Node(st.node) {
					return true
				}
			}
			return false
		}
		g := body.cfg()
		binfo := body.info()
		if len(here) == 0 {
			// stored by goroutine bodies only: the closes must follow a Wait()
			for _, st := range elsewhere {
				onGo := false
				for x := st.unit; x != nil; x = x.parent {
					if a.isGo[x] {
						onGo = true
					}
				}
				if !onGo {
					return Undecided, fmt.Sprintf("%s is stored at %s, in a closure that is not a goroutine body of the pool", e.Name(), c.Position(st.node.Pos())), nil
				}
			}
			isWait := func(n ast.Node) bool {
				found := false
				ast.Inspect(n, func(x ast.Node) bool {
					if _, isLit := x.(*ast.FuncLit); isLit {
						return false
					}
					if call, ok := x.(*ast.CallExpr); ok {
						f := calleeFunc(binfo, call)
						if aIsGroupMethod(f, "Wait") || aIsWaitGroupWait(f) {
							found = true
						}
					}
					return !found
				})
				return found
			}
			fl := &aFlow{c: c, info: binfo, tagless: aTagless(body.body), stop: isWait, exitBad: deferred}
			if !deferred {
				fl.bad = badClose
			}
			if w := fl.run(g.Blocks[0], 0, nil); w != nil {
				return Violation, fmt.Sprintf("%s is stored by the workers, but a close of %s is reachable without passing a Wait() for them", e.Name(), fam.Name()), w
			}
			notes = append(notes, "stored by the workers; every close follows a Wait()")
			continue
		}
		if deferred {
			fl := &aFlow{c: c, info: binfo, tagless: aTagless(body.body), stop: isStore, exitBad: true}
			if w := fl.run(g.Blocks[0], 0, nil); w != nil {
				return Violation, fmt.Sprintf("the closes of %s are deferred, but some path leaves the function without storing %s first", fam.Name(), e.Name()), w
			}
			notes = append(notes, "deferred closes; every path stores first")
			continue
		}
		// (1) each store precedes every close
		var direct []aEbcStore // E = <expr>
		viaLocal := map[types.Object][]aEbcStore{}
		for _, st := range here {
			if v, ok := aObjOf(binfo, st.rhs).(*types.Var); ok && st.rhs != nil && !v.IsField() &&
				body.body.Pos() <= v.Pos() && v.Pos() < body.body.End() {
				viaLocal[v] = append(viaLocal[v], st)
			} else {
				direct = append(direct, st)
			}
		}
		if len(viaLocal) == 0 {
			fl := &aFlow{c: c, info: info, tagless: aTagless(body.body), stop: isStore, bad: badClose}
			if w := fl.run(g.Blocks[0], 0, nil); w != nil {
				return Violation, fmt.Sprintf("a close of %s is reachable before the store %s; a consumer released by that close reads the old value of %s (nil) and reports success",
					fam.Name(), nodeText(c.Fset, here[0].node), e.Name()), w
			}
		} else {
			var locals []types.Object
			for v := range viaLocal {
				locals = append(locals, v)
			}
			sort.Slice(locals, func(i, j int) bool { return locals[i].Pos() < locals[j].Pos() })
			for _, v := range locals {
				// definitions of v in this body
				var defs []ast.Node
				aShallow(body.body, func(n ast.Node) bool {
					switch s := n.(type) {
					case *ast.AssignStmt:
						for _, l := range s.Lhs {
							if aObjOf(binfo, l) == v {
								defs = append(defs, s)
							}
						}
					case *ast.ValueSpec:
						for _, nm := range s.Names {
							if binfo.ObjectOf(nm) == v {
								defs = append(defs, s)
							}
						}
					}
					return true
				})
				isDef := func(n ast.Node) bool {
					for _, d := range defs {
						if n == d {
							return true
						}
					}
					return false
				}
				// the definition (or a direct store) dominates every close
				fl := &aFlow{c: c, info: binfo, tagless: aTagless(body.body), bad: badClose,
					stop: func(n ast.Node) bool {
						if isDef(n) {
							return true
						}
						for _, st := range direct {
							if n == ast.Node(st.node) {
								return true
							}
						}
						return false
					}}
				if w := fl.run(g.Blocks[0], 0, nil); w != nil {
					return Violation, fmt.Sprintf("a close of %s is reachable before the error that is stored in %s (%s) has been computed", fam.Name(), e.Name(), v.Name()), w
				}
				// from each definition, with v != nil, every path to a close passes the store
				for _, d := range defs {
					loc, ok := findNode(g, d)
					if !ok {
						continue
					}
					fl := &aFlow{c: c, info: binfo, tagless: aTagless(body.body), stop: isStore, bad: badClose}
					if w := fl.run(loc.b, loc.i+1, map[types.Object]bool{v: true}); w != nil {
						return Violation, fmt.Sprintf("after %s (with a non-nil error) a close of %s is reachable before the store %s; a consumer released by that close reads %s == nil and reports success",
								nodeText(c.Fset, d), fam.Name(), nodeText(c.Fset, viaLocal[v][0].node), e.Name()),
							append([]string{"from " + c.Position(d.Pos()) + " with " + v.Name() + " != nil"}, w...)
					}
				}
			}
		}
		// (2) no store after a close
		for _, cl := range byUnit[u] {
			loc, ok := findNode(g, cl.node)
			if !ok {
				return Undecided, "close not found in the control-flow graph", nil
			}
			fl := &aFlow{c: c, info: info, tagless: aTagless(body.body),
				bad: func(n ast.Node) string {
					if isStore(n) {
						return "stores " + e.Name() + " after a close"
					}
					return ""
				}}
			if w := fl.run(loc.b, loc.i+1, nil); w != nil {
				return Violation, fmt.Sprintf("a store to %s is reachable after close of %s at %s; a consumer released by the close may miss it", e.Name(), fam.Name(), c.Position(cl.node.Pos())), w
			}
		}
		if len(elsewhere) > 0 {
			return Undecided, fmt.Sprintf("%s is also stored at %s in another function body; its order relative to the closes is not decided", e.Name(), c.Position(elsewhere[0].node.Pos())), nil
		}
		notes = append(notes, fmt.Sprintf("the store %s at %s precedes every close and none follows", nodeText(c.Fset, here[0].node), c.Position(here[0].node.Pos())))
	}
	detail := ""
	for i, n := range notes {
		if i > 0 {
			detail += "; "
		}
		detail += n
	}
	return OK, detail, nil
}
