package main

import (
	"fmt"
	"go/ast"
	"go/token"
	"go/types"
)

// ADJACENT-SCAN (C18; informational elsewhere): a property of a whole sequence that is decided
// pair by pair (is it sorted? does it contain a repeat? do consecutive points differ?) has to
// look at every adjacent pair. Two idioms do that in this module:
//
//	scan:        for j := 1; j < len(s); j++ { … s[j] … s[j-1] … }
//	             (or j := 0; j < len(s)-1 with s[j] and s[j+1])
//	incremental: while elements are appended to s, the incoming element is compared with
//	             s[len(s)-1] under a guard on len(s)
//
// Obligations: a scan that mentions s[j] and s[j-1] starts at 1 and runs while j < len(s) (or
// j <= len(s)-1); one that mentions s[j] and s[j+1] starts at 0 and runs while j < len(s)-1
// (j+1 < len(s)); an incremental comparison with s[len(s)-1] is guarded by exactly "s is not
// empty" (len(s) > 0, len(s) >= 1, len(s) != 0): a stricter guard (len(s) > 1) leaves the first
// pair unexamined. Loops whose bounds are not of these forms are not instances (a scan over a
// sub-range chosen by other variables is the caller's business).
func init() {
	register(&Rule{
		Name:  "ADJACENT-SCAN",
		IR:    "ast",
		Props: []string{"C18"},
		Floor: 1,
		Doc: "a loop that decides a property of a sequence pair by pair (s[j] against s[j-1], or the incoming element against s[len(s)-1]) examines every adjacent pair: " +
			"it starts at the first pair, ends at the last, and an incremental comparison is guarded by exactly 's is not empty' (instances: every such loop; the YAML importer is anchored)",
		Run: runAdjacentScan,
	})
}

func runAdjacentScan(c *Ctx) []Obligation {
	var out []Obligation
	for _, p := range c.SortedPkgs() {
		info := p.TypesInfo
		for _, fd := range c.FuncDecls(p) {
			if fd.Body == nil {
				continue
			}
			name := c.FuncName(p, fd)
			anchored := relPkg(p) == "ingest" && c.Position(fd.Pos())[:len("ingest/yaml.go")] == "ingest/yaml.go"
			ord := 0
			emit := func(pos token.Pos, ok bool, detail string) {
				ord++
				ob := Obligation{Key: fmt.Sprintf("%s#%d", name, ord), Pos: c.Position(pos), Status: OK, Detail: detail}
				if !ok {
					ob.Status = Violation
				}
				if !anchored {
					if !ok {
						ob.Detail = "verdict violation (outside the anchored file): " + ob.Detail
					}
					ob.Status = Info
				}
				out = append(out, ob)
			}
			constInt := func(e ast.Expr) (int64, bool) {
				tv := info.Types[e]
				if tv.Value == nil {
					return 0, false
				}
				var v int64
				if _, err := fmt.Sscan(tv.Value.ExactString(), &v); err != nil {
					return 0, false
				}
				return v, true
			}
			// lenOf(e) returns the slice expression s if e is len(s)
			lenOf := func(e ast.Expr) ast.Expr {
				call, ok := ast.Unparen(e).(*ast.CallExpr)
				if ok && isBuiltin(info, call, "len") && len(call.Args) == 1 {
					return call.Args[0]
				}
				return nil
			}
			// offset(e, v): if e is v, v+k or v-k returns k
			offset := func(e ast.Expr, v types.Object) (int64, bool) {
				e = ast.Unparen(e)
				if id, ok := e.(*ast.Ident); ok && info.Uses[id] == v {
					return 0, true
				}
				if b, ok := e.(*ast.BinaryExpr); ok && (b.Op == token.ADD || b.Op == token.SUB) {
					if id, ok := ast.Unparen(b.X).(*ast.Ident); ok && info.Uses[id] == v {
						if k, ok := constInt(b.Y); ok {
							if b.Op == token.SUB {
								k = -k
							}
							return k, true
						}
					}
				}
				return 0, false
			}
			ast.Inspect(fd.Body, func(n ast.Node) bool {
				switch x := n.(type) {
				case *ast.ForStmt:
					init, ok := x.Init.(*ast.AssignStmt)
					if !ok || init.Tok != token.DEFINE || len(init.Lhs) != 1 || len(init.Rhs) != 1 || x.Cond == nil {
						return true
					}
					id, ok := init.Lhs[0].(*ast.Ident)
					if !ok {
						return true
					}
					v := info.Defs[id]
					start, ok := constInt(init.Rhs[0])
					if !ok || v == nil {
						return true
					}
					inc, ok := x.Post.(*ast.IncDecStmt)
					if !ok || inc.Tok != token.INC {
						return true
					}
					// offsets used to index each slice in the body
					offs := map[string]map[int64]bool{}
					exprOf := map[string]ast.Expr{}
					ast.Inspect(x.Body, func(m ast.Node) bool {
						ix, ok := m.(*ast.IndexExpr)
						if !ok {
							return true
						}
						switch info.TypeOf(ix.X).Underlying().(type) {
						case *types.Slice, *types.Array, *types.Basic:
						default:
							return true
						}
						if k, ok := offset(ix.Index, v); ok {
							key := srcText(c.Fset, ix.X)
							if offs[key] == nil {
								offs[key] = map[int64]bool{}
							}
							offs[key][k] = true
							exprOf[key] = ix.X
						}
						return true
					})
					cond, ok := ast.Unparen(x.Cond).(*ast.BinaryExpr)
					if !ok {
						return true
					}
					for key, ks := range offs {
						var lo, hi int64
						switch {
						case ks[0] && ks[-1] && !ks[1]:
							lo, hi = -1, 0
						case ks[0] && ks[1] && !ks[-1]:
							lo, hi = 0, 1
						default:
							continue
						}
						// the bound: v+a OP len(s)+b
						a, okA := offset(cond.X, v)
						if !okA {
							continue
						}
						var b int64
						var s ast.Expr
						if s = lenOf(cond.Y); s == nil {
							if be, ok := ast.Unparen(cond.Y).(*ast.BinaryExpr); ok && (be.Op == token.ADD || be.Op == token.SUB) {
								if s = lenOf(be.X); s != nil {
									k, ok := constInt(be.Y)
									if !ok {
										continue
									}
									b = k
									if be.Op == token.SUB {
										b = -k
									}
								}
							}
						}
						if s == nil || srcText(c.Fset, s) != key {
							continue
						}
						// last v for which the loop runs: v+a < len+b  =>  v <= len+b-a-1 ; <= : v <= len+b-a
						var last int64 // relative to len
						switch cond.Op {
						case token.LSS:
							last = b - a - 1
						case token.LEQ:
							last = b - a
						default:
							continue
						}
						wantStart := -lo    // first index used is 0
						wantLast := -1 - hi // last index used is len-1
						okk := start == wantStart && last == wantLast
						detail := fmt.Sprintf("the scan over %s compares %s[%s%+d] with %s[%s%+d] from %s=%d while %s: ", key, key, id.Name, lo, key, id.Name, hi, id.Name, start, srcText(c.Fset, x.Cond))
						if okk {
							detail += "every adjacent pair is examined"
						} else if start > wantStart || last < wantLast {
							detail += fmt.Sprintf("not every adjacent pair is examined (a full scan starts at %d and ends at len%+d)", wantStart, wantLast)
						} else {
							detail += "the scan indexes outside the sequence"
						}
						emit(x.Pos(), okk, detail)
					}
				case *ast.IfStmt:
					// incremental: a guard on len(s) together with a use of s[len(s)-1] in the same condition or body,
					// inside a loop that appends to s
					var s ast.Expr
					var guardOK, found bool
					var guardTxt string
					for _, cj := range conjuncts(x.Cond) {
						b, ok := ast.Unparen(cj).(*ast.BinaryExpr)
						if !ok {
							continue
						}
						if l := lenOf(b.X); l != nil {
							if k, ok := constInt(b.Y); ok {
								s, found, guardTxt = l, true, srcText(c.Fset, cj)
								guardOK = (b.Op == token.GTR && k == 0) || (b.Op == token.GEQ && k == 1) || (b.Op == token.NEQ && k == 0)
							}
						}
					}
					if !found {
						return true
					}
					key := srcText(c.Fset, s)
					usesLast, usesOther := false, false
					ast.Inspect(x, func(m ast.Node) bool {
						ix, ok := m.(*ast.IndexExpr)
						if !ok || srcText(c.Fset, ix.X) != key {
							return true
						}
						if be, ok := ast.Unparen(ix.Index).(*ast.BinaryExpr); ok && be.Op == token.SUB {
							if l := lenOf(be.X); l != nil && srcText(c.Fset, l) == key {
								if k, ok := constInt(be.Y); ok && k == 1 {
									usesLast = true
									return true
								}
							}
						}
						usesOther = true
						return true
					})
					if !usesLast || usesOther {
						return true
					}
					// s is appended to in an enclosing loop of this function, after this statement
					appended := false
					for _, anc := range enclosing(fd.Body, x) {
						var body *ast.BlockStmt
						switch l := anc.(type) {
						case *ast.ForStmt:
							body = l.Body
						case *ast.RangeStmt:
							body = l.Body
						}
						if body == nil {
							continue
						}
						ast.Inspect(body, func(m ast.Node) bool {
							if as, ok := m.(*ast.AssignStmt); ok && len(as.Lhs) == 1 && len(as.Rhs) == 1 && srcText(c.Fset, as.Lhs[0]) == key {
								if call, ok := as.Rhs[0].(*ast.CallExpr); ok && isBuiltin(info, call, "append") {
									appended = true
								}
							}
							return true
						})
					}
					if !appended {
						return true
					}
					detail := fmt.Sprintf("while %s grows, the incoming element is compared with %s[len(%s)-1] under the guard %s: ", key, key, key, guardTxt)
					if guardOK {
						detail += "every adjacent pair is examined"
					} else {
						detail += "the guard is stricter than 'not empty', so the first pair is never compared"
					}
					emit(x.Pos(), guardOK, detail)
				}
				return true
			})
		}
	}
	return out
}
