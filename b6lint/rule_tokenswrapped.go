package main

import (
	"fmt"
	"go/ast"
	"go/types"
)

// TOKENS-WRAPPED (C04, C03): the index tokens of a feature include the cells its geometry covers,
// and a path's geometry is the locations of the points it refers to: they can only be resolved
// through the world. `TokensForFeature` therefore has to be given the world's view of the feature
// (`WrapFeature(f, world)`), never the bare stored value, which knows the IDs of its points and not
// where they are: the feature is then indexed under its tag tokens and no cell tokens, and every
// spatial query misses it while the upper layer's copy hides the base version.
//
// Subjects, by type (package ingest): calls of the function that derives index tokens (a function
// named by its result: it takes a b6.Feature and returns []string, called with results going to an
// index Add/Remove or a token diff) — concretely every call of ingest.TokensForFeature.
// Obligation: the argument is a call of a wrapping function of the package (a function from an
// ingest.Feature and a world to b6.Feature), or a parameter that already has the interface type
// b6.Feature.
func init() {
	register(&Rule{
		Name:  "TOKENS-WRAPPED",
		IR:    "ast",
		Props: []string{"C04", "C03"},
		Floor: 5,
		Doc:   "index tokens are derived from the world's view of a feature (WrapFeature(f, world)), which can resolve the locations of referenced points, not from the bare stored value",
		Run:   runTokensWrapped,
	})
}

func runTokensWrapped(c *Ctx) []Obligation {
	var out []Obligation
	p := c.Pkg("ingest")
	if p == nil {
		return out
	}
	info := p.TypesInfo
	tf, _ := p.Types.Scope().Lookup("TokensForFeature").(*types.Func)
	ft, _ := p.Types.Scope().Lookup("Feature").(*types.TypeName)
	if tf == nil || ft == nil {
		return out
	}
	isWrapper := func(f *types.Func) bool {
		if f == nil || f.Pkg() != p.Types {
			return false
		}
		sig := f.Type().(*types.Signature)
		if sig.Params().Len() != 2 || sig.Results().Len() != 1 {
			return false
		}
		return types.Identical(sig.Params().At(0).Type(), ft.Type())
	}
	for _, fd := range c.FuncDecls(p) {
		if fd.Body == nil {
			continue
		}
		name := c.FuncName(p, fd)
		ord := 0
		ast.Inspect(fd.Body, func(n ast.Node) bool {
			call, ok := n.(*ast.CallExpr)
			if !ok || calleeFunc(info, call) != tf || len(call.Args) != 1 {
				return true
			}
			ord++
			ob := Obligation{Key: fmt.Sprintf("%s#%d", name, ord), Pos: c.Position(call.Pos()), Status: Violation}
			arg := ast.Unparen(call.Args[0])
			if inner, ok := arg.(*ast.CallExpr); ok && isWrapper(calleeFunc(info, inner)) {
				ob.Status = OK
				ob.Detail = fmt.Sprintf("%s derives the tokens from the world's view of the feature", srcText(c.Fset, call))
			} else if id, ok := arg.(*ast.Ident); ok {
				if v, ok := info.Uses[id].(*types.Var); ok {
					if _, isIface := v.Type().Underlying().(*types.Interface); isIface && !types.Identical(v.Type(), ft.Type()) {
						ob.Status = OK
						ob.Detail = fmt.Sprintf("%s is given a value that already has the world-facing type %s", srcText(c.Fset, call), types.TypeString(v.Type(), types.RelativeTo(p.Types)))
					}
				}
			}
			if ob.Status == Violation {
				ob.Detail = fmt.Sprintf("%s derives the index tokens from the bare stored feature: it cannot resolve the locations of the points a path or area refers to, so the feature gets no cell tokens and spatial queries miss it", srcText(c.Fset, call))
			}
			out = append(out, ob)
			return true
		})
	}
	return out
}
