package main

import (
	"fmt"
	"go/ast"
	"go/constant"
	"go/token"
	"go/types"
	"sort"
	"strings"
)

// ENUM-INVERSE (C31, C19, C27): an enumeration that crosses an encoding boundary (feature type ↔
// protobuf enum, OSM element type ↔ PBF member type, …) is translated by a hand-written switch on
// each side. The two switches must be inverse tables: if the writer maps c to k, the reader must
// map k back to c. A row changed, dropped or duplicated on one side sends a value out as one kind
// and reads it back as another (or as the default).
//
// Slots (by shape, whole module): a *table* is a switch statement over an expression of type A
// whose every non-default clause lists constants and whose body is exactly one statement that
// yields a constant of type B: `return K` (optionally with further results) or `x = K` to the same
// left-hand side in every clause. Two tables are a *pair* when one is A→B and the other B→A, A ≠ B,
// at least one of A, B is a named non-string type of the module or of its generated protobuf
// package, and both lie in the same package. One obligation per pair (keyed by the two enclosing
// functions): for every row c→k of either table, the other table has the row k→c, or has no row
// for k and its default yields c. Rows that are not mapped back are named in the report.
// Declared constants of A that no clause lists are informational (they take the default).
func init() {
	register(&Rule{
		Name:    "ENUM-INVERSE",
		IR:      "ast",
		Props:   []string{"C31", "C19", "C27"},
		Floor:   2,
		FloorBy: map[string]int{"C31": 1, "C19": 1, "C27": 1},
		Narrow: func(o *Obligation) {
			k := strings.TrimPrefix(o.Key, "ENUM-INVERSE/")
			switch {
			case strings.HasPrefix(k, "osm."):
				o.Props = []string{"C27"}
			case strings.HasPrefix(k, "b6."):
				o.Props = []string{"C31", "C19"}
			default:
				o.Props = []string{}
				if o.Status == Violation {
					o.Detail = "verdict violation (outside the anchored packages): " + o.Detail
				}
				o.Status = Info
			}
		},
		Doc: "two hand-written switch tables that translate an enumeration in opposite directions (A→B and B→A in one package) are inverse row by row " +
			"(instances: every such pair; root package pairs carry C31/C19, osm pairs C27, others are informational)",
		Run: runEnumInverse,
	})
}

type enumTable struct {
	fn      string
	pos     token.Pos
	a, b    types.Type
	rows    map[string]string // exact constant string of A → of B
	names   map[string]string // printable
	bnames  map[string]string
	def     string // constant the default yields ("" if none)
	hasDef  bool
	pkgPath string
}

func runEnumInverse(c *Ctx) []Obligation {
	var out []Obligation
	for _, p := range c.SortedPkgs() {
		info := p.TypesInfo
		var tables []*enumTable
		constKey := func(e ast.Expr) (string, bool) {
			tv, ok := info.Types[e]
			if !ok || tv.Value == nil {
				return "", false
			}
			return tv.Value.ExactString(), true
		}
		for _, fd := range c.FuncDecls(p) {
			name := c.FuncName(p, fd)
			ord := 0
			ast.Inspect(fd.Body, func(n ast.Node) bool {
				sw, ok := n.(*ast.SwitchStmt)
				if !ok || sw.Tag == nil {
					return true
				}
				ord++
				t := &enumTable{fn: fmt.Sprintf("%s#%d", name, ord), pos: sw.Pos(), a: info.TypeOf(sw.Tag), rows: map[string]string{}, names: map[string]string{}, bnames: map[string]string{}, pkgPath: p.PkgPath}
				var lhs ast.Expr
				valid := true
				yield := func(body []ast.Stmt) (string, string, types.Type, bool) {
					if len(body) != 1 {
						return "", "", nil, false
					}
					switch s := body[0].(type) {
					case *ast.ReturnStmt:
						if len(s.Results) >= 1 {
							if k, ok := constKey(s.Results[0]); ok {
								return k, nodeText(c.Fset, s.Results[0]), info.TypeOf(s.Results[0]), true
							}
						}
					case *ast.AssignStmt:
						if len(s.Lhs) == 1 && len(s.Rhs) == 1 && s.Tok == token.ASSIGN {
							if lhs != nil && !sameExpr(info, lhs, s.Lhs[0]) {
								return "", "", nil, false
							}
							if k, ok := constKey(s.Rhs[0]); ok {
								lhs = s.Lhs[0]
								return k, nodeText(c.Fset, s.Rhs[0]), info.TypeOf(s.Lhs[0]), true
							}
						}
					}
					return "", "", nil, false
				}
				for _, st := range sw.Body.List {
					cc := st.(*ast.CaseClause)
					k, kn, bt, ok := yield(cc.Body)
					if cc.List == nil {
						t.hasDef = true
						if ok {
							t.def = k
						}
						continue
					}
					if !ok {
						valid = false
						break
					}
					if t.b == nil {
						t.b = bt
					} else if !types.Identical(t.b, bt) {
						valid = false
						break
					}
					for _, e := range cc.List {
						ck, ok := constKey(e)
						if !ok {
							valid = false
							break
						}
						t.rows[ck] = k
						t.names[ck] = nodeText(c.Fset, e)
						t.bnames[k] = kn
					}
				}
				if valid && t.b != nil && len(t.rows) >= 2 && !types.Identical(t.a, t.b) {
					tables = append(tables, t)
				}
				return true
			})
		}
		enumLike := func(t types.Type) bool {
			n := namedOf(t)
			if n == nil || n.Obj().Pkg() == nil {
				return false
			}
			b, ok := n.Underlying().(*types.Basic)
			return ok && b.Info()&types.IsString == 0 && strings.HasPrefix(n.Obj().Pkg().Path(), ModulePath)
		}
		for i, t1 := range tables {
			for _, t2 := range tables[i+1:] {
				if !types.Identical(t1.a, t2.b) || !types.Identical(t1.b, t2.a) || !(enumLike(t1.a) || enumLike(t1.b)) {
					continue
				}
				ob := Obligation{Key: relPkg(p) + "." + strings.TrimPrefix(t1.fn, relPkg(p)+".") + "~" + strings.TrimPrefix(t2.fn, relPkg(p)+"."), Pos: c.Position(t1.pos), Status: OK}
				var bad []string
				check := func(x, y *enumTable) {
					var ks []string
					for k := range x.rows {
						ks = append(ks, k)
					}
					sort.Strings(ks)
					for _, ck := range ks {
						k := x.rows[ck]
						back, ok := y.rows[k]
						switch {
						case ok && back != ck:
							bad = append(bad, fmt.Sprintf("%s maps %s to %s, but %s maps %s back to %s", x.fn, x.names[ck], x.bnames[k], y.fn, y.names[k], y.bnames[back]))
						case !ok && !(y.hasDef && y.def == ck):
							bad = append(bad, fmt.Sprintf("%s maps %s to %s, which %s has no row for", x.fn, x.names[ck], x.bnames[k], y.fn))
						}
					}
				}
				check(t1, t2)
				check(t2, t1)
				if len(bad) > 0 {
					ob.Status = Violation
					ob.Detail = fmt.Sprintf("the tables %s (%s→%s, at %s) and %s (at %s) are not inverse: %s", t1.fn, t1.a, t1.b, c.Position(t1.pos), t2.fn, c.Position(t2.pos), strings.Join(bad, "; "))
				} else {
					ob.Detail = fmt.Sprintf("%s (%s→%s, %d rows) and %s (%d rows, at %s) are inverse row by row", t1.fn, t1.a, t1.b, len(t1.rows), t2.fn, len(t2.rows), c.Position(t2.pos))
				}
				out = append(out, ob)
			}
		}
	}
	_ = constant.MakeBool
	return out
}
