package main

// Helpers of rule group F (CLONE-DEPTH, SHRINK-IN-RANGE, MEMBER-KEY, TAGMAP-SHARED,
// VALIDATE-GATE). Identifiers carry the prefix f/F to stay clear of other authors.

import (
	"fmt"
	"go/ast"
	"go/token"
	"go/types"
	"sort"
	"strings"

	"golang.org/x/tools/go/packages"
)

// ---------------------------------------------------------------------------------------
// small shared helpers

// fIdentObjs collects the objects of all identifiers used in an expression.
func fIdentObjs(info *types.Info, e ast.Node, into map[types.Object]bool) {
	ast.Inspect(e, func(n ast.Node) bool {
		if id, ok := n.(*ast.Ident); ok {
			if o := info.ObjectOf(id); o != nil {
				into[o] = true
			}
		}
		return true
	})
}

// fDependents computes the set of local objects whose value may be derived from the seed
// objects inside body: the least set closed under "x (:= | = | op=) e with e mentioning a
// member", range statements over a member-derived operand, and type-switch bindings.
// It is an over-approximation of data dependence that needs no control-flow information.
func fDependents(info *types.Info, body ast.Node, seeds ...types.Object) map[types.Object]bool {
	dep := map[types.Object]bool{}
	for _, s := range seeds {
		if s != nil {
			dep[s] = true
		}
	}
	mentions := func(e ast.Node) bool {
		found := false
		ast.Inspect(e, func(n ast.Node) bool {
			if id, ok := n.(*ast.Ident); ok && dep[info.ObjectOf(id)] {
				found = true
			}
			return !found
		})
		return found
	}
	for changed := true; changed; {
		changed = false
		add := func(e ast.Expr) {
			if id, ok := ast.Unparen(e).(*ast.Ident); ok {
				if o := info.ObjectOf(id); o != nil && !dep[o] {
					dep[o] = true
					changed = true
				}
			}
		}
		ast.Inspect(body, func(n ast.Node) bool {
			switch s := n.(type) {
			case *ast.AssignStmt:
				if len(s.Lhs) == len(s.Rhs) {
					for i := range s.Lhs {
						if mentions(s.Rhs[i]) {
							add(s.Lhs[i])
						}
					}
				} else if len(s.Rhs) == 1 && mentions(s.Rhs[0]) {
					for _, l := range s.Lhs {
						add(l)
					}
				}
			case *ast.ValueSpec:
				for i, nm := range s.Names {
					if i < len(s.Values) && mentions(s.Values[i]) || len(s.Values) == 1 && len(s.Names) > 1 && mentions(s.Values[0]) {
						add(nm)
					}
				}
			case *ast.RangeStmt:
				if mentions(s.X) {
					if s.Key != nil {
						add(s.Key)
					}
					if s.Value != nil {
						add(s.Value)
					}
				}
			case *ast.TypeSwitchStmt:
				if as, ok := s.Assign.(*ast.AssignStmt); ok && len(as.Rhs) == 1 && mentions(as.Rhs[0]) {
					for _, cl := range s.Body.List {
						if o := info.Implicits[cl]; o != nil && !dep[o] {
							dep[o] = true
							changed = true
						}
					}
				}
			}
			return true
		})
	}
	return dep
}

// fMentions reports whether e uses one of the objects.
func fMentions(info *types.Info, e ast.Node, objs map[types.Object]bool) bool {
	found := false
	ast.Inspect(e, func(n ast.Node) bool {
		if id, ok := n.(*ast.Ident); ok && objs[info.ObjectOf(id)] {
			found = true
		}
		return !found
	})
	return found
}

// fAssignedIn collects the objects assigned (=, :=, op=, ++/--, range key/value, declared)
// anywhere inside the node.
func fAssignedIn(info *types.Info, body ast.Node) map[types.Object]bool {
	out := map[types.Object]bool{}
	add := func(e ast.Expr) {
		if e == nil {
			return
		}
		if id, ok := ast.Unparen(e).(*ast.Ident); ok {
			if o := info.ObjectOf(id); o != nil {
				out[o] = true
			}
		}
	}
	ast.Inspect(body, func(n ast.Node) bool {
		switch s := n.(type) {
		case *ast.AssignStmt:
			for _, l := range s.Lhs {
				add(l)
			}
		case *ast.IncDecStmt:
			add(s.X)
		case *ast.RangeStmt:
			add(s.Key)
			add(s.Value)
		case *ast.ValueSpec:
			for _, nm := range s.Names {
				add(nm)
			}
		case *ast.UnaryExpr:
			if s.Op == token.AND { // address taken: may be written through the pointer
				add(s.X)
			}
		}
		return true
	})
	return out
}

// fIsNamed reports whether t (through pointers and aliases) is the module type rel.name.
func fIsNamed(t types.Type, rel, name string) bool {
	p := ModulePath
	if rel != "" {
		p += "/" + rel
	}
	return t != nil && isNamed(t, p, name)
}

// fDeclsSorted lists (package, declaration) of every non-generated function of the module
// in package and source order.
type fDecl struct {
	p  *packages.Package
	fd *ast.FuncDecl
}

func fAllDecls(c *Ctx) []fDecl {
	var out []fDecl
	for _, p := range c.SortedPkgs() {
		for _, fd := range c.FuncDecls(p) {
			out = append(out, fDecl{p, fd})
		}
	}
	return out
}

// fRecvNamed returns the named receiver type of a method declaration (nil for functions).
func fRecvNamed(info *types.Info, fd *ast.FuncDecl) *types.Named {
	if fd.Recv == nil {
		return nil
	}
	f, _ := info.Defs[fd.Name].(*types.Func)
	if f == nil {
		return nil
	}
	sig := f.Type().(*types.Signature)
	if sig.Recv() == nil {
		return nil
	}
	return namedOf(sig.Recv().Type())
}

// ---------------------------------------------------------------------------------------
// A small abstract interpreter over typed syntax that answers one question: after a
// function has run, which slices reachable from a destination value may still use a backing
// array of the source value? Values:
//
//	*fArr  a slice, identified with its backing array (shared = may be the source's);
//	       elem summarises all elements (weakly updated, merged by unification)
//	*fObj  a struct object (pointers to structs are transparent)
//	*fPtr  a pointer to a non-struct location
//	nil    scalars, nil, anything without storage of interest
//
// Assignments to variables and fields are strong; the state is forked at if/switch/loops and
// joined afterwards (loop bodies run three times); element stores are weak. Static callees that are
// declared in the module are interpreted inline (bounded depth); a caller-supplied contract
// table short-circuits chosen callees.

type fVal interface{}

type fSlot struct{ v fVal }

type fArr struct {
	fwd    *fArr
	shared bool // the backing array may be one of the source's
	src    bool // it is the source's: every element is the source's too (materialised lazily)
	elem   *fSlot
}

type fObj struct {
	src    bool
	fields map[*types.Var]*fSlot
}

type fPtr struct{ slot *fSlot }

func (a *fArr) find() *fArr {
	for a.fwd != nil {
		a = a.fwd
	}
	return a
}

func fHasRefs(t types.Type, seen map[types.Type]bool) bool {
	if t == nil || seen[t] {
		return false
	}
	seen[t] = true
	switch u := t.Underlying().(type) {
	case *types.Slice, *types.Pointer, *types.Map, *types.Interface, *types.Chan, *types.Signature:
		return true
	case *types.Struct:
		for i := 0; i < u.NumFields(); i++ {
			if fHasRefs(u.Field(i).Type(), seen) {
				return true
			}
		}
	case *types.Array:
		return fHasRefs(u.Elem(), seen)
	}
	return false
}

func fSrcVal(t types.Type) fVal {
	if t == nil {
		return nil
	}
	switch u := t.Underlying().(type) {
	case *types.Slice:
		return &fArr{src: true, shared: true}
	case *types.Struct, *types.Interface, *types.Map:
		return &fObj{src: true}
	case *types.Pointer:
		if _, ok := u.Elem().Underlying().(*types.Struct); ok {
			return &fObj{src: true}
		}
		return &fPtr{&fSlot{fSrcVal(u.Elem())}}
	}
	return nil
}

func fFreshVal(t types.Type) fVal {
	if t == nil {
		return nil
	}
	switch u := t.Underlying().(type) {
	case *types.Slice:
		return &fArr{}
	case *types.Struct:
		return &fObj{}
	case *types.Pointer:
		if _, ok := u.Elem().Underlying().(*types.Struct); ok {
			return &fObj{}
		}
		return &fPtr{&fSlot{fFreshVal(u.Elem())}}
	}
	return nil
}

func (a *fArr) elemSlot(et types.Type) *fSlot {
	a = a.find()
	if a.elem == nil {
		if a.src {
			a.elem = &fSlot{fSrcVal(et)}
		} else {
			a.elem = &fSlot{fFreshVal(et)}
		}
	}
	return a.elem
}

func (o *fObj) fieldSlot(f *types.Var) *fSlot {
	if o.fields == nil {
		o.fields = map[*types.Var]*fSlot{}
	}
	s := o.fields[f]
	if s == nil {
		if o.src {
			s = &fSlot{fSrcVal(f.Type())}
		} else {
			s = &fSlot{fFreshVal(f.Type())}
		}
		o.fields[f] = s
	}
	return s
}

// fUnify joins two abstract values in place and returns the joined value.
func fUnify(a, b fVal) fVal {
	if a == nil {
		return b
	}
	if b == nil {
		return a
	}
	switch x := a.(type) {
	case *fArr:
		y, ok := b.(*fArr)
		if !ok {
			return a
		}
		x, y = x.find(), y.find()
		if x == y {
			return x
		}
		x.shared = x.shared || y.shared
		x.src = x.src || y.src
		y.fwd = x
		if y.elem != nil {
			if x.elem == nil {
				x.elem = y.elem
			} else {
				x.elem.v = fUnify(x.elem.v, y.elem.v)
			}
		}
		return x
	case *fObj:
		y, ok := b.(*fObj)
		if !ok {
			return a
		}
		if x == y {
			return x
		}
		for f, s := range y.fields {
			xs := x.fieldSlot(f)
			xs.v = fUnify(xs.v, s.v)
		}
		if y.src && !x.src {
			for f, xs := range x.fields {
				if _, done := y.fields[f]; !done {
					xs.v = fUnify(xs.v, fSrcVal(f.Type()))
				}
			}
			x.src = true
		}
		return x
	case *fPtr:
		y, ok := b.(*fPtr)
		if !ok {
			return a
		}
		if x.slot != y.slot {
			x.slot.v = fUnify(x.slot.v, y.slot.v)
		}
		return x
	}
	return a
}

// fCopyStruct copies a struct value: slice fields keep their backing arrays.
func fCopyStruct(v fVal, t types.Type) fVal {
	o, ok := v.(*fObj)
	if !ok || o == nil || t == nil {
		return v
	}
	if _, isStruct := t.Underlying().(*types.Struct); !isStruct {
		return v
	}
	n := &fObj{src: o.src, fields: map[*types.Var]*fSlot{}}
	for f, s := range o.fields {
		n.fields[f] = &fSlot{fCopyStruct(s.v, f.Type())}
	}
	return n
}

// fCopier deep-copies values keeping the identity (aliasing) of arrays, objects, pointers
// and locations.
type fCopier struct {
	arrs  map[*fArr]*fArr
	objs  map[*fObj]*fObj
	ptrs  map[*fPtr]*fPtr
	slots map[*fSlot]*fSlot
}

func fNewCopier() *fCopier {
	return &fCopier{map[*fArr]*fArr{}, map[*fObj]*fObj{}, map[*fPtr]*fPtr{}, map[*fSlot]*fSlot{}}
}

func (cp *fCopier) slot(s *fSlot) *fSlot {
	if s == nil {
		return nil
	}
	if n, ok := cp.slots[s]; ok {
		return n
	}
	n := &fSlot{}
	cp.slots[s] = n
	n.v = cp.val(s.v)
	return n
}

func (cp *fCopier) val(v fVal) fVal {
	switch x := v.(type) {
	case *fArr:
		if x == nil {
			return nil
		}
		x = x.find()
		if n, ok := cp.arrs[x]; ok {
			return n
		}
		n := &fArr{shared: x.shared, src: x.src}
		cp.arrs[x] = n
		n.elem = cp.slot(x.elem)
		return n
	case *fObj:
		if x == nil {
			return nil
		}
		if n, ok := cp.objs[x]; ok {
			return n
		}
		n := &fObj{src: x.src, fields: map[*types.Var]*fSlot{}}
		cp.objs[x] = n
		for f, fs := range x.fields {
			n.fields[f] = cp.slot(fs)
		}
		return n
	case *fPtr:
		if x == nil {
			return nil
		}
		if n, ok := cp.ptrs[x]; ok {
			return n
		}
		n := &fPtr{}
		cp.ptrs[x] = n
		n.slot = cp.slot(x.slot)
		return n
	}
	return nil
}

// fJoiner builds the join of two states that were forked from a common state. Nodes that
// correspond on both sides are joined pairwise (which keeps their aliasing); a node present
// on one side only is copied.
type fJoiner struct {
	a, b  *fCopier
	slots map[[2]*fSlot]*fSlot
	arrs  map[[2]*fArr]*fArr
	objs  map[[2]*fObj]*fObj
}

func fNewJoiner() *fJoiner {
	return &fJoiner{fNewCopier(), fNewCopier(), map[[2]*fSlot]*fSlot{}, map[[2]*fArr]*fArr{}, map[[2]*fObj]*fObj{}}
}

func (j *fJoiner) slot(a, b *fSlot) *fSlot {
	if a == nil {
		return j.b.slot(b)
	}
	if b == nil {
		return j.a.slot(a)
	}
	k := [2]*fSlot{a, b}
	if n, ok := j.slots[k]; ok {
		return n
	}
	n := &fSlot{}
	j.slots[k] = n
	n.v = j.val(a.v, b.v)
	return n
}

func fIsSrcish(v fVal) bool {
	switch x := v.(type) {
	case *fArr:
		x = x.find()
		return x.src || x.shared
	case *fObj:
		return x.src
	case *fPtr:
		return fIsSrcish(x.slot.v)
	}
	return false
}

func (j *fJoiner) val(a, b fVal) fVal {
	if a == nil {
		return j.b.val(b)
	}
	if b == nil {
		return j.a.val(a)
	}
	switch x := a.(type) {
	case *fArr:
		y, ok := b.(*fArr)
		if !ok {
			break
		}
		x, y = x.find(), y.find()
		k := [2]*fArr{x, y}
		if n, ok := j.arrs[k]; ok {
			return n
		}
		n := &fArr{shared: x.shared || y.shared, src: x.src || y.src}
		j.arrs[k] = n
		n.elem = j.slot(x.elem, y.elem)
		return n
	case *fObj:
		y, ok := b.(*fObj)
		if !ok {
			break
		}
		k := [2]*fObj{x, y}
		if n, ok := j.objs[k]; ok {
			return n
		}
		n := &fObj{src: x.src || y.src, fields: map[*types.Var]*fSlot{}}
		j.objs[k] = n
		lazy := func(o *fObj, f *types.Var) *fSlot {
			if s := o.fields[f]; s != nil || !o.src {
				return s
			}
			return &fSlot{fSrcVal(f.Type())}
		}
		for f, fs := range x.fields {
			n.fields[f] = j.slot(fs, lazy(y, f))
		}
		for f, fs := range y.fields {
			if _, done := x.fields[f]; !done {
				n.fields[f] = j.slot(lazy(x, f), fs)
			}
		}
		return n
	case *fPtr:
		y, ok := b.(*fPtr)
		if !ok {
			break
		}
		return &fPtr{j.slot(x.slot, y.slot)}
	}
	// different kinds: keep the one that may share with the source
	if fIsSrcish(b) && !fIsSrcish(a) {
		return j.b.val(b)
	}
	return j.a.val(a)
}

type fEnvs []map[types.Object]*fSlot

func fCopyEnvs(e fEnvs) fEnvs {
	cp := fNewCopier()
	out := make(fEnvs, len(e))
	for i, m := range e {
		out[i] = map[types.Object]*fSlot{}
		for o, s := range m {
			out[i][o] = cp.slot(s)
		}
	}
	return out
}

func fJoinEnvs(a, b fEnvs) fEnvs {
	j := fNewJoiner()
	out := make(fEnvs, len(a))
	for i := range a {
		out[i] = map[types.Object]*fSlot{}
		for o, s := range a[i] {
			out[i][o] = j.slot(s, b[i][o])
		}
		for o, s := range b[i] {
			if _, done := a[i][o]; !done {
				out[i][o] = j.slot(nil, s)
			}
		}
	}
	return out
}

// fFreshTo reports whether the slice value v uses storage of its own at every level <= d.
func fFreshTo(v fVal, d int) bool {
	if d <= 0 {
		return true
	}
	switch x := v.(type) {
	case *fArr:
		x = x.find()
		if x.src || x.shared {
			return false
		}
		if d == 1 || x.elem == nil {
			return true
		}
		return fFreshTo(x.elem.v, d-1)
	case *fPtr:
		return fFreshTo(x.slot.v, d)
	case *fObj:
		return !x.src
	}
	return true
}

// fFreshLevels is the number of levels (capped) at which v is known to be fresh.
func fFreshLevels(v fVal, max int) int {
	n := 0
	for n < max && fFreshTo(v, n+1) {
		n++
	}
	return n
}

type fFrame struct {
	pkg     *packages.Package
	info    *types.Info
	env     map[types.Object]*fSlot
	results [][]fVal
	top     bool // frame of the analysed function: returned values are snapshotted
	recv    types.Object
	named   []types.Object // named result variables
}

const (
	fContractNone  = 0
	fContractClone = 1 // result owns all its storage (the callee has its own obligation)
	fContractMerge = 2 // the receiver keeps storage of its own (idem)
)

type fInterp struct {
	c        *Ctx
	contract func(fn *types.Func) int
	stack    []*types.Func
	notes    []string
	maxDepth int

	frames       []*fFrame     // active frames, innermost last
	ctxs         []*fBranchCtx // enclosing loops/switches (nil marks a function boundary)
	pendingLabel string
}

func (in *fInterp) note(pos token.Pos, format string, a ...interface{}) {
	s := in.c.Position(pos) + ": " + fmt.Sprintf(format, a...)
	for _, n := range in.notes {
		if n == s {
			return
		}
	}
	in.notes = append(in.notes, s)
}

func (in *fInterp) typeOf(fr *fFrame, e ast.Expr) types.Type { return fr.info.TypeOf(e) }

func (in *fInterp) slotOf(fr *fFrame, o types.Object) *fSlot {
	s := fr.env[o]
	if s == nil {
		// package-level variable or a variable of an enclosing function: unknown storage
		s = &fSlot{fSrcVal(o.Type())}
		fr.env[o] = s
	}
	return s
}

// rvalue evaluates e for use as a value (struct values are copied).
func (in *fInterp) rvalue(fr *fFrame, e ast.Expr) fVal {
	return fCopyStruct(in.eval(fr, e), in.typeOf(fr, e))
}

func (in *fInterp) store(fr *fFrame, s *fSlot, v fVal, weak bool) {
	if weak {
		s.v = fUnify(s.v, v)
	} else {
		s.v = v
	}
}

// walkFields follows an (implicit) field path from v.
func fWalkFields(v fVal, recv types.Type, index []int) (fVal, *fSlot) {
	var slot *fSlot
	t := recv
	for _, i := range index {
		if p, ok := t.Underlying().(*types.Pointer); ok {
			t = p.Elem()
		}
		st, ok := t.Underlying().(*types.Struct)
		if !ok || i >= st.NumFields() {
			return nil, nil
		}
		f := st.Field(i)
		o, ok := v.(*fObj)
		if !ok || o == nil {
			return nil, nil
		}
		slot = o.fieldSlot(f)
		v = slot.v
		t = f.Type()
	}
	return v, slot
}

// lvalue resolves an assignable expression to its location; weak is set when the location
// is a summary (an element of a slice).
func (in *fInterp) lvalue(fr *fFrame, e ast.Expr) (s *fSlot, weak bool) {
	switch x := ast.Unparen(e).(type) {
	case *ast.Ident:
		if x.Name == "_" {
			return nil, false
		}
		o := fr.info.ObjectOf(x)
		if o == nil {
			return nil, false
		}
		if _, ok := o.(*types.Var); !ok {
			return nil, false
		}
		return in.slotOf(fr, o), false
	case *ast.StarExpr:
		switch p := in.eval(fr, x.X).(type) {
		case *fPtr:
			return p.slot, false
		case *fObj:
			return &fSlot{p}, true // handled by assign (struct content)
		}
		return nil, false
	case *ast.SelectorExpr:
		sel := fr.info.Selections[x]
		if sel == nil || sel.Kind() != types.FieldVal {
			if o, ok := fr.info.Uses[x.Sel].(*types.Var); ok {
				return in.slotOf(fr, o), false // pkg.Var
			}
			return nil, false
		}
		base, bweak := in.evalBase(fr, x.X)
		_, slot := fWalkFields(base, sel.Recv(), sel.Index())
		return slot, bweak
	case *ast.IndexExpr:
		if a, ok := in.eval(fr, x.X).(*fArr); ok && a != nil {
			in.eval(fr, x.Index)
			return a.elemSlot(in.typeOf(fr, e)), true
		}
		in.eval(fr, x.Index)
		return nil, true
	}
	return nil, false
}

// evalBase evaluates the operand of a selector without copying and reports whether it is a
// summary location.
func (in *fInterp) evalBase(fr *fFrame, e ast.Expr) (fVal, bool) {
	switch x := ast.Unparen(e).(type) {
	case *ast.IndexExpr:
		s, w := in.lvalue(fr, x)
		if s != nil {
			return s.v, w
		}
		return in.eval(fr, e), true
	case *ast.SelectorExpr:
		if sel := fr.info.Selections[x]; sel != nil && sel.Kind() == types.FieldVal {
			base, w := in.evalBase(fr, x.X)
			v, _ := fWalkFields(base, sel.Recv(), sel.Index())
			return v, w
		}
	case *ast.StarExpr:
		v, w := in.evalBase(fr, x.X)
		if p, ok := v.(*fPtr); ok {
			return p.slot.v, w
		}
		return v, w
	}
	return in.eval(fr, e), false
}

func (in *fInterp) assign(fr *fFrame, lhs ast.Expr, v fVal, define bool) {
	lhs = ast.Unparen(lhs)
	if id, ok := lhs.(*ast.Ident); ok {
		if id.Name == "_" {
			return
		}
		if define {
			if o := fr.info.Defs[id]; o != nil {
				fr.env[o] = &fSlot{v}
				return
			}
		}
	}
	if st, ok := lhs.(*ast.StarExpr); ok {
		if o, ok := in.eval(fr, st.X).(*fObj); ok && o != nil {
			// *p = v for a struct: replace (or join) the content of the object
			src, _ := v.(*fObj)
			if src == nil {
				fUnify(o, v)
				if src != nil && src.src {
					o.src = true
				}
				return
			}
			o.src = src.src
			o.fields = map[*types.Var]*fSlot{}
			for f, s := range src.fields {
				o.fields[f] = &fSlot{s.v}
			}
			return
		}
	}
	s, weak := in.lvalue(fr, lhs)
	if s == nil {
		return
	}
	in.store(fr, s, v, weak)
}

func (in *fInterp) eval(fr *fFrame, e ast.Expr) fVal {
	switch x := e.(type) {
	case nil:
		return nil
	case *ast.ParenExpr:
		return in.eval(fr, x.X)
	case *ast.Ident:
		o := fr.info.ObjectOf(x)
		if v, ok := o.(*types.Var); ok {
			return in.slotOf(fr, v).v
		}
		return nil
	case *ast.BasicLit:
		return nil
	case *ast.FuncLit:
		in.note(x.Pos(), "function literal is not interpreted")
		return nil
	case *ast.StarExpr:
		switch p := in.eval(fr, x.X).(type) {
		case *fPtr:
			return p.slot.v
		case *fObj:
			return p
		}
		return nil
	case *ast.UnaryExpr:
		if x.Op == token.AND {
			if _, ok := ast.Unparen(x.X).(*ast.CompositeLit); ok {
				return in.eval(fr, x.X)
			}
			s, _ := in.lvalue(fr, x.X)
			if s == nil {
				return nil
			}
			if o, ok := s.v.(*fObj); ok {
				return o
			}
			return &fPtr{s}
		}
		in.eval(fr, x.X)
		return nil
	case *ast.BinaryExpr:
		in.eval(fr, x.X)
		in.eval(fr, x.Y)
		return nil
	case *ast.KeyValueExpr:
		return in.eval(fr, x.Value)
	case *ast.SelectorExpr:
		sel := fr.info.Selections[x]
		if sel == nil {
			if o, ok := fr.info.Uses[x.Sel].(*types.Var); ok {
				return in.slotOf(fr, o).v
			}
			return nil
		}
		if sel.Kind() != types.FieldVal {
			in.eval(fr, x.X)
			return nil
		}
		base, _ := in.evalBase(fr, x.X)
		v, _ := fWalkFields(base, sel.Recv(), sel.Index())
		return v
	case *ast.IndexExpr:
		xt := in.typeOf(fr, x.X)
		if xt != nil {
			if _, ok := xt.Underlying().(*types.Signature); ok {
				return nil // generic instantiation
			}
		}
		base := in.eval(fr, x.X)
		in.eval(fr, x.Index)
		switch b := base.(type) {
		case *fArr:
			return b.elemSlot(in.typeOf(fr, e)).v
		case *fObj:
			if b.src {
				return fSrcVal(in.typeOf(fr, e))
			}
		}
		return nil
	case *ast.SliceExpr:
		v := in.eval(fr, x.X)
		in.eval(fr, x.Low)
		in.eval(fr, x.High)
		in.eval(fr, x.Max)
		if p, ok := v.(*fPtr); ok { // slicing a pointer to an array
			return p.slot.v
		}
		return v
	case *ast.TypeAssertExpr:
		return in.eval(fr, x.X)
	case *ast.CompositeLit:
		return in.evalLit(fr, x)
	case *ast.CallExpr:
		rs := in.evalCall(fr, x)
		if len(rs) > 0 {
			return rs[0]
		}
		return nil
	}
	return nil
}

func (in *fInterp) evalLit(fr *fFrame, x *ast.CompositeLit) fVal {
	t := in.typeOf(fr, x)
	if t == nil {
		return nil
	}
	if p, ok := t.Underlying().(*types.Pointer); ok {
		t = p.Elem()
	}
	switch u := t.Underlying().(type) {
	case *types.Struct:
		o := &fObj{fields: map[*types.Var]*fSlot{}}
		for i, el := range x.Elts {
			if kv, ok := el.(*ast.KeyValueExpr); ok {
				if id, ok := kv.Key.(*ast.Ident); ok {
					if f, ok := fr.info.ObjectOf(id).(*types.Var); ok {
						o.fields[f] = &fSlot{in.rvalue(fr, kv.Value)}
					}
				}
			} else if i < u.NumFields() {
				o.fields[u.Field(i)] = &fSlot{in.rvalue(fr, el)}
			}
		}
		return o
	case *types.Slice, *types.Array:
		a := &fArr{}
		var et types.Type
		if s, ok := u.(*types.Slice); ok {
			et = s.Elem()
		} else {
			et = u.(*types.Array).Elem()
		}
		for _, el := range x.Elts {
			if kv, ok := el.(*ast.KeyValueExpr); ok {
				el = kv.Value
			}
			es := a.elemSlot(et)
			es.v = fUnify(es.v, in.rvalue(fr, el))
		}
		return a
	}
	for _, el := range x.Elts {
		in.eval(fr, el)
	}
	return nil
}

func fResultTypes(sig *types.Signature) []types.Type {
	var ts []types.Type
	for i := 0; i < sig.Results().Len(); i++ {
		ts = append(ts, sig.Results().At(i).Type())
	}
	return ts
}

// unknownCall models a call whose body is not available: reference-typed results are taken
// to share storage with the source.
func (in *fInterp) unknownCall(fr *fFrame, call *ast.CallExpr, why string) []fVal {
	var out []fVal
	t := in.typeOf(fr, call)
	var ts []types.Type
	if tup, ok := t.(*types.Tuple); ok {
		for i := 0; i < tup.Len(); i++ {
			ts = append(ts, tup.At(i).Type())
		}
	} else if t != nil {
		ts = []types.Type{t}
	}
	for _, rt := range ts {
		if types.Identical(rt, types.Universe.Lookup("error").Type()) {
			out = append(out, nil)
		} else if fHasRefs(rt, map[types.Type]bool{}) {
			in.note(call.Pos(), "%s: result of %s is taken to share storage with the source", why, types.ExprString(call.Fun))
			out = append(out, fSrcVal(rt))
		} else {
			out = append(out, nil)
		}
	}
	return out
}

func (in *fInterp) evalCall(fr *fFrame, call *ast.CallExpr) []fVal {
	info := fr.info
	// conversion
	if tv, ok := info.Types[call.Fun]; ok && tv.IsType() {
		if len(call.Args) == 1 {
			return []fVal{in.rvalue(fr, call.Args[0])}
		}
		return []fVal{nil}
	}
	// builtins
	if id, ok := ast.Unparen(call.Fun).(*ast.Ident); ok {
		if b, ok := info.Uses[id].(*types.Builtin); ok {
			return []fVal{in.evalBuiltin(fr, call, b.Name())}
		}
	}
	fn := calleeFunc(info, call)
	if fn != nil && fn.Pkg() != nil && fn.Pkg().Path() == "slices" && fn.Name() == "Clone" && len(call.Args) == 1 {
		src, _ := in.eval(fr, call.Args[0]).(*fArr)
		n := &fArr{}
		if src != nil {
			var et types.Type
			if s, ok := in.typeOf(fr, call.Args[0]).Underlying().(*types.Slice); ok {
				et = s.Elem()
			}
			n.elem = &fSlot{fCopyStruct(src.elemSlot(et).v, et)}
		}
		return []fVal{n}
	}
	// receiver and arguments
	var recv fVal
	var recvExpr ast.Expr
	if se, ok := ast.Unparen(call.Fun).(*ast.SelectorExpr); ok {
		if sel := info.Selections[se]; sel != nil && sel.Kind() == types.MethodVal {
			recvExpr = se.X
		}
	}
	if fn != nil && recvExpr != nil {
		recv = in.bindRecv(fr, ast.Unparen(call.Fun).(*ast.SelectorExpr), fn)
	} else if recvExpr != nil {
		recv = in.eval(fr, recvExpr)
	} else if fn == nil {
		in.eval(fr, call.Fun)
	}
	args := make([]fVal, len(call.Args))
	for i, a := range call.Args {
		args[i] = in.rvalue(fr, a)
	}
	if fn == nil {
		return in.unknownCall(fr, call, "dynamic call")
	}
	sig := fn.Type().(*types.Signature)
	if in.contract != nil {
		switch in.contract(fn) {
		case fContractClone:
			var out []fVal
			for _, rt := range fResultTypes(sig) {
				out = append(out, fFreshVal(rt))
			}
			return out
		case fContractMerge:
			return make([]fVal, sig.Results().Len())
		}
	}
	decl, dp := in.c.Decl(fn)
	if decl == nil || decl.Body == nil {
		if len(fResultTypes(sig)) == 0 {
			return nil
		}
		return in.unknownCall(fr, call, "call without a body in the module")
	}
	for _, s := range in.stack {
		if s == fn.Origin() {
			return in.unknownCall(fr, call, "recursive call")
		}
	}
	if len(in.stack) >= in.maxDepth {
		return in.unknownCall(fr, call, "call depth bound reached")
	}
	callee := &fFrame{pkg: dp, info: dp.TypesInfo, env: map[types.Object]*fSlot{}}
	if decl.Recv != nil && len(decl.Recv.List) > 0 && len(decl.Recv.List[0].Names) > 0 {
		if o := dp.TypesInfo.Defs[decl.Recv.List[0].Names[0]]; o != nil {
			callee.env[o] = &fSlot{recv}
		}
	}
	k := 0
	nparams := sig.Params().Len()
	for _, fld := range decl.Type.Params.List {
		names := fld.Names
		if len(names) == 0 {
			k++
			continue
		}
		for _, nm := range names {
			o := dp.TypesInfo.Defs[nm]
			var v fVal
			if sig.Variadic() && k == nparams-1 && !call.Ellipsis.IsValid() {
				a := &fArr{}
				for j := k; j < len(args); j++ {
					es := a.elemSlot(nil)
					es.v = fUnify(es.v, args[j])
				}
				v = a
			} else if k < len(args) {
				v = args[k]
			}
			if o != nil {
				callee.env[o] = &fSlot{v}
			}
			k++
		}
	}
	// named results start fresh
	if decl.Type.Results != nil {
		for _, fld := range decl.Type.Results.List {
			for _, nm := range fld.Names {
				if o := dp.TypesInfo.Defs[nm]; o != nil {
					callee.env[o] = &fSlot{fFreshVal(o.Type())}
					callee.named = append(callee.named, o)
				}
			}
		}
	}
	in.stack = append(in.stack, fn.Origin())
	in.frames = append(in.frames, callee)
	in.ctxs = append(in.ctxs, nil)
	if !in.execBlock(callee, decl.Body.List) {
		in.recordExit(callee, in.namedResults(callee))
	}
	in.ctxs = in.ctxs[:len(in.ctxs)-1]
	in.frames = in.frames[:len(in.frames)-1]
	in.stack = in.stack[:len(in.stack)-1]
	return in.joinResults(callee, sig.Results().Len())
}

func (in *fInterp) joinResults(fr *fFrame, n int) []fVal {
	out := make([]fVal, n)
	for _, r := range fr.results {
		for i := 0; i < n && i < len(r); i++ {
			out[i] = fUnify(out[i], r[i])
		}
	}
	return out
}

// bindRecv evaluates the receiver of a static method call the way the callee sees it.
func (in *fInterp) bindRecv(fr *fFrame, se *ast.SelectorExpr, fn *types.Func) fVal {
	sel := fr.info.Selections[se]
	sig := fn.Type().(*types.Signature)
	idx := sel.Index()
	path := idx[:len(idx)-1]
	_, ptrRecv := sig.Recv().Type().(*types.Pointer)
	if _, isIface := sig.Recv().Type().Underlying().(*types.Interface); isIface {
		return in.eval(fr, se.X)
	}
	base, _ := in.evalBase(fr, se.X)
	var slot *fSlot
	v := base
	if len(path) > 0 {
		v, slot = fWalkFields(base, sel.Recv(), path)
	} else if s, _ := in.lvalueQuiet(fr, se.X); s != nil {
		slot = s
	}
	if p, ok := v.(*fPtr); ok {
		if ptrRecv {
			return p
		}
		return p.slot.v
	}
	if o, ok := v.(*fObj); ok {
		if ptrRecv {
			return o
		}
		// value receiver: copy unless the operand is itself a pointer (auto-deref copy)
		rt := sig.Recv().Type()
		return fCopyStruct(o, rt)
	}
	if ptrRecv {
		if slot != nil {
			return &fPtr{slot}
		}
		return &fPtr{&fSlot{v}}
	}
	return v
}

// lvalueQuiet resolves a location for plain variables and fields only.
func (in *fInterp) lvalueQuiet(fr *fFrame, e ast.Expr) (*fSlot, bool) {
	switch x := ast.Unparen(e).(type) {
	case *ast.Ident, *ast.SelectorExpr, *ast.IndexExpr:
		return in.lvalue(fr, x)
	}
	return nil, false
}

// namedResults reads the named result variables of the frame's function (naked return).
func (in *fInterp) namedResults(fr *fFrame) []fVal {
	var vals []fVal
	for _, o := range fr.named {
		vals = append(vals, in.slotOf(fr, o).v)
	}
	return vals
}

func (in *fInterp) evalBuiltin(fr *fFrame, call *ast.CallExpr, name string) fVal {
	switch name {
	case "make":
		for _, a := range call.Args[1:] {
			in.eval(fr, a)
		}
		return fFreshVal(in.typeOf(fr, call))
	case "new":
		return fFreshVal(in.typeOf(fr, call))
	case "append":
		if len(call.Args) == 0 {
			return nil
		}
		var et types.Type
		if s, ok := in.typeOf(fr, call).Underlying().(*types.Slice); ok {
			et = s.Elem()
		}
		a, _ := in.eval(fr, call.Args[0]).(*fArr)
		if a == nil {
			a = &fArr{}
		}
		for i, arg := range call.Args[1:] {
			if call.Ellipsis.IsValid() && i == len(call.Args)-2 {
				if ys, ok := in.eval(fr, arg).(*fArr); ok && ys != nil {
					es := a.elemSlot(et)
					es.v = fUnify(es.v, fCopyStruct(ys.elemSlot(et).v, et))
				}
				continue
			}
			es := a.elemSlot(et)
			es.v = fUnify(es.v, in.rvalue(fr, arg))
		}
		return a.find()
	case "copy":
		if len(call.Args) == 2 {
			dst, _ := in.eval(fr, call.Args[0]).(*fArr)
			src, _ := in.eval(fr, call.Args[1]).(*fArr)
			if dst != nil && src != nil {
				var et types.Type
				if s, ok := in.typeOf(fr, call.Args[0]).Underlying().(*types.Slice); ok {
					et = s.Elem()
				}
				es := dst.elemSlot(et)
				es.v = fUnify(es.v, fCopyStruct(src.elemSlot(et).v, et))
			}
		}
		return nil
	default:
		for _, a := range call.Args {
			in.eval(fr, a)
		}
		return nil
	}
}

// ---- control flow: states are forked at branches and joined afterwards

func (in *fInterp) takeEnvs() fEnvs {
	out := make(fEnvs, len(in.frames))
	for i, fr := range in.frames {
		out[i] = fr.env
	}
	return out
}

func (in *fInterp) setEnvs(e fEnvs) {
	for i, fr := range in.frames {
		if i < len(e) {
			fr.env = e[i]
		}
	}
}

func (in *fInterp) saveEnvs() fEnvs { return fCopyEnvs(in.takeEnvs()) }

// joinLive installs the join of the given states (none: the caller treats the construct as
// having left the function).
func (in *fInterp) joinLive(states []fEnvs) bool {
	if len(states) == 0 {
		return false
	}
	cur := states[0]
	for _, s := range states[1:] {
		cur = fJoinEnvs(cur, s)
	}
	in.setEnvs(cur)
	return true
}

// fBranchCtx collects the states that leave a loop or switch through break/continue.
type fBranchCtx struct {
	label  string
	loop   bool
	breaks []fEnvs
	conts  []fEnvs
}

func (in *fInterp) pushCtx(loop bool) *fBranchCtx {
	ctx := &fBranchCtx{label: in.pendingLabel, loop: loop}
	in.pendingLabel = ""
	in.ctxs = append(in.ctxs, ctx)
	return ctx
}

func (in *fInterp) popCtx() { in.ctxs = in.ctxs[:len(in.ctxs)-1] }

func (in *fInterp) findCtx(label string, needLoop bool) *fBranchCtx {
	for i := len(in.ctxs) - 1; i >= 0; i-- {
		c := in.ctxs[i]
		if c == nil {
			return nil // function boundary
		}
		if label != "" {
			if c.label == label {
				return c
			}
			continue
		}
		if !needLoop || c.loop {
			return c
		}
	}
	return nil
}

// execBlock runs statements in order; it returns true when control cannot fall out of the
// end of the block (return, a call that never returns, break, continue).
func (in *fInterp) execBlock(fr *fFrame, list []ast.Stmt) bool {
	for _, s := range list {
		if in.exec(fr, s) {
			return true
		}
	}
	return false
}

// loop runs a loop body to a small fixed point: the state at the loop head is joined with
// the states that reach the end of the body, three times.
func (in *fInterp) loop(fr *fFrame, head func(), body []ast.Stmt, post ast.Stmt) {
	var exits []fEnvs
	for i := 0; i < 3; i++ {
		pre := in.saveEnvs()
		exits = append(exits, pre) // the loop may stop here
		ctx := in.pushCtx(true)
		if head != nil {
			head()
		}
		term := in.execBlock(fr, body)
		in.popCtx()
		ends := ctx.conts
		if !term {
			ends = append(ends, in.takeEnvs())
		}
		exits = append(exits, ctx.breaks...)
		if len(ends) == 0 {
			in.setEnvs(fCopyEnvs(pre))
			break
		}
		in.joinLive(ends)
		if post != nil {
			in.exec(fr, post)
		}
		in.joinLive([]fEnvs{fCopyEnvs(pre), in.takeEnvs()})
	}
	exits = append(exits, in.takeEnvs())
	in.joinLive(exits)
}

func (in *fInterp) exec(fr *fFrame, s ast.Stmt) bool {
	switch x := s.(type) {
	case nil, *ast.EmptyStmt:
		return false
	case *ast.BlockStmt:
		return in.execBlock(fr, x.List)
	case *ast.ExprStmt:
		if call, ok := ast.Unparen(x.X).(*ast.CallExpr); ok && noReturn(fr.info, call) {
			return true
		}
		in.eval(fr, x.X)
	case *ast.AssignStmt:
		define := x.Tok == token.DEFINE
		if len(x.Lhs) == len(x.Rhs) {
			vals := make([]fVal, len(x.Rhs))
			for i, r := range x.Rhs {
				vals[i] = in.rvalue(fr, r)
			}
			for i, l := range x.Lhs {
				if x.Tok != token.ASSIGN && x.Tok != token.DEFINE {
					in.eval(fr, l) // op=: numeric or string, nothing to track
					continue
				}
				in.assign(fr, l, vals[i], define)
			}
		} else if len(x.Rhs) == 1 {
			var vals []fVal
			if call, ok := ast.Unparen(x.Rhs[0]).(*ast.CallExpr); ok {
				vals = in.evalCall(fr, call)
			} else {
				vals = []fVal{in.rvalue(fr, x.Rhs[0])}
			}
			for i, l := range x.Lhs {
				var v fVal
				if i < len(vals) {
					v = vals[i]
				}
				in.assign(fr, l, v, define)
			}
		}
	case *ast.IncDecStmt:
		in.eval(fr, x.X)
	case *ast.DeclStmt:
		if gd, ok := x.Decl.(*ast.GenDecl); ok && gd.Tok == token.VAR {
			for _, sp := range gd.Specs {
				vs := sp.(*ast.ValueSpec)
				var multi []fVal
				if len(vs.Values) == 1 && len(vs.Names) > 1 {
					if call, ok := ast.Unparen(vs.Values[0]).(*ast.CallExpr); ok {
						multi = in.evalCall(fr, call)
					}
				}
				for i, nm := range vs.Names {
					o := fr.info.Defs[nm]
					if o == nil {
						continue
					}
					var v fVal
					switch {
					case multi != nil && i < len(multi):
						v = multi[i]
					case i < len(vs.Values):
						v = in.rvalue(fr, vs.Values[i])
					default:
						v = fFreshVal(o.Type())
					}
					fr.env[o] = &fSlot{v}
				}
			}
		}
	case *ast.ReturnStmt:
		var vals []fVal
		if len(x.Results) == 1 {
			if call, ok := ast.Unparen(x.Results[0]).(*ast.CallExpr); ok {
				vals = in.evalCall(fr, call)
				if len(vals) == 1 {
					vals[0] = fCopyStruct(vals[0], in.typeOf(fr, x.Results[0]))
				}
			}
		}
		if vals == nil {
			for _, r := range x.Results {
				vals = append(vals, in.rvalue(fr, r))
			}
		}
		if len(x.Results) == 0 {
			vals = in.namedResults(fr)
		}
		in.recordExit(fr, vals)
		return true
	case *ast.IfStmt:
		in.exec(fr, x.Init)
		in.eval(fr, x.Cond)
		pre := in.saveEnvs()
		var live []fEnvs
		if !in.execBlock(fr, x.Body.List) {
			live = append(live, in.takeEnvs())
		}
		in.setEnvs(pre)
		if x.Else == nil || !in.exec(fr, x.Else) {
			live = append(live, in.takeEnvs())
		}
		return !in.joinLive(live)
	case *ast.ForStmt:
		in.exec(fr, x.Init)
		in.loop(fr, func() { in.eval(fr, x.Cond) }, x.Body.List, x.Post)
	case *ast.RangeStmt:
		define := x.Tok == token.DEFINE
		in.eval(fr, x.X)
		in.loop(fr, func() {
			xv := in.eval(fr, x.X) // re-evaluated in the current state (no side effects of interest)
			if x.Key != nil {
				var kv fVal
				if o, ok := xv.(*fObj); ok && o != nil && o.src { // map of the source
					kv = fSrcVal(in.typeOf(fr, x.Key))
				}
				in.assignRangeVar(fr, x.Key, kv, define)
			}
			if x.Value != nil {
				var ev fVal
				vt := in.typeOf(fr, x.Value)
				switch b := xv.(type) {
				case *fArr:
					ev = fCopyStruct(b.elemSlot(vt).v, vt)
				case *fPtr:
					if a, ok := b.slot.v.(*fArr); ok {
						ev = fCopyStruct(a.elemSlot(vt).v, vt)
					}
				case *fObj:
					if b.src {
						ev = fSrcVal(vt)
					}
				}
				in.assignRangeVar(fr, x.Value, ev, define)
			}
		}, x.Body.List, nil)
	case *ast.SwitchStmt, *ast.TypeSwitchStmt:
		var body *ast.BlockStmt
		var bound ast.Expr // operand of the type switch
		if sw, ok := x.(*ast.SwitchStmt); ok {
			in.exec(fr, sw.Init)
			in.eval(fr, sw.Tag)
			body = sw.Body
		} else {
			ts := x.(*ast.TypeSwitchStmt)
			in.exec(fr, ts.Init)
			switch a := ts.Assign.(type) {
			case *ast.AssignStmt:
				if ta, ok := ast.Unparen(a.Rhs[0]).(*ast.TypeAssertExpr); ok {
					bound = ta.X
				}
			case *ast.ExprStmt:
				if ta, ok := ast.Unparen(a.X).(*ast.TypeAssertExpr); ok {
					bound = ta.X
				}
			}
			body = ts.Body
		}
		pre := in.saveEnvs()
		ctx := in.pushCtx(false)
		var live []fEnvs
		hasDefault := false
		for _, cl := range body.List {
			cc := cl.(*ast.CaseClause)
			if cc.List == nil {
				hasDefault = true
			}
			in.setEnvs(fCopyEnvs(pre))
			for _, e := range cc.List {
				if tv, ok := fr.info.Types[e]; !ok || !tv.IsType() {
					in.eval(fr, e)
				}
			}
			if o := fr.info.Implicits[cl]; o != nil {
				fr.env[o] = &fSlot{in.eval(fr, bound)}
			}
			if !in.execBlock(fr, cc.Body) {
				live = append(live, in.takeEnvs())
			}
		}
		in.popCtx()
		live = append(live, ctx.breaks...)
		if !hasDefault {
			live = append(live, pre)
		}
		return !in.joinLive(live)
	case *ast.LabeledStmt:
		in.pendingLabel = x.Label.Name
		t := in.exec(fr, x.Stmt)
		in.pendingLabel = ""
		return t
	case *ast.BranchStmt:
		label := ""
		if x.Label != nil {
			label = x.Label.Name
		}
		switch x.Tok {
		case token.BREAK:
			if ctx := in.findCtx(label, false); ctx != nil {
				ctx.breaks = append(ctx.breaks, in.saveEnvs())
				return true
			}
			in.note(x.Pos(), "break without an enclosing statement is not interpreted")
		case token.CONTINUE:
			if ctx := in.findCtx(label, true); ctx != nil {
				ctx.conts = append(ctx.conts, in.saveEnvs())
				return true
			}
			in.note(x.Pos(), "continue without an enclosing loop is not interpreted")
		case token.GOTO:
			in.note(x.Pos(), "goto is not interpreted")
		case token.FALLTHROUGH:
			in.note(x.Pos(), "fallthrough is not interpreted")
		}
	case *ast.GoStmt:
		in.note(x.Pos(), "go statement is not interpreted")
	case *ast.DeferStmt:
		in.note(x.Pos(), "defer statement is not interpreted")
	case *ast.SelectStmt:
		in.note(x.Pos(), "select statement is not interpreted")
	case *ast.SendStmt:
		in.eval(fr, x.Value)
	}
	return false
}

func (in *fInterp) assignRangeVar(fr *fFrame, e ast.Expr, v fVal, define bool) {
	if id, ok := e.(*ast.Ident); ok && define {
		if id.Name == "_" {
			return
		}
		if o := fr.info.Defs[id]; o != nil {
			fr.env[o] = &fSlot{v}
			return
		}
	}
	in.assign(fr, e, v, false)
}

func (in *fInterp) recordExit(fr *fFrame, vals []fVal) {
	if fr.top {
		cp := fNewCopier()
		snap := make([]fVal, 0, len(vals)+1)
		for _, v := range vals {
			snap = append(snap, cp.val(v))
		}
		// the receiver as it is at this exit (for in-place merges) goes last
		if fr.recv != nil {
			snap = append(snap, cp.val(in.slotOf(fr, fr.recv).v))
		}
		fr.results = append(fr.results, snap)
		return
	}
	fr.results = append(fr.results, vals)
}

// fAnalyse interprets one declaration. source lists the objects (receiver/parameters) whose
// storage is the source; every other parameter and the receiver own fresh storage. It
// returns the joined results (one per declared result, then the receiver at exit).
func (in *fInterp) analyse(p *packages.Package, fd *ast.FuncDecl, isSource func(o types.Object, isRecv bool) bool) []fVal {
	info := p.TypesInfo
	fr := &fFrame{pkg: p, info: info, env: map[types.Object]*fSlot{}, top: true}
	if fd.Recv != nil && len(fd.Recv.List) > 0 && len(fd.Recv.List[0].Names) > 0 {
		if o := info.Defs[fd.Recv.List[0].Names[0]]; o != nil {
			fr.recv = o
			if isSource(o, true) {
				fr.env[o] = &fSlot{fSrcVal(o.Type())}
			} else {
				fr.env[o] = &fSlot{fFreshVal(o.Type())}
			}
		}
	}
	for _, fld := range fd.Type.Params.List {
		for _, nm := range fld.Names {
			if o := info.Defs[nm]; o != nil {
				if isSource(o, false) {
					fr.env[o] = &fSlot{fSrcVal(o.Type())}
				} else {
					fr.env[o] = &fSlot{fFreshVal(o.Type())}
				}
			}
		}
	}
	nres := 0
	if fd.Type.Results != nil {
		for _, fld := range fd.Type.Results.List {
			if len(fld.Names) == 0 {
				nres++
			}
			for _, nm := range fld.Names {
				nres++
				if o := info.Defs[nm]; o != nil {
					fr.env[o] = &fSlot{fFreshVal(o.Type())}
					fr.named = append(fr.named, o)
				}
			}
		}
	}
	if f, ok := info.Defs[fd.Name].(*types.Func); ok {
		in.stack = append(in.stack, f.Origin())
		defer func() { in.stack = in.stack[:len(in.stack)-1] }()
	}
	in.frames = []*fFrame{fr}
	in.ctxs = nil
	if !in.execBlock(fr, fd.Body.List) {
		// falling off the end (or a naked path): record the named results and the receiver
		vals := in.namedResults(fr)
		for len(vals) < nres {
			vals = append(vals, nil)
		}
		in.recordExit(fr, vals)
	}
	n := nres
	if fr.recv != nil {
		n++
	}
	return in.joinResults(fr, n)
}

// fSortedStrings returns a sorted copy without duplicates.
func fSortedStrings(in []string) []string {
	m := map[string]bool{}
	for _, s := range in {
		m[s] = true
	}
	var out []string
	for s := range m {
		out = append(out, s)
	}
	sort.Strings(out)
	return out
}

func fJoin(ss []string) string { return strings.Join(ss, "; ") }
