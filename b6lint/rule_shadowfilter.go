package main

import (
	"fmt"
	"go/ast"
	"go/token"
	"go/types"

	"golang.org/x/tools/go/cfg"
	"golang.org/x/tools/go/packages"
)

// SHADOW-FILTER (C15, C16): in a layered world (struct whose pointer implements b6.World, field
// `base` of type b6.World, upper layer = another field implementing b6.FeaturesByID) a query that
// combines results of the base with results of the upper layer must drop every base result whose
// ID exists in the upper layer.
//
// Instances: every call, inside a method of such a type, of a result-set query of b6.World (a
// method of the interface b6.World returning an iterator — an interface with Next() bool — or
// taking a callback) on `recv.base`, or on the variable of a `range []b6.World{recv.base, ...}`
// loop. The class of the instance comes from the signature of the query (not from its name):
//
//	search (takes a b6.Query) and enumeration (takes a callback)            -> C16
//	referrer queries (take a FeatureID, iterator has Feature()) of a world
//	that implements ingest.MutableWorld                                    -> C15
//	everything else (referrer queries of read-only OverlayWorld, Traverse) -> Info only
//
// Accepted ways to drop shadowed base results (anything else is a violation when base results can
// reach a use unguarded, undecided when the consumption has an unknown shape):
//  1. loop `it := base.Q(..); for it.Next() { ... }`: inside the body every use of a value rooted
//     at `it` (or at a local defined from it) is reachable only through the "absent" edge of a
//     presence test of the upper layer for the base result's FeatureID(): `U.HasFeatureWithID(k)`,
//     `U.FindFeatureByID(k) ==/!= nil` (also via if-init local), `_, ok := (*U)[k]`; on the
//     "present" edge the body may only continue with the next iteration.
//  2. callback `base.Q(func(f b6.Feature, ..) error {...}, ..)` (literal or local bound to a
//     literal): the same inside the literal for its feature parameter.
//  3. merge iterator: the base result (possibly wrapped by methods of the tag-modification type,
//     which keep IDs) and the upper layer are passed to a constructor F(base, ..., filter); F stores
//     them in fields fb, ff of a struct I; in the methods of I every advance `fb.Next()` is followed,
//     on every path to the method's exit on which the base is not exhausted, by a presence test
//     `ff.HasFeatureWithID(<fb.FeatureID()>)` whose "present" edge leads back to another advance.
func init() {
	register(&Rule{
		Name:    "SHADOW-FILTER",
		IR:      "cfg",
		Props:   []string{"C15", "C16"},
		Floor:   5,
		FloorBy: map[string]int{"C15": 1, "C16": 4},
		Doc: "in a layered world every query that unions base results with upper-layer results drops a base result whose ID exists in the upper layer " +
			"(C16: search and enumeration of OverlayWorld and MutableOverlayWorld; C15: referrer queries of MutableOverlayWorld; other unions are informational)",
		Run: runShadowFilter,
	})
}

type eShadowSite struct {
	call   *ast.CallExpr
	q      *types.Func // the b6.World method called
	layers bool        // called on the variable of a range over []b6.World{base, ...}
}

func runShadowFilter(c *Ctx) []Obligation {
	ifs := eLoadIfaces(c)
	if !ifs.ok() {
		return []Obligation{{Key: "b6.World#1", Pos: "-", Status: Undecided, Detail: "interfaces b6.World / b6.FeaturesByID not found"}}
	}
	var out []Obligation
	mergeCache := map[string][2]string{}
	for _, w := range eWorldTypes(c, ifs) {
		if len(w.upper) == 0 {
			continue
		}
		info := w.pkg.TypesInfo
		for _, fd := range eMethods(c, w.pkg, w.named) {
			recv := eRecvObj(info, fd)
			if recv == nil {
				continue
			}
			sites := eShadowSites(info, ifs, w, fd, recv)
			for i, s := range sites {
				ob := Obligation{Key: fmt.Sprintf("%s#%d", c.FuncName(w.pkg, fd), i+1), Pos: c.Position(s.call.Pos())}
				class, prop := eShadowClass(ifs, w, s.q)
				st, detail, path := eShadowDecide(c, ifs, w, fd, recv, s, mergeCache)
				what := fmt.Sprintf("%s query %s on %s", class, s.q.Name(), nodeText(c.Fset, s.call.Fun))
				if prop == "" {
					ob.Status = Info
					if w.mutable {
						ob.Props = []string{"C15"}
					} else {
						ob.Props = []string{"C16"}
					}
					switch st {
					case OK:
						ob.Detail = what + ": shadowed base results are dropped (" + detail + "); outside the statements of C15/C16"
					default:
						ob.Detail = what + ": base results shadowed by the upper layer are not dropped (" + detail + "); outside the statements of C15/C16, informational"
					}
				} else {
					ob.Props = []string{prop}
					ob.Status, ob.Detail, ob.Path = st, what+": "+detail, path
				}
				out = append(out, ob)
			}
		}
	}
	return out
}

// eShadowClass classifies a result-set query by its signature.
func eShadowClass(ifs *eIfaces, w *eWorld, q *types.Func) (string, string) {
	sig := q.Type().(*types.Signature)
	for i := 0; i < sig.Params().Len(); i++ {
		t := sig.Params().At(i).Type()
		if _, ok := t.Underlying().(*types.Signature); ok {
			return "enumeration", "C16"
		}
		if n := namedOf(t); n != nil && n.Obj().Name() == "Query" && n.Obj().Pkg() != nil && n.Obj().Pkg().Path() == ModulePath {
			return "search", "C16"
		}
	}
	if sig.Results().Len() == 1 {
		ms := types.NewMethodSet(sig.Results().At(0).Type())
		for i := 0; i < ms.Len(); i++ {
			if ms.At(i).Obj().Name() == "Feature" {
				if w.mutable {
					return "referrer", "C15"
				}
				return "referrer", ""
			}
		}
	}
	return "other", ""
}

// eIsResultSetQuery: a b6.World method that returns an iterator or takes a callback.
func eIsResultSetQuery(f *types.Func) bool {
	sig := f.Type().(*types.Signature)
	for i := 0; i < sig.Params().Len(); i++ {
		if _, ok := sig.Params().At(i).Type().Underlying().(*types.Signature); ok {
			return true
		}
	}
	if sig.Results().Len() == 1 {
		if it, ok := sig.Results().At(0).Type().Underlying().(*types.Interface); ok {
			for i := 0; i < it.NumMethods(); i++ {
				m := it.Method(i)
				ms := m.Type().(*types.Signature)
				if ms.Params().Len() == 0 && ms.Results().Len() == 1 && types.Identical(ms.Results().At(0).Type(), types.Typ[types.Bool]) {
					return true
				}
			}
		}
	}
	return false
}

func eShadowSites(info *types.Info, ifs *eIfaces, w *eWorld, fd *ast.FuncDecl, recv types.Object) []eShadowSite {
	// range variables over a literal list of worlds that contains recv.base
	layerVars := map[types.Object]bool{}
	ast.Inspect(fd.Body, func(n ast.Node) bool {
		rs, ok := n.(*ast.RangeStmt)
		if !ok || rs.Value == nil {
			return true
		}
		cl, ok := ast.Unparen(rs.X).(*ast.CompositeLit)
		if !ok {
			return true
		}
		hasBase := false
		for _, el := range cl.Elts {
			if eFieldOf(info, el, recv) == w.base {
				hasBase = true
			}
		}
		if id, ok := rs.Value.(*ast.Ident); ok && hasBase {
			if obj := info.ObjectOf(id); obj != nil {
				layerVars[obj] = true
			}
		}
		return true
	})
	var sites []eShadowSite
	ast.Inspect(fd.Body, func(n ast.Node) bool {
		call, ok := n.(*ast.CallExpr)
		if !ok {
			return true
		}
		sel, ok := ast.Unparen(call.Fun).(*ast.SelectorExpr)
		if !ok {
			return true
		}
		q := calleeFunc(info, call)
		if q == nil || !types.Identical(info.TypeOf(sel.X), ifs.worldNamed) {
			return true
		}
		isWorldMethod := false
		for i := 0; i < ifs.world.NumMethods(); i++ {
			if ifs.world.Method(i) == q {
				isWorldMethod = true
			}
		}
		if !isWorldMethod || !eIsResultSetQuery(q) {
			return true
		}
		if eFieldOf(info, sel.X, recv) == w.base {
			sites = append(sites, eShadowSite{call: call, q: q})
		} else if id, ok := ast.Unparen(sel.X).(*ast.Ident); ok && layerVars[info.ObjectOf(id)] {
			sites = append(sites, eShadowSite{call: call, q: q, layers: true})
		}
		return true
	})
	return sites
}

// eInnermostBody returns the body of the innermost function literal of fd that contains n, or
// the body of fd.
func eInnermostBody(fd *ast.FuncDecl, n ast.Node) *ast.BlockStmt {
	body := fd.Body
	for _, x := range enclosing(fd.Body, n) {
		if fl, ok := x.(*ast.FuncLit); ok && x != n {
			body = fl.Body
		}
	}
	return body
}

// eIsTagsWrapper: a call of a method of a type that has the sanitiser WrapFeature (the wrappers
// of the tag-modification type delegate Next/FeatureID unchanged).
func eIsTagsWrapper(info *types.Info, ifs *eIfaces, call *ast.CallExpr) bool {
	f := calleeFunc(info, call)
	if f == nil {
		return false
	}
	sig := f.Type().(*types.Signature)
	return sig.Recv() != nil && eHasWrapFeature(sig.Recv().Type(), ifs) != nil
}

func eShadowDecide(c *Ctx, ifs *eIfaces, w *eWorld, fd *ast.FuncDecl, recv types.Object, s eShadowSite, cache map[string][2]string) (string, string, []string) {
	info := w.pkg.TypesInfo
	isUpper := func(e ast.Expr) bool {
		f := eFieldOf(info, e, recv)
		return f != nil && w.isUpper(f)
	}
	// callback queries
	sig := s.q.Type().(*types.Signature)
	for i := 0; i < sig.Params().Len(); i++ {
		if _, ok := sig.Params().At(i).Type().Underlying().(*types.Signature); !ok || i >= len(s.call.Args) {
			continue
		}
		arg := eResolve(info, fd.Body, s.call.Args[i])
		lit, ok := ast.Unparen(arg).(*ast.FuncLit)
		if !ok {
			return Violation, fmt.Sprintf("base features are handed to %s unfiltered: no test of the upper layer %s", nodeText(c.Fset, s.call.Args[i]), w.upperNames()), nil
		}
		baseVars := map[types.Object]bool{}
		for _, fl := range lit.Type.Params.List {
			for _, nm := range fl.Names {
				if obj := info.Defs[nm]; obj != nil && types.Implements(obj.Type(), ifs.feature) {
					baseVars[obj] = true
				}
			}
		}
		if len(baseVars) == 0 {
			return Undecided, "callback literal without a feature parameter", nil
		}
		g := newCFG(info, lit.Body)
		if len(g.Blocks) == 0 {
			return OK, "empty callback", nil
		}
		if wit := eGuardedUses(c, info, lit.Body, g.Blocks[0], 0, baseVars, isUpper, nil); wit != nil {
			return Violation, fmt.Sprintf("a base feature whose ID exists in the upper layer %s still reaches a use in the callback", w.upperNames()), wit
		}
		return OK, fmt.Sprintf("the callback uses a base feature only after the upper layer %s reports its ID absent", w.upperNames()), nil
	}
	// iterator queries: climb through wrappers to the consumer
	chain := enclosing(fd.Body, s.call)
	var cur ast.Node = s.call
	idx := len(chain) - 2
	for idx >= 0 {
		if _, ok := chain[idx].(*ast.ParenExpr); ok {
			cur = chain[idx]
			idx--
			continue
		}
		pc, ok := chain[idx].(*ast.CallExpr)
		if !ok || !eIsArgOf(pc, cur) || !eIsTagsWrapper(info, ifs, pc) {
			break
		}
		cur = pc
		idx--
	}
	if idx < 0 {
		return Undecided, "base results consumed in an unknown way", nil
	}
	switch parent := chain[idx].(type) {
	case *ast.CallExpr:
		if eIsArgOf(parent, cur) {
			return eMergeCtor(c, ifs, w, info, fd, recv, parent, cur.(ast.Expr), cache)
		}
	case *ast.ReturnStmt:
		return Violation, "base results are returned as they are: upper-layer features are neither merged nor used as a filter", nil
	case *ast.AssignStmt:
		if len(parent.Lhs) == 1 && len(parent.Rhs) == 1 && parent.Rhs[0] == cur {
			if id, ok := parent.Lhs[0].(*ast.Ident); ok {
				if it := info.ObjectOf(id); it != nil {
					return eIteratorVar(c, ifs, w, info, fd, recv, it, parent, isUpper, cache)
				}
			}
		}
	}
	return Undecided, "base results consumed in an unknown way at " + c.Position(chain[idx].Pos()), nil
}

func eIsArgOf(call *ast.CallExpr, n ast.Node) bool {
	for _, a := range call.Args {
		if ast.Node(a) == n {
			return true
		}
	}
	return false
}

// eIteratorVar decides a base result bound to a local iterator variable.
func eIteratorVar(c *Ctx, ifs *eIfaces, w *eWorld, info *types.Info, fd *ast.FuncDecl, recv types.Object, it types.Object, def *ast.AssignStmt, isUpper func(ast.Expr) bool, cache map[string][2]string) (string, string, []string) {
	body := eInnermostBody(fd, def)
	// the loop `for it.Next() {...}`
	var loop *ast.ForStmt
	var other ast.Node
	isAdvance := func(e ast.Expr) bool {
		call, ok := ast.Unparen(e).(*ast.CallExpr)
		if !ok || len(call.Args) != 0 {
			return false
		}
		sel, ok := ast.Unparen(call.Fun).(*ast.SelectorExpr)
		if !ok {
			return false
		}
		id, ok := ast.Unparen(sel.X).(*ast.Ident)
		if !ok || info.ObjectOf(id) != it {
			return false
		}
		return types.Identical(info.TypeOf(call), types.Typ[types.Bool])
	}
	ast.Inspect(body, func(n ast.Node) bool {
		if fs, ok := n.(*ast.ForStmt); ok && fs.Cond != nil && isAdvance(fs.Cond) && loop == nil {
			loop = fs
		}
		return true
	})
	ast.Inspect(body, func(n ast.Node) bool {
		if n == nil {
			return true
		}
		if n == ast.Node(def) {
			return false
		}
		if loop != nil && n == ast.Node(loop) {
			return false
		}
		if id, ok := n.(*ast.Ident); ok && info.ObjectOf(id) == it && other == nil {
			other = id
		}
		return true
	})
	if loop == nil {
		// maybe handed to a merge constructor
		if other != nil {
			chain := enclosing(body, other)
			var cur ast.Node = other
			idx := len(chain) - 2
			for idx >= 0 {
				pc, ok := chain[idx].(*ast.CallExpr)
				if !ok || !eIsArgOf(pc, cur) || !eIsTagsWrapper(info, ifs, pc) {
					break
				}
				cur = pc
				idx--
			}
			if idx >= 0 {
				if pc, ok := chain[idx].(*ast.CallExpr); ok && eIsArgOf(pc, cur) {
					return eMergeCtor(c, ifs, w, info, fd, recv, pc, cur.(ast.Expr), cache)
				}
			}
		}
		return Undecided, "base results are bound to a variable that is neither iterated with for it.Next() nor handed to a merge iterator", nil
	}
	if other != nil {
		return Undecided, fmt.Sprintf("the base iterator is also used outside its loop at %s", c.Position(other.Pos())), nil
	}
	if len(loop.Body.List) == 0 {
		return OK, "the loop over base results has an empty body", nil
	}
	g := newCFG(info, body)
	var loc nodeLoc
	ok := false
	for _, b := range g.Blocks {
		if b.Kind == cfg.KindForBody && b.Stmt == ast.Stmt(loop) {
			loc, ok = nodeLoc{b, 0}, true
		}
	}
	if !ok {
		return Undecided, "loop body not found in the control-flow graph", nil
	}
	stop := func(n ast.Node) bool {
		found := false
		ast.Inspect(n, func(x ast.Node) bool {
			if e, ok := x.(ast.Expr); ok && isAdvance(e) {
				found = true
			}
			return !found
		})
		return found
	}
	baseVars := map[types.Object]bool{it: true}
	if wit := eGuardedUses(c, info, body, loc.b, loc.i, baseVars, isUpper, stop); wit != nil {
		return Violation, fmt.Sprintf("a base result whose ID exists in the upper layer %s is still used in the loop over base results", w.upperNames()), wit
	}
	return OK, fmt.Sprintf("the loop uses a base result only after the upper layer %s reports its ID absent", w.upperNames()), nil
}

// ePresenceAST recognises a presence test of a layer: returns the key looked up and the edge
// taken when the key is present.
func ePresenceAST(info *types.Info, root ast.Node, cond ast.Expr, isLayer func(ast.Expr) bool) (ast.Expr, eFollow, bool) {
	consult := func(e ast.Expr) (ast.Expr, bool) { // layer.M(key) or (*layer)[key]
		switch x := ast.Unparen(e).(type) {
		case *ast.CallExpr:
			if sel, ok := ast.Unparen(x.Fun).(*ast.SelectorExpr); ok && isLayer(sel.X) && len(x.Args) == 1 {
				return x.Args[0], true
			}
		case *ast.IndexExpr:
			if isLayer(x.X) {
				return x.Index, true
			}
		}
		return nil, false
	}
	cond = ast.Unparen(cond)
	switch x := cond.(type) {
	case *ast.CallExpr:
		if k, ok := consult(x); ok && types.Identical(info.TypeOf(x), types.Typ[types.Bool]) {
			return k, eTrueOnly, true
		}
	case *ast.BinaryExpr:
		if x.Op != token.EQL && x.Op != token.NEQ {
			return nil, eBoth, false
		}
		isNil := func(e ast.Expr) bool {
			id, ok := ast.Unparen(e).(*ast.Ident)
			if !ok {
				return false
			}
			_, isnil := info.Uses[id].(*types.Nil)
			return isnil
		}
		var other ast.Expr
		if isNil(x.Y) {
			other = x.X
		} else if isNil(x.X) {
			other = x.Y
		}
		if other == nil {
			return nil, eBoth, false
		}
		if t := info.TypeOf(other); t != nil && types.Identical(t, types.Universe.Lookup("error").Type()) {
			return nil, eBoth, false
		}
		var key ast.Expr
		if k, ok := consult(other); ok {
			key = k
		} else if id, ok := ast.Unparen(other).(*ast.Ident); ok {
			if d := eSingleDef(info, root, info.ObjectOf(id)); d != nil && d.index == 0 {
				if k, ok := consult(d.rhs); ok {
					key = k
				}
			}
		}
		if key == nil {
			return nil, eBoth, false
		}
		if x.Op == token.NEQ {
			return key, eTrueOnly, true
		}
		return key, eFalseOnly, true
	case *ast.Ident:
		if d := eSingleDef(info, root, info.ObjectOf(x)); d != nil && d.n == 2 && d.index == 1 {
			if k, ok := consult(d.rhs); ok {
				return k, eTrueOnly, true
			}
		}
	}
	return nil, eBoth, false
}

// eGuardedUses searches from (b, i) for a use of a base result that is reachable without passing
// the "absent" edge of a presence test of the upper layer for that result's ID. stop(n) ends a
// path (next iteration). It returns a witness path or nil.
func eGuardedUses(c *Ctx, info *types.Info, root ast.Node, b0 *cfg.Block, i0 int, baseVars map[types.Object]bool, isUpper func(ast.Expr) bool, stop func(ast.Node) bool) []string {
	// aliases: locals defined from expressions rooted at a base variable
	for changed := true; changed; {
		changed = false
		ast.Inspect(root, func(n ast.Node) bool {
			as, ok := n.(*ast.AssignStmt)
			if !ok || as.Tok != token.DEFINE || len(as.Lhs) != len(as.Rhs) {
				return true
			}
			for k, r := range as.Rhs {
				rid := eRootIdent(r)
				if rid == nil || !baseVars[info.ObjectOf(rid)] {
					continue
				}
				if id, ok := as.Lhs[k].(*ast.Ident); ok {
					if obj := info.ObjectOf(id); obj != nil && !baseVars[obj] {
						baseVars[obj] = true
						changed = true
					}
				}
			}
			return true
		})
	}
	rootedAtBase := func(e ast.Expr) bool {
		id := eRootIdent(e)
		return id != nil && baseVars[info.ObjectOf(id)]
	}
	isAlias := func(n ast.Node) bool {
		as, ok := n.(*ast.AssignStmt)
		if !ok || as.Tok != token.DEFINE || len(as.Lhs) != len(as.Rhs) {
			return false
		}
		for _, r := range as.Rhs {
			if !rootedAtBase(r) {
				return false
			}
		}
		return true
	}
	// uses: a mention of a base variable outside the key of an upper-layer consultation
	uses := func(n ast.Node) bool {
		found := false
		ast.Inspect(n, func(x ast.Node) bool {
			if found {
				return false
			}
			switch y := x.(type) {
			case *ast.FuncLit:
				return true
			case *ast.CallExpr:
				if sel, ok := ast.Unparen(y.Fun).(*ast.SelectorExpr); ok && isUpper(sel.X) {
					return false
				}
			case *ast.IndexExpr:
				if isUpper(y.X) {
					return false
				}
			case *ast.Ident:
				if baseVars[info.ObjectOf(y)] {
					found = true
				}
			}
			return true
		})
		return found
	}
	es := &eEdgeSearch{c: c, info: info}
	es.visit = func(n ast.Node, isCond bool) (bool, eFollow) {
		if stop != nil && stop(n) {
			return false, eNone
		}
		if isCond {
			// assume "present in the upper layer": which way can the condition go?
			v, known := eCondEval(n.(ast.Expr), func(a ast.Expr) (bool, bool) {
				if key, follow, ok := ePresenceAST(info, root, a, isUpper); ok && eIsIDOf(info, root, key, rootedAtBase) {
					return follow == eTrueOnly, true
				}
				return false, false
			})
			return false, eFollowOf(v, known) // reading a base result in a condition is not a use
		}
		if isAlias(n) {
			return false, eBoth
		}
		if uses(n) {
			return true, eBoth
		}
		return false, eBoth
	}
	return es.run(b0, i0)
}

// eIsIDOf: the key is the FeatureID of a base result: a call of a parameterless method returning
// b6.FeatureID on an expression rooted at a base variable.
func eIsIDOf(info *types.Info, root ast.Node, key ast.Expr, rooted func(ast.Expr) bool) bool {
	key = eResolve(info, root, key) // `id := f.FeatureID(); U.Has(id)` is the same as `U.Has(f.FeatureID())`
	call, ok := ast.Unparen(key).(*ast.CallExpr)
	if !ok || len(call.Args) != 0 {
		return false
	}
	sel, ok := ast.Unparen(call.Fun).(*ast.SelectorExpr)
	if !ok || !rooted(sel.X) {
		return false
	}
	return isNamed(info.TypeOf(call), ModulePath, "FeatureID")
}

// eMergeCtor decides idiom 3: base results and the upper layer handed to a merge iterator.
func eMergeCtor(c *Ctx, ifs *eIfaces, w *eWorld, info *types.Info, fd *ast.FuncDecl, recv types.Object, call *ast.CallExpr, baseArg ast.Expr, cache map[string][2]string) (string, string, []string) {
	F := calleeFunc(info, call)
	if F == nil {
		return Undecided, "base results are passed to a dynamic call", nil
	}
	fdecl, fpkg := c.Decl(F)
	if fdecl == nil || fdecl.Body == nil {
		return Undecided, "base results are passed to " + F.FullName() + " which has no source in the module", nil
	}
	bi, fi := -1, -1
	for i, a := range call.Args {
		if ast.Node(a) == ast.Node(baseArg) {
			bi = i
		}
		if f := eFieldOf(info, eResolve(info, fd.Body, a), recv); f != nil && w.isUpper(f) {
			fi = i
		}
	}
	if bi < 0 {
		return Undecided, "argument position of the base results not found", nil
	}
	if fi < 0 {
		return Violation, fmt.Sprintf("base results are merged by %s without the upper layer %s as filter", F.Name(), w.upperNames()), nil
	}
	key := fmt.Sprintf("%s/%d/%d", F.FullName(), bi, fi)
	if r, ok := cache[key]; ok {
		return r[0], r[1], nil
	}
	st, detail := eMergeIterator(c, ifs, fdecl, fpkg, bi, fi)
	cache[key] = [2]string{st, detail}
	return st, detail, nil
}

// eMergeIterator checks the iterator type built by constructor fdecl: parameter bi holds the base
// results, parameter fi the filter.
func eMergeIterator(c *Ctx, ifs *eIfaces, fdecl *ast.FuncDecl, p *packages.Package, bi, fi int) (string, string) {
	info := p.TypesInfo
	var params []types.Object
	for _, fl := range fdecl.Type.Params.List {
		for _, nm := range fl.Names {
			params = append(params, info.Defs[nm])
		}
	}
	if bi >= len(params) || fi >= len(params) {
		return Undecided, "constructor " + fdecl.Name.Name + " has unnamed or variadic parameters"
	}
	var fb, ff *types.Var
	var itype *types.Named
	ast.Inspect(fdecl.Body, func(n ast.Node) bool {
		cl, ok := n.(*ast.CompositeLit)
		if !ok {
			return true
		}
		named := namedOf(info.TypeOf(cl))
		if named == nil {
			return true
		}
		st, ok := named.Underlying().(*types.Struct)
		if !ok {
			return true
		}
		for _, el := range cl.Elts {
			kv, ok := el.(*ast.KeyValueExpr)
			if !ok {
				continue
			}
			kid, ok := kv.Key.(*ast.Ident)
			if !ok {
				continue
			}
			vid, ok := ast.Unparen(kv.Value).(*ast.Ident)
			if !ok {
				continue
			}
			var field *types.Var
			for i := 0; i < st.NumFields(); i++ {
				if st.Field(i).Name() == kid.Name {
					field = st.Field(i)
				}
			}
			switch info.ObjectOf(vid) {
			case params[bi]:
				fb, itype = field, named
			case params[fi]:
				ff = field
			}
		}
		return true
	})
	if fb == nil || ff == nil || itype == nil {
		return Undecided, "constructor " + fdecl.Name.Name + " does not store the base results and the filter in fields of one struct literal"
	}
	advances := 0
	for _, md := range eMethods(c, p, itype) {
		r := eRecvObj(info, md)
		if r == nil {
			continue
		}
		onField := func(e ast.Expr, f *types.Var) bool { return eFieldOf(info, e, r) == f }
		isAdvance := func(e ast.Expr) bool {
			call, ok := ast.Unparen(e).(*ast.CallExpr)
			if !ok || len(call.Args) != 0 {
				return false
			}
			sel, ok := ast.Unparen(call.Fun).(*ast.SelectorExpr)
			return ok && onField(sel.X, fb) && types.Identical(info.TypeOf(call), types.Typ[types.Bool])
		}
		containsAdvance := func(n ast.Node) bool {
			found := false
			ast.Inspect(n, func(x ast.Node) bool {
				if e, ok := x.(ast.Expr); ok && isAdvance(e) {
					found = true
				}
				return !found
			})
			return found
		}
		// the current base ID: fb.FeatureID() or an expression assigned from it
		isBaseID := func(e ast.Expr) bool {
			direct := func(e ast.Expr) bool {
				call, ok := ast.Unparen(e).(*ast.CallExpr)
				if !ok || len(call.Args) != 0 {
					return false
				}
				sel, ok := ast.Unparen(call.Fun).(*ast.SelectorExpr)
				return ok && onField(sel.X, fb) && isNamed(info.TypeOf(call), ModulePath, "FeatureID")
			}
			if direct(e) {
				return true
			}
			found := false
			ast.Inspect(md.Body, func(n ast.Node) bool {
				if as, ok := n.(*ast.AssignStmt); ok && len(as.Lhs) == 1 && len(as.Rhs) == 1 && direct(as.Rhs[0]) && sameExpr(info, as.Lhs[0], e) {
					found = true
				}
				return true
			})
			return found
		}
		var sites []ast.Node
		g := newCFG(info, md.Body)
		for _, b := range g.Blocks {
			if !b.Live {
				continue
			}
			for _, n := range b.Nodes {
				if containsAdvance(n) {
					sites = append(sites, n)
				}
			}
		}
		for _, site := range sites {
			advances++
			loc, ok := findNode(g, site)
			if !ok {
				return Undecided, "advance of the base iterator not found in the control-flow graph of " + c.FuncName(p, md)
			}
			// where the advance result is kept
			var okTarget ast.Expr
			if as, ok := site.(*ast.AssignStmt); ok && len(as.Lhs) == 1 && len(as.Rhs) == 1 && isAdvance(as.Rhs[0]) {
				okTarget = as.Lhs[0]
			}
			first := true
			es := &eEdgeSearch{c: c, info: info, exitIsBad: true}
			es.visit = func(n ast.Node, isCond bool) (bool, eFollow) {
				// assume: the base is not exhausted and the filter reports every ID present
				atom := func(a ast.Expr) (bool, bool) {
					if isAdvance(a) || (okTarget != nil && sameExpr(info, a, okTarget)) {
						return true, true
					}
					if key, follow, ok := ePresenceAST(info, md.Body, a, func(x ast.Expr) bool { return onField(x, ff) }); ok && isBaseID(key) {
						return follow == eTrueOnly, true
					}
					return false, false
				}
				if first {
					first = false
					if isCond {
						return false, eFollowOf(eCondEval(n.(ast.Expr), atom))
					}
					return false, eBoth
				}
				if containsAdvance(n) {
					return false, eNone // advanced again
				}
				if isCond {
					return false, eFollowOf(eCondEval(n.(ast.Expr), atom))
				}
				return false, eBoth
			}
			if wit := es.run(loc.b, loc.i); wit != nil {
				return Violation, fmt.Sprintf("%s advances the base results at %s and can return with a base ID that the filter %s was not asked about or reported present (%s)",
					c.FuncName(p, md), c.Position(site.Pos()), ff.Name(), wit[len(wit)-1])
			}
		}
	}
	if advances == 0 {
		return Undecided, "no method of " + itype.Obj().Name() + " advances the base results"
	}
	return OK, fmt.Sprintf("base results and the upper layer go to %s; every advance of %s.%s skips IDs for which %s.HasFeatureWithID holds", fdecl.Name.Name, itype.Obj().Name(), fb.Name(), ff.Name())
}
