package main

import (
	"fmt"
	"go/ast"
	"go/token"
	"go/types"
	"strings"
)

// RESERVED-KEY (C29, C32): a feature's geometry lives in its tag list under reserved keys (the
// constants the geometry accessors of b6.Tags read: "point", "path"), next to tags copied from
// outside (OSM tags, GeoJSON properties), whose keys the importer does not control. Lookup returns
// the first tag with a key, so whichever of the two is written second decides what a colliding
// outside key does:
//   - outside tags copied first, geometry second: the geometry tag must be written with the
//     replacing form (ModifyOrAddTag…), otherwise an outside tag called "point" stays first and the
//     feature's geometry is read from it;
//   - geometry first, outside tags second: the outside tags must be written with the appending form
//     (AddTag), otherwise a property called "point" replaces the geometry.
//
// Slots (by shape, package ingest): functions that (a) write a tag whose key is one of the reserved
// constants and (b) copy outside tags into the same feature — a call that passes the address of the
// feature's Tags to a module function, or a loop that writes tags with a non-constant key. One
// obligation per function.
func init() {
	register(&Rule{
		Name:    "RESERVED-KEY",
		IR:      "ast",
		Props:   []string{"C29", "C32"},
		Floor:   2,
		FloorBy: map[string]int{"C29": 1, "C32": 1},
		Narrow: func(o *Obligation) {
			if strings.Contains(o.Key, "fillFromFeature") {
				o.Props = []string{"C32"}
			} else {
				o.Props = []string{"C29"}
			}
		},
		Doc: "where an importer writes both a reserved geometry tag and tags with outside keys into one feature, the one written second uses the form that cannot displace the geometry: replace for a geometry tag written after the outside tags, append for outside tags written after the geometry",
		Run: runReservedKey,
	})
}

func runReservedKey(c *Ctx) []Obligation {
	var out []Obligation
	root := c.Pkg("")
	p := c.Pkg("ingest")
	if root == nil || p == nil {
		return out
	}
	// reserved keys: string constants of the root package read by the geometry accessors of b6.Tags
	reserved := map[types.Object]bool{}
	for _, fd := range c.FuncDecls(root) {
		if fd.Recv == nil {
			continue
		}
		switch fd.Name.Name {
		case "GeometryType", "Point", "PointAt", "Polyline", "GeometryLen":
		default:
			continue
		}
		obj, _ := root.TypesInfo.Defs[fd.Name].(*types.Func)
		if obj == nil {
			continue
		}
		if n := namedOf(obj.Type().(*types.Signature).Recv().Type()); n == nil || n.Obj().Name() != "Tags" {
			continue
		}
		ast.Inspect(fd.Body, func(n ast.Node) bool {
			if id, ok := n.(*ast.Ident); ok {
				if k, ok := root.TypesInfo.Uses[id].(*types.Const); ok && k.Parent() == root.Types.Scope() {
					if b, ok := k.Type().Underlying().(*types.Basic); ok && b.Info()&types.IsString != 0 {
						reserved[k] = true
					}
				}
			}
			return true
		})
	}
	info := p.TypesInfo
	for _, fd := range c.FuncDecls(p) {
		name := c.FuncName(p, fd)
		type write struct {
			pos      token.Pos
			method   string
			reserved bool
			constKey bool
			text     string
		}
		var writes []write
		var fills []token.Pos
		ast.Inspect(fd.Body, func(n ast.Node) bool {
			call, ok := n.(*ast.CallExpr)
			if !ok {
				return true
			}
			// outside tags through a helper that receives &x.Tags
			for _, a := range call.Args {
				if u, ok := ast.Unparen(a).(*ast.UnaryExpr); ok && u.Op == token.AND {
					if nt := namedOf(info.TypeOf(u.X)); nt != nil && nt.Obj().Name() == "Tags" {
						if fn := calleeFunc(info, call); fn != nil && fn.Pkg() != nil && strings.HasPrefix(fn.Pkg().Path(), ModulePath) {
							fills = append(fills, call.Pos())
						}
					}
				}
			}
			sel, ok := ast.Unparen(call.Fun).(*ast.SelectorExpr)
			if !ok || len(call.Args) < 1 {
				return true
			}
			switch sel.Sel.Name {
			case "AddTag", "ModifyOrAddTag", "ModifyOrAddTagAt":
			default:
				return true
			}
			lit, ok := ast.Unparen(call.Args[0]).(*ast.CompositeLit)
			if !ok || len(lit.Elts) == 0 {
				return true
			}
			var keyExpr ast.Expr
			for i, el := range lit.Elts {
				if kv, ok := el.(*ast.KeyValueExpr); ok {
					if k, ok := kv.Key.(*ast.Ident); ok && k.Name == "Key" {
						keyExpr = kv.Value
					}
				} else if i == 0 {
					keyExpr = el
				}
			}
			if keyExpr == nil {
				return true
			}
			w := write{pos: call.Pos(), method: sel.Sel.Name, text: nodeText(c.Fset, call)}
			switch k := ast.Unparen(keyExpr).(type) {
			case *ast.SelectorExpr:
				if o := info.Uses[k.Sel]; o != nil && reserved[o] {
					w.reserved = true
				}
				_, w.constKey = info.Uses[k.Sel].(*types.Const)
			case *ast.Ident:
				if o := info.Uses[k]; o != nil && reserved[o] {
					w.reserved = true
				}
				_, w.constKey = info.Uses[k].(*types.Const)
			case *ast.BasicLit:
				w.constKey = true
			}
			writes = append(writes, w)
			return true
		})
		var geom []write
		var outside []write
		for _, w := range writes {
			if w.reserved {
				geom = append(geom, w)
			} else if !w.constKey {
				outside = append(outside, w)
			}
		}
		if len(geom) == 0 || (len(outside) == 0 && len(fills) == 0) {
			continue
		}
		ob := Obligation{Key: name, Pos: c.Position(geom[0].pos), Status: OK}
		var bad, good []string
		for _, g := range geom {
			before := false
			for _, f := range fills {
				if f < g.pos {
					before = true
				}
			}
			for _, o := range outside {
				if o.pos < g.pos {
					before = true
				}
			}
			if before {
				if g.method == "AddTag" {
					bad = append(bad, fmt.Sprintf("%s at %s appends the geometry tag after outside tags have been copied into the feature: if one of them uses the same key it stays first, and the geometry is read from the outside value", g.text, c.Position(g.pos)))
				} else {
					good = append(good, fmt.Sprintf("geometry written with %s after the outside tags", g.method))
				}
			}
			for _, o := range outside {
				if o.pos > g.pos {
					if o.method != "AddTag" {
						bad = append(bad, fmt.Sprintf("%s at %s writes an outside key with the replacing form after the geometry tag (%s): a key equal to the reserved one replaces the geometry", o.text, c.Position(o.pos), c.Position(g.pos)))
					} else {
						good = append(good, "outside tags appended after the geometry")
					}
				}
			}
		}
		if len(bad) > 0 {
			ob.Status, ob.Detail = Violation, strings.Join(bad, "; ")
		} else {
			ob.Detail = strings.Join(good, "; ")
			if ob.Detail == "" {
				ob.Detail = "no collision possible between the reserved and the outside keys in the order written"
			}
		}
		out = append(out, ob)
	}
	return out
}
