package main

import (
	"fmt"
	"go/ast"
	"go/token"
	"go/types"
	"strings"
)

// RESERVED-KEY (C29, C32): a feature's geometry lives in its tag list under reserved keys (the
// constants the geometry accessors of b6.Tags read: "point", "path"), next to tags copied from
// outside (OSM tags, GeoJSON properties), whose keys the importer does not control. Lookup returns
// the first tag with a key, so whichever of the two is written second decides what a colliding
// outside key does:
//   - outside tags copied first, geometry second: the geometry tag must be written with the
//     replacing form (ModifyOrAddTag…), otherwise an outside tag called "point" stays first and the
//     feature's geometry is read from it;
//   - geometry first, outside tags second: the outside tags must be written with the appending form
//     (AddTag), otherwise a property called "point" replaces the geometry.
//
// Slots (by shape, package ingest): functions that (a) write a tag whose key is one of the reserved
// constants and (b) copy outside tags into the same feature — a call that passes the address of the
// feature's Tags to a module function, or a loop that writes tags with a non-constant key. One
// obligation per function.
func init() {
	register(&Rule{
		Name:    "RESERVED-KEY",
		IR:      "ast",
		Props:   []string{"C29", "C32"},
		Floor:   2,
		FloorBy: map[string]int{"C29": 1, "C32": 1},
		Narrow: func(o *Obligation) {
			if strings.Contains(o.Key, "fillFromFeature") {
				o.Props = []string{"C32"}
			} else {
				o.Props = []string{"C29"}
			}
		},
		Doc: "where an importer writes both a reserved geometry tag and tags with outside keys into one feature, the one written second uses the form that cannot displace the geometry: replace for a geometry tag written after the outside tags, append for outside tags written after the geometry",
		Run: runReservedKey,
	})
}

func runReservedKey(c *Ctx) []Obligation {
	var out []Obligation
	root := c.Pkg("")
	p := c.Pkg("ingest")
	if root == nil || p == nil {
		return out
	}
	// reserved keys: string constants of the root package read by the geometry accessors of b6.Tags
	reserved := map[types.Object]bool{}
	for _, fd := range c.FuncDecls(root) {
		if fd.Recv == nil {
			continue
		}
		switch fd.Name.Name {
		case "GeometryType", "Point", "PointAt", "Polyline", "GeometryLen":
		default:
			continue
		}
		obj, _ := root.TypesInfo.Defs[fd.Name].(*types.Func)
		if obj == nil {
			continue
		}
		if n := namedOf(obj.Type().(*types.Signature).Recv().Type()); n == nil || n.Obj().Name() != "Tags" {
			continue
		}
		ast.Inspect(fd.Body, func(n ast.Node) bool {
			if id, ok := n.(*ast.Ident); ok {
				if k, ok := root.TypesInfo.Uses[id].(*types.Const); ok && k.Parent() == root.Types.Scope() {
					if b, ok := k.Type().Underlying().(*types.Basic); ok && b.Info()&types.IsString != 0 {
						reserved[k] = true
					}
				}
			}
			return true
		})
	}
	info := p.TypesInfo
	for _, fd := range c.FuncDecls(p) {
		name := c.FuncName(p, fd)
		type write struct {
			pos      token.Pos
			method   string
			reserved bool
			constKey bool
			text     string
		}
		var writes []write
		var fills []token.Pos
		ast.Inspect(fd.Body, func(n ast.Node) bool {
			call, ok := n.(*ast.CallExpr)
			if !ok {
				return true
			}
			// outside tags through a helper that receives &x.Tags
			for _, a := range call.Args {
				if u, ok := ast.Unparen(a).(*ast.UnaryExpr); ok && u.Op == token.AND {
					if nt := namedOf(info.TypeOf(u.X)); nt != nil && nt.Obj().Name() == "Tags" {
						if fn := calleeFunc(info, call); fn != nil && fn.Pkg() != nil && strings.HasPrefix(fn.Pkg().Path(), ModulePath) {
							fills = append(fills, call.Pos())
						}
					}
				}
			}
			sel, ok := ast.Unparen(call.Fun).(*ast.SelectorExpr)
			if !ok || len(call.Args) < 1 {
				return true
			}
			switch sel.Sel.Name {
			case "AddTag", "ModifyOrAddTag", "ModifyOrAddTagAt":
			default:
				return true
			}
			lit, ok := ast.Unparen(call.Args[0]).(*ast.CompositeLit)
			if !ok || len(lit.Elts) == 0 {
				return true
			}
			var keyExpr ast.Expr
			for i, el := range lit.Elts {
				if kv, ok := el.(*ast.KeyValueExpr); ok {
					if k, ok := kv.Key.(*ast.Ident); ok && k.Name == "Key" {
						keyExpr = kv.Value
					}
				} else if i == 0 {
					keyExpr = el
				}
			}
			if keyExpr == nil {
				return true
			}
			w := write{pos: call.Pos(), method: sel.Sel.Name, text: nodeText(c.Fset, call)}
			switch k := ast.Unparen(keyExpr).(type) {
			case *ast.SelectorExpr:
				if o := info.Uses[k.Sel]; o != nil && reserved[o] {
					w.reserved = true
				}
				_, w.constKey = info.Uses[k.Sel].(*types.Const)
			case *ast.Ident:
				if o := info.Uses[k]; o != nil && reserved[o] {
					w.reserved = true
				}
				_, w.constKey = info.Uses[k].(*types.Const)
			case *ast.BasicLit:
				w.constKey = true
			}
			writes = append(writes, w)
			return true
		})
		var geom []write
		var outside []write
		for _, w := range writes {
			if w.reserved {
				geom = append(geom, w)
			} else if !w.constKey {
				outside = append(outside, w)
			}
		}
		if len(geom) == 0 || (len(outside) == 0 && len(fills) == 0) {
			continue
		}
		ob := Obligation{Key: name, Pos: c.Position(geom[0].pos), Status: OK}
		var bad, good []string
		for _, g := range geom {
			before := false
			for _, f := range fills {
				if f < g.pos {
					before = true
				}
			}
			for _, o := range outside {
				if o.pos < g.pos {
					before = true
				}
			}
			if before {
				if g.method == "AddTag" {
					bad = append(bad, fmt.Sprintf("%s at %s appends the geometry tag after outside tags have been copied into the feature: if one of them uses the same key it stays first, and the geometry is read from the outside value", g.text, c.Position(g.pos)))
				} else {
					good = append(good, fmt.Sprintf("geometry written with %s after the outside tags", g.method))
				}
			}
			for _, o := range outside {
				if o.pos > g.pos {
					if o.method != "AddTag" {
						bad = append(bad, fmt.Sprintf("%s at %s writes an outside key with the replacing form after the geometry tag (%s): a key equal to the reserved one replaces the geometry", o.text, c.Position(o.pos), c.Position(g.pos)))
					} else {
						good = append(good, "outside tags appended after the geometry")
					}
				}
			}
		}
		if len(bad) > 0 {
			ob.Status, ob.Detail = Violation, strings.Join(bad, "; ")
		} else {
			ob.Detail = strings.Join(good, "; ")
			if ob.Detail == "" {
				ob.Detail = "no collision possible between the reserved and the outside keys in the order written"
			}
		}
		out = append(out, ob)
	}
	return out
}

// QUOTE-PAIR (C20): string literals are printed by quoting them with Go syntax (fmt's %q or
// strconv.Quote: quotes, backslashes and control characters become escape sequences). The shell's
// lexer is the inverse only if (a) it does not take an escaped quote for the end of the literal and
// (b) it turns the escape sequences back into the characters they stand for.
//
// Slots (by shape, package api): the printers are the functions reachable from UnparseExpression
// that format an operand with %q or call strconv.Quote; the string lexer is the method that returns
// the generated STRING token. Obligations (only when some printer quotes with Go syntax):
//
//	#skip     the lexer's scanning loop has a branch for the backslash that consumes the following
//	          rune before it looks for the closing quote;
//	#unquote  the lexer passes the consumed token through strconv.Unquote.
func init() {
	register(&Rule{
		Name:  "QUOTE-PAIR",
		IR:    "ast",
		Props: []string{"C20"},
		Floor: 2,
		Doc:   "strings are printed with Go quoting (%q / strconv.Quote), so the string lexer skips escaped characters when it looks for the closing quote and unquotes the token with strconv.Unquote",
		Run:   runQuotePair,
	})
}

func runQuotePair(c *Ctx) []Obligation {
	var out []Obligation
	p := c.Pkg("api")
	if p == nil {
		return out
	}
	info := p.TypesInfo
	quotes := ""
	var lexer *ast.FuncDecl
	for _, fd := range c.FuncDecls(p) {
		ast.Inspect(fd.Body, func(n ast.Node) bool {
			switch x := n.(type) {
			case *ast.CallExpr:
				if fn := calleeFunc(info, x); fn != nil && fn.Pkg() != nil {
					if fn.Pkg().Path() == "strconv" && fn.Name() == "Quote" && quotes == "" {
						quotes = c.FuncName(p, fd) + " (strconv.Quote)"
					}
					if fn.Pkg().Path() == "fmt" && strings.HasPrefix(fn.Name(), "Sprintf") && len(x.Args) > 0 {
						if tv := info.Types[x.Args[0]]; tv.Value != nil && strings.Contains(tv.Value.ExactString(), "%q") && quotes == "" {
							quotes = c.FuncName(p, fd) + " (%q)"
						}
					}
				}
			case *ast.ReturnStmt:
				if fd.Recv != nil && len(x.Results) == 1 {
					if id, ok := ast.Unparen(x.Results[0]).(*ast.Ident); ok && id.Name == "STRING" {
						lexer = fd
					}
				}
			}
			return true
		})
	}
	if quotes == "" || lexer == nil {
		return out
	}
	name := c.FuncName(p, lexer)
	skip, unquote := false, false
	ast.Inspect(lexer.Body, func(n ast.Node) bool {
		switch x := n.(type) {
		case *ast.IfStmt:
			// a branch whose condition compares with '\\' and whose body advances an index
			hasBackslash := false
			ast.Inspect(x.Cond, func(m ast.Node) bool {
				if bl, ok := m.(*ast.BasicLit); ok && (bl.Value == `'\\'` || bl.Value == `"\\"`) {
					hasBackslash = true
				}
				return true
			})
			if hasBackslash {
				ast.Inspect(x.Body, func(m ast.Node) bool {
					if as, ok := m.(*ast.AssignStmt); ok && (as.Tok == token.ADD_ASSIGN) {
						skip = true
					}
					if inc, ok := m.(*ast.IncDecStmt); ok && inc.Tok == token.INC {
						skip = true
					}
					return true
				})
			}
		case *ast.CallExpr:
			if fn := calleeFunc(info, x); fn != nil && fn.Pkg() != nil && fn.Pkg().Path() == "strconv" && strings.HasPrefix(fn.Name(), "Unquote") {
				unquote = true
			}
		}
		return true
	})
	mk := func(suffix string, ok bool, good, bad string) {
		ob := Obligation{Key: name + suffix, Pos: c.Position(lexer.Pos()), Status: OK, Detail: good}
		if !ok {
			ob.Status, ob.Detail = Violation, bad
		}
		out = append(out, ob)
	}
	mk("#skip", skip, "the string lexer consumes the character after a backslash before it looks for the closing quote",
		fmt.Sprintf("strings are printed by %s, which writes a quote inside a string as \\\", but %s ends the literal at the first '\"' whatever precedes it: a printed string that contains a quote does not parse back", quotes, name))
	mk("#unquote", unquote, "the string lexer unquotes the token with strconv.Unquote",
		fmt.Sprintf("strings are printed by %s, which writes backslashes and control characters as escape sequences, but %s never unquotes the token: the escape sequences come back as literal text", quotes, name))
	return out
}

// QUERY-BRACKETS (C20): the shell grammar for queries is right recursive and has no precedence
// between `&` and `|` (`a | b & c` is `a | [b & c]`); grouping exists only through brackets. The
// printer therefore has to put an operand that is itself a union or an intersection in brackets,
// or the printed text parses to a differently grouped query.
//
// Slots (by shape, package api): the arms of the query printer that join the printed operands with
// an operator literal (strings.Join(xs, " & ") / " | "), where xs[i] is the result of a call G(child).
// Obligation per arm: G is not the joining function itself (which prints operands bare); G
// distinguishes the composite query types — the named slice types of b6.Query elements — in a type
// switch, and for them returns the result of a function that wraps its output in "[" … "]".
func init() {
	register(&Rule{
		Name:  "QUERY-BRACKETS",
		IR:    "ast",
		Props: []string{"C20"},
		Floor: 2,
		Doc:   "the query printer puts an operand that is itself a union or an intersection in brackets: the grammar has no precedence between & and |, so bare nesting parses to a differently grouped query",
		Run:   runQueryBrackets,
	})
}

func runQueryBrackets(c *Ctx) []Obligation {
	var out []Obligation
	p := c.Pkg("api")
	if p == nil {
		return out
	}
	info := p.TypesInfo
	// functions that wrap their result in brackets: contain a "[" and a "]" string literal in a concatenation
	brackets := map[*types.Func]bool{}
	decls := map[*types.Func]*ast.FuncDecl{}
	for _, fd := range c.FuncDecls(p) {
		obj, _ := info.Defs[fd.Name].(*types.Func)
		if obj == nil {
			continue
		}
		decls[obj] = fd
		open, close := false, false
		ast.Inspect(fd.Body, func(n ast.Node) bool {
			if bl, ok := n.(*ast.BasicLit); ok {
				if bl.Value == `"["` {
					open = true
				}
				if bl.Value == `"]"` {
					close = true
				}
			}
			return true
		})
		if open && close {
			brackets[obj] = true
		}
	}
	isComposite := func(t types.Type) bool {
		n := namedOf(t)
		if n == nil {
			return false
		}
		sl, ok := n.Underlying().(*types.Slice)
		if !ok {
			return false
		}
		en := namedOf(sl.Elem())
		return en != nil && en.Obj().Name() == "Query"
	}
	for _, fd := range c.FuncDecls(p) {
		self, _ := info.Defs[fd.Name].(*types.Func)
		name := c.FuncName(p, fd)
		ord := 0
		ast.Inspect(fd.Body, func(n ast.Node) bool {
			cc, ok := n.(*ast.CaseClause)
			if !ok || len(cc.List) != 1 {
				return true
			}
			tv, ok := info.Types[cc.List[0]]
			if !ok || !tv.IsType() || !isComposite(tv.Type) {
				return true
			}
			// a strings.Join with an operator literal in this arm
			op := ""
			var g *types.Func
			for _, st := range cc.Body {
				ast.Inspect(st, func(m ast.Node) bool {
					call, ok := m.(*ast.CallExpr)
					if !ok {
						return true
					}
					if fn := calleeFunc(info, call); fn != nil {
						if fn.Pkg() != nil && fn.Pkg().Path() == "strings" && fn.Name() == "Join" && len(call.Args) == 2 {
							if v := info.Types[call.Args[1]].Value; v != nil {
								op = strings.TrimSpace(strings.Trim(v.ExactString(), `"`))
							}
						} else if fn.Pkg() != nil && fn.Pkg().Path() == p.PkgPath && len(call.Args) == 1 {
							if _, isIdx := ast.Unparen(call.Args[0]).(*ast.IndexExpr); isIdx {
								g = fn
							}
						}
					}
					return true
				})
			}
			if op == "" || g == nil {
				return true
			}
			ord++
			ob := Obligation{Key: fmt.Sprintf("%s#%s", name, namedOf(tv.Type).Obj().Name()), Pos: c.Position(cc.Pos()), Status: OK}
			switch {
			case g == self:
				ob.Status = Violation
				ob.Detail = fmt.Sprintf("the operands of %q are printed by %s itself, i.e. bare: an operand that is a union or an intersection loses its brackets, and the grammar (right recursive, no precedence) regroups it", op, g.Name())
			default:
				gd := decls[g]
				okAll := false
				if gd != nil {
					covered := map[string]bool{}
					ast.Inspect(gd.Body, func(m ast.Node) bool {
						gc, ok := m.(*ast.CaseClause)
						if !ok {
							return true
						}
						wraps := false
						for _, st := range gc.Body {
							ast.Inspect(st, func(k ast.Node) bool {
								if call, ok := k.(*ast.CallExpr); ok {
									if fn := calleeFunc(info, call); fn != nil && brackets[fn] {
										wraps = true
									}
								}
								return true
							})
						}
						if wraps {
							for _, e := range gc.List {
								if tv, ok := info.Types[e]; ok && tv.IsType() {
									if nt := namedOf(tv.Type); nt != nil {
										covered[nt.Obj().Name()] = true
									}
								}
							}
						}
						return true
					})
					okAll = covered["Intersection"] && covered["Union"]
				}
				if okAll {
					ob.Detail = fmt.Sprintf("operands of %q are printed by %s, which brackets unions and intersections", op, g.Name())
				} else {
					ob.Status = Violation
					ob.Detail = fmt.Sprintf("operands of %q are printed by %s, which does not bracket both unions and intersections", op, g.Name())
				}
			}
			out = append(out, ob)
			return true
		})
		_ = ord
	}
	return out
}
