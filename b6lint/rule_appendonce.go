package main

import (
	"fmt"
	"go/ast"
	"go/types"
	"strings"

	"golang.org/x/tools/go/cfg"
	"golang.org/x/tools/go/packages"
)

// APPEND-ONCE (C01): element-wise conversion loops between the compact codec types and the b6
// tag/expression types preserve length.
//
// Slots, found by type and signature (never by name): a `range` statement inside a function (or
// function literal) of ingest/compact is a conversion loop if the collection it ranges over
// belongs to one family and the signature of the enclosing function (receiver, parameters,
// results; for a literal also those of the enclosing declaration) mentions the other family:
//
//	codec family  collections: compact.Tags and the slice-shaped Value types (LatLngs, References,
//	              ReferencesAndLatLngs; Value types as in VALUE-KIND); in signatures also
//	              compact.Value, compact.Tag and every Value type
//	b6 family     collections: b6.Tags, []b6.Tag, b6.Expressions; in signatures also b6.Tag,
//	              b6.Expression, b6.AnyExpression, b6.Taggable
//
// Today: fromCompactValue (3 loops), toCompactValue (3), toTags, MarshalledTags.AllTags,
// Tags.FromFeature. Loops that legitimately filter (MarshalledTags.References, Area.FromFeature)
// have no codec/b6 type pairing and are outside the slot.
//
// Obligation per loop, decided on the control-flow graph of the loop body:
//   - append mode (the body contains `R = append(R, x)` for exactly one R, one element each):
//     every path from the start of the body to the next iteration passes exactly one such append;
//   - indexed mode (no append; the body assigns through R[k] where k is the range key): every path
//     assigns through R[k] at least once, and no assignment goes through R[other index];
//   - paths that leave the function (return, panic) carry no obligation.
//
// A `break`/`goto` out of the loop, appends to two different results, a mix of both modes, or a
// loop that does neither are reported as undecided.
func init() {
	register(&Rule{
		Name:  "APPEND-ONCE",
		IR:    "cfg",
		Props: []string{"C01"},
		Floor: 9,
		Doc: "in every range loop of ingest/compact that converts element-wise between a compact codec collection (compact.Tags, LatLngs, References, ReferencesAndLatLngs) and a b6 collection (b6.Tags, []b6.Tag, b6.Expressions), " +
			"every path through the loop body either appends exactly one element to the one result, or assigns the result element indexed by the range key, or leaves the function",
		Run: runAppendOnce,
	})
}

const bB6Path = ModulePath

type bFamilies struct {
	valueTypes map[*types.Named]bool
	iface      *types.Named
}

func bIsB6Named(t types.Type, names ...string) bool {
	n, ok := types.Unalias(t).(*types.Named)
	if !ok || n.Obj().Pkg() == nil || n.Obj().Pkg().Path() != bB6Path {
		return false
	}
	for _, nm := range names {
		if n.Obj().Name() == nm {
			return true
		}
	}
	return false
}

func bDeref(t types.Type) types.Type {
	if p, ok := types.Unalias(t).(*types.Pointer); ok {
		return p.Elem()
	}
	return t
}

// collection family of a ranged-over type: "codec", "b6" or "".
func (fm *bFamilies) collection(t types.Type) string {
	if t == nil {
		return ""
	}
	t = bDeref(t)
	if n, ok := types.Unalias(t).(*types.Named); ok {
		if _, isSlice := n.Underlying().(*types.Slice); isSlice {
			if n.Obj().Pkg() != nil && n.Obj().Pkg().Path() == ModulePath+"/"+bCompactRel && (n.Obj().Name() == "Tags" || fm.valueTypes[n]) {
				return "codec"
			}
			if bIsB6Named(n, "Tags", "Expressions") {
				return "b6"
			}
		}
		return ""
	}
	if s, ok := t.(*types.Slice); ok && bIsB6Named(s.Elem(), "Tag") {
		return "b6"
	}
	return ""
}

// signature family membership of a type.
func (fm *bFamilies) mentions(t types.Type) (codec, b6 bool) {
	if t == nil {
		return
	}
	if c := fm.collection(t); c == "codec" {
		return true, false
	} else if c == "b6" {
		return false, true
	}
	t = bDeref(t)
	if n, ok := types.Unalias(t).(*types.Named); ok && n.Obj().Pkg() != nil {
		if n.Obj().Pkg().Path() == ModulePath+"/"+bCompactRel && (n == fm.iface || fm.valueTypes[n] || n.Obj().Name() == "Tag") {
			return true, false
		}
		if bIsB6Named(n, "Tag", "Expression", "AnyExpression", "Taggable") {
			return false, true
		}
	}
	return
}

func (fm *bFamilies) sigFamilies(sig *types.Signature) (codec, b6 bool) {
	add := func(t types.Type) {
		c, b := fm.mentions(t)
		codec, b6 = codec || c, b6 || b
	}
	if sig.Recv() != nil {
		add(sig.Recv().Type())
	}
	for i := 0; i < sig.Params().Len(); i++ {
		add(sig.Params().At(i).Type())
	}
	for i := 0; i < sig.Results().Len(); i++ {
		add(sig.Results().At(i).Type())
	}
	return
}

type bLoopFacts struct {
	appends   []*ast.AssignStmt // R = append(R, x)
	badAppend []string          // appends of the wrong shape
	target    ast.Expr          // R
	idxWrites []*ast.AssignStmt // R[k]... = v
	idxTarget ast.Expr
}

// bIndexRoot finds the innermost IndexExpr at the root of an assignment target: (*t)[i].Key -> (*t)[i].
func bIndexRoot(e ast.Expr) *ast.IndexExpr {
	for {
		switch x := ast.Unparen(e).(type) {
		case *ast.IndexExpr:
			return x
		case *ast.SelectorExpr:
			e = x.X
		case *ast.StarExpr:
			e = x.X
		default:
			return nil
		}
	}
}

func bStripStar(e ast.Expr) ast.Expr {
	for {
		e = ast.Unparen(e)
		if s, ok := e.(*ast.StarExpr); ok {
			e = s.X
			continue
		}
		return e
	}
}

func runAppendOnce(c *Ctx) []Obligation {
	p := c.Pkg(bCompactRel)
	if p == nil {
		return nil
	}
	info := p.TypesInfo
	fm := &bFamilies{valueTypes: map[*types.Named]bool{}, iface: bValueIface(c)}
	for n := range bValueTypes(c) {
		fm.valueTypes[n] = true
	}
	var out []Obligation
	for _, u := range c.units(p, true) {
		// signature families of the unit (and of the enclosing declaration for literals)
		var codec, b6 bool
		if obj, ok := info.Defs[u.decl.Name].(*types.Func); ok {
			codec, b6 = fm.sigFamilies(obj.Type().(*types.Signature))
		}
		if u.lit != nil {
			if sig, ok := info.TypeOf(u.lit).(*types.Signature); ok {
				c2, b2 := fm.sigFamilies(sig)
				codec, b6 = codec || c2, b6 || b2
			}
		}
		if !codec && !b6 {
			continue
		}
		var loops []*ast.RangeStmt
		inspectShallow(u.body, func(n ast.Node) bool {
			if rs, ok := n.(*ast.RangeStmt); ok {
				switch fm.collection(info.TypeOf(rs.X)) {
				case "codec":
					if b6 {
						loops = append(loops, rs)
					}
				case "b6":
					if codec {
						loops = append(loops, rs)
					}
				}
			}
			return true
		})
		if len(loops) == 0 {
			continue
		}
		g := newCFG(info, u.body)
		for i, rs := range loops {
			ob := Obligation{Key: fmt.Sprintf("%s#%d", u.name, i+1), Pos: c.Position(rs.Pos())}
			bCheckLoop(c, p, g, rs, &ob)
			out = append(out, ob)
		}
	}
	return out
}

func bCheckLoop(c *Ctx, p *packages.Package, g *cfg.CFG, rs *ast.RangeStmt, ob *Obligation) {
	info := p.TypesInfo
	what := fmt.Sprintf("loop over %s", types.ExprString(rs.X))
	var keyObj types.Object
	if id, ok := rs.Key.(*ast.Ident); ok && id.Name != "_" {
		keyObj = info.ObjectOf(id)
	}
	facts := &bLoopFacts{}
	var undecided []string
	inspectShallow(rs.Body, func(n ast.Node) bool {
		as, ok := n.(*ast.AssignStmt)
		if !ok {
			return true
		}
		// appends
		if len(as.Lhs) == 1 && len(as.Rhs) == 1 {
			if call, ok := ast.Unparen(as.Rhs[0]).(*ast.CallExpr); ok && isBuiltin(info, call, "append") && len(call.Args) >= 1 {
				if !sameExpr(info, as.Lhs[0], call.Args[0]) {
					undecided = append(undecided, fmt.Sprintf("%s: append whose result is not assigned back to its first argument", c.Position(as.Pos())))
					return true
				}
				if len(call.Args) != 2 || call.Ellipsis.IsValid() {
					facts.badAppend = append(facts.badAppend, fmt.Sprintf("%s appends %d elements at once", c.Position(as.Pos()), len(call.Args)-1))
				}
				if facts.target == nil {
					facts.target = as.Lhs[0]
				} else if !sameExpr(info, facts.target, as.Lhs[0]) {
					undecided = append(undecided, fmt.Sprintf("%s: the loop appends to two different results (%s and %s)", c.Position(as.Pos()), types.ExprString(facts.target), types.ExprString(as.Lhs[0])))
				}
				facts.appends = append(facts.appends, as)
				return true
			}
		}
		// indexed writes
		for _, l := range as.Lhs {
			ix := bIndexRoot(l)
			if ix == nil {
				continue
			}
			if _, isMap := info.TypeOf(ix.X).Underlying().(*types.Map); isMap {
				continue
			}
			id, isIdent := ast.Unparen(ix.Index).(*ast.Ident)
			if isIdent && keyObj != nil && info.ObjectOf(id) == keyObj {
				if facts.idxTarget == nil {
					facts.idxTarget = ix.X
				} else if !sameExpr(info, bStripStar(facts.idxTarget), bStripStar(ix.X)) {
					undecided = append(undecided, fmt.Sprintf("%s: the loop writes the indexed element of two different results", c.Position(as.Pos())))
				}
				facts.idxWrites = append(facts.idxWrites, as)
			}
		}
		return true
	})
	// writes through another index only matter when they hit the result
	var strayIdx []string
	if facts.idxTarget != nil {
		inspectShallow(rs.Body, func(n ast.Node) bool {
			as, ok := n.(*ast.AssignStmt)
			if !ok {
				return true
			}
			for _, l := range as.Lhs {
				if ix := bIndexRoot(l); ix != nil && sameExpr(info, bStripStar(ix.X), bStripStar(facts.idxTarget)) {
					if id, ok := ast.Unparen(ix.Index).(*ast.Ident); !ok || info.ObjectOf(id) != keyObj {
						strayIdx = append(strayIdx, fmt.Sprintf("%s assigns %s, not the element indexed by the range key %s", c.Position(as.Pos()), types.ExprString(l), types.ExprString(rs.Key)))
					}
				}
			}
			return true
		})
	}
	mode := ""
	switch {
	case len(undecided) > 0:
	case len(facts.appends) > 0 && len(facts.idxWrites) > 0:
		undecided = append(undecided, "the loop both appends and assigns indexed elements")
	case len(facts.appends) > 0:
		mode = "append"
	case len(facts.idxWrites) > 0:
		mode = "indexed"
	default:
		undecided = append(undecided, "the loop neither appends to a result nor assigns the element indexed by its range key")
	}
	if len(undecided) > 0 {
		ob.Status, ob.Detail = Undecided, what+": "+strings.Join(undecided, "; ")
		return
	}
	if len(facts.badAppend) > 0 {
		ob.Status, ob.Detail = Violation, what+": "+strings.Join(facts.badAppend, "; ")
		return
	}
	if len(strayIdx) > 0 {
		ob.Status, ob.Detail = Violation, what+": "+strings.Join(strayIdx, "; ")
		return
	}
	// locate the loop in the CFG
	var head, bodyEntry, done *cfg.Block
	for _, b := range g.Blocks {
		if b.Stmt != ast.Stmt(rs) {
			continue
		}
		switch b.Kind {
		case cfg.KindRangeLoop:
			head = b
		case cfg.KindRangeBody:
			bodyEntry = b
		case cfg.KindRangeDone:
			done = b
		}
	}
	if head == nil || bodyEntry == nil {
		ob.Status, ob.Detail = Undecided, what+": loop not found in the control-flow graph"
		return
	}
	events := facts.appends
	if mode == "indexed" {
		events = facts.idxWrites
	}
	isEvent := func(n ast.Node) bool {
		for _, e := range events {
			if n.Pos() <= e.Pos() && e.End() <= n.End() {
				return true
			}
		}
		return false
	}
	// breadth-first over (block, count) with count saturating at 2
	type state struct {
		b *cfg.Block
		n int
	}
	type pred struct {
		from state
		ok   bool
	}
	prev := map[state]pred{}
	start := state{bodyEntry, 0}
	prev[start] = pred{}
	work := []state{start}
	var badEnd *state
	var badCount int
	var breakAt *state
	for len(work) > 0 && badEnd == nil {
		st := work[0]
		work = work[1:]
		n := st.n
		for _, node := range st.b.Nodes {
			if isEvent(node) && n < 2 {
				n++
			}
		}
		if len(st.b.Succs) == 0 {
			continue // return / panic: leaves the function
		}
		for _, s := range st.b.Succs {
			if s == head {
				wrong := n != 1
				if mode == "indexed" {
					wrong = n == 0
				}
				if wrong && badEnd == nil {
					cp := st
					badEnd, badCount = &cp, n
				}
				continue
			}
			if s == done {
				if breakAt == nil {
					cp := st
					breakAt = &cp
				}
				continue
			}
			ns := state{s, n}
			if _, seen := prev[ns]; !seen {
				prev[ns] = pred{st, true}
				work = append(work, ns)
			}
		}
	}
	trail := func(end state) []string {
		var rev []string
		for cur := end; ; {
			if len(cur.b.Nodes) > 0 {
				desc := fmt.Sprintf("%s (%s)", c.Position(cur.b.Nodes[0].Pos()), cur.b.Kind)
				for _, node := range cur.b.Nodes {
					if isEvent(node) {
						desc += " " + nodeText(c.Fset, node)
					}
				}
				rev = append(rev, desc)
			}
			pr := prev[cur]
			if !pr.ok {
				break
			}
			cur = pr.from
		}
		var path []string
		for i := len(rev) - 1; i >= 0; i-- {
			path = append(path, rev[i])
		}
		return path
	}
	result := ""
	if mode == "append" {
		result = types.ExprString(facts.target)
	} else {
		result = types.ExprString(facts.idxTarget) + "[" + types.ExprString(rs.Key) + "]"
	}
	switch {
	case badEnd != nil:
		ob.Status = Violation
		if mode == "append" {
			times := "no element"
			if badCount >= 2 {
				times = "two or more elements"
			}
			ob.Detail = fmt.Sprintf("%s: a path through the body appends %s to %s (the conversion must append exactly one per source element)", what, times, result)
		} else {
			ob.Detail = fmt.Sprintf("%s: a path through the body never assigns %s", what, result)
		}
		ob.Path = append(trail(*badEnd), "next iteration")
	case breakAt != nil:
		ob.Status = Undecided
		ob.Detail = fmt.Sprintf("%s: the body can leave the loop early (break/goto) without leaving the function", what)
		ob.Path = append(trail(*breakAt), "leaves the loop")
	default:
		ob.Status = OK
		if mode == "append" {
			ob.Detail = fmt.Sprintf("%s: every path appends exactly one element to %s or leaves the function", what, result)
		} else {
			ob.Detail = fmt.Sprintf("%s: every path assigns %s", what, result)
		}
	}
}
