package main

import (
	"fmt"
	"go/ast"
	"go/token"
	"go/types"
)

// NS-SORT (C31): when the compact namespace table assigns codes to a caller-supplied list of
// namespaces, the codes are assigned in sorted namespace order, so that comparing codes is
// comparing b6.Namespace values (the compact index order then agrees with FeatureID.Less).
//
// Slots (by type, in package ingest/compact): a *code store* is an assignment `M[ns] = T(i)` where
// M is a map[b6.Namespace]compact.Namespace, inside `for i, ns := range X` with X a slice of
// b6.Namespace and i the range key. A code store *assigns* codes when its function receives the
// namespaces as a parameter of type []b6.Namespace / b6.Namespaces (FillFromNamespaces); code
// stores in functions that read a stored table (FillFromProto, FeaturesByID merging block headers)
// copy codes that were assigned when the index was written and carry no obligation (info).
//
// Obligation per assigning code store: on every control-flow path from the function entry, and
// from every write to X or to an element of X, to the code store, a sort of X is passed after the
// write. Accepted sorts: `sort.Sort(X)` / `sort.Stable(X)` where the Less method of X's type is
// `return r[i] < r[j]`; `sort.Slice(X, func(i, j int) bool { return X[i] < X[j] })`;
// `slices.Sort(X)`. Any other call from package sort/slices on X is `undecided`.
func init() {
	register(&Rule{
		Name:  "NS-SORT",
		IR:    "cfg",
		Props: []string{"C31", "C08"}, // C08 names the order-preserving namespace encoding as one of its mechanisms
		Floor: 1,                      // ingest/compact.(*NamespaceTable).FillFromNamespaces
		Doc: "where ingest/compact assigns namespace codes from a caller-supplied []b6.Namespace (M[ns] = Namespace(i) in a range over X), " +
			"every path from function entry and from every write to X reaches the assignment only through an ascending sort of X",
		Run: runNSSort,
	})
}

func runNSSort(c *Ctx) []Obligation {
	p := c.Pkg("ingest/compact")
	if p == nil {
		return nil
	}
	info := p.TypesInfo
	isB6NS := func(t types.Type) bool {
		return isNamed(t, ModulePath, "Namespace") && !jIsPointer(t)
	}
	isNSSlice := func(t types.Type) bool {
		if t == nil {
			return false
		}
		s, ok := t.Underlying().(*types.Slice)
		return ok && isB6NS(s.Elem())
	}
	var out []Obligation
	for _, fd := range c.FuncDecls(p) {
		name := c.FuncName(p, fd)
		takesList := false
		sig := info.Defs[fd.Name].Type().(*types.Signature)
		for i := 0; i < sig.Params().Len(); i++ {
			if isNSSlice(sig.Params().At(i).Type()) {
				takesList = true
			}
		}
		ord := 0
		inspectShallow(fd.Body, func(n ast.Node) bool {
			rs, ok := n.(*ast.RangeStmt)
			if !ok || rs.Key == nil || !isNSSlice(info.TypeOf(rs.X)) {
				return true
			}
			keyID, ok := rs.Key.(*ast.Ident)
			if !ok {
				return true
			}
			keyObj := info.ObjectOf(keyID)
			inspectShallow(rs.Body, func(m ast.Node) bool {
				as, ok := m.(*ast.AssignStmt)
				if !ok || as.Tok != token.ASSIGN || len(as.Lhs) != 1 || len(as.Rhs) != 1 {
					return true
				}
				ix, ok := ast.Unparen(as.Lhs[0]).(*ast.IndexExpr)
				if !ok {
					return true
				}
				mt, ok := info.TypeOf(ix.X).Underlying().(*types.Map)
				if !ok || !isB6NS(mt.Key()) || !isNamed(mt.Elem(), p.PkgPath, "Namespace") {
					return true
				}
				// value mentions the range key
				uses := false
				ast.Inspect(as.Rhs[0], func(x ast.Node) bool {
					if id, ok := x.(*ast.Ident); ok && info.ObjectOf(id) == keyObj {
						uses = true
					}
					return true
				})
				if !uses {
					return true
				}
				ord++
				ob := Obligation{Key: fmt.Sprintf("%s#%d", name, ord), Pos: c.Position(as.Pos())}
				if !takesList {
					ob.Status = Info
					ob.Detail = fmt.Sprintf("code store %s copies codes from a stored table (the function takes no []b6.Namespace): no sort obligation", nodeText(c.Fset, as))
					out = append(out, ob)
					return true
				}
				jCheckSorted(c, fd, rs, as, &ob)
				out = append(out, ob)
				return true
			})
			return true
		})
	}
	return out
}

// jCheckSorted decides the obligation for one assigning code store.
func jCheckSorted(c *Ctx, fd *ast.FuncDecl, rs *ast.RangeStmt, store *ast.AssignStmt, ob *Obligation) {
	p := c.Pkg("ingest/compact")
	info := p.TypesInfo
	X := rs.X
	g := newCFG(info, fd.Body)
	storeLoc, ok := findNode(g, store)
	if !ok {
		ob.Status, ob.Detail = Undecided, "code store not found in the control-flow graph"
		return
	}
	_ = storeLoc
	// classify nodes
	var unknownSort string
	isSort := func(n ast.Node) bool {
		found := false
		ast.Inspect(n, func(x ast.Node) bool {
			call, ok := x.(*ast.CallExpr)
			if !ok || len(call.Args) == 0 {
				return true
			}
			f := calleeFunc(info, call)
			if f == nil || f.Pkg() == nil || (f.Pkg().Path() != "sort" && f.Pkg().Path() != "slices") {
				return true
			}
			if !sameExpr(info, call.Args[0], X) {
				return true
			}
			switch f.Pkg().Path() + "." + f.Name() {
			case "sort.Sort", "sort.Stable":
				if why := jAscendingLess(c, info.TypeOf(X)); why != "" {
					unknownSort = c.Position(call.Pos()) + ": " + why
				} else {
					found = true
				}
			case "slices.Sort":
				found = true
			case "sort.Slice", "sort.SliceStable":
				if len(call.Args) == 2 && jAscendingFuncLit(info, call.Args[1], X) {
					found = true
				} else {
					unknownSort = c.Position(call.Pos()) + ": comparison function is not `return X[i] < X[j]`"
				}
			default:
				unknownSort = c.Position(call.Pos()) + ": " + f.FullName() + " is not a known ascending sort"
			}
			return true
		})
		return found
	}
	isStore := func(n ast.Node) bool { return n == ast.Node(store) }
	// writes to X: X = ..., X[..] = ..., append through X
	isWrite := func(n ast.Node) bool {
		as, ok := n.(*ast.AssignStmt)
		if !ok {
			return false
		}
		for _, l := range as.Lhs {
			l = ast.Unparen(l)
			if sameExpr(info, l, X) {
				return true
			}
			if ix, ok := l.(*ast.IndexExpr); ok && sameExpr(info, ix.X, X) {
				return true
			}
		}
		return false
	}
	// sanity: the sort must be recognisable at all
	var writes []nodeLoc
	for _, b := range g.Blocks {
		for i, n := range b.Nodes {
			if isWrite(n) {
				writes = append(writes, nodeLoc{b, i})
			}
		}
	}
	ps := &pathSearch{c: c, info: info, stop: isSort, bad: isStore, exitIsBad: false}
	if len(g.Blocks) > 0 {
		if w := ps.run(nodeLoc{g.Blocks[0], -1}); w != nil {
			if unknownSort != "" {
				ob.Status, ob.Detail = Undecided, unknownSort
				return
			}
			ob.Status = Violation
			ob.Detail = fmt.Sprintf("codes are assigned by %s in the order of %s, which is not sorted on a path from the function entry: code order then differs from b6.Namespace order whenever the caller's list is not sorted",
				nodeText(c.Fset, store), types.ExprString(X))
			ob.Path = w
			return
		}
	}
	for _, wl := range writes {
		if w := ps.run(wl); w != nil {
			if unknownSort != "" {
				ob.Status, ob.Detail = Undecided, unknownSort
				return
			}
			ob.Status = Violation
			ob.Detail = fmt.Sprintf("codes are assigned by %s after the write %s to %s without a sort in between: code order can differ from b6.Namespace order",
				nodeText(c.Fset, store), nodeText(c.Fset, wl.b.Nodes[wl.i]), types.ExprString(X))
			ob.Path = append([]string{"from " + c.Position(wl.b.Nodes[wl.i].Pos())}, w...)
			return
		}
	}
	if unknownSort != "" {
		ob.Status, ob.Detail = Undecided, unknownSort
		return
	}
	ob.Status = OK
	ob.Detail = fmt.Sprintf("every path from entry and from the %d write(s) to %s reaches %s through an ascending sort of %s", len(writes), types.ExprString(X), nodeText(c.Fset, store), types.ExprString(X))
}

// jAscendingLess checks that the Less(i, j int) bool method of t is `return r[i] < r[j]`.
func jAscendingLess(c *Ctx, t types.Type) string {
	_, fd, p := jMethodDecl(c, t, "Less")
	if fd == nil || fd.Body == nil {
		return "type " + t.String() + " has no Less method declared in the module"
	}
	info := p.TypesInfo
	if len(fd.Body.List) != 1 || fd.Recv == nil || len(fd.Recv.List) != 1 || len(fd.Recv.List[0].Names) != 1 {
		return "Less of " + t.String() + " is not a single return"
	}
	r, ok := fd.Body.List[0].(*ast.ReturnStmt)
	if !ok || len(r.Results) != 1 {
		return "Less of " + t.String() + " is not a single return"
	}
	var params []types.Object
	for _, f := range fd.Type.Params.List {
		for _, n := range f.Names {
			params = append(params, info.Defs[n])
		}
	}
	if len(params) != 2 {
		return "Less of " + t.String() + " does not take two indices"
	}
	recv := info.Defs[fd.Recv.List[0].Names[0]]
	if !jIndexLess(info, r.Results[0], recv, nil, params[0], params[1]) {
		return fmt.Sprintf("Less of %s (%s) is not `return r[i] < r[j]`: the sort is not ascending in b6.Namespace order", t.String(), c.Position(fd.Pos()))
	}
	return ""
}

// jIndexLess matches `S[i] < S[j]` where S is the object recv or the expression x.
func jIndexLess(info *types.Info, e ast.Expr, recv types.Object, x ast.Expr, i, j types.Object) bool {
	b, ok := ast.Unparen(e).(*ast.BinaryExpr)
	if !ok || b.Op != token.LSS {
		return false
	}
	side := func(e ast.Expr, idx types.Object) bool {
		ix, ok := ast.Unparen(e).(*ast.IndexExpr)
		if !ok {
			return false
		}
		id, ok := ast.Unparen(ix.Index).(*ast.Ident)
		if !ok || info.ObjectOf(id) != idx {
			return false
		}
		if recv != nil {
			s, ok := ast.Unparen(ix.X).(*ast.Ident)
			return ok && info.ObjectOf(s) == recv
		}
		return sameExpr(info, ix.X, x)
	}
	return side(b.X, i) && side(b.Y, j)
}

func jAscendingFuncLit(info *types.Info, e ast.Expr, x ast.Expr) bool {
	fl, ok := ast.Unparen(e).(*ast.FuncLit)
	if !ok || len(fl.Body.List) != 1 {
		return false
	}
	r, ok := fl.Body.List[0].(*ast.ReturnStmt)
	if !ok || len(r.Results) != 1 {
		return false
	}
	var params []types.Object
	for _, f := range fl.Type.Params.List {
		for _, n := range f.Names {
			params = append(params, info.Defs[n])
		}
	}
	return len(params) == 2 && jIndexLess(info, r.Results[0], nil, x, params[0], params[1])
}
