package main

import (
	"fmt"
	"go/ast"
	"go/token"
	"go/types"
	"sort"
)

// LEX-NOT-PRODUCT (C08, C03): the keys a search iterator is positioned by are composite (type and
// namespace, then value; token, then ID) and ordered lexicographically. A test "the target is at
// or before my position" written component by component, `major(t) <= major(p) && minor(t) <=
// minor(p)`, is the product order, not the lexicographic one: it says no for a target in an earlier
// major section with a larger minor component, and the iterator then repositions itself as if the
// target were ahead. The lexicographic test is `major(t) < major(p) || (major(t) == major(p) &&
// minor(t) <= minor(p))`, or a call of the key type's Less.
//
// Subjects: the methods with a parameter of every type that implements search.Iterator or
// search.TokenIterator (Advance and its helpers). In each, every conjunction that contains two
// order comparisons (<, <=, >, >=) which, oriented the same way, both have a side that depends on
// a parameter (the target) and an opposite side that depends only on the receiver (the position),
// through different expressions, is reported. One obligation per subject method. Sides are
// followed through local variables assigned once. Bracketing tests (`lo <= x && x <= hi`) orient
// the target on different sides and are not instances.
func init() {
	register(&Rule{
		Name:    "LEX-NOT-PRODUCT",
		IR:      "ast",
		Props:   []string{"C08", "C03", "C06"},
		Floor:   10,
		FloorBy: map[string]int{"C08": 1, "C03": 8, "C06": 10},
		Doc: "in the methods of a search iterator that take a target, no condition compares the target with the iterator's position component by component with && " +
			"(the product order): composite keys are ordered lexicographically (instances: every such method of every search.Iterator implementation)",
		Run: runLexNotProduct,
	})
}

func runLexNotProduct(c *Ctx) []Obligation {
	var out []Obligation
	for _, it := range c.gIteratorTypes() {
		info := it.pkg.TypesInfo
		props := []string{"C03", "C06"}
		if relPkg(it.pkg) == "ingest/compact" {
			props = []string{"C08", "C06"}
		}
		var names []string
		for n := range it.methods {
			names = append(names, n)
		}
		sort.Strings(names)
		for _, mn := range names {
			fd := it.methods[mn]
			recv := gRecvObj(info, fd)
			if recv == nil || fd.Type.Params == nil {
				continue
			}
			params := map[types.Object]bool{}
			for _, f := range fd.Type.Params.List {
				for _, id := range f.Names {
					if o := info.Defs[id]; o != nil {
						params[o] = true
					}
				}
			}
			if len(params) == 0 {
				continue
			}
			// locals assigned exactly once
			defs := map[types.Object]ast.Expr{}
			count := map[types.Object]int{}
			ast.Inspect(fd.Body, func(n ast.Node) bool {
				switch x := n.(type) {
				case *ast.AssignStmt:
					for i, l := range x.Lhs {
						if id, ok := l.(*ast.Ident); ok {
							o := info.Defs[id]
							if o == nil {
								o = info.Uses[id]
							}
							if o != nil {
								count[o]++
								if len(x.Lhs) == len(x.Rhs) {
									defs[o] = x.Rhs[i]
								}
							}
						}
					}
				case *ast.IncDecStmt:
					if id, ok := x.X.(*ast.Ident); ok {
						if o := info.Uses[id]; o != nil {
							count[o] += 2
						}
					}
				}
				return true
			})
			var roots func(e ast.Expr, depth int, acc map[types.Object]bool)
			roots = func(e ast.Expr, depth int, acc map[types.Object]bool) {
				ast.Inspect(e, func(n ast.Node) bool {
					id, ok := n.(*ast.Ident)
					if !ok {
						return true
					}
					o := info.Uses[id]
					if o == nil {
						return true
					}
					if o == recv || params[o] {
						acc[o] = true
					} else if d, ok := defs[o]; ok && count[o] == 1 && depth < 4 {
						roots(d, depth+1, acc)
					}
					return true
				})
			}
			kind := func(e ast.Expr) string { // "target", "position" or ""
				acc := map[types.Object]bool{}
				roots(e, 0, acc)
				hasParam := false
				for o := range acc {
					if params[o] {
						hasParam = true
					}
				}
				switch {
				case hasParam:
					return "target"
				case acc[recv]:
					return "position"
				}
				return ""
			}
			name := c.FuncName(it.pkg, fd)
			ob := Obligation{Key: name, Props: props, Pos: c.Position(fd.Pos()), Status: OK,
				Detail: "no condition compares the target with the position component by component with &&"}
			ast.Inspect(fd.Body, func(n ast.Node) bool {
				be, ok := n.(*ast.BinaryExpr)
				if !ok || be.Op != token.LAND || ob.Status != OK {
					return true
				}
				type cmp struct {
					t, p ast.Expr
					dir  string
				}
				var cmps []cmp
				for _, cj := range conjuncts(be) {
					b, ok := ast.Unparen(cj).(*ast.BinaryExpr)
					if !ok {
						continue
					}
					var lessSide, moreSide ast.Expr
					switch b.Op {
					case token.LSS, token.LEQ:
						lessSide, moreSide = b.X, b.Y
					case token.GTR, token.GEQ:
						lessSide, moreSide = b.Y, b.X
					default:
						continue
					}
					kl, km := kind(lessSide), kind(moreSide)
					switch {
					case kl == "target" && km == "position":
						cmps = append(cmps, cmp{lessSide, moreSide, "target<=position"})
					case kl == "position" && km == "target":
						cmps = append(cmps, cmp{moreSide, lessSide, "position<=target"})
					}
				}
				for i := 0; i < len(cmps); i++ {
					for j := i + 1; j < len(cmps); j++ {
						if cmps[i].dir == cmps[j].dir && srcText(c.Fset, cmps[i].t) != srcText(c.Fset, cmps[j].t) && srcText(c.Fset, cmps[i].p) != srcText(c.Fset, cmps[j].p) {
							ob.Status = Violation
							ob.Pos = c.Position(be.Pos())
							ob.Detail = fmt.Sprintf("%s compares two components of the target with two components of the iterator's position in one conjunction (%s against %s, and %s against %s): that is the product order; composite keys are ordered lexicographically, so a target that is smaller in the major component and larger in the minor one is misjudged",
								srcText(c.Fset, be), srcText(c.Fset, cmps[i].t), srcText(c.Fset, cmps[i].p), srcText(c.Fset, cmps[j].t), srcText(c.Fset, cmps[j].p))
							return false
						}
					}
				}
				return true
			})
			// second clause: an order comparison between the same field of two composite keys
			// (k1.F < k2.F for a struct type with a Less method) decides the order of the keys only where
			// the condition also relates every other field of the key
			if ob.Status == OK {
				ast.Inspect(fd.Body, func(n ast.Node) bool {
					if ob.Status != OK {
						return false
					}
					var cond ast.Expr
					switch x := n.(type) {
					case *ast.IfStmt:
						cond = x.Cond
					case *ast.ForStmt:
						cond = x.Cond
					}
					if cond == nil {
						return true
					}
					ast.Inspect(cond, func(m ast.Node) bool {
						be, ok := m.(*ast.BinaryExpr)
						if !ok {
							return true
						}
						switch be.Op {
						case token.LSS, token.LEQ, token.GTR, token.GEQ:
						default:
							return true
						}
						sx, ok1 := ast.Unparen(be.X).(*ast.SelectorExpr)
						sy, ok2 := ast.Unparen(be.Y).(*ast.SelectorExpr)
						if !ok1 || !ok2 {
							return true
						}
						selX, selY := info.Selections[sx], info.Selections[sy]
						if selX == nil || selY == nil || selX.Obj() != selY.Obj() || selX.Kind() != types.FieldVal {
							return true
						}
						kt := namedOf(info.TypeOf(sx.X))
						if kt == nil || !types.Identical(info.TypeOf(sx.X), info.TypeOf(sy.X)) {
							return true
						}
						st, ok := kt.Underlying().(*types.Struct)
						if !ok {
							return true
						}
						hasLess := false
						for i := 0; i < kt.NumMethods(); i++ {
							if kt.Method(i).Name() == "Less" {
								hasLess = true
							}
						}
						if !hasLess {
							return true
						}
						// every other field of the key is related somewhere in the condition
						for i := 0; i < st.NumFields(); i++ {
							f := st.Field(i)
							if f == selX.Obj() {
								continue
							}
							mentioned := false
							ast.Inspect(cond, func(k ast.Node) bool {
								if s2, ok := k.(*ast.SelectorExpr); ok {
									if sl := info.Selections[s2]; sl != nil && sl.Obj() == f {
										mentioned = true
									}
								}
								return true
							})
							if !mentioned {
								ob.Status = Violation
								ob.Pos = c.Position(be.Pos())
								ob.Detail = fmt.Sprintf("%s orders two %s keys by their %s field in a condition that never looks at %s: keys are ordered by all their fields (%s.Less), so two keys that differ in %s are compared as if they did not", srcText(c.Fset, be), kt.Obj().Name(), selX.Obj().Name(), f.Name(), kt.Obj().Name(), f.Name())
								return false
							}
						}
						return true
					})
					return true
				})
			}
			out = append(out, ob)
		}
	}
	return out
}
