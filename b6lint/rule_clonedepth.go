package main

import (
	"fmt"
	"go/ast"
	"go/token"
	"go/types"
	"sort"
	"strings"

	"golang.org/x/tools/go/packages"
)

// CLONE-DEPTH (C38): a clone of a feature must not share any storage that the feature API
// writes in place.
//
// Slots (discovered by type): every named type of the module that implements ingest.Feature,
// plus the named module types of its (nested) struct fields that have Clone…/MergeFrom…
// methods themselves (today b6.Tags and ingest.AreaMembers); on those types every method
// whose name starts with Clone or MergeFrom.
//
// W (discovered by shape in every module package): access paths written in place —
// assignments and ++/-- whose left side indexes into a slice reached from a struct field
// (`a.ids[i][j] = …` gives ids depth 2, `b.Keys[i], b.Keys[j] = …` in Swap gives Keys depth 1;
// types defined from a slot type share its fields) or from a value of a named slice type
// (`(*t)[i].Value = …`, ByTagKey.Swap: Tags depth 1); copy(dst, …) writes dst one level
// deeper (`copy(a.ids[i], ids)`: ids depth 2); sort.Sort/Slice/Stable, slices.Sort*/Reverse
// on such a path write its first level.
//
// Obligation, one per method: for every path of W below the cloned type, of depth d, the
// destination (result of Clone…, receiver of MergeFrom…) owns its storage at every level
// 1..d, the source being the receiver of Clone… / the parameter of MergeFrom….
//
// Accepted idioms (all interpreted, none matched by text): make + copy / element-wise loop;
// append([]T(nil), src...) and append(own, src...); slices.Clone; composite literals; a call
// of another slot method (its own obligation covers it, so the result is taken as deep);
// copy into the receiver's own array (MergeFrom); re-slicing; helper functions declared in
// the module (interpreted inline, depth 4). A plain `dst.F = src.F` is level 0 only; a
// copy(dst, src) of a slice of slices is level 1 only.
// Undecided: the method uses go/defer/select/goto/function literals, or a failing path
// involves the result of a call that cannot be interpreted.
func init() {
	register(&Rule{
		Name:  "CLONE-DEPTH",
		IR:    "ast",
		Props: []string{"C38", "C39"},
		// the tag list's own Clone/MergeFrom also carry C39 ("merging replaces the list with the other's": a merged
		// list that shares the other's backing array is changed by later edits of the other)
		Narrow: func(o *Obligation) {
			if k := strings.TrimPrefix(o.Key, "CLONE-DEPTH/"); strings.HasPrefix(k, "b6.(*Tags).") || strings.HasPrefix(k, "b6.(Tags).") {
				o.Props = []string{"C38", "C39"}
			} else {
				o.Props = []string{"C38"}
			}
		},
		// ingest: GenericFeature{Clone,MergeFrom}, AreaMembers{Clone,MergeFrom},
		// AreaFeature{Clone,CloneAreaFeature,MergeFrom,MergeFromAreaFeature},
		// RelationFeature{Clone,CloneRelationFeature,MergeFrom,MergeFromRelationFeature},
		// CollectionFeature{Clone,MergeFrom,MergeFromCollectionFeature}; b6: Tags{Clone,MergeFrom}
		Floor:   17,
		FloorBy: map[string]int{"C39": 2},
		Doc: "for every Clone…/MergeFrom… method of an ingest.Feature implementation or of a member type it embeds, and every access path " +
			"the feature API writes in place (depth d), the destination owns fresh storage at every level <= d " +
			"(plain field assignment: level 0; copy of a slice of slices: level 1)",
		Run: runCloneDepth,
	})
}

type fWrite struct {
	depth int
	pos   token.Pos
	text  string
}

type fWrites struct {
	byField map[*types.Var]fWrite      // struct field -> deepest in-place write
	byNamed map[*types.TypeName]fWrite // named slice type -> deepest in-place write
}

func (w *fWrites) addField(f *types.Var, d int, pos token.Pos, text string) {
	if old, ok := w.byField[f]; !ok || d > old.depth {
		w.byField[f] = fWrite{d, pos, text}
	}
}

func (w *fWrites) addNamed(n *types.TypeName, d int, pos token.Pos, text string) {
	if old, ok := w.byNamed[n]; !ok || d > old.depth {
		w.byNamed[n] = fWrite{d, pos, text}
	}
}

// record walks an expression that denotes storage written at `extra` levels below it.
func (w *fWrites) record(info *types.Info, e ast.Expr, extra int, pos token.Pos, text string) {
	depth := extra
	cur := e
	for {
		switch x := ast.Unparen(cur).(type) {
		case *ast.IndexExpr:
			t := info.TypeOf(x.X)
			if t == nil {
				return
			}
			if p, ok := t.Underlying().(*types.Pointer); ok {
				t = p.Elem()
			}
			switch t.Underlying().(type) {
			case *types.Slice:
				depth++
			case *types.Array:
			default:
				return // map element or type instantiation: not slice storage
			}
			cur = x.X
			continue
		case *ast.SliceExpr:
			cur = x.X
			continue
		case *ast.StarExpr:
			cur = x.X
			continue
		case *ast.SelectorExpr:
			sel := info.Selections[x]
			if sel == nil || sel.Kind() != types.FieldVal {
				return
			}
			if f, ok := sel.Obj().(*types.Var); ok && depth > 0 {
				if _, isSlice := f.Type().Underlying().(*types.Slice); isSlice {
					w.addField(f, depth, pos, text)
					if n := namedOf(f.Type()); n != nil {
						w.addNamed(n.Obj(), depth, pos, text)
					}
				}
			}
			cur = x.X
			continue
		default:
			if depth > 0 {
				if t := info.TypeOf(cur); t != nil {
					if n := namedOf(t); n != nil {
						if _, isSlice := n.Underlying().(*types.Slice); isSlice {
							w.addNamed(n.Obj(), depth, pos, text)
						}
					}
				}
			}
			return
		}
	}
}

var fInPlaceFuncs = map[string]bool{
	"sort.Sort": true, "sort.Stable": true, "sort.Slice": true, "sort.SliceStable": true, "sort.Strings": true, "sort.Ints": true,
	"sort.Float64s": true, "slices.Sort": true, "slices.SortFunc": true, "slices.SortStableFunc": true, "slices.Reverse": true,
}

func fCollectWrites(c *Ctx) *fWrites {
	w := &fWrites{byField: map[*types.Var]fWrite{}, byNamed: map[*types.TypeName]fWrite{}}
	for _, p := range c.SortedPkgs() {
		info := p.TypesInfo
		for _, fd := range c.FuncDecls(p) {
			ast.Inspect(fd.Body, func(n ast.Node) bool {
				switch s := n.(type) {
				case *ast.AssignStmt:
					if s.Tok == token.DEFINE {
						return true
					}
					for _, l := range s.Lhs {
						w.record(info, l, 0, l.Pos(), nodeText(c.Fset, s))
					}
				case *ast.IncDecStmt:
					w.record(info, s.X, 0, s.Pos(), types.ExprString(s.X)+s.Tok.String())
				case *ast.CallExpr:
					if isBuiltin(info, s, "copy") && len(s.Args) == 2 {
						w.record(info, s.Args[0], 1, s.Pos(), nodeText(c.Fset, s))
					} else if f := calleeFunc(info, s); f != nil && f.Pkg() != nil && fInPlaceFuncs[f.Pkg().Path()+"."+f.Name()] && len(s.Args) > 0 {
						arg := s.Args[0]
						if conv, ok := ast.Unparen(arg).(*ast.CallExpr); ok && len(conv.Args) == 1 {
							if tv, ok := info.Types[conv.Fun]; ok && tv.IsType() {
								arg = conv.Args[0] // sort.Sort(T(x)): x's storage
							}
						}
						w.record(info, arg, 1, s.Pos(), nodeText(c.Fset, s))
					}
				}
				return true
			})
		}
	}
	return w
}

type fReq struct {
	path  []*types.Var // field path from the cloned value (empty: the value itself)
	depth int
	wit   fWrite
}

func (r fReq) name() string {
	if len(r.path) == 0 {
		return "[*]"
	}
	var s []string
	for _, f := range r.path {
		s = append(s, f.Name())
	}
	return strings.Join(s, ".") + strings.Repeat("[*]", r.depth)
}

// selfDepth: deepest in-place write through any named slice type with the same underlying type.
func (w *fWrites) selfDepth(t types.Type) (fWrite, bool) {
	n := namedOf(t)
	if n == nil {
		return fWrite{}, false
	}
	if _, ok := n.Underlying().(*types.Slice); !ok {
		return fWrite{}, false
	}
	var best fWrite
	found := false
	var names []*types.TypeName
	for tn := range w.byNamed {
		names = append(names, tn)
	}
	sort.Slice(names, func(i, j int) bool { return names[i].Pos() < names[j].Pos() })
	for _, tn := range names {
		if types.Identical(tn.Type().Underlying(), n.Underlying()) {
			if wr := w.byNamed[tn]; !found || wr.depth > best.depth {
				best, found = wr, true
			}
		}
	}
	return best, found
}

func (w *fWrites) reqs(t types.Type, prefix []*types.Var, seen map[types.Type]bool) []fReq {
	if p, ok := t.Underlying().(*types.Pointer); ok {
		t = p.Elem()
	}
	if seen[t] {
		return nil
	}
	seen[t] = true
	defer delete(seen, t)
	var out []fReq
	switch u := t.Underlying().(type) {
	case *types.Slice:
		if wr, ok := w.selfDepth(t); ok {
			out = append(out, fReq{append([]*types.Var(nil), prefix...), wr.depth, wr})
		}
	case *types.Struct:
		for i := 0; i < u.NumFields(); i++ {
			f := u.Field(i)
			path := append(append([]*types.Var(nil), prefix...), f)
			switch f.Type().Underlying().(type) {
			case *types.Slice:
				var best fWrite
				found := false
				if wr, ok := w.byField[f]; ok {
					best, found = wr, true
				}
				if wr, ok := w.selfDepth(f.Type()); ok && (!found || wr.depth > best.depth) {
					best, found = wr, true
				}
				if found {
					out = append(out, fReq{path, best.depth, best})
				}
			case *types.Struct:
				out = append(out, w.reqs(f.Type(), path, seen)...)
			}
		}
	}
	return out
}

type fCloneSlot struct {
	p     *packages.Package
	fd    *ast.FuncDecl
	fn    *types.Func
	named *types.Named
	merge bool
}

func fCloneSlots(c *Ctx) ([]fCloneSlot, map[*types.Func]int) {
	ing := c.Pkg("ingest")
	if ing == nil {
		return nil, nil
	}
	ftn, _ := ing.Types.Scope().Lookup("Feature").(*types.TypeName)
	if ftn == nil {
		return nil, nil
	}
	iface, _ := ftn.Type().Underlying().(*types.Interface)
	if iface == nil {
		return nil, nil
	}
	slotTypes := map[*types.TypeName]bool{}
	hasCloneMethods := func(n *types.Named) bool {
		for i := 0; i < n.NumMethods(); i++ {
			nm := n.Method(i).Name()
			if strings.HasPrefix(nm, "Clone") || strings.HasPrefix(nm, "MergeFrom") {
				return true
			}
		}
		return false
	}
	var addMembers func(t types.Type, seen map[types.Type]bool)
	addMembers = func(t types.Type, seen map[types.Type]bool) {
		st, ok := t.Underlying().(*types.Struct)
		if !ok || seen[t] {
			return
		}
		seen[t] = true
		for i := 0; i < st.NumFields(); i++ {
			ft := st.Field(i).Type()
			if _, isPtr := ft.Underlying().(*types.Pointer); isPtr {
				continue
			}
			if n := namedOf(ft); n != nil && n.Obj().Pkg() != nil && strings.HasPrefix(n.Obj().Pkg().Path(), ModulePath) && hasCloneMethods(n) {
				slotTypes[n.Obj()] = true
			}
			addMembers(ft, seen)
		}
	}
	for _, p := range c.SortedPkgs() {
		sc := p.Types.Scope()
		for _, name := range sc.Names() {
			tn, ok := sc.Lookup(name).(*types.TypeName)
			if !ok || tn.IsAlias() {
				continue
			}
			n, ok := tn.Type().(*types.Named)
			if !ok || n.TypeParams().Len() > 0 {
				continue
			}
			if _, isIface := n.Underlying().(*types.Interface); isIface {
				continue
			}
			if types.Implements(n, iface) || types.Implements(types.NewPointer(n), iface) {
				slotTypes[tn] = true
				addMembers(n, map[types.Type]bool{})
			}
		}
	}
	var slots []fCloneSlot
	kinds := map[*types.Func]int{}
	for _, d := range fAllDecls(c) {
		n := fRecvNamed(d.p.TypesInfo, d.fd)
		if n == nil || !slotTypes[n.Obj()] {
			continue
		}
		fn, _ := d.p.TypesInfo.Defs[d.fd.Name].(*types.Func)
		if fn == nil {
			continue
		}
		sig := fn.Type().(*types.Signature)
		switch {
		case strings.HasPrefix(d.fd.Name.Name, "Clone") && sig.Results().Len() >= 1:
			slots = append(slots, fCloneSlot{d.p, d.fd, fn, n, false})
			kinds[fn] = fContractClone
		case strings.HasPrefix(d.fd.Name.Name, "MergeFrom") && sig.Params().Len() >= 1:
			slots = append(slots, fCloneSlot{d.p, d.fd, fn, n, true})
			kinds[fn] = fContractMerge
		}
	}
	return slots, kinds
}

func runCloneDepth(c *Ctx) []Obligation {
	slots, kinds := fCloneSlots(c)
	if len(slots) == 0 {
		return nil
	}
	w := fCollectWrites(c)
	ing := c.Pkg("ingest")
	ftn, _ := ing.Types.Scope().Lookup("Feature").(*types.TypeName)
	var out []Obligation
	for _, s := range slots {
		ob := Obligation{Key: c.FuncName(s.p, s.fd), Pos: c.Position(s.fd.Pos())}
		in := &fInterp{c: c, maxDepth: 4}
		in.contract = func(fn *types.Func) int {
			fn = fn.Origin()
			if k, ok := kinds[fn]; ok {
				return k
			}
			// the interface methods ingest.Feature.Clone / MergeFrom dispatch to slot methods
			if sig, ok := fn.Type().(*types.Signature); ok && sig.Recv() != nil && ftn != nil &&
				types.Identical(sig.Recv().Type(), ftn.Type()) {
				switch {
				case strings.HasPrefix(fn.Name(), "Clone"):
					return fContractClone
				case strings.HasPrefix(fn.Name(), "MergeFrom"):
					return fContractMerge
				}
			}
			return fContractNone
		}
		res := in.analyse(s.p, s.fd, func(o types.Object, isRecv bool) bool { return isRecv != s.merge })
		var dest fVal
		var destType types.Type = s.named
		if s.merge {
			dest = res[len(res)-1]
		} else {
			dest = res[0]
			rt := s.fn.Type().(*types.Signature).Results().At(0).Type()
			if n := namedOf(rt); n != nil {
				if _, isIface := n.Underlying().(*types.Interface); !isIface {
					destType = n
				}
			}
		}
		if p, ok := dest.(*fPtr); ok {
			dest = p.slot.v
		}
		reqs := w.reqs(destType, nil, map[types.Type]bool{})
		var bad, lines []string
		for _, r := range reqs {
			v := dest
			for _, f := range r.path {
				o, ok := v.(*fObj)
				if !ok || o == nil {
					v = nil
					break
				}
				v = o.fieldSlot(f).v
			}
			if len(r.path) > 0 {
				if o, ok := dest.(*fObj); !ok || o == nil {
					// the destination is not a struct object the interpreter built: a nil
					// interface result or an opaque value; opaque source values are caught below
					v = dest
				}
			}
			got := fFreshLevels(v, r.depth)
			line := fmt.Sprintf("%s: written in place at %s (%s); destination fresh at levels <= %d of %d", r.name(), c.Position(r.wit.pos), r.wit.text, got, r.depth)
			lines = append(lines, line)
			if got < r.depth {
				bad = append(bad, fmt.Sprintf("%s is fresh at level %d only, but %s writes level %d in place (%s)", r.name(), got, c.Position(r.wit.pos), r.depth, r.wit.text))
			}
		}
		what := "result"
		src := "the receiver"
		if s.merge {
			what, src = "receiver", "the argument"
		}
		unsupported := false
		for _, n := range in.notes {
			if strings.Contains(n, "is not interpreted") {
				unsupported = true
			}
		}
		switch {
		case unsupported:
			ob.Status = Undecided
			ob.Detail = "the method uses a construct the clone interpreter does not follow: " + fJoin(in.notes)
		case len(bad) > 0 && len(in.notes) > 0:
			ob.Status = Undecided
			ob.Detail = fmt.Sprintf("%s may share storage with %s (%s), but the verdict depends on calls that were not interpreted: %s", what, src, fJoin(bad), fJoin(in.notes))
		case len(bad) > 0:
			ob.Status = Violation
			ob.Detail = fmt.Sprintf("%s shares storage with %s: %s", what, src, fJoin(bad))
		case len(reqs) == 0:
			ob.Status = OK
			ob.Detail = "no access path of " + types.TypeString(destType, nil) + " is written in place"
		default:
			ob.Status = OK
			var names []string
			for _, r := range reqs {
				names = append(names, r.name())
			}
			ob.Detail = fmt.Sprintf("%s owns its storage on every path written in place: %s", what, strings.Join(names, ", "))
		}
		ob.Path = lines
		out = append(out, ob)
	}
	return out
}
