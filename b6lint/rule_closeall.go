package main

import (
	"fmt"
	"go/ast"
	"go/token"
	"go/types"
	"sort"
)

// CLOSE-ALL (C25): a worker pool whose channel families are struct fields (slices of channels
// that outlive the function: mapParallelCollection.in / .out) closes every channel of each
// family on every path.
//
// Slots (by shape, in every module package; the anchored instance is
// api/functions.(*mapParallelCollection).run): a function that starts goroutines and sends on a
// data-channel family rooted at a struct field of slice/array-of-channel type.
//   - inner family (sent to and received from inside the function: `in`): the function body that
//     sends on it (the dispatcher) must, on every path from its entry to a normal exit, pass a
//     close-all of the family - otherwise the workers that range over it never finish and
//     g.Wait() never returns.
//   - outer family (sent to inside, received outside: `out`, read by Next): in the declaration's
//     own body every path from entry to exit passes `<group>.Wait()` and, after it, a close-all of
//     the family - otherwise the consumer blocks for ever on a channel that is never closed; a
//     close before Wait would make a worker panic.
//
// A close-all of family F is one of: `for i := range F { close(F[i]) }`; `for _, ch := range F
// { close(ch) }`; `for i := 0; i < len(F); i++ { close(F[i]) }` - the close at the top level of
// a body without break/continue/return/goto; or a `defer func() { <close-all> }()`.
func init() {
	register(&Rule{
		Name:  "CLOSE-ALL",
		IR:    "cfg",
		Props: []string{"C25"},
		Floor: 2, // api/functions.(*mapParallelCollection).run#1 (in, dispatcher), #2 (out, after g.Wait())
		Doc: "in a worker pool over struct-field channel families (mapParallelCollection.run): the dispatcher closes every channel of the inner family on every path from its entry to its exit, " +
			"and the function closes every channel of the outer family on every path to exit, after the errgroup's Wait()",
		Run: runCloseAll,
	})
}

// aCloseAllNodes returns the CFG nodes of unit u whose passage means "every channel of family
// root is closed": the range operand / loop condition of a close-all loop, or a defer of one.
func aCloseAllNodes(a *aPool, u *aUnit, root types.Object) []ast.Node {
	info := u.info()
	isFamily := func(e ast.Expr) bool { return a.find(aRootObj(info, e)) == root && aRootObj(info, e) != nil }
	cleanBody := func(b *ast.BlockStmt) bool {
		ok := true
		aShallow(b, func(n ast.Node) bool {
			switch n.(type) {
			case *ast.BranchStmt, *ast.ReturnStmt:
				ok = false
			}
			return ok
		})
		return ok
	}
	closes := func(b *ast.BlockStmt, match func(arg ast.Expr) bool) bool {
		for _, st := range b.List {
			if es, isExpr := st.(*ast.ExprStmt); isExpr {
				if call, isCall := es.X.(*ast.CallExpr); isCall && isBuiltin(info, call, "close") && len(call.Args) == 1 && match(call.Args[0]) {
					return true
				}
			}
		}
		return false
	}
	indexed := func(key types.Object) func(ast.Expr) bool {
		return func(arg ast.Expr) bool {
			ix, ok := ast.Unparen(arg).(*ast.IndexExpr)
			return ok && key != nil && isFamily(ix.X) && aObjOf(info, ix.Index) == key
		}
	}
	loopNode := func(st ast.Stmt) ast.Node {
		switch s := st.(type) {
		case *ast.RangeStmt:
			if aChanFamily(info.TypeOf(s.X)) == nil || aChanType(info.TypeOf(s.X)) != nil || !isFamily(s.X) || !cleanBody(s.Body) {
				return nil
			}
			if s.Key != nil && closes(s.Body, indexed(aObjOf(info, s.Key))) {
				return s.X
			}
			if s.Value != nil {
				val := aObjOf(info, s.Value)
				if val != nil && closes(s.Body, func(arg ast.Expr) bool { return aObjOf(info, arg) == val }) {
					return s.X
				}
			}
		case *ast.ForStmt:
			// for i := 0; i < len(F); i++ { close(F[i]) }
			if s.Init == nil || s.Cond == nil || s.Post == nil || !cleanBody(s.Body) {
				return nil
			}
			as, ok := s.Init.(*ast.AssignStmt)
			if !ok || len(as.Lhs) != 1 || len(as.Rhs) != 1 {
				return nil
			}
			if lit, isLit := as.Rhs[0].(*ast.BasicLit); !isLit || lit.Value != "0" {
				return nil
			}
			key := aObjOf(info, as.Lhs[0])
			cond, ok := s.Cond.(*ast.BinaryExpr)
			if !ok || cond.Op != token.LSS || aObjOf(info, cond.X) != key {
				return nil
			}
			lc, ok := ast.Unparen(cond.Y).(*ast.CallExpr)
			if !ok || !isBuiltin(info, lc, "len") || len(lc.Args) != 1 || !isFamily(lc.Args[0]) {
				return nil
			}
			inc, ok := s.Post.(*ast.IncDecStmt)
			if !ok || inc.Tok != token.INC || aObjOf(info, inc.X) != key {
				return nil
			}
			if closes(s.Body, indexed(key)) {
				return s.Cond
			}
		}
		return nil
	}
	var out []ast.Node
	aShallow(u.body, func(n ast.Node) bool {
		switch s := n.(type) {
		case *ast.RangeStmt, *ast.ForStmt:
			if nd := loopNode(s.(ast.Stmt)); nd != nil {
				out = append(out, nd)
			}
		case *ast.DeferStmt:
			if fl, ok := s.Call.Fun.(*ast.FuncLit); ok {
				for _, st := range fl.Body.List {
					if loopNode(st) != nil {
						out = append(out, s)
					}
				}
			}
		}
		return true
	})
	return out
}

func runCloseAll(c *Ctx) []Obligation {
	var out []Obligation
	for _, p := range c.SortedPkgs() {
		for _, fd := range c.FuncDecls(p) {
			if !aStartsGoroutines(p.TypesInfo, fd) {
				continue
			}
			a, sends, recvs := aPoolOps(c, p, fd)
			if len(sends) == 0 {
				continue
			}
			anchored := aIsMapParallelRun(p, fd)
			name := c.FuncName(p, fd)
			type fam struct {
				root    types.Object
				senders []*aUnit
				inner   bool
			}
			fams := map[types.Object]*fam{}
			var order []types.Object
			for _, s := range sends {
				v, ok := s.root.(*types.Var)
				if !ok || !v.IsField() {
					continue
				}
				if ch := aChanFamily(v.Type()); ch == nil || aChanType(v.Type()) != nil {
					continue // a single channel field, not a family
				}
				f := fams[s.root]
				if f == nil {
					f = &fam{root: s.root}
					fams[s.root] = f
					order = append(order, s.root)
				}
				dup := false
				for _, u := range f.senders {
					if u == s.unit {
						dup = true
					}
				}
				if !dup && s.unit.decl == fd {
					f.senders = append(f.senders, s.unit)
				}
			}
			for _, r := range recvs {
				if f := fams[r.root]; f != nil {
					f.inner = true
				}
			}
			type pending struct {
				pos token.Pos
				ob  Obligation
			}
			var obs []pending
			add := func(pos token.Pos, status, detail string, path []string) {
				ob := Obligation{Pos: c.Position(pos), Status: status, Detail: detail, Path: path}
				if !anchored && status != Info {
					ob.Status = Info
					ob.Detail = "pool outside the anchor of C25, not an obligation; the analysis says " + status + ": " + detail
				}
				obs = append(obs, pending{pos, ob})
			}
			decl := a.own[0]
			for _, root := range order {
				f := fams[root]
				if f.inner {
					// every sending body closes the family on every path from entry to exit
					for _, u := range f.senders {
						nodes := aCloseAllNodes(a, u, root)
						where := "the body at " + c.Position(u.pos())
						if len(nodes) == 0 {
							add(u.pos(), Violation, fmt.Sprintf("%s: %s sends on the channels of %s, which the workers range over, but has no loop that closes every one of them", name, where, root.Name()), nil)
							continue
						}
						isStop := func(n ast.Node) bool {
							for _, x := range nodes {
								if n == x {
									return true
								}
							}
							return false
						}
						fl := &aFlow{c: c, info: u.info(), exitBad: true, stop: isStop}
						if w := fl.run(u.cfg().Blocks[0], 0, nil); w != nil {
							add(u.pos(), Violation, fmt.Sprintf("%s: %s (the dispatcher of %s) can return without closing every channel of %s; the workers ranging over them then never finish and Wait() never returns", name, where, root.Name(), root.Name()), w)
							continue
						}
						add(u.pos(), OK, fmt.Sprintf("%s: every path through %s (the dispatcher of %s) passes the loop at %s that closes every channel of %s", name, where, root.Name(), c.Position(nodes[0].Pos()), root.Name()), nil)
					}
					continue
				}
				// outer family: Wait() on every path, then close-all on every path
				info := decl.info()
				var waits []ast.Node
				g := decl.cfg()
				for _, b := range g.Blocks {
					for _, n := range b.Nodes {
						found := false
						ast.Inspect(n, func(x ast.Node) bool {
							if _, isLit := x.(*ast.FuncLit); isLit {
								return false
							}
							if call, ok := x.(*ast.CallExpr); ok && aIsGroupMethod(calleeFunc(info, call), "Wait") {
								found = true
							}
							return !found
						})
						if found {
							waits = append(waits, n)
						}
					}
				}
				if len(waits) == 0 {
					add(fd.Pos(), Violation, fmt.Sprintf("%s sends on the channels of %s, which are received outside the function, but never waits for its errgroup", name, root.Name()), nil)
					continue
				}
				pos := waits[0].Pos()
				nodes := aCloseAllNodes(a, decl, root)
				if len(nodes) == 0 {
					add(pos, Violation, fmt.Sprintf("%s sends on the channels of %s, which are received outside the function, but has no loop that closes every one of them", name, root.Name()), nil)
					continue
				}
				isWait := func(n ast.Node) bool {
					for _, x := range waits {
						if n == x {
							return true
						}
					}
					return false
				}
				var deferred, loops []ast.Node
				for _, x := range nodes {
					if _, ok := x.(*ast.DeferStmt); ok {
						deferred = append(deferred, x)
					} else {
						loops = append(loops, x)
					}
				}
				in := func(set []ast.Node) func(ast.Node) bool {
					return func(n ast.Node) bool {
						for _, x := range set {
							if n == x {
								return true
							}
						}
						return false
					}
				}
				// (1) no close-all loop before Wait; every path passes Wait
				fl := &aFlow{c: c, info: info, exitBad: true, stop: isWait,
					bad: func(n ast.Node) string {
						if in(loops)(n) {
							return "closes the channels before Wait()"
						}
						return ""
					}}
				if w := fl.run(g.Blocks[0], 0, nil); w != nil {
					add(pos, Violation, fmt.Sprintf("%s: some path reaches the close of %s or the end of the function without passing the errgroup's Wait()", name, root.Name()), w)
					continue
				}
				// (2) after Wait every path passes a close-all (or one was deferred before Wait)
				okAll := true
				for _, wn := range waits {
					loc, found := findNode(g, wn)
					if !found {
						continue
					}
					// a defer registered on every path before this Wait discharges it
					if len(deferred) > 0 {
						pre := &aFlow{c: c, info: info, exitBad: true, stop: in(deferred), bad: func(n ast.Node) string {
							if n == wn {
								return "reaches Wait() without the deferred close"
							}
							return ""
						}}
						if pre.run(g.Blocks[0], 0, nil) == nil {
							continue
						}
					}
					post := &aFlow{c: c, info: info, exitBad: true, stop: in(loops)}
					if w := post.run(loc.b, loc.i+1, nil); w != nil {
						add(pos, Violation, fmt.Sprintf("%s: after %s some path leaves the function without closing every channel of %s; a consumer blocked on one of them never wakes up", name, nodeText(c.Fset, wn), root.Name()), w)
						okAll = false
						break
					}
				}
				if okAll {
					add(pos, OK, fmt.Sprintf("%s: every path passes %s and then the loop at %s that closes every channel of %s", name, nodeText(c.Fset, waits[0]), c.Position(nodes[0].Pos()), root.Name()), nil)
				}
			}
			sort.SliceStable(obs, func(i, j int) bool { return obs[i].pos < obs[j].pos })
			for i, o := range obs {
				o.ob.Key = fmt.Sprintf("%s#%d", name, i+1)
				out = append(out, o.ob)
			}
		}
	}
	return out
}
