package main

import (
	"fmt"
	"go/ast"
	"go/types"
	"sort"

	"golang.org/x/tools/go/cfg"
)

// EXISTENTIAL-LOOP (C05): the spatial predicates decide "the feature matches if any
// polygon / cell / vertex matches" with loops that return true from inside. A loop whose body
// leaves the function on every path of its first iteration only ever examines the first
// element, so the predicate is not existential.
//
// Subjects: the Matches methods of the spatial filter types (the types FILTER-AGREE
// discovers: query types of package b6 whose Compile returns a filtering iterator) and every
// module function returning bool that they reach through static calls (callees resolved
// through types; calls through interfaces are not followed). Every for/range statement of
// those functions (function literals excluded) is one instance, numbered in source order.
//
// Decision (go/cfg): from the first block of the loop body, staying inside the loop
// statement, is a block that starts another iteration (post statement, loop head, or the body
// itself for `for {}`) reachable?
//   - yes: ok;
//   - no, and every way out is a return: violation (leaves the function unconditionally in
//     its first iteration);
//   - no, and some way out is a break/goto: undecided (a loop that never iterates twice in a
//     predicate is an idiom this rule does not know).
//
// Not covered: whether the value returned inside the loop is the right one; loops in
// functions reached only through interface calls (s2 library code has no source here).
func init() {
	register(&Rule{
		Name:  "EXISTENTIAL-LOOP",
		IR:    "cfg",
		Props: []string{"C05"},
		Floor: 17, // cellsIntersectFeature 4, (*IntersectsCap).Matches 1, IntersectsPolygon 2, CapIntersectsPolygon 2, pointIntersectsFeature 1, polylineIntersectsPolygon 1, polylineIntersectsFeature 1, multiPolygonIntersectsFeature 5
		Doc: "in the bool functions statically reachable from the Matches methods of the spatial filter query types, no for/range loop " +
			"leaves the function on every path of its first iteration (a predicate over a collection must be able to examine every element)",
		Run: runExistentialLoop,
	})
}

// gPredicateClosure returns the bool module functions reachable by static calls from roots.
func (c *Ctx) gPredicateClosure(roots []*types.Func) []*types.Func {
	seen := map[*types.Func]bool{}
	var order []*types.Func
	var visit func(f *types.Func)
	visit = func(f *types.Func) {
		f = f.Origin()
		if seen[f] {
			return
		}
		fd, p := c.Decl(f)
		if fd == nil || fd.Body == nil || !gIsBoolFunc(f) {
			return
		}
		for _, file := range p.Syntax {
			if file.Pos() <= fd.Pos() && fd.End() <= file.End() && c.IsGenerated(file) {
				return
			}
		}
		seen[f] = true
		order = append(order, f)
		ast.Inspect(fd.Body, func(n ast.Node) bool {
			if call, ok := n.(*ast.CallExpr); ok {
				if g := calleeFunc(p.TypesInfo, call); g != nil {
					visit(g)
				}
			}
			return true
		})
	}
	for _, r := range roots {
		visit(r)
	}
	sort.Slice(order, func(i, j int) bool {
		a, _ := c.Decl(order[i])
		b, _ := c.Decl(order[j])
		pa, pb := c.Fset.Position(a.Pos()), c.Fset.Position(b.Pos())
		if pa.Filename != pb.Filename {
			return pa.Filename < pb.Filename
		}
		return pa.Offset < pb.Offset
	})
	return order
}

func runExistentialLoop(c *Ctx) []Obligation {
	var roots []*types.Func
	for _, fp := range c.gFilterPairs() {
		roots = append(roots, fp.matches)
	}
	var out []Obligation
	for _, f := range c.gPredicateClosure(roots) {
		fd, p := c.Decl(f)
		name := c.FuncName(p, fd)
		var loops []ast.Stmt
		inspectShallow(fd.Body, func(n ast.Node) bool {
			switch n.(type) {
			case *ast.ForStmt, *ast.RangeStmt:
				loops = append(loops, n.(ast.Stmt))
			}
			return true
		})
		if len(loops) == 0 {
			continue
		}
		g := newCFG(p.TypesInfo, fd.Body)
		for i, loop := range loops {
			ob := Obligation{Key: gNthKey(name, i+1), Pos: c.Position(loop.Pos())}
			body, iter, _ := gLoopBlocks(g, loop)
			if body == nil {
				ob.Status, ob.Detail = Undecided, "loop body not found in the control-flow graph"
				out = append(out, ob)
				continue
			}
			if !body.Live {
				ob.Status, ob.Detail = OK, "loop is unreachable"
				out = append(out, ob)
				continue
			}
			// Reachability inside the loop statement.
			seen := map[*cfg.Block]bool{body: true}
			work := []*cfg.Block{body}
			iterates := false
			var returns, leaves []string
			for len(work) > 0 {
				b := work[0]
				work = work[1:]
				if len(b.Succs) == 0 {
					if isExitBlock(p.TypesInfo, b) && len(b.Nodes) > 0 {
						last := b.Nodes[len(b.Nodes)-1]
						returns = append(returns, c.Position(last.Pos())+" "+nodeText(c.Fset, last))
					}
					continue
				}
				for _, s := range b.Succs {
					if iter[s] {
						iterates = true
						continue
					}
					if !gInside(s, loop) {
						leaves = append(leaves, fmt.Sprintf("%s (%s)", c.Position(loop.End()), s.Kind))
						continue
					}
					if !seen[s] {
						seen[s] = true
						work = append(work, s)
					}
				}
			}
			switch {
			case iterates:
				ob.Status, ob.Detail = OK, "the body can reach another iteration"
			case len(leaves) == 0 && len(returns) > 0:
				ob.Status = Violation
				ob.Detail = fmt.Sprintf("loop at %s in %s leaves the function on every path of its first iteration; only the first element is examined", c.Position(loop.Pos()), name)
				for _, r := range returns {
					ob.Path = append(ob.Path, "first iteration ends at "+r)
				}
			case len(leaves) == 0 && len(returns) == 0:
				ob.Status, ob.Detail = OK, "the body never completes normally (panics)"
			default:
				ob.Status = Undecided
				ob.Detail = fmt.Sprintf("loop at %s in %s never starts a second iteration and leaves by break/goto on some path; not a known idiom for a predicate", c.Position(loop.Pos()), name)
				for _, r := range returns {
					ob.Path = append(ob.Path, "first iteration ends at "+r)
				}
				ob.Path = append(ob.Path, leaves...)
			}
			out = append(out, ob)
		}
	}
	return out
}
