package main

import (
	"fmt"
	"go/ast"
	"go/token"
	"go/types"
)

// ITER-BOUND (C03, C06): `Next` and `Advance` of an iterator both end by saying whether the new
// position is still inside the list: `return t.i <= t.b.NumItems()`. The two tests are the same
// question about the same position field, so they have to be the same comparison; an off-by-one in
// one of them (`<` where the other has `<=`, for a 1-based position) makes the last entry reachable
// through `Advance` and not through `Next`: a prefix scan that advances to the first token of a key
// and then steps through the rest never sees the last token of the index.
//
// Subjects, by type: every type that implements search.Iterator or search.TokenIterator whose Next
// and Advance both have, as their last statement, `return <relational comparison>`. Obligation: the
// two comparisons are the same expression.
func init() {
	register(&Rule{
		Name:  "ITER-BOUND",
		IR:    "ast",
		Props: []string{"C03", "C06"},
		Floor: 3,
		Doc:   "where Next and Advance of an iterator both end with `return <comparison>` (is the position still inside the list?), the two comparisons are the same expression",
		Run:   runIterBound,
	})
}

func runIterBound(c *Ctx) []Obligation {
	var out []Obligation
	for _, it := range c.gIteratorTypes() {
		info := it.pkg.TypesInfo
		last := func(fd *ast.FuncDecl) *ast.BinaryExpr {
			if fd == nil || fd.Body == nil || len(fd.Body.List) == 0 {
				return nil
			}
			ret, ok := fd.Body.List[len(fd.Body.List)-1].(*ast.ReturnStmt)
			if !ok || len(ret.Results) != 1 {
				return nil
			}
			be, ok := ast.Unparen(ret.Results[0]).(*ast.BinaryExpr)
			if !ok {
				return nil
			}
			switch be.Op {
			case token.LSS, token.LEQ, token.GTR, token.GEQ, token.NEQ:
				return be
			}
			return nil
		}
		n, a := last(it.methods["Next"]), last(it.methods["Advance"])
		if n == nil || a == nil {
			continue
		}
		ob := Obligation{Key: relPkg(it.pkg) + "." + it.named.Obj().Name(), Pos: c.Position(n.Pos()), Status: OK,
			Detail: fmt.Sprintf("Next and Advance both end with %s", srcText(c.Fset, n))}
		canon := func(fd *ast.FuncDecl, e ast.Expr) string {
			roles := map[types.Object]string{}
			if r := gRecvObj(info, fd); r != nil {
				roles[r] = "RECV"
			}
			return canonExpr(c.Fset, info, e, roles)
		}
		if canon(it.methods["Next"], n) != canon(it.methods["Advance"], a) {
			ob.Status = Violation
			ob.Detail = fmt.Sprintf("Next ends with `return %s` and Advance with `return %s`: the same question about the same position gets two answers, so an entry at the boundary is reachable through one of them only", srcText(c.Fset, n), srcText(c.Fset, a))
		}
		out = append(out, ob)
	}
	return out
}
