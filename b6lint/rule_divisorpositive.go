package main

import (
	"fmt"
	"go/token"
	"go/types"
	"strings"

	"golang.org/x/tools/go/ssa"
)

// DIVISOR-POSITIVE (C25, C23). An integer division or remainder by zero is a run-time panic that
// the request path does not recover. Instances: every integer `/` and `%` (ssa.BinOp QUO/REM
// with an integer result) in packages api and api/functions (function literals included,
// generated code excluded) whose divisor is not a non-zero constant. Floating-point division
// does not panic and is outside the slot.
//
// Obligation: the divisor is provably non-zero where it is used, by one of
//
//	(a) a dominating comparison of the divisor itself (the same SSA value, a reload of a
//	    singly-stored variable, or len/cap of the same slice value): the true edge of d > c
//	    (c >= 0), d >= c (c >= 1), d != 0, d == c (c != 0); the false edge of d < c (c >= 1),
//	    d <= c (c >= 0), d == 0; or a relational test against a counter that cannot be negative:
//	    `i < d`, `i < d + c` (with the lower bound of i at least c), as in
//	    `for i := 1; i < len(points)+1; i++ { points[i%len(points)] }`;
//	(b) structure: a phi all of whose inputs are proved on their edges (`if n < 1 { n = 1 }`),
//	    max(…) with one proved argument, min(…) with all, a sum of a proved and a non-negative
//	    value, a product of proved values, an integer conversion of a proved value;
//	(c) len(S)/cap(S) of a provably non-empty slice S: make(T, n) with proved n; a composite
//	    literal with elements; append with at least one element; a phi of such; a dominating test
//	    of len(S); and, when S is read from a struct field (m.out), *every explicit creation site*
//	    of that field in the module — every store to the field, which in SSA includes the
//	    elements of composite literals — stores a provably non-empty slice (or copies the field
//	    from another value of the type). A store of x[:0], of nil or of an unproved make fails it;
//	(d) a value read through the receiver, recv.f.g (m.context.Cores): field f of the receiver's
//	    type is only ever set by composite literals, and each of them either copies it from
//	    another value of the type or is dominated by a test establishing <value>.g >= 1
//	    (mapParallel: `if context.Cores < 2 { return map_(…) }` before the only literal); the
//	    package of the type never assigns g. The rule assumes the object is not modified by
//	    other packages between the test and the use.
//
// Not instances, reported as Info: a divisor that is the direct result of a call into a
// dependency without source (s2.Loop.NumVertices() in sightline.go) — the rule cannot see what
// the library guarantees.
//
// Limit of (c): a struct value whose literal omits the slice field has a nil slice; the rule
// counts only explicit creation sites. mapParallelCollection is such a type: the value built by
// mapParallel is only a factory whose Begin() builds the iterator that owns in/out.
//
// Exceptions: one named function with the reason, in dDivisorExceptions.
var dDivisorExceptions = map[string]string{
	"api.uniform": "bucket_size := len(kvs) / (MaxHistogramBuckets - len(b)): the loop runs only while len(kvs) > 0 in the branch entered with len(kvs) > MaxHistogramBuckets, and appends exactly one bucket per iteration; " +
		"with k = MaxHistogramBuckets - len(b) buckets left, k = 1 gives bucket_size = len(kvs) >= 1, the else arm empties kvs and the loop ends, so k never reaches 0 (hand-verified invariant, not a shape the rule can decide)",
}

func init() {
	register(&Rule{
		Name:  "DIVISOR-POSITIVE",
		IR:    "ssa",
		Props: []string{"C25", "C23"},
		Floor: 13, // integer / and % with a non-constant divisor in api and api/functions (11 more divide by s2 results: Info)
		Doc: "in packages api and api/functions every integer / and % whose divisor is not a non-zero constant has a divisor that is provably non-zero: a dominating comparison, a clamp, or len/cap of a slice " +
			"all of whose creation sites (module-wide for struct fields) have a provably positive size",
		Run: runDivisorPositive,
	})
}

type dPos struct {
	c        *Ctx
	fieldMem map[string]int // (struct, field) non-empty: 0 in progress, 1 yes, -1 no
	why      string
}

func dIsInt(t types.Type) bool {
	b, ok := t.Underlying().(*types.Basic)
	return ok && b.Info()&types.IsInteger != 0
}

func runDivisorPositive(c *Ctx) []Obligation {
	c.BuildSSA()
	var sites []dSite
	var infos []Obligation
	for _, rel := range []string{"api", "api/functions"} {
		p := c.Pkg(rel)
		if p == nil {
			continue
		}
		for _, fd := range c.FuncDecls(p) {
			declName := c.FuncName(p, fd)
			seq, ninfo := 0, 0
			for _, fn := range dFuncSSA(c, p, fd) {
				for _, b := range fn.Blocks {
					for _, in := range b.Instrs {
						bo, ok := in.(*ssa.BinOp)
						if !ok || (bo.Op != token.QUO && bo.Op != token.REM) || !dIsInt(bo.Type()) {
							continue
						}
						if k, ok := dConstInt(bo.Y); ok && k != 0 {
							continue
						}
						opname := map[token.Token]string{token.QUO: "division", token.REM: "remainder"}[bo.Op]
						if call, ok := bo.Y.(*ssa.Call); ok {
							if f := call.Common().StaticCallee(); f != nil && len(f.Blocks) == 0 && !strings.HasPrefix(dPkgPath(f), ModulePath) {
								if _, isBuiltin := call.Common().Value.(*ssa.Builtin); !isBuiltin {
									ninfo++
									infos = append(infos, Obligation{Key: fmt.Sprintf("%s#ext%d", declName, ninfo), Pos: c.Position(dInstrPos(bo)), Status: Info,
										Detail: fmt.Sprintf("integer %s by the result of %s, a dependency without source: outside the slot", opname, f.String())})
									continue
								}
							}
						}
						seq++
						s := dSite{decl: declName, pos: dInstrPos(bo), seq: seq}
						pz := &dPos{c: c, fieldMem: map[string]int{}}
						what := fmt.Sprintf("integer %s at %s", opname, c.Position(dInstrPos(bo)))
						switch {
						case pz.nonzero(fn, bo.Y, dPoint{b: b}, bo, map[string]bool{}):
							s.status = OK
							s.detail = what + ": the divisor is provably non-zero (" + pz.why + ")"
						case dDivisorExceptions[declName] != "":
							s.status = OK
							s.detail = what + ": exception: " + dDivisorExceptions[declName]
						default:
							s.status = Violation
							s.detail = what + ": nothing establishes that the divisor (" + dDescribe(bo.Y) + ") is non-zero on every path: a zero divisor is a run-time panic (integer divide by zero)"
							if pz.why != "" {
								s.detail += "; " + pz.why
							}
							s.path = []string{"function " + fn.String(), "instruction " + bo.String()}
						}
						sites = append(sites, s)
					}
				}
			}
		}
	}
	return append(dObligations(c, sites), infos...)
}

func dPkgPath(f *ssa.Function) string {
	if f.Pkg != nil {
		return f.Pkg.Pkg.Path()
	}
	if f.Object() != nil && f.Object().Pkg() != nil {
		return f.Object().Pkg().Path()
	}
	return ""
}

func dDescribe(v ssa.Value) string {
	switch x := v.(type) {
	case *ssa.Call:
		if b, ok := x.Call.Value.(*ssa.Builtin); ok && len(x.Call.Args) == 1 {
			return b.Name() + "(" + dDescribe(x.Call.Args[0]) + ")"
		}
	case *ssa.UnOp:
		if x.Op == token.MUL {
			if fa, ok := x.X.(*ssa.FieldAddr); ok {
				return "field " + dFieldName(fa)
			}
		}
	case *ssa.Parameter:
		return "parameter " + x.Name()
	case *ssa.Convert:
		return dDescribe(x.X)
	case *ssa.TypeAssert:
		return "value asserted from " + dDescribe(x.X)
	}
	return v.Name() + " " + dShort(v.Type())
}

// dEqualExpr: the two values certainly denote the same number.
func dEqualExpr(a, b ssa.Value) bool {
	if dSameValue(a, b) {
		return true
	}
	if xa, ok := a.(*ssa.Convert); ok {
		if xb, ok := b.(*ssa.Convert); ok && types.Identical(xa.Type(), xb.Type()) {
			return dEqualExpr(xa.X, xb.X)
		}
	}
	if xa, ok := a.(*ssa.ChangeType); ok {
		if xb, ok := b.(*ssa.ChangeType); ok && types.Identical(xa.Type(), xb.Type()) {
			return dEqualExpr(xa.X, xb.X)
		}
	}
	ca, ok1 := a.(*ssa.Call)
	cb, ok2 := b.(*ssa.Call)
	if ok1 && ok2 {
		ba, ok1 := ca.Call.Value.(*ssa.Builtin)
		bb, ok2 := cb.Call.Value.(*ssa.Builtin)
		if ok1 && ok2 && ba.Name() == bb.Name() && (ba.Name() == "len" || ba.Name() == "cap") && len(ca.Call.Args) == 1 && len(cb.Call.Args) == 1 {
			return dEqualExpr(ca.Call.Args[0], cb.Call.Args[0])
		}
	}
	return false
}

// lowerBound: a constant L with v >= L, if one follows from the value's structure.
func (p *dPos) lowerBound(v ssa.Value, seen map[ssa.Value]bool) (int64, bool) {
	if k, ok := dConstInt(v); ok {
		return k, true
	}
	if dIsInt(v.Type()) && dIsUnsigned(v.Type()) {
		return 0, true
	}
	switch x := v.(type) {
	case *ssa.Call:
		if b, ok := x.Call.Value.(*ssa.Builtin); ok && (b.Name() == "len" || b.Name() == "cap") {
			return 0, true
		}
	case *ssa.Phi:
		if seen[v] {
			return 1 << 60, true // only reached through non-negative additions: see BinOp
		}
		seen[v] = true
		min := int64(1 << 60)
		for _, e := range x.Edges {
			l, ok := p.lowerBound(e, seen)
			if !ok {
				return 0, false
			}
			if l < min {
				min = l
			}
		}
		return min, true
	case *ssa.BinOp:
		if x.Op == token.ADD {
			a, ok1 := p.lowerBound(x.X, seen)
			b, ok2 := p.lowerBound(x.Y, seen)
			if ok1 && ok2 {
				// a cycle (counter) is only sound through additions of non-negative amounts
				if a >= 1<<59 {
					if b >= 0 {
						return 1 << 60, true
					}
					return 0, false
				}
				if b >= 1<<59 {
					if a >= 0 {
						return 1 << 60, true
					}
					return 0, false
				}
				return a + b, true
			}
		}
	case *ssa.Convert:
		if dIsInt(x.X.Type()) {
			return p.lowerBound(x.X, seen)
		}
	case *ssa.ChangeType:
		return p.lowerBound(x.X, seen)
	}
	return 0, false
}

// factNonZero: a dominating comparison establishes v != 0 at the point.
func (p *dPos) factNonZero(fn *ssa.Function, v ssa.Value, at dPoint) bool {
	for _, blk := range fn.Blocks {
		iff, ok := blk.Instrs[len(blk.Instrs)-1].(*ssa.If)
		if !ok {
			continue
		}
		bo, ok := iff.Cond.(*ssa.BinOp)
		if !ok {
			continue
		}
		onTrue, onFalse := dEdgeHolds(blk, 0, at), dEdgeHolds(blk, 1, at)
		if !onTrue && !onFalse {
			continue
		}
		// v compared directly, or as the summand of `i < v + c`
		match := func(side ssa.Value) (offset int64, ok bool) {
			if dEqualExpr(side, v) {
				return 0, true
			}
			if add, isAdd := side.(*ssa.BinOp); isAdd && add.Op == token.ADD {
				if k, isK := dConstInt(add.Y); isK && dEqualExpr(add.X, v) {
					return k, true
				}
				if k, isK := dConstInt(add.X); isK && dEqualExpr(add.Y, v) {
					return k, true
				}
			}
			return 0, false
		}
		op := bo.Op
		var other ssa.Value
		var off int64
		if o, ok := match(bo.X); ok {
			other, off = bo.Y, o
		} else if o, ok := match(bo.Y); ok {
			other, off = bo.X, o
			switch op {
			case token.LSS:
				op = token.GTR
			case token.LEQ:
				op = token.GEQ
			case token.GTR:
				op = token.LSS
			case token.GEQ:
				op = token.LEQ
			}
		} else {
			continue
		}
		// now: (v + off) op other
		lb, hasLB := p.lowerBound(other, map[ssa.Value]bool{})
		if hasLB && lb >= 1<<59 {
			hasLB = false
		}
		k, isConst := dConstInt(other)
		describe := func(edge string) bool {
			p.why = fmt.Sprintf("%s edge of the comparison at %s", edge, p.c.Position(dInstrPos(iff)))
			return true
		}
		switch op {
		case token.GTR: // v+off > other
			if onTrue && hasLB && lb-off >= 0 {
				return describe("true")
			}
			if onFalse && isConst && off == 0 && k < 0 { // v <= k < 0
				return describe("false")
			}
		case token.GEQ:
			if onTrue && hasLB && lb-off >= 1 {
				return describe("true")
			}
			if onFalse && isConst && off == 0 && k <= 0 { // v < k <= 0
				return describe("false")
			}
		case token.LSS: // v+off < other
			if onFalse && hasLB && lb-off >= 1 { // v+off >= other
				return describe("false")
			}
			if onTrue && isConst && off == 0 && k <= 0 {
				return describe("true")
			}
		case token.LEQ:
			if onFalse && hasLB && lb-off >= 0 { // v+off > other
				return describe("false")
			}
			if onTrue && isConst && off == 0 && k < 0 {
				return describe("true")
			}
		case token.NEQ:
			if onTrue && isConst && k == off {
				return describe("true")
			}
		case token.EQL:
			if onFalse && isConst && k == off {
				return describe("false")
			}
			if onTrue && isConst && k != off {
				return describe("true")
			}
		}
	}
	return false
}

// nonzero: v cannot be zero at the point.
func (p *dPos) nonzero(fn *ssa.Function, v ssa.Value, at dPoint, user ssa.Instruction, seen map[string]bool) bool {
	key := fmt.Sprintf("%p|%p|%p", v, at.b, at.to)
	if seen[key] {
		return true
	}
	seen[key] = true
	if k, ok := dConstInt(v); ok {
		p.why = "constant"
		return k != 0
	}
	if p.factNonZero(fn, v, at) {
		return true
	}
	switch x := v.(type) {
	case *ssa.Phi:
		for k, e := range x.Edges {
			if !p.nonzero(fn, e, dPoint{x.Block().Preds[k], x.Block()}, user, seen) {
				return false
			}
		}
		p.why = "every input of the merge is proved (clamp)"
		return true
	case *ssa.Convert:
		if dIsInt(x.X.Type()) {
			return p.nonzero(fn, x.X, at, user, seen)
		}
	case *ssa.ChangeType:
		return p.nonzero(fn, x.X, at, user, seen)
	case *ssa.BinOp:
		switch x.Op {
		case token.MUL:
			return p.nonzero(fn, x.X, at, user, seen) && p.nonzero(fn, x.Y, at, user, seen)
		case token.ADD:
			la, oka := p.lowerBound(x.X, map[ssa.Value]bool{})
			lb, okb := p.lowerBound(x.Y, map[ssa.Value]bool{})
			if oka && okb && la < 1<<59 && lb < 1<<59 && la+lb >= 1 {
				p.why = "sum of values with a positive lower bound"
				return true
			}
			if oka && la >= 0 && la < 1<<59 && p.positive(fn, x.Y, at, user, seen) {
				return true
			}
			if okb && lb >= 0 && lb < 1<<59 && p.positive(fn, x.X, at, user, seen) {
				return true
			}
		}
	case *ssa.Call:
		if b, ok := x.Call.Value.(*ssa.Builtin); ok {
			switch b.Name() {
			case "len", "cap":
				return p.nonEmpty(fn, x.Call.Args[0], at, seen)
			case "max":
				for _, a := range x.Call.Args {
					if p.positive(fn, a, at, user, seen) {
						return true
					}
				}
			case "min":
				for _, a := range x.Call.Args {
					if !p.positive(fn, a, at, user, seen) {
						return false
					}
				}
				return true
			}
		}
	case *ssa.UnOp:
		if x.Op == token.MUL {
			if c := dCanon(x); c != ssa.Value(x) {
				return p.nonzero(fn, c, at, user, seen)
			}
			return p.receiverPath(fn, x)
		}
	}
	return false
}

// positive: v >= 1 (needed under min/max and sums, where "non-zero" is not enough).
func (p *dPos) positive(fn *ssa.Function, v ssa.Value, at dPoint, user ssa.Instruction, seen map[string]bool) bool {
	if l, ok := p.lowerBound(v, map[ssa.Value]bool{}); ok && l < 1<<59 {
		if l >= 1 {
			p.why = "lower bound by structure"
			return true
		}
		if l >= 0 {
			return p.nonzero(fn, v, at, user, seen)
		}
	}
	// signed value: accept only facts that give a positive lower bound, which factNonZero's
	// GTR/GEQ/LSS/LEQ cases do; `!= 0` alone is not positivity
	if p.factPositive(fn, v, at) {
		return true
	}
	if ph, ok := v.(*ssa.Phi); ok {
		for k, e := range ph.Edges {
			if !p.positive(fn, e, dPoint{ph.Block().Preds[k], ph.Block()}, user, seen) {
				p.why = fmt.Sprintf("one input of the merge near %s (%s) is not provably >= 1", p.c.Position(dInstrPos(ph)), dDescribe(e))
				return false
			}
		}
		p.why = "every input of the merge is >= 1 (clamp)"
		return true
	}
	if p.factPositive(fn, v, at) {
		return true
	}
	switch x := v.(type) {
	case *ssa.UnOp:
		if x.Op == token.MUL {
			if c := dCanon(x); c != ssa.Value(x) {
				return p.positive(fn, c, at, user, seen)
			}
			return p.receiverPath(fn, x)
		}
	case *ssa.Convert:
		if dIsInt(x.X.Type()) {
			return p.positive(fn, x.X, at, user, seen)
		}
	case *ssa.ChangeType:
		return p.positive(fn, x.X, at, user, seen)
	case *ssa.Call:
		if b, ok := x.Call.Value.(*ssa.Builtin); ok {
			switch b.Name() {
			case "max":
				for _, a := range x.Call.Args {
					if p.positive(fn, a, at, user, seen) {
						return true
					}
				}
			case "min":
				for _, a := range x.Call.Args {
					if !p.positive(fn, a, at, user, seen) {
						return false
					}
				}
				return true
			}
		}
	}
	return false
}

func (p *dPos) factPositive(fn *ssa.Function, v ssa.Value, at dPoint) bool {
	for _, blk := range fn.Blocks {
		iff, ok := blk.Instrs[len(blk.Instrs)-1].(*ssa.If)
		if !ok {
			continue
		}
		bo, ok := iff.Cond.(*ssa.BinOp)
		if !ok {
			continue
		}
		op := bo.Op
		var other ssa.Value
		switch {
		case dEqualExpr(bo.X, v):
			other = bo.Y
		case dEqualExpr(bo.Y, v):
			other = bo.X
			switch op {
			case token.LSS:
				op = token.GTR
			case token.LEQ:
				op = token.GEQ
			case token.GTR:
				op = token.LSS
			case token.GEQ:
				op = token.LEQ
			}
		default:
			continue
		}
		lb, ok := p.lowerBound(other, map[ssa.Value]bool{})
		if !ok || lb >= 1<<59 {
			continue
		}
		switch {
		case op == token.GTR && lb >= 0 && dEdgeHolds(blk, 0, at),
			op == token.GEQ && lb >= 1 && dEdgeHolds(blk, 0, at),
			op == token.LSS && lb >= 1 && dEdgeHolds(blk, 1, at),
			op == token.LEQ && lb >= 0 && dEdgeHolds(blk, 1, at):
			p.why = "comparison at " + p.c.Position(dInstrPos(iff))
			return true
		}
	}
	return false
}

// nonEmpty: slice s has at least one element at the point.
func (p *dPos) nonEmpty(fn *ssa.Function, s ssa.Value, at dPoint, seen map[string]bool) bool {
	key := fmt.Sprintf("ne|%p|%p|%p", s, at.b, at.to)
	if seen[key] {
		return true
	}
	seen[key] = true
	// a dominating test of len(s)/cap(s)
	if s.Referrers() != nil {
		for _, r := range *s.Referrers() {
			if call, ok := r.(*ssa.Call); ok {
				if b, ok := call.Call.Value.(*ssa.Builtin); ok && b.Name() == "len" {
					if p.factNonZero(fn, call, at) {
						return true
					}
				}
			}
		}
	}
	switch x := s.(type) {
	case *ssa.MakeSlice:
		if p.positive(fn, x.Len, dPoint{b: x.Block()}, x, seen) {
			p.why = "make with a positive length at " + p.c.Position(dInstrPos(x))
			return true
		}
		why := p.why
		p.why = "the length of the make at " + p.c.Position(dInstrPos(x)) + " (" + dDescribe(x.Len) + ") is not provably >= 1"
		if strings.HasPrefix(why, "one input of the merge") {
			p.why += ": " + why
		}
		return false
	case *ssa.Slice:
		if pt, ok := x.X.Type().Underlying().(*types.Pointer); ok {
			if arr, ok := pt.Elem().Underlying().(*types.Array); ok {
				lowOK := x.Low == nil
				if k, ok := dConstInt(x.Low); x.Low != nil && ok && k == 0 {
					lowOK = true
				}
				if lowOK && x.High == nil && arr.Len() >= 1 {
					p.why = "literal with elements"
					return true
				}
				if k, ok := dConstInt(x.High); lowOK && x.High != nil && ok && k >= 1 {
					p.why = "literal with elements"
					return true
				}
			}
			return false
		}
		if x.Low == nil && x.High == nil {
			return p.nonEmpty(fn, x.X, at, seen)
		}
		p.why = "the slice is re-sliced at " + p.c.Position(dInstrPos(x))
		return false
	case *ssa.Call:
		if b, ok := x.Call.Value.(*ssa.Builtin); ok && b.Name() == "append" && len(x.Call.Args) == 2 {
			pt := dPoint{b: x.Block()}
			if p.nonEmpty(fn, x.Call.Args[1], pt, seen) || p.nonEmpty(fn, x.Call.Args[0], pt, seen) {
				p.why = "append of at least one element"
				return true
			}
		}
		return false
	case *ssa.Phi:
		for k, e := range x.Edges {
			if !p.nonEmpty(fn, e, dPoint{x.Block().Preds[k], x.Block()}, seen) {
				return false
			}
		}
		return true
	case *ssa.ChangeType:
		return p.nonEmpty(fn, x.X, at, seen)
	case *ssa.UnOp:
		if x.Op != token.MUL {
			return false
		}
		if c := dCanon(x); c != ssa.Value(x) {
			return p.nonEmpty(fn, c, at, seen)
		}
		if fa, ok := x.X.(*ssa.FieldAddr); ok {
			return p.fieldNonEmpty(fa)
		}
	}
	return false
}

func dFieldKey(fa *ssa.FieldAddr) (string, *types.Named) {
	pt, ok := fa.X.Type().Underlying().(*types.Pointer)
	if !ok {
		return "", nil
	}
	n := namedOf(pt.Elem())
	if n == nil || n.Obj().Pkg() == nil || !strings.HasPrefix(n.Obj().Pkg().Path(), ModulePath) {
		return "", nil
	}
	return fmt.Sprintf("%s.%s#%d", n.Obj().Pkg().Path(), n.Obj().Name(), fa.Field), n
}

// dFieldStores: every store to the given field of the named struct type, module-wide.
func dFieldStores(c *Ctx, n *types.Named, field int) []*ssa.Store {
	var out []*ssa.Store
	var fns []*ssa.Function
	for _, p := range c.SortedPkgs() {
		for _, fd := range c.FuncDecls(p) {
			fns = append(fns, dFuncSSA(c, p, fd)...)
		}
		// package initialisers
		if sp := c.SSAPkgs[p.PkgPath]; sp != nil {
			if init := sp.Func("init"); init != nil {
				fns = append(fns, init)
			}
		}
	}
	for _, fn := range fns {
		for _, b := range fn.Blocks {
			for _, in := range b.Instrs {
				st, ok := in.(*ssa.Store)
				if !ok {
					continue
				}
				fa, ok := st.Addr.(*ssa.FieldAddr)
				if !ok || fa.Field != field {
					continue
				}
				if _, nn := dFieldKey(fa); nn != nil && types.Identical(nn, n) {
					out = append(out, st)
				}
			}
		}
	}
	return out
}

// fieldNonEmpty: every explicit creation site of the slice field stores a non-empty slice.
func (p *dPos) fieldNonEmpty(fa *ssa.FieldAddr) bool {
	key, n := dFieldKey(fa)
	if n == nil {
		return false
	}
	if r, ok := p.fieldMem[key]; ok {
		return r >= 0
	}
	p.fieldMem[key] = 0
	stores := dFieldStores(p.c, n, fa.Field)
	if len(stores) == 0 {
		p.fieldMem[key] = -1
		p.why = "field " + dFieldName(fa) + " is never explicitly created"
		return false
	}
	for _, st := range stores {
		// a copy of the same field of another value of the type is inductive
		if ld, ok := st.Val.(*ssa.UnOp); ok && ld.Op == token.MUL {
			if src, ok := ld.X.(*ssa.FieldAddr); ok && src.Field == fa.Field {
				if k2, _ := dFieldKey(src); k2 == key {
					continue
				}
			}
		}
		sub := &dPos{c: p.c, fieldMem: p.fieldMem}
		if !sub.nonEmpty(st.Parent(), st.Val, dPoint{b: st.Block()}, map[string]bool{}) {
			p.fieldMem[key] = -1
			p.why = fmt.Sprintf("field %s is created at %s with a slice that is not provably non-empty", dFieldName(fa), p.c.Position(dInstrPos(st)))
			if sub.why != "" {
				p.why += ": " + sub.why
			}
			return false
		}
	}
	p.fieldMem[key] = 1
	p.why = fmt.Sprintf("every one of the %d creation site(s) of field %s stores a non-empty slice", len(stores), dFieldName(fa))
	return true
}

// receiverPath: v is a load of recv.f.g in a method; prove g >= 1 by the invariant of the
// receiver's type (clause (d) of the rule).
func (p *dPos) receiverPath(fn *ssa.Function, v *ssa.UnOp) bool {
	outer, ok := v.X.(*ssa.FieldAddr) // &(...).g
	if !ok {
		return false
	}
	mid, ok := outer.X.(*ssa.UnOp) // *( &recv.f )
	if !ok || mid.Op != token.MUL {
		return false
	}
	inner, ok := mid.X.(*ssa.FieldAddr) // &recv.f
	if !ok || len(fn.Params) == 0 || inner.X != ssa.Value(fn.Params[0]) || fn.Signature.Recv() == nil {
		return false
	}
	_, tn := dFieldKey(inner)
	gkey, gn := dFieldKey(outer)
	if tn == nil || gn == nil {
		return false
	}
	// g is never assigned in the package of the receiver's type
	for _, st := range dFieldStores(p.c, gn, outer.Field) {
		if st.Parent().Pkg != nil && st.Parent().Pkg.Pkg == tn.Obj().Pkg() {
			p.why = fmt.Sprintf("%s is assigned at %s", gkey, p.c.Position(dInstrPos(st)))
			return false
		}
	}
	stores := dFieldStores(p.c, tn, inner.Field)
	if len(stores) == 0 {
		return false
	}
	for _, st := range stores {
		base, _ := st.Addr.(*ssa.FieldAddr)
		al, isAlloc := base.X.(*ssa.Alloc)
		if !isAlloc || al.Comment != "complit" {
			p.why = fmt.Sprintf("field %s is assigned outside a composite literal at %s", dFieldName(inner), p.c.Position(dInstrPos(st)))
			return false
		}
		// copy from another value of the type
		if ld, ok := st.Val.(*ssa.UnOp); ok && ld.Op == token.MUL {
			if src, ok := ld.X.(*ssa.FieldAddr); ok && src.Field == inner.Field {
				if _, sn := dFieldKey(src); sn != nil && types.Identical(sn, tn) {
					continue
				}
			}
		}
		// a test of <value>.g >= 1 dominates the literal
		g := st.Parent()
		proved := false
		for _, b := range g.Blocks {
			for _, in := range b.Instrs {
				ld, ok := in.(*ssa.UnOp)
				if !ok || ld.Op != token.MUL {
					continue
				}
				ga, ok := ld.X.(*ssa.FieldAddr)
				if !ok || ga.Field != outer.Field || !dSameValue(ga.X, st.Val) {
					continue
				}
				sub := &dPos{c: p.c, fieldMem: p.fieldMem}
				if sub.factPositive(g, ld, dPoint{b: st.Block()}) {
					proved = true
				}
			}
		}
		if !proved {
			p.why = fmt.Sprintf("the literal at %s sets %s from a value whose %s is not tested to be >= 1", p.c.Position(dInstrPos(st)), dFieldName(inner), dFieldName(outer))
			return false
		}
	}
	p.why = fmt.Sprintf("type invariant: every literal that sets %s is dominated by a test of its %s, or copies it", dFieldName(inner), dFieldName(outer))
	return true
}
